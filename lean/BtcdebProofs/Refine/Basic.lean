/-
  Refinement Model ≈ Spec: abstraction relation and vector-primitive lemmas.
-/
import Btcdeb
import BtcdebProofs.Lemmas.ScriptNum
import BtcdebProofs.Properties.C18
namespace Btcdeb.Refine
open Btcdeb Model

/-- position (counted from the outermost level) of the first `false` in a condition list given innermost-first -/
def firstFalseOuter (l : List Bool) : Option Nat := l.reverse.findIdx? (fun b => !b)

/-- the compressed condition stack represents the list `l` (innermost first) -/
def CondRel (c : CondStack) (l : List Bool) : Prop :=
  c.size = l.length ∧ c.firstFalse = firstFalseOuter l ∧ (∀ p, c.firstFalse = some p → p < c.size)

/-- abstraction relation between the model environment and the specification state -/
structure Rel (e : SEE) (st : Spec.St) : Prop where
  stack : e.stack = st.stack.reverse
  alt : e.altstack = st.alt.reverse
  cond : CondRel e.cond st.cond
  opCount : st.opCount = e.nOpCount
  codeFrom : st.codeFrom = e.pbegincodehash
  codesep : st.codesepPos = e.execdata.codesepPos
  weight : st.weightLeft = e.execdata.weightLeft
  weightInit : st.weightInit = e.execdata.weightInit

/-- the specification's view of a failure of the model -/
def errAbs : StepErr → ScriptError
  | .script e => e
  | .exc _ => .UNKNOWN_ERROR
  | .abnormal _ => .UNKNOWN_ERROR

def isAbnormal : StepErr → Bool
  | .abnormal _ => true
  | _ => false

/-- outcomes correspond: success with related states, or the same script error
    (a C++ exception is `SCRIPT_ERR_UNKNOWN_ERROR`), never an abnormal termination -/
def RelOut (m : M SEE) (s : Spec.R Spec.St) : Prop :=
  match m, s with
  | .ok e', .ok st' => Rel e' st'
  | .error x, .error y => errAbs x = y ∧ isAbnormal x = false
  | _, _ => False

@[simp] theorem relOut_ok (e : SEE) (st : Spec.St) : RelOut (.ok e) (.ok st) ↔ Rel e st := Iff.rfl
@[simp] theorem relOut_pure (e : SEE) (st : Spec.St) : RelOut (pure e) (.ok st) ↔ Rel e st := Iff.rfl
@[simp] theorem relOut_pure' (e : SEE) (st : Spec.St) : RelOut (pure e) (pure st) ↔ Rel e st := Iff.rfl
@[simp] theorem relOut_fail (x y : ScriptError) : RelOut (fail x) (.error y) ↔ x = y := by
  simp [RelOut, fail, errAbs, isAbnormal]
@[simp] theorem relOut_err (x : StepErr) (y : ScriptError) :
    RelOut (.error x) (.error y) ↔ (errAbs x = y ∧ isAbnormal x = false) := Iff.rfl
@[simp] theorem relOut_ok_err (e : SEE) (y : ScriptError) : RelOut (.ok e) (.error y) ↔ False := Iff.rfl
@[simp] theorem relOut_err_ok (x : StepErr) (st : Spec.St) : RelOut (.error x) (.ok st) ↔ False := Iff.rfl

@[simp] theorem fail_bind {α β} (x : ScriptError) (f : α → M β) : (fail x >>= f) = fail x := rfl
@[simp] theorem err_bind {α β} (x : StepErr) (f : α → M β) : ((Except.error x : M α) >>= f) = .error x := rfl
@[simp] theorem ok_bind {α β} (a : α) (f : α → M β) : ((Except.ok a : M α) >>= f) = f a := rfl
@[simp] theorem specErr_bind {α β} (x : ScriptError) (f : α → Spec.R β) : ((Except.error x : Spec.R α) >>= f) = .error x := rfl
@[simp] theorem specOk_bind {α β} (a : α) (f : α → Spec.R β) : ((Except.ok a : Spec.R α) >>= f) = f a := rfl

-- vector primitives on the `reverse` normal form --------------------------------------------

@[simp] theorem top1 (xs : List Bytes) (a : Bytes) : top (xs ++ [a]) 1 = .ok a := by
  simp [top]

@[simp] theorem top2 (xs : List Bytes) (a b : Bytes) : top (xs ++ [b] ++ [a]) 2 = .ok b := by
  simp [top]

@[simp] theorem top3 (xs : List Bytes) (a b c : Bytes) : top (xs ++ [c] ++ [b] ++ [a]) 3 = .ok c := by
  simp [top]

@[simp] theorem pop_snoc (xs : List Bytes) (a : Bytes) : pop (xs ++ [a]) = .ok xs := by
  simp [pop]

theorem sizeCheck_rel {e : SEE} {st : Spec.St} (h : Rel e st) : RelOut (sizeCheck e) (Spec.checkSize st) := by
  unfold sizeCheck Spec.checkSize
  have h1 : e.stack.length = st.stack.length := by rw [h.stack]; simp
  have h2 : e.altstack.length = st.alt.length := by rw [h.alt]; simp
  have hc : Gen.MAX_STACK_SIZE = Spec.maxStackSize := by decide
  rw [h1, h2, hc]
  split
  · simp
  · simpa using h

/-- unit-valued outcomes (checks) correspond -/
def RelUnit (m : M Unit) (s : Spec.R Unit) : Prop :=
  match m, s with
  | .ok (), .ok () => True
  | .error x, .error y => errAbs x = y ∧ isAbnormal x = false
  | _, _ => False

/-- configuration of the specification = configuration and external world of the model -/
structure CfgRel (cx : Ctx) (e : SEE) (cfg : Spec.Cfg) : Prop where
  flags : cfg.flags = e.flags
  sv : cfg.sigversion = e.sigversion
  z : cfg.allowDisabled = e.allowDisabled
  rm : e.requireMinimal = hasFlag e.flags Flag.MINIMALDATA
  sha256 : cfg.oracle.sha256 = cx.sha256
  ripemd160 : cfg.oracle.ripemd160 = cx.ripemd160
  sha1 : cfg.oracle.sha1 = cx.sha1
  checkLowS : cfg.oracle.checkLowS = cx.checkLowS
  checkLockTime : cfg.oracle.checkLockTime = cx.checkLockTime
  checkSequence : cfg.oracle.checkSequence = cx.checkSequence
  ecdsa : cfg.oracle.ecdsa = cx.checkECDSA
  schnorr : ∀ sig key sv ed, RelUnit (cx.checkSchnorr sig key sv ed) (cfg.oracle.schnorr sig key sv ed.codesepPos)
  /-- the mock-signature tables denote the listed pairs (holds for what `--pretend-valid` parsing builds from every
      well-formed list: Properties/C11 `parse_gives_CfgRel_clauses`) -/
  pretendKeys : ∀ key, e.pretendKeys.contains key = Spec.keyListed cfg key
  pretendPair : ∀ sig key, e.pretendKeys.contains key = true →
    pretendHas e.pretendMap sig key = Spec.pairListed cfg sig key

/-- the refinement statement for one opcode of the `switch` -/
def OpRefines (op : Opcode) : Prop :=
  ∀ (cx : Ctx) (cfg : Spec.Cfg) (e : SEE) (st : Spec.St) (fExec : Bool) (pc : Bytes),
    CfgRel cx e cfg → Rel e st →
    (e.sigversion = .TAPSCRIPT → e.execdata.weightInit = true) →
    RelOut (execOpcode cx e op fExec pc) (Spec.execOp cfg op fExec pc e.opcodePos st)

/-- the auxiliary equalities the signature opcodes rest on (proved in Refine/Encodings.lean and
    Refine/FindAndDelete.lean; bundled so that the opcode proofs can be developed independently) -/
structure SigLemmas : Prop where
  fad : ∀ s b : Bytes, Model.findAndDelete s b = Spec.findAndDelete s b
  pushData : ∀ b : Bytes, pushData b = Spec.pushOf b
  sigEnc : ∀ (cx : Ctx) (e : SEE) (cfg : Spec.Cfg), CfgRel cx e cfg → ∀ sig : Bytes,
    RelUnit (checkSignatureEncoding cx sig e.flags) (Spec.sigEncodingOk cfg sig)
  keyEnc : ∀ (cx : Ctx) (e : SEE) (cfg : Spec.Cfg), CfgRel cx e cfg → ∀ key : Bytes,
    RelUnit (checkPubKeyEncoding key e.flags e.sigversion) (Spec.keyEncodingOk cfg key)

-- numbers -------------------------------------------------------------------------------------

theorem minimalOk_eq_minimalNum (b : Bytes) : minimalOk b = Spec.minimalNum b := by
  unfold Spec.minimalNum
  rw [← Proofs.C18.decode_spec]
  cases h : minimalOk b
  · symm; rw [beq_eq_false_iff_ne]
    intro heq
    have := Proofs.C18.encode_minimal (setVch b)
    rw [heq] at this; rw [this] at h; cases h
  · symm; rw [beq_iff_eq]; exact Proofs.C18.encode_decode b h

/-- numeric operands correspond: same value, or C++ exception ↔ script failure -/
def RelNum (m : M Int) (s : Spec.R Int) : Prop :=
  match m, s with
  | .ok a, .ok b => a = b
  | .error (.exc _), .error .UNKNOWN_ERROR => True
  | _, _ => False

theorem num_refines (v : Bytes) (rm : Bool) (k : Nat) : RelNum (num v rm k) (Spec.numOf rm k v) := by
  unfold num scriptNum Spec.numOf
  by_cases h1 : v.length > k
  · simp [h1, RelNum]
  · simp only [h1, if_false, ← minimalOk_eq_minimalNum]
    by_cases h2 : (rm && !minimalOk v) = true
    · simp [h2, RelNum]
    · simp [h2, RelNum, Proofs.C18.decode_spec]

/-- case analysis on a numeric operand, in the form the opcode proofs use -/
theorem num_cases (v : Bytes) (rm : Bool) (k : Nat) :
    (∃ n, num v rm k = .ok n ∧ Spec.numOf rm k v = .ok n) ∨
    (∃ w, num v rm k = .error (.exc w) ∧ Spec.numOf rm k v = .error .UNKNOWN_ERROR) := by
  have h := num_refines v rm k
  unfold RelNum at h
  split at h
  · left; rename_i a b h1 h2; exact ⟨a, h1, by rw [h2, h]⟩
  · right; rename_i w h1 h2; exact ⟨w, h1, h2⟩
  · exact h.elim

theorem default_num_size : Gen.DEFAULT_MAX_NUM_SIZE = 4 := by decide

-- booleans ------------------------------------------------------------------------------------

theorem castToBool_eq_toBool (b : Bytes) : castToBool b = Spec.toBool b := by
  induction b with
  | nil => rfl
  | cons x xs ih =>
    cases xs with
    | nil =>
      simp only [castToBool, Spec.toBool]
      have : (x == 0) = (x.toNat == 0) := by
        rw [Bool.eq_iff_iff]; simp [← UInt8.toNat_inj]
      have h2 : (x == 0x80) = (x.toNat == 0x80) := by
        rw [Bool.eq_iff_iff]; simp [← UInt8.toNat_inj]
      rw [this, h2]
      cases h3 : (x.toNat == 0) <;> cases h4 : (x.toNat == 0x80) <;> simp_all
    | cons y ys =>
      simp only [castToBool, Spec.toBool]
      rw [ih]
      have : (x != 0) = (x.toNat != 0) := by
        rw [Bool.eq_iff_iff]; simp [← UInt8.toNat_inj]
      rw [this]
      cases h : (x.toNat != 0) <;> simp

-- condition stack -----------------------------------------------------------------------------

theorem condRel_empty : CondRel {} [] := by
  simp [CondRel, firstFalseOuter]

theorem condRel_isEmpty {c : CondStack} {l : List Bool} (h : CondRel c l) : c.empty = l.isEmpty := by
  obtain ⟨h1, _, _⟩ := h
  unfold CondStack.empty
  cases l <;> simp_all

theorem findIdx?_not_eq_none_iff (l : List Bool) : l.findIdx? (fun b => !b) = none ↔ l.all id = true := by
  induction l with
  | nil => simp
  | cons x xs ih =>
    cases x <;> simp [List.findIdx?_cons, ih]

theorem condRel_allTrue {c : CondStack} {l : List Bool} (h : CondRel c l) : c.allTrue = l.all id := by
  obtain ⟨_, h2, _⟩ := h
  unfold CondStack.allTrue
  rw [h2]; unfold firstFalseOuter
  cases hf : l.reverse.findIdx? (fun b => !b)
  · have := (findIdx?_not_eq_none_iff l.reverse).mp hf
    simp at this ⊢; exact this
  · simp
    apply Classical.byContradiction
    intro hall
    have : l.reverse.all id = true := by
      simp; exact hall
    rw [(findIdx?_not_eq_none_iff l.reverse).mpr this] at hf; cases hf

theorem firstFalseOuter_cons (f : Bool) (l : List Bool) :
    firstFalseOuter (f :: l) = (firstFalseOuter l).or (if f then none else some l.length) := by
  unfold firstFalseOuter
  rw [List.reverse_cons, List.findIdx?_append]
  cases f <;> simp [List.findIdx?_cons]

theorem firstFalseOuter_lt {l : List Bool} {p : Nat} (h : firstFalseOuter l = some p) : p < l.length := by
  unfold firstFalseOuter at h
  rw [List.findIdx?_eq_some_iff_findIdx_eq] at h
  simpa using h.1

/-- `push_back(f)` pushes `f` -/
theorem condRel_push {c : CondStack} {l : List Bool} (h : CondRel c l) (f : Bool) :
    CondRel (c.pushBack f) (f :: l) := by
  obtain ⟨h1, h2, h3⟩ := h
  refine ⟨by simp [CondStack.pushBack, h1], ?_, ?_⟩
  · rw [firstFalseOuter_cons, ← h2]
    unfold CondStack.pushBack
    cases hc : c.firstFalse <;> cases f <;> simp [h1]
  · intro p hp
    unfold CondStack.pushBack at hp ⊢
    simp only at hp ⊢
    split at hp
    · cases hp; omega
    · have := h3 p hp; omega

/-- `pop_back()` pops the innermost level -/
theorem condRel_pop {c : CondStack} {b : Bool} {l : List Bool} (h : CondRel c (b :: l)) :
    CondRel c.popBack l := by
  obtain ⟨h1, h2, h3⟩ := h
  simp only [List.length_cons] at h1
  rw [firstFalseOuter_cons] at h2
  have hsz : c.size - 1 = l.length := by omega
  refine ⟨by simp [CondStack.popBack, hsz], ?_, ?_⟩
  · unfold CondStack.popBack
    simp only [hsz]
    cases hf : firstFalseOuter l with
    | none =>
      rw [hf] at h2
      cases b <;> simp_all
    | some p =>
      have hlt := firstFalseOuter_lt hf
      rw [hf] at h2; simp at h2
      rw [h2]
      have : (some p == some l.length) = false := by simp; omega
      simp [this]
  · intro p hp
    unfold CondStack.popBack at hp ⊢
    simp only [hsz] at hp ⊢
    split at hp
    · cases hp
    · have hp' := hp
      rw [h2] at hp'
      cases hf : firstFalseOuter l with
      | none =>
        rw [hf] at hp'; cases b <;> simp at hp'
        rename_i hne
        subst hp'; rw [hp] at hne; simp at hne
      | some q =>
        rw [hf] at hp'; simp at hp'; subst hp'
        exact firstFalseOuter_lt hf

/-- `toggle_top()` negates the innermost level -/
theorem condRel_toggle {c : CondStack} {b : Bool} {l : List Bool} (h : CondRel c (b :: l)) :
    CondRel c.toggleTop ((!b) :: l) := by
  obtain ⟨h1, h2, h3⟩ := h
  simp only [List.length_cons] at h1
  rw [firstFalseOuter_cons] at h2
  have hsz : c.size - 1 = l.length := by omega
  cases hf : firstFalseOuter l with
  | some p =>
    have hlt := firstFalseOuter_lt hf
    rw [hf] at h2; simp at h2
    have hne : (p == c.size - 1) = false := by simp; omega
    have htog : c.toggleTop = c := by
      unfold CondStack.toggleTop; rw [h2]; simp only [hne]; rfl
    rw [htog]
    refine ⟨by simp [h1], ?_, h3⟩
    rw [firstFalseOuter_cons, hf]; simp [h2]
  | none =>
    rw [hf] at h2; simp at h2
    cases b
    · -- innermost was false and is the first false: everything becomes true
      simp at h2
      refine ⟨?_, ?_, ?_⟩
      · unfold CondStack.toggleTop; rw [h2]; simp [hsz, h1]
      · unfold CondStack.toggleTop; rw [h2]; simp [hsz]
        rw [firstFalseOuter_cons, hf]; simp
      · intro q hq
        unfold CondStack.toggleTop at hq; rw [h2] at hq; simp [hsz] at hq
    · simp at h2
      refine ⟨?_, ?_, ?_⟩
      · unfold CondStack.toggleTop; rw [h2]; simp [h1]
      · unfold CondStack.toggleTop; rw [h2]; simp [hsz]
        rw [firstFalseOuter_cons, hf]; simp
      · intro q hq
        unfold CondStack.toggleTop at hq ⊢; rw [h2] at hq ⊢; simp at hq ⊢; omega

end Btcdeb.Refine
