import BtcdebProofs.Refine.Basic
set_option linter.unusedSimpArgs false
set_option linter.unusedVariables false
namespace Btcdeb.Refine
open Btcdeb Model

@[simp] private theorem top1_2 (xs : List Bytes) (a b : Bytes) : top (xs ++ [a, b]) 1 = .ok b := by
  simp [top]
@[simp] private theorem top2_2 (xs : List Bytes) (a b : Bytes) : top (xs ++ [a, b]) 2 = .ok a := by
  simp [top]
@[simp] private theorem pop_2 (xs : List Bytes) (a b : Bytes) : pop (xs ++ [a, b]) = .ok (xs ++ [a]) := by
  simp [pop]
@[simp] private theorem top1_3 (xs : List Bytes) (a b c : Bytes) : top (xs ++ [a, b, c]) 1 = .ok c := by
  simp [top]
@[simp] private theorem top2_3 (xs : List Bytes) (a b c : Bytes) : top (xs ++ [a, b, c]) 2 = .ok b := by
  simp [top]
@[simp] private theorem top3_3 (xs : List Bytes) (a b c : Bytes) : top (xs ++ [a, b, c]) 3 = .ok a := by
  simp [top]
@[simp] private theorem pop_3 (xs : List Bytes) (a b c : Bytes) : pop (xs ++ [a, b, c]) = .ok (xs ++ [a, b]) := by
  simp [pop]

theorem refines_OP_CODESEPARATOR : OpRefines .OP_CODESEPARATOR := by
  intro cx cfg e st fExec pc hc h hw
  obtain ⟨hs, ha, hcond, hop, hcf, hcs, hwl, hwi⟩ := h
  unfold execOpcode Spec.execOp
  simp [Spec.disabled, Spec.smallInt, Spec.isNopN, Spec.isUnary, Spec.isBinary]
  apply sizeCheck_rel
  constructor <;> simp_all

local macro "hash_tac" : tactic => `(tactic| (
  intro cx cfg e st fExec pc hc h hw
  obtain ⟨hs, ha, hcond, hop, hcf, hcs, hwl, hwi⟩ := h
  unfold execOpcode Spec.execOp
  simp [Spec.disabled, Spec.smallInt, Spec.isNopN, Spec.isUnary, Spec.isBinary]
  rcases hst : st.stack with _ | ⟨a, s⟩
  · simp [hs, hst]
  · simp [hs, hst]
    apply sizeCheck_rel
    constructor <;> simp_all [hc.sha256, hc.ripemd160, hc.sha1]))

theorem refines_OP_RIPEMD160 : OpRefines .OP_RIPEMD160 := by hash_tac
theorem refines_OP_SHA1 : OpRefines .OP_SHA1 := by hash_tac
theorem refines_OP_SHA256 : OpRefines .OP_SHA256 := by hash_tac
theorem refines_OP_HASH160 : OpRefines .OP_HASH160 := by hash_tac
theorem refines_OP_HASH256 : OpRefines .OP_HASH256 := by hash_tac

theorem refines_OP_ELSE : OpRefines .OP_ELSE := by
  intro cx cfg e st fExec pc hc h hw
  obtain ⟨hs, ha, hcond, hop, hcf, hcs, hwl, hwi⟩ := h
  unfold execOpcode Spec.execOp
  simp [Spec.disabled, Spec.smallInt, Spec.isNopN, Spec.isUnary, Spec.isBinary]
  rw [condRel_isEmpty hcond]
  rcases hst : st.cond with _ | ⟨a, s⟩
  · simp
  · simp
    apply sizeCheck_rel
    rw [hst] at hcond
    constructor <;> simp_all
    exact condRel_toggle hcond

theorem refines_OP_ENDIF : OpRefines .OP_ENDIF := by
  intro cx cfg e st fExec pc hc h hw
  obtain ⟨hs, ha, hcond, hop, hcf, hcs, hwl, hwi⟩ := h
  unfold execOpcode Spec.execOp
  simp [Spec.disabled, Spec.smallInt, Spec.isNopN, Spec.isUnary, Spec.isBinary]
  rw [condRel_isEmpty hcond]
  rcases hst : st.cond with _ | ⟨a, s⟩
  · simp
  · simp
    apply sizeCheck_rel
    rw [hst] at hcond
    constructor <;> simp_all
    exact condRel_pop hcond

private theorem minimalIf_agree (x : Bytes) :
    (1 < x.length ∨ x.length = 1 ∧ ¬ byteAt x 0 = 1) ↔ (¬ x = [] ∧ ¬ x = [1]) := by
  rcases x with _ | ⟨b, _ | ⟨c, r⟩⟩
  · simp
  · have : (b = 1) ↔ b.toNat = 1 := by rw [← UInt8.toNat_inj]; rfl
    simp [byteAt, this]
  · simp

private theorem nested_if {α} (p q : Prop) [Decidable p] [Decidable q] (x y : α) :
    (if p then x else if q then x else y) = if p ∨ q then x else y := by
  by_cases hp : p <;> by_cases hq : q <;> simp [hp, hq]

local macro "if_tac" : tactic => `(tactic| (
  intro cx cfg e st fExec pc hc h hw
  obtain ⟨hs, ha, hcond, hop, hcf, hcs, hwl, hwi⟩ := h
  unfold execOpcode Spec.execOp
  simp [Spec.disabled, Spec.smallInt, Spec.isNopN, Spec.isUnary, Spec.isBinary]
  cases fExec
  · simp
    apply sizeCheck_rel
    constructor <;> simp_all
    exact condRel_push hcond false
  · simp
    rcases hst : st.stack with _ | ⟨a, s⟩
    · simp [hs, hst]
    · simp [hs, hst]
      rw [hc.sv, hc.flags]
      simp only [nested_if, minimalIf_agree]
      by_cases hP : (¬a = [] ∧ ¬a = [1]) <;>
        by_cases h3 : e.sigversion = SigVersion.TAPSCRIPT <;>
        by_cases h4 : (e.sigversion = SigVersion.WITNESS_V0 ∧ hasFlag e.flags Flag.MINIMALIF = true) <;>
        simp [h3, h4, hP] <;>
        (try (apply sizeCheck_rel; constructor <;> simp_all [castToBool_eq_toBool] <;> exact condRel_push hcond _))))

theorem refines_OP_IF : OpRefines .OP_IF := by if_tac
theorem refines_OP_NOTIF : OpRefines .OP_NOTIF := by if_tac


private theorem unary_eq (op : Opcode) (n : Int) : unaryNum op n = Spec.unary op n := by
  unfold unaryNum Spec.unary
  split <;> simp [boolNum] <;> (try split) <;> (try omega)

private theorem binary_eq (op : Opcode) (a b : Int) : binaryNum op a b = Spec.binary op a b := by
  unfold binaryNum Spec.binary
  split <;> simp [boolNum] <;> (try split) <;> (try omega)

local macro "unary_tac" : tactic => `(tactic| (
  intro cx cfg e st fExec pc hc h hw
  obtain ⟨hs, ha, hcond, hop, hcf, hcs, hwl, hwi⟩ := h
  unfold execOpcode Spec.execOp
  simp [Spec.disabled, Spec.smallInt, Spec.isNopN, Spec.isUnary, Spec.isBinary]
  rcases hst : st.stack with _ | ⟨a, s⟩
  · simp [hs, hst]
  · simp [hs, hst]
    rw [hc.flags, ← hc.rm]
    rcases num_cases a e.requireMinimal 4 with ⟨n, h1, h2⟩ | ⟨w, h1, h2⟩
    · simp [default_num_size, h1, h2]
      apply sizeCheck_rel
      constructor <;> simp_all [unary_eq, Spec.encodeNum]
    · simp [default_num_size, h1, h2, errAbs, isAbnormal]))

theorem refines_OP_1ADD : OpRefines .OP_1ADD := by unary_tac
theorem refines_OP_1SUB : OpRefines .OP_1SUB := by unary_tac
theorem refines_OP_NEGATE : OpRefines .OP_NEGATE := by unary_tac
theorem refines_OP_ABS : OpRefines .OP_ABS := by unary_tac
theorem refines_OP_NOT : OpRefines .OP_NOT := by unary_tac
theorem refines_OP_0NOTEQUAL : OpRefines .OP_0NOTEQUAL := by unary_tac


local macro "binary_tac" : tactic => `(tactic| (
  intro cx cfg e st fExec pc hc h hw
  obtain ⟨hs, ha, hcond, hop, hcf, hcs, hwl, hwi⟩ := h
  unfold execOpcode Spec.execOp
  simp [Spec.disabled, Spec.smallInt, Spec.isNopN, Spec.isUnary, Spec.isBinary]
  rcases hst : st.stack with _ | ⟨b, _ | ⟨a, s⟩⟩
  · simp [hs, hst]
  · simp [hs, hst]
  · simp [hs, hst]
    rw [hc.flags, ← hc.rm]
    rcases num_cases a e.requireMinimal 4 with ⟨n, h1, h2⟩ | ⟨w, h1, h2⟩
    · rcases num_cases b e.requireMinimal 4 with ⟨m, h3, h4⟩ | ⟨w, h3, h4⟩
      · simp [default_num_size, h1, h2, h3, h4]
        apply sizeCheck_rel
        constructor <;> simp_all [binary_eq, Spec.encodeNum]
      · simp [default_num_size, h1, h2, h3, h4, errAbs, isAbnormal]
        rw [if_neg (by omega)]; simp [errAbs, isAbnormal]
    · simp [default_num_size, h1, h2, errAbs, isAbnormal]
      rw [if_neg (by omega)]; simp [errAbs, isAbnormal]))

theorem refines_OP_ADD : OpRefines .OP_ADD := by binary_tac
theorem refines_OP_SUB : OpRefines .OP_SUB := by binary_tac
theorem refines_OP_BOOLAND : OpRefines .OP_BOOLAND := by binary_tac
theorem refines_OP_BOOLOR : OpRefines .OP_BOOLOR := by binary_tac
theorem refines_OP_NUMEQUAL : OpRefines .OP_NUMEQUAL := by binary_tac
theorem refines_OP_NUMNOTEQUAL : OpRefines .OP_NUMNOTEQUAL := by binary_tac
theorem refines_OP_LESSTHAN : OpRefines .OP_LESSTHAN := by binary_tac
theorem refines_OP_GREATERTHAN : OpRefines .OP_GREATERTHAN := by binary_tac
theorem refines_OP_LESSTHANOREQUAL : OpRefines .OP_LESSTHANOREQUAL := by binary_tac
theorem refines_OP_GREATERTHANOREQUAL : OpRefines .OP_GREATERTHANOREQUAL := by binary_tac
theorem refines_OP_MIN : OpRefines .OP_MIN := by binary_tac
theorem refines_OP_MAX : OpRefines .OP_MAX := by binary_tac

private theorem serialize_one : serialize 1 = [1] := by
  have h : leBytes 1 = [1] := by
    rw [leBytes]; simp; rw [leBytes]; simp
  simp [serialize, h, hi]

private theorem castToBool_boolNum (c : Bool) : castToBool (serialize (boolNum c)) = c := by
  cases c
  · simp [boolNum, serialize, castToBool]
  · simp [boolNum, serialize_one, castToBool]

theorem refines_OP_NUMEQUALVERIFY : OpRefines .OP_NUMEQUALVERIFY := by
  intro cx cfg e st fExec pc hc h hw
  obtain ⟨hs, ha, hcond, hop, hcf, hcs, hwl, hwi⟩ := h
  unfold execOpcode Spec.execOp
  simp [Spec.disabled, Spec.smallInt, Spec.isNopN, Spec.isUnary, Spec.isBinary]
  rcases hst : st.stack with _ | ⟨b, _ | ⟨a, s⟩⟩
  · simp [hs, hst]
  · simp [hs, hst]
  · simp [hs, hst]
    rw [hc.flags, ← hc.rm]
    rcases num_cases a e.requireMinimal 4 with ⟨n, h1, h2⟩ | ⟨w, h1, h2⟩
    · rcases num_cases b e.requireMinimal 4 with ⟨m, h3, h4⟩ | ⟨w, h3, h4⟩
      · simp [default_num_size, h1, h2, h3, h4]
        rw [if_neg (by omega)]
        have hb : binaryNum Opcode.OP_NUMEQUALVERIFY n m = boolNum (n == m) := rfl
        rw [hb, castToBool_boolNum]
        by_cases hnm : n = m
        · simp [hnm, Spec.binary]
          apply sizeCheck_rel
          constructor <;> simp_all
        · simp [hnm, Spec.binary]
      · simp [default_num_size, h1, h2, h3, h4, errAbs, isAbnormal]
        rw [if_neg (by omega)]; simp [errAbs, isAbnormal]
    · simp [default_num_size, h1, h2, errAbs, isAbnormal]
      rw [if_neg (by omega)]; simp [errAbs, isAbnormal]


theorem refines_OP_WITHIN : OpRefines .OP_WITHIN := by
  intro cx cfg e st fExec pc hc h hw
  obtain ⟨hs, ha, hcond, hop, hcf, hcs, hwl, hwi⟩ := h
  unfold execOpcode Spec.execOp
  simp [Spec.disabled, Spec.smallInt, Spec.isNopN, Spec.isUnary, Spec.isBinary]
  rcases hst : st.stack with _ | ⟨c, _ | ⟨b, _ | ⟨a, s⟩⟩⟩
  · simp [hs, hst]
  · simp [hs, hst]
  · simp [hs, hst]
  · simp [hs, hst]
    rw [if_neg (by omega)]
    rw [hc.flags, ← hc.rm]
    rcases num_cases a e.requireMinimal 4 with ⟨n, h1, h2⟩ | ⟨w, h1, h2⟩
    · rcases num_cases b e.requireMinimal 4 with ⟨m, h3, h4⟩ | ⟨w, h3, h4⟩
      · rcases num_cases c e.requireMinimal 4 with ⟨k, h5, h6⟩ | ⟨w, h5, h6⟩
        · simp [default_num_size, h1, h2, h3, h4, h5, h6]
          apply sizeCheck_rel
          constructor <;> simp_all [Spec.ofBool, vchTrue, vchFalse]
        · simp [default_num_size, h1, h2, h3, h4, h5, h6, errAbs, isAbnormal]
      · simp [default_num_size, h1, h2, h3, h4, errAbs, isAbnormal]
    · simp [default_num_size, h1, h2, errAbs, isAbnormal]

theorem refines_OP_CHECKLOCKTIMEVERIFY : OpRefines .OP_CHECKLOCKTIMEVERIFY := by
  intro cx cfg e st fExec pc hc h hw
  have hrel := h
  obtain ⟨hs, ha, hcond, hop, hcf, hcs, hwl, hwi⟩ := h
  unfold execOpcode Spec.execOp
  simp [Spec.disabled, Spec.smallInt, Spec.isNopN, Spec.isUnary, Spec.isBinary]
  rw [hc.flags, ← hc.rm]
  by_cases hf : hasFlag e.flags Flag.CHECKLOCKTIMEVERIFY = true
  · simp [hf]
    rcases hst : st.stack with _ | ⟨a, s⟩
    · simp [hs, hst]
    · simp [hs, hst]
      rcases num_cases a e.requireMinimal 5 with ⟨n, h1, h2⟩ | ⟨w, h1, h2⟩
      · simp [h1, h2]
        rw [hc.checkLockTime]
        by_cases hn : n < 0 <;> by_cases hk : cx.checkLockTime n = false <;> simp [hn, hk]
        exact sizeCheck_rel hrel
      · simp [h1, h2, errAbs, isAbnormal]
  · simp [hf]
    exact sizeCheck_rel hrel

private theorem and_two_pow_ne_zero (m i : Nat) : (m &&& 2^i ≠ 0) ↔ m.testBit i = true := by
  constructor
  · intro h
    apply Classical.byContradiction
    intro hb
    apply h
    apply Nat.eq_of_testBit_eq
    intro j
    simp [Nat.testBit_and, Nat.testBit_two_pow]
    intro hj heq; subst heq; exact hb hj
  · intro h h0
    have : (m &&& 2^i).testBit i = true := by simp [Nat.testBit_and, h]
    rw [h0] at this; simp at this

private theorem csv_flag (m : Nat) : (m &&& Gen.SEQUENCE_LOCKTIME_DISABLE_FLAG != 0) = m.testBit 31 := by
  have h : Gen.SEQUENCE_LOCKTIME_DISABLE_FLAG = 2^31 := by decide
  rw [h, Bool.eq_iff_iff]
  simp only [bne_iff_ne]
  exact and_two_pow_ne_zero m 31

theorem refines_OP_CHECKSEQUENCEVERIFY : OpRefines .OP_CHECKSEQUENCEVERIFY := by
  intro cx cfg e st fExec pc hc h hw
  have hrel := h
  obtain ⟨hs, ha, hcond, hop, hcf, hcs, hwl, hwi⟩ := h
  unfold execOpcode Spec.execOp
  simp only [csv_flag]
  simp [Spec.disabled, Spec.smallInt, Spec.isNopN, Spec.isUnary, Spec.isBinary]
  rw [hc.flags, ← hc.rm]
  by_cases hf : hasFlag e.flags Flag.CHECKSEQUENCEVERIFY = true
  · simp [hf]
    rcases hst : st.stack with _ | ⟨a, s⟩
    · simp [hs, hst]
    · simp [hs, hst]
      rcases num_cases a e.requireMinimal 5 with ⟨n, h1, h2⟩ | ⟨w, h1, h2⟩
      · simp [h1, h2]
        rw [hc.checkSequence]
        by_cases hn : n < 0 <;> by_cases hb : n.toNat.testBit 31 = true <;>
          by_cases hk : cx.checkSequence n = false <;> simp [hn, hk, hb] <;>
          exact sizeCheck_rel hrel
      · simp [h1, h2, errAbs, isAbnormal]
  · simp [hf]
    exact sizeCheck_rel hrel

end Btcdeb.Refine
