/-
  Assembly of the per-opcode refinement lemmas: every opcode of the `switch`, then one whole
  `StepScript` against one instruction of the specification.
-/
import BtcdebProofs.Refine.Basic
import BtcdebProofs.Refine.OpsStack
import BtcdebProofs.Refine.OpsNumeric
import BtcdebProofs.Refine.OpsExtended
import BtcdebProofs.Refine.Encodings
import BtcdebProofs.Refine.FindAndDelete
import BtcdebProofs.Refine.OpsChecksig
import BtcdebProofs.Refine.OpsMultisig
namespace Btcdeb.Refine
open Btcdeb Model

theorem sigLemmas : SigLemmas :=
  ⟨findAndDelete_eq, pushData_eq, checkSignatureEncoding_rel, checkPubKeyEncoding_rel⟩

/-- the `switch (opcode)` of `StepScript` refines the specification's `execOp`, for every opcode -/
theorem execOpcode_refines (op : Opcode) : OpRefines op := by
  cases op with
  | OP_0 => exact refines_OP_0
  | OP_PUSHDATA1 => exact refines_OP_PUSHDATA1
  | OP_PUSHDATA2 => exact refines_OP_PUSHDATA2
  | OP_PUSHDATA4 => exact refines_OP_PUSHDATA4
  | OP_1NEGATE => exact refines_OP_1NEGATE
  | OP_RESERVED => exact refines_OP_RESERVED
  | OP_1 => exact refines_OP_1
  | OP_2 => exact refines_OP_2
  | OP_3 => exact refines_OP_3
  | OP_4 => exact refines_OP_4
  | OP_5 => exact refines_OP_5
  | OP_6 => exact refines_OP_6
  | OP_7 => exact refines_OP_7
  | OP_8 => exact refines_OP_8
  | OP_9 => exact refines_OP_9
  | OP_10 => exact refines_OP_10
  | OP_11 => exact refines_OP_11
  | OP_12 => exact refines_OP_12
  | OP_13 => exact refines_OP_13
  | OP_14 => exact refines_OP_14
  | OP_15 => exact refines_OP_15
  | OP_16 => exact refines_OP_16
  | OP_NOP => exact refines_OP_NOP
  | OP_VER => exact refines_OP_VER
  | OP_IF => exact refines_OP_IF
  | OP_NOTIF => exact refines_OP_NOTIF
  | OP_VERIF => exact refines_OP_VERIF
  | OP_VERNOTIF => exact refines_OP_VERNOTIF
  | OP_ELSE => exact refines_OP_ELSE
  | OP_ENDIF => exact refines_OP_ENDIF
  | OP_VERIFY => exact refines_OP_VERIFY
  | OP_RETURN => exact refines_OP_RETURN
  | OP_TOALTSTACK => exact refines_OP_TOALTSTACK
  | OP_FROMALTSTACK => exact refines_OP_FROMALTSTACK
  | OP_2DROP => exact refines_OP_2DROP
  | OP_2DUP => exact refines_OP_2DUP
  | OP_3DUP => exact refines_OP_3DUP
  | OP_2OVER => exact refines_OP_2OVER
  | OP_2ROT => exact refines_OP_2ROT
  | OP_2SWAP => exact refines_OP_2SWAP
  | OP_IFDUP => exact refines_OP_IFDUP
  | OP_DEPTH => exact refines_OP_DEPTH
  | OP_DROP => exact refines_OP_DROP
  | OP_DUP => exact refines_OP_DUP
  | OP_NIP => exact refines_OP_NIP
  | OP_OVER => exact refines_OP_OVER
  | OP_PICK => exact refines_OP_PICK
  | OP_ROLL => exact refines_OP_ROLL
  | OP_ROT => exact refines_OP_ROT
  | OP_SWAP => exact refines_OP_SWAP
  | OP_TUCK => exact refines_OP_TUCK
  | OP_CAT => exact refines_OP_CAT
  | OP_SUBSTR => exact refines_OP_SUBSTR
  | OP_LEFT => exact refines_OP_LEFT
  | OP_RIGHT => exact refines_OP_RIGHT
  | OP_SIZE => exact refines_OP_SIZE
  | OP_INVERT => exact refines_OP_INVERT
  | OP_AND => exact refines_OP_AND
  | OP_OR => exact refines_OP_OR
  | OP_XOR => exact refines_OP_XOR
  | OP_EQUAL => exact refines_OP_EQUAL
  | OP_EQUALVERIFY => exact refines_OP_EQUALVERIFY
  | OP_RESERVED1 => exact refines_OP_RESERVED1
  | OP_RESERVED2 => exact refines_OP_RESERVED2
  | OP_1ADD => exact refines_OP_1ADD
  | OP_1SUB => exact refines_OP_1SUB
  | OP_2MUL => exact refines_OP_2MUL
  | OP_2DIV => exact refines_OP_2DIV
  | OP_NEGATE => exact refines_OP_NEGATE
  | OP_ABS => exact refines_OP_ABS
  | OP_NOT => exact refines_OP_NOT
  | OP_0NOTEQUAL => exact refines_OP_0NOTEQUAL
  | OP_ADD => exact refines_OP_ADD
  | OP_SUB => exact refines_OP_SUB
  | OP_MUL => exact refines_OP_MUL
  | OP_DIV => exact refines_OP_DIV
  | OP_MOD => exact refines_OP_MOD
  | OP_LSHIFT => exact refines_OP_LSHIFT
  | OP_RSHIFT => exact refines_OP_RSHIFT
  | OP_BOOLAND => exact refines_OP_BOOLAND
  | OP_BOOLOR => exact refines_OP_BOOLOR
  | OP_NUMEQUAL => exact refines_OP_NUMEQUAL
  | OP_NUMEQUALVERIFY => exact refines_OP_NUMEQUALVERIFY
  | OP_NUMNOTEQUAL => exact refines_OP_NUMNOTEQUAL
  | OP_LESSTHAN => exact refines_OP_LESSTHAN
  | OP_GREATERTHAN => exact refines_OP_GREATERTHAN
  | OP_LESSTHANOREQUAL => exact refines_OP_LESSTHANOREQUAL
  | OP_GREATERTHANOREQUAL => exact refines_OP_GREATERTHANOREQUAL
  | OP_MIN => exact refines_OP_MIN
  | OP_MAX => exact refines_OP_MAX
  | OP_WITHIN => exact refines_OP_WITHIN
  | OP_RIPEMD160 => exact refines_OP_RIPEMD160
  | OP_SHA1 => exact refines_OP_SHA1
  | OP_SHA256 => exact refines_OP_SHA256
  | OP_HASH160 => exact refines_OP_HASH160
  | OP_HASH256 => exact refines_OP_HASH256
  | OP_CODESEPARATOR => exact refines_OP_CODESEPARATOR
  | OP_CHECKSIG => exact refines_OP_CHECKSIG_of sigLemmas
  | OP_CHECKSIGVERIFY => exact refines_OP_CHECKSIGVERIFY_of sigLemmas
  | OP_CHECKMULTISIG => exact refines_OP_CHECKMULTISIG_of sigLemmas
  | OP_CHECKMULTISIGVERIFY => exact refines_OP_CHECKMULTISIGVERIFY_of sigLemmas
  | OP_NOP1 => exact refines_OP_NOP1
  | OP_CHECKLOCKTIMEVERIFY => exact refines_OP_CHECKLOCKTIMEVERIFY
  | OP_CHECKSEQUENCEVERIFY => exact refines_OP_CHECKSEQUENCEVERIFY
  | OP_NOP4 => exact refines_OP_NOP4
  | OP_NOP5 => exact refines_OP_NOP5
  | OP_NOP6 => exact refines_OP_NOP6
  | OP_NOP7 => exact refines_OP_NOP7
  | OP_NOP8 => exact refines_OP_NOP8
  | OP_NOP9 => exact refines_OP_NOP9
  | OP_NOP10 => exact refines_OP_NOP10
  | OP_CHECKSIGADD => exact refines_OP_CHECKSIGADD_of sigLemmas
  | PUSHN n => exact refines_PUSHN n
  | UNKNOWN n => exact refines_UNKNOWN n

end Btcdeb.Refine
