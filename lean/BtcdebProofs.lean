import BtcdebProofs.Properties.C18
