/-
  Specification of the `--pretend-valid` option: a comma-separated list of `signature:key` pairs, each field a value
  expression; every listed pair is treated as a valid signature.
-/
import Btcdeb.Basic.Bytes
namespace Btcdeb.Spec
open Btcdeb

/-- split at every occurrence of `sep` -/
def splitAt (sep : UInt8) : Bytes → Bytes → List Bytes
  | [], cur => [cur.reverse]
  | c :: rest, cur => if c == sep then cur.reverse :: splitAt sep rest [] else splitAt sep rest (c :: cur)

/-- the pair list denoted by the option text; `eval` gives the bytes a value expression stands for (`none`: the
    expression is rejected).  `none` = malformed list. -/
def pretendPairs (eval : Bytes → Option Bytes) (text : Bytes) : Option (List (Bytes × Bytes)) :=
  let items := splitAt 44 text []
  -- one trailing comma (or the empty text) is tolerated
  let items := if items.getLast? == some [] then items.dropLast else items
  items.mapM (fun item =>
    match splitAt 58 item [] with
    | [s, k] => do
      if s.isEmpty || k.isEmpty then none     -- a field is a non-empty expression
      let s ← eval s
      let k ← eval k
      pure (s, k)
    | _ => none)

end Btcdeb.Spec
