/-
  The signature oracle of the specification for one input of a transaction: signatures are valid when they verify
  over the digest the BIPs define (Spec/Sighash.lean); lock-time opcodes follow BIP65 / BIP112.
-/
import Btcdeb.Spec.Verify
import Btcdeb.Spec.Sighash
namespace Btcdeb.Spec
open Btcdeb

/-- primitives the rules are stated over -/
structure Prims where
  sha256 : Bytes → Bytes
  ripemd160 : Bytes → Bytes
  sha1 : Bytes → Bytes
  ecdsaVerify : (key der digest : Bytes) → Bool
  schnorrVerify : (key digest sig : Bytes) → Bool
  checkLowS : Bytes → Bool
  tap : TapOracle

/-- `spent`: the outputs spent by the inputs of `tx`, in order (BIP341 commits to all of them) -/
def txOracle (p : Prims) (tx : Model.Tx) (nIn : Nat) (amount : Int) (spent : List Model.TxOut)
    (_sv : SigVersion) (annex leaf : Option Bytes) : SigOracle where
  checkLowS := p.checkLowS
  checkLockTime := fun n => bip65Satisfied tx nIn n
  checkSequence := fun n => bip112Satisfied tx nIn n.toNat
  ecdsa := fun sig key code sv => ecdsaSigValid p.sha256 p.ecdsaVerify tx nIn amount sig key code sv
  schnorr := fun sig key sv csp =>
    schnorrSigValid p.sha256 p.schnorrVerify tx nIn spent annex
      (if sv == .TAPSCRIPT then leaf.map (fun l => { leafHash := l, codesepPos := csp }) else none) sig key
  sha256 := p.sha256
  ripemd160 := p.ripemd160
  sha1 := p.sha1

def spendCtx (p : Prims) (tx : Model.Tx) (nIn : Nat) (amount : Int) (spent : List Model.TxOut) : SpendCtx where
  oracleFor := txOracle p tx nIn amount spent
  sha256 := p.sha256
  hash160 := fun b => p.ripemd160 (p.sha256 b)
  tap := p.tap

/-- which input of `tx` spends an output of `txin`: the selected one if a selection is given (it must reference
    `txin`), the first one referencing it otherwise; with the index of the output spent -/
def spendingInput (txid : Model.Tx → Bytes) (tx txin : Model.Tx) (select : Option Nat) : Option (Nat × Nat) :=
  let id := txid txin
  let r := match select with
    | some k => (tx.vin[k]?).bind (fun (i : Model.TxIn) => if i.prevout.hash == id then some (k, i.prevout.n) else none)
    | none => (tx.vin.findIdx? (fun (i : Model.TxIn) => i.prevout.hash == id)).bind (fun k => (tx.vin[k]?).map (fun (i : Model.TxIn) => (k, i.prevout.n)))
  r.bind (fun kn => if kn.2 < txin.vout.length then some kn else none)

/-- validation of the input of `tx` that spends `txin`, under `flags` -/
def verifyInput (p : Prims) (txid : Model.Tx → Bytes) (flags : Nat) (tx txin : Model.Tx) (select : Option Nat) : Option (R Unit) :=
  match spendingInput txid tx txin select with
  | none => none
  | some (k, n) =>
    match tx.vin[k]?, txin.vout[n]? with
    | some inp, some o =>
      -- BIP341 needs every spent output; one funding transaction gives them all only for a single-input spend
      let spent := if tx.vin.length == 1 then [o] else []
      some (verifyScript (spendCtx p tx k o.value spent) flags inp.scriptSig o.scriptPubKey inp.witness)
    | _, _ => none

end Btcdeb.Spec
