/-
  BIP341 script trees: a binary tree of (leaf version, script) leaves, its Merkle root, the Merkle path of
  every leaf, the control block of a script-path spend and what it means for a key to be the output key of
  a tree.  Independent of how any tool chooses the shape of the tree.
-/
import Btcdeb.Spec.Taproot
namespace Btcdeb.Spec
open Btcdeb

/-- BIP341 `script_tree`: a leaf is a (leaf version, script) pair, an inner node has two children -/
inductive TapTree where
  | leaf (version : Nat) (script : Bytes)
  | branch (l r : TapTree)
deriving Repr, DecidableEq, Inhabited

namespace TapTree

/-- BIP341 `taproot_tree_helper`: the Merkle root -/
def root (o : TapOracle) : TapTree → Bytes
  | leaf v s => tapLeafHash o v s
  | branch l r => tapBranchHash o (l.root o) (r.root o)

/-- the leaves, left to right -/
def leaves : TapTree → List (Nat × Bytes)
  | leaf v s => [(v, s)]
  | branch l r => l.leaves ++ r.leaves

/-- number of edges on the longest root-to-leaf walk -/
def height : TapTree → Nat
  | leaf _ _ => 0
  | branch l r => max l.height r.height + 1

/-- BIP341 `taproot_tree_helper`: for every leaf (left to right) its version, script and Merkle path
    (the sibling hashes from the leaf up to the root) -/
def paths (o : TapOracle) : TapTree → List (Nat × Bytes × List Bytes)
  | leaf v s => [(v, s, [])]
  | branch l r =>
    let rl := l.root o
    let rr := r.root o
    (l.paths o).map (fun e => (e.1, e.2.1, e.2.2 ++ [rr])) ++
    (r.paths o).map (fun e => (e.1, e.2.1, e.2.2 ++ [rl]))

end TapTree

/-- BIP341: `q` (x-only, with `y` parity `odd`) is the output key of the internal key `p` and the Merkle root `root` -/
def isOutputKey (o : TapOracle) (p root q : Bytes) (odd : Bool) : Bool :=
  o.tweakCheck q p (o.taggedHash "TapTweak" (p ++ root)) odd

/-- BIP341 control block of a script-path spend: `(leaf version | parity) ‖ internal key ‖ path` -/
def controlBlock (version : Nat) (odd : Bool) (p : Bytes) (path : List Bytes) : Bytes :=
  UInt8.ofNat (version + (if odd then 1 else 0)) :: (p ++ path.flatten)

end Btcdeb.Spec
