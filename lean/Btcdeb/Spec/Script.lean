/-
  Specification of Bitcoin script execution (one script, given initial stack): what Bitcoin's rules
  (Core's `EvalScript`, BIP 16/62/65/112/141/147/342) prescribe.  Written in a different idiom from
  the model on purpose: decoded instruction list, stacks with the TOP AT THE HEAD, a plain list of
  booleans for conditional nesting, `Int` numbers, pattern matching on stack shapes.
-/
import Btcdeb.Basic.Bytes
import Btcdeb.Spec.Opcode
import Btcdeb.Spec.Types
import Btcdeb.Spec.Limits
import Btcdeb.Spec.ScriptNum
import Btcdeb.Model.ScriptNum
import Btcdeb.Model.CondStack
namespace Btcdeb.Spec
open Btcdeb


structure Instr where
  opcode : Nat
  data : Bytes
deriving Repr, DecidableEq

/-- size of the length field selected by a push opcode -/
def pushLenBytes (opcode : Nat) : Nat :=
  if opcode < 0x4c then 0 else if opcode = 0x4c then 1 else if opcode = 0x4d then 2 else 4

/-- decode one instruction: the instruction and the script bytes that follow it;
    `none` for the empty script and when a push runs past the end -/
def decodeOne : Bytes → Option (Instr × Bytes)
  | [] => none
  | b :: rest =>
    let opc := b.toNat
    if opc ≤ 0x4e then
      let lb := pushLenBytes opc
      if rest.length < lb then none
      else
        let n := if lb = 0 then opc else leValue (rest.take lb)
        let body := rest.drop lb
        if body.length < n then none
        else some (⟨opc, body.take n⟩, body.drop n)
    else some (⟨opc, []⟩, rest)

/-- longest decodable prefix of instructions (each with the bytes that follow it), and whether the
    whole script decoded; `fuel` ≥ script length -/
def decodePrefix : Nat → Bytes → List (Instr × Bytes) × Bool
  | _, [] => ([], true)
  | 0, _ :: _ => ([], false)
  | fuel + 1, s =>
    match decodeOne s with
    | none => ([], false)
    | some (i, after) => let r := decodePrefix fuel after; ((i, after) :: r.1, r.2)

def decodeWithRest (s : Bytes) : Option (List (Instr × Bytes)) :=
  let r := decodePrefix s.length s
  if r.2 then some r.1 else none
def decode (s : Bytes) : Option (List Instr) := (decodeWithRest s).map (·.map (·.1))

/-- signature checking oracle of the specification (instantiated with the BIP digests + ECDSA/BIP340 in C02) -/
structure SigOracle where
  checkLowS : Bytes → Bool
  checkLockTime : Int → Bool
  checkSequence : Int → Bool
  /-- is `sig` (with hash-type byte) a valid ECDSA signature by `key` for script code `code` -/
  ecdsa : (sig key code : Bytes) → SigVersion → Bool
  /-- BIP340 check incl. hash-type rules; error = the script error it selects -/
  schnorr : (sig key : Bytes) → SigVersion → (codesepPos : Nat) → Except ScriptError Unit
  sha256 : Bytes → Bytes
  ripemd160 : Bytes → Bytes
  sha1 : Bytes → Bytes

structure Cfg where
  flags : Nat
  sigversion : SigVersion
  allowDisabled : Bool := false
  oracle : SigOracle
  /-- mock signatures (`--pretend-valid`): list of (signature, key) pairs -/
  pretend : List (Bytes × Bytes) := []

/-- execution state of one script -/
structure St where
  stack : List Bytes := []        -- top first
  alt : List Bytes := []          -- top first
  cond : List Bool := []          -- innermost first
  opCount : Nat := 0
  /-- script bytes following the last executed OP_CODESEPARATOR (initially the whole script) -/
  codeFrom : Bytes := []
  /-- index of the last executed OP_CODESEPARATOR among the script's opcodes, or 0xFFFFFFFF -/
  codesepPos : Nat := 0xFFFFFFFF
  /-- tapscript signature-operation budget -/
  weightLeft : Int := 0
  weightInit : Bool := false
deriving Repr, DecidableEq

abbrev R := Except ScriptError

def toBool : Bytes → Bool
  | [] => false
  | [b] => b.toNat != 0 && b.toNat != 0x80
  | b :: rest => b.toNat != 0 || toBool rest

def minimalNum (b : Bytes) : Bool := Model.serialize (numValue b) == b

/-- numeric operand: at most `maxLen` bytes, minimally encoded when required; violations are a script failure -/
def numOf (rm : Bool) (maxLen : Nat) (b : Bytes) : R Int :=
  if b.length > maxLen then .error .UNKNOWN_ERROR
  else if rm && !minimalNum b then .error .UNKNOWN_ERROR
  else .ok (numValue b)

def encodeNum (n : Int) : Bytes := Model.serialize n
def ofBool (b : Bool) : Bytes := if b then [1] else []

/-- BIP62 rule 3/4: is this the minimal way to push `data` -/
def minimalPush (opcode : Nat) (data : Bytes) : Bool :=
  if data.length = 0 then opcode = 0
  else if data.length = 1 ∧ 1 ≤ (data.headD 0).toNat ∧ (data.headD 0).toNat ≤ 16 then false
  else if data.length = 1 ∧ (data.headD 0).toNat = 0x81 then false
  else if data.length ≤ 75 then opcode = data.length
  else if data.length ≤ 255 then opcode = 0x4c
  else if data.length ≤ 65535 then opcode = 0x4d
  else true

def disabled : Opcode → Bool
  | .OP_CAT | .OP_SUBSTR | .OP_LEFT | .OP_RIGHT | .OP_INVERT | .OP_AND | .OP_OR | .OP_XOR
  | .OP_2MUL | .OP_2DIV | .OP_MUL | .OP_DIV | .OP_MOD | .OP_LSHIFT | .OP_RSHIFT => true
  | _ => false

def checkSize (st : St) : R St :=
  if st.stack.length + st.alt.length > maxStackSize then .error .STACK_SIZE else .ok st

def inInt64 (v : Int) : Bool := -9223372036854775808 ≤ v && v ≤ 9223372036854775807

/-- the re-enabled opcodes (`--allow-disabled-opcodes`): the functions their names denote -/
def execExtended (rm : Bool) (op : Opcode) (st : St) : R St :=
  match op, st.stack with
  | .OP_CAT, x2 :: x1 :: s =>
      -- the result is a stack element: at most 520 bytes (as in the original OP_CAT and in BIP347)
      if x1.length + x2.length > 520 then .error .PUSH_SIZE else .ok { st with stack := (x1 ++ x2) :: s }
  | .OP_SUBSTR, sz :: bg :: x :: s => do
      let b ← numOf rm 2 bg
      if b < 0 then .error .UNKNOWN_ERROR
      let n ← numOf rm 2 sz
      if n < 0 || b + n > x.length then .error .UNKNOWN_ERROR
      .ok { st with stack := ((x.drop b.toNat).take n.toNat) :: s }
  | .OP_LEFT, sz :: x :: s => do
      let n ← numOf rm 2 sz
      if n < 0 || n > x.length then .error .UNKNOWN_ERROR
      .ok { st with stack := x.take n.toNat :: s }
  | .OP_RIGHT, sz :: x :: s => do
      let n ← numOf rm 2 sz
      if n < 0 || n > x.length then .error .UNKNOWN_ERROR
      .ok { st with stack := x.drop (x.length - n.toNat) :: s }
  | .OP_INVERT, x :: s => .ok { st with stack := x.map (fun b => ~~~ b) :: s }
  | .OP_AND, x2 :: x1 :: s =>
      if x1.length != x2.length then .error .UNKNOWN_ERROR else .ok { st with stack := List.zipWith (· &&& ·) x1 x2 :: s }
  | .OP_OR, x2 :: x1 :: s =>
      if x1.length != x2.length then .error .UNKNOWN_ERROR else .ok { st with stack := List.zipWith (· ||| ·) x1 x2 :: s }
  | .OP_XOR, x2 :: x1 :: s =>
      if x1.length != x2.length then .error .UNKNOWN_ERROR else .ok { st with stack := List.zipWith (· ^^^ ·) x1 x2 :: s }
  | .OP_2MUL, x :: s => do
      let n ← numOf rm 5 x
      .ok { st with stack := encodeNum (2 * n) :: s }
  | .OP_2DIV, x :: s => do
      let n ← numOf rm 5 x
      .ok { st with stack := encodeNum (Int.tdiv n 2) :: s }
  | .OP_MUL, y :: x :: s => do
      let a ← numOf rm 5 x; let b ← numOf rm 5 y
      if !inInt64 (a * b) then .error .UNKNOWN_ERROR
      .ok { st with stack := encodeNum (a * b) :: s }
  | .OP_DIV, y :: x :: s => do
      let a ← numOf rm 5 x; let b ← numOf rm 5 y
      if b == 0 then .error .UNKNOWN_ERROR
      .ok { st with stack := encodeNum (Int.tdiv a b) :: s }
  | .OP_MOD, y :: x :: s => do
      let a ← numOf rm 5 x; let b ← numOf rm 5 y
      if b == 0 then .error .UNKNOWN_ERROR
      .ok { st with stack := encodeNum (Int.tmod a b) :: s }
  | .OP_LSHIFT, y :: x :: s => do
      let a ← numOf rm 5 x; let b ← numOf rm 5 y
      if b < 0 then .error .UNKNOWN_ERROR
      -- a·2^b must be representable (64-bit signed); for b ≥ 64 that is only the case for a = 0
      if b ≥ 64 then (if a == 0 then .ok { st with stack := encodeNum 0 :: s } else .error .UNKNOWN_ERROR)
      else if !inInt64 (a * 2 ^ b.toNat) then .error .UNKNOWN_ERROR
      else .ok { st with stack := encodeNum (a * 2 ^ b.toNat) :: s }
  | .OP_RSHIFT, y :: x :: s => do
      let a ← numOf rm 5 x; let b ← numOf rm 5 y
      if b < 0 then .error .UNKNOWN_ERROR
      -- arithmetic shift: ⌊a / 2^b⌋; for b ≥ 64 that is 0 or -1 for every 64-bit a
      if b ≥ 64 then .ok { st with stack := encodeNum (if a < 0 then -1 else 0) :: s }
      else .ok { st with stack := encodeNum (a / 2 ^ b.toNat) :: s }
  | _, _ => .error .INVALID_STACK_OPERATION

def isCompressedOrUncompressed (k : Bytes) : Bool :=
  match k with
  | [] => false
  | h :: _ => (h.toNat = 4 ∧ k.length = 65) || ((h.toNat = 2 ∨ h.toNat = 3) ∧ k.length = 33)

def isCompressed (k : Bytes) : Bool :=
  match k with
  | [] => false
  | h :: _ => (h.toNat = 2 ∨ h.toNat = 3) ∧ k.length = 33

/-- BIP66 strict DER grammar: 0x30 len 0x02 lenR R 0x02 lenS S hashtype, R and S positive, minimally padded -/
def derInt (b : Bytes) : Bool :=
  match b with
  | [] => false
  | h :: t => h.toNat < 0x80 && !(h.toNat = 0 && (match t with | [] => false | h2 :: _ => h2.toNat < 0x80))

def strictDer (sig : Bytes) : Bool :=
  9 ≤ sig.length && sig.length ≤ 73 &&
  match sig with
  | t :: l :: t1 :: lr :: rest =>
    t.toNat = 0x30 && l.toNat = sig.length - 3 && t1.toNat = 2 &&
    (let r := rest.take lr.toNat
     let rest2 := rest.drop lr.toNat
     r.length = lr.toNat && derInt r &&
     match rest2 with
     | t2 :: ls :: rest3 =>
       t2.toNat = 2 && ls.toNat + 1 = rest3.length && derInt (rest3.take ls.toNat)
     | _ => false)
  | _ => false

def definedHashtype (sig : Bytes) : Bool :=
  match sig.getLast? with
  | none => false
  | some h => let t := h.toNat % 128; 1 ≤ t ∧ t ≤ 3

def sigEncodingOk (cfg : Cfg) (sig : Bytes) : R Unit :=
  if sig.isEmpty then .ok ()
  else if (hasFlag cfg.flags Flag.DERSIG || hasFlag cfg.flags Flag.LOW_S || hasFlag cfg.flags Flag.STRICTENC) && !strictDer sig then .error .SIG_DER
  else if hasFlag cfg.flags Flag.LOW_S && !cfg.oracle.checkLowS sig.dropLast then .error .SIG_HIGH_S
  else if hasFlag cfg.flags Flag.STRICTENC && !definedHashtype sig then .error .SIG_HASHTYPE
  else .ok ()

def keyEncodingOk (cfg : Cfg) (key : Bytes) : R Unit :=
  if hasFlag cfg.flags Flag.STRICTENC && !isCompressedOrUncompressed key then .error .PUBKEYTYPE
  else if hasFlag cfg.flags Flag.WITNESS_PUBKEYTYPE && cfg.sigversion == .WITNESS_V0 && !isCompressed key then .error .WITNESS_PUBKEYTYPE
  else .ok ()

/-- push encoding of a byte string as a script fragment -/
def pushOf (b : Bytes) : Bytes :=
  if b.length < 0x4c then UInt8.ofNat b.length :: b
  else if b.length ≤ 0xff then 0x4c :: UInt8.ofNat b.length :: b
  else if b.length ≤ 0xffff then 0x4d :: (leFixed 2 b.length ++ b)
  else 0x4e :: (leFixed 4 b.length ++ b)

/-- FindAndDelete: remove every occurrence of `pat` that starts at an instruction boundary -/
def deleteAt : Nat → Bytes → Bytes → Bytes × Nat
  | 0, _, s => (s, 0)
  | fuel + 1, pat, s =>
    if pat.isEmpty then (s, 0)
    else if pat.isPrefixOf s then
      let r := deleteAt fuel pat (s.drop pat.length)
      (r.1, r.2 + 1)
    else
      match s with
      | [] => ([], 0)
      | b :: rest =>
        let opc := b.toNat
        let lb := pushLenBytes opc
        if opc ≤ 0x4e then
          if rest.length < lb then (s, 0)
          else
            let n := if lb = 0 then opc else leValue (rest.take lb)
            let total := 1 + lb + n
            if s.length < total then (s, 0)
            else
              let r := deleteAt fuel pat (s.drop total)
              (s.take total ++ r.1, r.2)
        else
          let r := deleteAt fuel pat rest
          (b :: r.1, r.2)

def findAndDelete (s pat : Bytes) : Bytes × Nat := deleteAt (s.length + 1) pat s

/-- `key` occurs in a listed (signature, key) pair -/
def keyListed (cfg : Cfg) (key : Bytes) : Bool := cfg.pretend.any (fun p => p.2 == key)
/-- (`sig`, `key`) is a listed pair -/
def pairListed (cfg : Cfg) (sig key : Bytes) : Bool := cfg.pretend.contains (sig, key)
def mockHit (cfg : Cfg) (sig key : Bytes) : Bool := pairListed cfg sig key

/-- one signature check as CHECKSIG / CHECKSIGVERIFY / CHECKSIGADD perform it: (valid?, new state) -/
def checkSig (cfg : Cfg) (st : St) (sig key : Bytes) : R (Bool × St) :=
  if mockHit cfg sig key then .ok (true, st)
  else match cfg.sigversion with
  | .BASE | .WITNESS_V0 => do
    let code ←
      if cfg.sigversion == .BASE then
        let r := findAndDelete st.codeFrom (pushOf sig)
        if r.2 > 0 && hasFlag cfg.flags Flag.CONST_SCRIPTCODE then .error .SIG_FINDANDDELETE else pure r.1
      else pure st.codeFrom
    sigEncodingOk cfg sig
    keyEncodingOk cfg key
    let ok := cfg.oracle.ecdsa sig key code cfg.sigversion
    if !ok && hasFlag cfg.flags Flag.NULLFAIL && !sig.isEmpty then .error .SIG_NULLFAIL
    .ok (ok, st)
  | .TAPSCRIPT => do
    let nonEmpty := !sig.isEmpty
    let st ← if nonEmpty then
        (if st.weightLeft - 50 < 0 then .error .TAPSCRIPT_VALIDATION_WEIGHT else pure { st with weightLeft := st.weightLeft - 50 })
      else pure st
    if key.isEmpty then .error .PUBKEYTYPE
    else if key.length = 32 then do
      if nonEmpty then cfg.oracle.schnorr sig key .TAPSCRIPT st.codesepPos
      .ok (nonEmpty, st)
    else if hasFlag cfg.flags Flag.DISCOURAGE_UPGRADABLE_PUBKEYTYPE then .error .DISCOURAGE_UPGRADABLE_PUBKEYTYPE
    else .ok (nonEmpty, st)
  | .TAPROOT =>
    match cfg.oracle.schnorr sig key .TAPROOT st.codesepPos with
    | .ok () => .ok (true, st)
    | .error x => .error x          -- the Schnorr error of the key-path check (size, hash type, invalid signature)

/-- CHECKMULTISIG matching: signatures are matched to keys in order (both lists top-of-stack first =
    first-to-be-checked first); fails as soon as more signatures than keys remain -/
def matchSigs (cfg : Cfg) (code : Bytes) : List Bytes → List Bytes → R Bool
  | [], _ => .ok true
  | _ :: _, [] => .ok false
  | sig :: sigs, key :: keys => do
    let ok ←
      if keyListed cfg key then
        pure (pairListed cfg sig key)
      else do
        sigEncodingOk cfg sig
        keyEncodingOk cfg key
        pure (cfg.oracle.ecdsa sig key code cfg.sigversion)
    let sigs' := if ok then sigs else sig :: sigs
    if sigs'.length > keys.length then .ok false
    else matchSigs cfg code sigs' keys

def deleteAll (cfg : Cfg) : List Bytes → Bytes → R Bytes
  | [], code => .ok code
  | sig :: sigs, code =>
    if cfg.sigversion == .BASE then
      let r := findAndDelete code (pushOf sig)
      if r.2 > 0 && hasFlag cfg.flags Flag.CONST_SCRIPTCODE then .error .SIG_FINDANDDELETE
      else deleteAll cfg sigs r.1
    else deleteAll cfg sigs code

def execMultisig (cfg : Cfg) (rm : Bool) (verify : Bool) (st : St) : R St := do
  if cfg.sigversion == .TAPSCRIPT then .error .TAPSCRIPT_CHECKMULTISIG
  match st.stack with
  | [] => .error .INVALID_STACK_OPERATION
  | nk :: s1 =>
    let nKeys := Model.getint (← numOf rm 4 nk)
    if nKeys < 0 || nKeys > maxPubkeysPerMultisig then .error .PUBKEY_COUNT
    let nKeys := nKeys.toNat
    let opCount := st.opCount + nKeys
    if opCount > maxOpsPerScript then .error .OP_COUNT
    if s1.length < nKeys + 1 then .error .INVALID_STACK_OPERATION
    let keys := s1.take nKeys
    match s1.drop nKeys with
    | [] => .error .INVALID_STACK_OPERATION
    | ns :: s2 =>
      let nSigs := Model.getint (← numOf rm 4 ns)
      if nSigs < 0 || nSigs > nKeys then .error .SIG_COUNT
      let nSigs := nSigs.toNat
      -- the signatures AND the extra (dummy) element must be present before anything is checked
      if s2.length < nSigs + 1 then .error .INVALID_STACK_OPERATION
      let sigs := s2.take nSigs
      let s3 := s2.drop nSigs
      let code ← deleteAll cfg sigs st.codeFrom
      let ok ← matchSigs cfg code sigs keys
      if !ok && hasFlag cfg.flags Flag.NULLFAIL && sigs.any (fun s => !s.isEmpty) then .error .SIG_NULLFAIL
      match s3 with
      | [] => .error .INVALID_STACK_OPERATION
      | dummy :: s4 =>
        if hasFlag cfg.flags Flag.NULLDUMMY && !dummy.isEmpty then .error .SIG_NULLDUMMY
        if verify then
          if ok then checkSize { st with stack := s4, opCount := opCount } else .error .CHECKMULTISIGVERIFY
        else checkSize { st with stack := ofBool ok :: s4, opCount := opCount }

def unary (op : Opcode) (n : Int) : Int :=
  match op with
  | .OP_1ADD => n + 1 | .OP_1SUB => n - 1 | .OP_NEGATE => -n | .OP_ABS => n.natAbs
  | .OP_NOT => if n = 0 then 1 else 0
  | _ => if n = 0 then 0 else 1

def binary (op : Opcode) (a b : Int) : Int :=
  match op with
  | .OP_ADD => a + b | .OP_SUB => a - b
  | .OP_BOOLAND => if a ≠ 0 ∧ b ≠ 0 then 1 else 0
  | .OP_BOOLOR => if a ≠ 0 ∨ b ≠ 0 then 1 else 0
  | .OP_NUMEQUAL | .OP_NUMEQUALVERIFY => if a = b then 1 else 0
  | .OP_NUMNOTEQUAL => if a ≠ b then 1 else 0
  | .OP_LESSTHAN => if a < b then 1 else 0
  | .OP_GREATERTHAN => if a > b then 1 else 0
  | .OP_LESSTHANOREQUAL => if a ≤ b then 1 else 0
  | .OP_GREATERTHANOREQUAL => if a ≥ b then 1 else 0
  | .OP_MIN => min a b
  | _ => max a b

def smallInt : Opcode → Option Int
  | .OP_1NEGATE => some (-1) | .OP_1 => some 1 | .OP_2 => some 2 | .OP_3 => some 3 | .OP_4 => some 4
  | .OP_5 => some 5 | .OP_6 => some 6 | .OP_7 => some 7 | .OP_8 => some 8 | .OP_9 => some 9
  | .OP_10 => some 10 | .OP_11 => some 11 | .OP_12 => some 12 | .OP_13 => some 13 | .OP_14 => some 14
  | .OP_15 => some 15 | .OP_16 => some 16
  | _ => none

def isNopN : Opcode → Bool
  | .OP_NOP1 | .OP_NOP4 | .OP_NOP5 | .OP_NOP6 | .OP_NOP7 | .OP_NOP8 | .OP_NOP9 | .OP_NOP10 => true
  | _ => false

def isUnary : Opcode → Bool
  | .OP_1ADD | .OP_1SUB | .OP_NEGATE | .OP_ABS | .OP_NOT | .OP_0NOTEQUAL => true
  | _ => false

def isBinary : Opcode → Bool
  | .OP_ADD | .OP_SUB | .OP_BOOLAND | .OP_BOOLOR | .OP_NUMEQUAL | .OP_NUMEQUALVERIFY | .OP_NUMNOTEQUAL
  | .OP_LESSTHAN | .OP_GREATERTHAN | .OP_LESSTHANOREQUAL | .OP_GREATERTHANOREQUAL | .OP_MIN | .OP_MAX => true
  | _ => false

/-- an executed non-push opcode (or IF/NOTIF/ELSE/ENDIF in any branch).
    `after` = script bytes following this opcode, `pos` = its index among the script's opcodes. -/
def execOp (cfg : Cfg) (op : Opcode) (executing : Bool) (after : Bytes) (pos : Nat) (st : St) : R St :=
  let rm := hasFlag cfg.flags Flag.MINIMALDATA
  if disabled op then execExtended rm op st
  else if let some n := smallInt op then checkSize { st with stack := encodeNum n :: st.stack }
  else if isNopN op then
    (if hasFlag cfg.flags Flag.DISCOURAGE_UPGRADABLE_NOPS then .error .DISCOURAGE_UPGRADABLE_NOPS else checkSize st)
  else if isUnary op then
    match st.stack with
    | x :: s => do let n ← numOf rm 4 x; checkSize { st with stack := encodeNum (unary op n) :: s }
    | _ => .error .INVALID_STACK_OPERATION
  else if isBinary op then
    match st.stack with
    | y :: x :: s => do
      let a ← numOf rm 4 x; let b ← numOf rm 4 y
      let r := binary op a b
      if op == .OP_NUMEQUALVERIFY then
        (if r ≠ 0 then checkSize { st with stack := s } else .error .NUMEQUALVERIFY)
      else checkSize { st with stack := encodeNum r :: s }
    | _ => .error .INVALID_STACK_OPERATION
  else
  match op with
  | .OP_NOP => checkSize st
  | .OP_CHECKLOCKTIMEVERIFY =>
    if !hasFlag cfg.flags Flag.CHECKLOCKTIMEVERIFY then checkSize st
    else match st.stack with
      | x :: _ => do
        let n ← numOf rm 5 x
        if n < 0 then .error .NEGATIVE_LOCKTIME
        if !cfg.oracle.checkLockTime n then .error .UNSATISFIED_LOCKTIME
        checkSize st
      | _ => .error .INVALID_STACK_OPERATION
  | .OP_CHECKSEQUENCEVERIFY =>
    if !hasFlag cfg.flags Flag.CHECKSEQUENCEVERIFY then checkSize st
    else match st.stack with
      | x :: _ => do
        let n ← numOf rm 5 x
        if n < 0 then .error .NEGATIVE_LOCKTIME
        if n.toNat.testBit 31 then checkSize st
        else if !cfg.oracle.checkSequence n then .error .UNSATISFIED_LOCKTIME
        else checkSize st
      | _ => .error .INVALID_STACK_OPERATION
  | .OP_IF | .OP_NOTIF =>
    if executing then
      match st.stack with
      | x :: s =>
        if cfg.sigversion == .TAPSCRIPT && !(x == [] || x == [1]) then .error .TAPSCRIPT_MINIMALIF
        else if cfg.sigversion == .WITNESS_V0 && hasFlag cfg.flags Flag.MINIMALIF && !(x == [] || x == [1]) then .error .MINIMALIF
        else
          let v := toBool x
          checkSize { st with stack := s, cond := (if op == .OP_NOTIF then !v else v) :: st.cond }
      | _ => .error .UNBALANCED_CONDITIONAL
    else checkSize { st with cond := false :: st.cond }
  | .OP_ELSE =>
    match st.cond with
    | c :: cs => checkSize { st with cond := (!c) :: cs }
    | [] => .error .UNBALANCED_CONDITIONAL
  | .OP_ENDIF =>
    match st.cond with
    | _ :: cs => checkSize { st with cond := cs }
    | [] => .error .UNBALANCED_CONDITIONAL
  | .OP_VERIFY =>
    match st.stack with
    | x :: s => if toBool x then checkSize { st with stack := s } else .error .VERIFY
    | _ => .error .INVALID_STACK_OPERATION
  | .OP_RETURN => .error .OP_RETURN
  | .OP_TOALTSTACK =>
    match st.stack with
    | x :: s => checkSize { st with stack := s, alt := x :: st.alt }
    | _ => .error .INVALID_STACK_OPERATION
  | .OP_FROMALTSTACK =>
    match st.alt with
    | x :: a => checkSize { st with stack := x :: st.stack, alt := a }
    | _ => .error .INVALID_ALTSTACK_OPERATION
  | .OP_2DROP => match st.stack with
    | _ :: _ :: s => checkSize { st with stack := s }
    | _ => .error .INVALID_STACK_OPERATION
  | .OP_2DUP => match st.stack with
    | x2 :: x1 :: s => checkSize { st with stack := x2 :: x1 :: x2 :: x1 :: s }
    | _ => .error .INVALID_STACK_OPERATION
  | .OP_3DUP => match st.stack with
    | x3 :: x2 :: x1 :: s => checkSize { st with stack := x3 :: x2 :: x1 :: x3 :: x2 :: x1 :: s }
    | _ => .error .INVALID_STACK_OPERATION
  | .OP_2OVER => match st.stack with
    | x4 :: x3 :: x2 :: x1 :: s => checkSize { st with stack := x2 :: x1 :: x4 :: x3 :: x2 :: x1 :: s }
    | _ => .error .INVALID_STACK_OPERATION
  | .OP_2ROT => match st.stack with
    | x6 :: x5 :: x4 :: x3 :: x2 :: x1 :: s => checkSize { st with stack := x2 :: x1 :: x6 :: x5 :: x4 :: x3 :: s }
    | _ => .error .INVALID_STACK_OPERATION
  | .OP_2SWAP => match st.stack with
    | x4 :: x3 :: x2 :: x1 :: s => checkSize { st with stack := x2 :: x1 :: x4 :: x3 :: s }
    | _ => .error .INVALID_STACK_OPERATION
  | .OP_IFDUP => match st.stack with
    | x :: s => checkSize { st with stack := if toBool x then x :: x :: s else x :: s }
    | _ => .error .INVALID_STACK_OPERATION
  | .OP_DEPTH => checkSize { st with stack := encodeNum st.stack.length :: st.stack }
  | .OP_DROP => match st.stack with
    | _ :: s => checkSize { st with stack := s }
    | _ => .error .INVALID_STACK_OPERATION
  | .OP_DUP => match st.stack with
    | x :: s => checkSize { st with stack := x :: x :: s }
    | _ => .error .INVALID_STACK_OPERATION
  | .OP_NIP => match st.stack with
    | x2 :: _ :: s => checkSize { st with stack := x2 :: s }
    | _ => .error .INVALID_STACK_OPERATION
  | .OP_OVER => match st.stack with
    | x2 :: x1 :: s => checkSize { st with stack := x1 :: x2 :: x1 :: s }
    | _ => .error .INVALID_STACK_OPERATION
  | .OP_PICK | .OP_ROLL => match st.stack with
    | nb :: x0 :: s => do
      let n := Model.getint (← numOf rm 4 nb)
      let body := x0 :: s
      if n < 0 || n ≥ body.length then .error .INVALID_STACK_OPERATION
      match body[n.toNat]? with
      | some v =>
        if op == .OP_ROLL then checkSize { st with stack := v :: body.eraseIdx n.toNat }
        else checkSize { st with stack := v :: body }
      | none => .error .INVALID_STACK_OPERATION
    | _ => .error .INVALID_STACK_OPERATION
  | .OP_ROT => match st.stack with
    | x3 :: x2 :: x1 :: s => checkSize { st with stack := x1 :: x3 :: x2 :: s }
    | _ => .error .INVALID_STACK_OPERATION
  | .OP_SWAP => match st.stack with
    | x2 :: x1 :: s => checkSize { st with stack := x1 :: x2 :: s }
    | _ => .error .INVALID_STACK_OPERATION
  | .OP_TUCK => match st.stack with
    | x2 :: x1 :: s => checkSize { st with stack := x2 :: x1 :: x2 :: s }
    | _ => .error .INVALID_STACK_OPERATION
  | .OP_SIZE => match st.stack with
    | x :: s => checkSize { st with stack := encodeNum x.length :: x :: s }
    | _ => .error .INVALID_STACK_OPERATION
  | .OP_EQUAL => match st.stack with
    | x2 :: x1 :: s => checkSize { st with stack := ofBool (x1 == x2) :: s }
    | _ => .error .INVALID_STACK_OPERATION
  | .OP_EQUALVERIFY => match st.stack with
    | x2 :: x1 :: s => if x1 == x2 then checkSize { st with stack := s } else .error .EQUALVERIFY
    | _ => .error .INVALID_STACK_OPERATION
  | .OP_WITHIN => match st.stack with
    | mx :: mn :: x :: s => do
      let a ← numOf rm 4 x; let lo ← numOf rm 4 mn; let hi ← numOf rm 4 mx
      checkSize { st with stack := ofBool (decide (lo ≤ a) && decide (a < hi)) :: s }
    | _ => .error .INVALID_STACK_OPERATION
  | .OP_RIPEMD160 => match st.stack with
    | x :: s => checkSize { st with stack := cfg.oracle.ripemd160 x :: s }
    | _ => .error .INVALID_STACK_OPERATION
  | .OP_SHA1 => match st.stack with
    | x :: s => checkSize { st with stack := cfg.oracle.sha1 x :: s }
    | _ => .error .INVALID_STACK_OPERATION
  | .OP_SHA256 => match st.stack with
    | x :: s => checkSize { st with stack := cfg.oracle.sha256 x :: s }
    | _ => .error .INVALID_STACK_OPERATION
  | .OP_HASH160 => match st.stack with
    | x :: s => checkSize { st with stack := cfg.oracle.ripemd160 (cfg.oracle.sha256 x) :: s }
    | _ => .error .INVALID_STACK_OPERATION
  | .OP_HASH256 => match st.stack with
    | x :: s => checkSize { st with stack := cfg.oracle.sha256 (cfg.oracle.sha256 x) :: s }
    | _ => .error .INVALID_STACK_OPERATION
  | .OP_CODESEPARATOR => checkSize { st with codeFrom := after, codesepPos := pos }
  | .OP_CHECKSIG | .OP_CHECKSIGVERIFY => match st.stack with
    | key :: sig :: s => do
      let (ok, st') ← checkSig cfg st sig key
      if op == .OP_CHECKSIGVERIFY then
        (if ok then checkSize { st' with stack := s } else .error .CHECKSIGVERIFY)
      else checkSize { st' with stack := ofBool ok :: s }
    | _ => .error .INVALID_STACK_OPERATION
  | .OP_CHECKSIGADD =>
    if cfg.sigversion == .BASE || cfg.sigversion == .WITNESS_V0 then .error .BAD_OPCODE
    else match st.stack with
    | key :: nb :: sig :: s => do
      let n ← numOf rm 4 nb
      let (ok, st') ← checkSig cfg st sig key
      checkSize { st' with stack := encodeNum (n + (if ok then 1 else 0)) :: s }
    | _ => .error .INVALID_STACK_OPERATION
  | .OP_CHECKMULTISIG => execMultisig cfg rm false st
  | .OP_CHECKMULTISIGVERIFY => execMultisig cfg rm true st
  | _ => .error .BAD_OPCODE

/-- the operation-count rule: every opcode above OP_16 counts, executed or not (legacy and segwit v0 only) -/
def countOp (cfg : Cfg) (opcode : Nat) (st : St) : R St :=
  if (cfg.sigversion == .BASE || cfg.sigversion == .WITNESS_V0) && opcode > 0x60 then
    (if st.opCount + 1 > maxOpsPerScript then .error .OP_COUNT else .ok { st with opCount := st.opCount + 1 })
  else .ok st

/-- one instruction of the script under Bitcoin's rules -/
def execInstr (cfg : Cfg) (i : Instr) (after : Bytes) (pos : Nat) (st : St) : R St :=
  let executing := st.cond.all id
  if i.data.length > maxElementSize then .error .PUSH_SIZE
  else
    countOp cfg i.opcode st >>= fun st =>
    let op := Opcode.ofNat i.opcode
    if !cfg.allowDisabled && disabled op then .error .DISABLED_OPCODE
    else if op == .OP_CODESEPARATOR && cfg.sigversion == .BASE && hasFlag cfg.flags Flag.CONST_SCRIPTCODE then .error .OP_CODESEPARATOR
    else if executing && i.opcode ≤ 0x4e then
      (if hasFlag cfg.flags Flag.MINIMALDATA && !minimalPush i.opcode i.data then .error .MINIMALDATA
       else checkSize { st with stack := i.data :: st.stack })
    else if executing || (0x63 ≤ i.opcode && i.opcode ≤ 0x68) then
      execOp cfg op executing after pos st
    else checkSize st

/-- the domain of C01: every byte decodes, opcodes are defined (at most `maxOpcode`), pushes at most 520 bytes -/
def inDomain (maxOpcode : Nat) (s : Bytes) : Bool :=
  match decode s with
  | none => false
  | some is => is.all (fun i => i.opcode ≤ maxOpcode && i.data.length ≤ maxElementSize)


/-- does the script contain an OP_SUCCESSx opcode at an instruction position (before any undecodable tail) -/
def hasOpSuccess (allowDisabled : Bool) (s : Bytes) : Bool :=
  (decodePrefix s.length s).1.any (fun p => isOpSuccess p.1.opcode && !(allowDisabled && disabled (Opcode.ofNat p.1.opcode)))

/-- result of evaluating one script: the state after every executed operation, and the outcome -/
structure Trace where
  states : List St        -- in execution order
  result : R St

/-- execute decoded instructions in order: states after each successful one, and the outcome -/
def evalInstrs (cfg : Cfg) : List (Instr × Bytes) → Nat → St → List St × R St
  | [], _, st => ([], .ok st)
  | (i, after) :: rest, pos, st =>
    match execInstr cfg i after pos st with
    | .ok st' => let r := evalInstrs cfg rest (pos + 1) st'; (st' :: r.1, r.2)
    | .error e => ([], .error e)

/-- Bitcoin's evaluation of one script on an initial stack (Core's `EvalScript`, step by step) -/
def evalScript (cfg : Cfg) (script : Bytes) (st0 : St) : Trace :=
  if (cfg.sigversion == .BASE || cfg.sigversion == .WITNESS_V0) && script.length > maxScriptSize then ⟨[], .error .SCRIPT_SIZE⟩
  else
    let d := decodePrefix script.length script
    let t := evalInstrs cfg d.1 0 { st0 with codeFrom := script }
    match t.2 with
    | .error e => ⟨t.1, .error e⟩
    | .ok st =>
      if !d.2 then ⟨t.1, .error .BAD_OPCODE⟩
      else if !st.cond.isEmpty then ⟨t.1, .error .UNBALANCED_CONDITIONAL⟩
      else ⟨t.1, .ok st⟩

end Btcdeb.Spec
