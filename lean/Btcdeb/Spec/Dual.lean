/-
  Specification of the two-column display (property C12, the part about `print_dualstack`).

  The display is a window on the session AT ONE POINT: its left column is the rest of the execution plan of
  `Btcdeb/Spec/Listing.lean` — the operations the following `step` commands perform, in the order in which they
  perform them, the first line being the operation of the very next step, nothing once the session has ended —
  and its right column is the stack, top first.  Long texts are abbreviated to the column width.
-/
import Btcdeb.Spec.Listing
namespace Btcdeb.Spec
open Btcdeb

/-- WHAT REMAINS TO BE EXECUTED at a point of a session: the commitment steps not yet made, the instructions of
    the current script from the current position on (decoded exactly, by the specification's own decoder), the
    hand-over pending for the current script, the scriptPubKey and its redeem script (`tailFuture`);
    nothing when the session has ended.  `redeem`: the item that is on top of the stack when the scriptPubKey of
    a P2SH spend is entered. -/
def remaining (redeem : Bytes) (e : Model.IEnv) : List PlanLine :=
  if e.done then []
  else commitFuture e.tce ++ planFrom e.see.script.length e.pc.length e.pc ++ tailFuture redeem e

/-- the texts of the left column: the plan, the commitment steps set off by two title lines -/
def leftColumn (redeem : Bytes) (e : Model.IEnv) : List String :=
  if e.done then []
  else
    (match e.tce with
     | some _ => "<<< taproot commitment >>>" :: (commitFuture e.tce).map (·.text) ++ ["<<< committed script >>>"]
     | none => []) ++
    (planFrom e.see.script.length e.pc.length e.pc ++ tailFuture redeem e).map (·.text)

/-- how a stack item is written: its bytes in hex, the empty item as `0x` -/
def itemText (it : Bytes) : String := if it.isEmpty then "0x" else toHex it

/-- the right column: the stack (given bottom first), top first -/
def stackColumn (stack : List Bytes) : List String := stack.reverse.map itemText

/-- a text in a column of `cap` characters: itself when it fits, otherwise its first `cap - 3` characters
    followed by three dots -/
def abbreviated (cap : Nat) (s : List Char) : List Char :=
  if s.length ≤ cap then s else s.take (cap - 3) ++ ['.', '.', '.']

/-- the widest a column gets -/
def columnCap : Nat := 66

end Btcdeb.Spec
