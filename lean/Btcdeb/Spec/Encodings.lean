/-
  Specification of the text encodings, independent of the C++ structure.

  * positional numerals (`numeral`, `numeralValue`, `fixedNumeral`)
  * Base58: the base-58 numeral of the big-endian number, one '1' per leading zero byte
  * Base58Check: payload followed by the first four bytes of the double SHA-256 of the payload
  * Bech32 (BIP173) and Bech32m (BIP350): HRP expansion, the BCH checksum of six 5-bit symbols with final
    constant 1 / 0x2bc830a3, character set, case and length rules — transcribed from the BIPs' reference code
  * regrouping of bit strings (`ConvertBits`): the output numeral denotes the same number as the input numeral
  * Bitcoin's compact size prefix
-/
import Btcdeb.Basic.Bytes
namespace Btcdeb.Spec
open Btcdeb

-- ---------------------------------------------------------------------------------------------
-- positional numerals

/-- value of a numeral in base `B`, most significant digit first -/
def numeralValue (B : Nat) (ds : List Nat) : Nat := ds.foldl (fun a d => a * B + d) 0

/-- digits of `n` in base `B`, least significant first, no digit for 0 -/
def numeralLE (B n : Nat) : List Nat :=
  if h : n = 0 ∨ B < 2 then [] else (n % B) :: numeralLE B (n / B)
termination_by n
decreasing_by
  have h1 : n ≠ 0 := fun e => h (Or.inl e)
  have h2 : 2 ≤ B := Nat.le_of_not_lt (fun e => h (Or.inr e))
  exact Nat.div_lt_self (Nat.pos_of_ne_zero h1) h2

/-- THE numeral of `n` in base `B`: most significant digit first, no leading zero digit (empty for 0) -/
def numeral (B n : Nat) : List Nat := (numeralLE B n).reverse

/-- the `len`-digit numeral of `n` in base `B`, most significant first (of `n mod B^len`) -/
def fixedNumeralLE (B : Nat) : Nat → Nat → List Nat
  | 0, _ => []
  | len + 1, n => (n % B) :: fixedNumeralLE B len (n / B)
def fixedNumeral (B len n : Nat) : List Nat := (fixedNumeralLE B len n).reverse

/-- big-endian value of a byte string -/
def beValue (b : Bytes) : Nat := numeralValue 256 (b.map UInt8.toNat)

-- ---------------------------------------------------------------------------------------------
-- Base58

def base58Alphabet : List Char :=
  ['1', '2', '3', '4', '5', '6', '7', '8', '9', 'A', 'B', 'C', 'D', 'E', 'F', 'G', 'H', 'J', 'K', 'L', 'M', 'N', 'P', 'Q',
   'R', 'S', 'T', 'U', 'V', 'W', 'X', 'Y', 'Z', 'a', 'b', 'c', 'd', 'e', 'f', 'g', 'h', 'i', 'j', 'k', 'm', 'n', 'o', 'p',
   'q', 'r', 's', 't', 'u', 'v', 'w', 'x', 'y', 'z']

/-- the character standing for digit `d` -/
def base58Char (d : Nat) : UInt8 := UInt8.ofNat (base58Alphabet.getD d '1').toNat
/-- the digit a character stands for -/
def base58Digit (c : UInt8) : Option Nat := base58Alphabet.idxOf? (Char.ofNat c.toNat)

/-- number of leading zero bytes -/
def leadingZeros (b : Bytes) : Nat := (b.takeWhile (· == 0)).length

/-- Base58: one '1' per leading zero byte, then the base-58 numeral of the number the bytes denote -/
def base58Encode (b : Bytes) : Bytes :=
  List.replicate (leadingZeros b) (base58Char 0) ++ (numeral 58 (beValue b)).map base58Char

/-- inverse reading: every character is a base-58 digit; one zero byte per leading '1', then the base-256
    numeral of the number the digits denote -/
def base58Decode (s : Bytes) : Option Bytes :=
  match s.mapM base58Digit with
  | none => none
  | some ds =>
    some (List.replicate (ds.takeWhile (· == 0)).length 0 ++ (numeral 256 (numeralValue 58 ds)).map UInt8.ofNat)

/-- Base58Check: payload ‖ first 4 bytes of `hash256 payload` -/
def base58CheckEncode (hash256 : Bytes → Bytes) (payload : Bytes) : Bytes :=
  base58Encode (payload ++ (hash256 payload).take 4)

def base58CheckDecode (hash256 : Bytes → Bytes) (s : Bytes) : Option Bytes :=
  match base58Decode s with
  | none => none
  | some v =>
    if v.length < 4 then none
    else
      let payload := v.take (v.length - 4)
      if (hash256 payload).take 4 == v.drop (v.length - 4) then some payload else none

-- ---------------------------------------------------------------------------------------------
-- regrouping bits (BIP173 "convertbits")

/-- with padding: the digits in base `2^tobits` (as many as are needed for all input bits) of the input number
    shifted left so that the bits line up at the top -/
def regroupPad (frombits tobits : Nat) (xs : List Nat) : List Nat :=
  let nbits := xs.length * frombits
  let outLen := (nbits + tobits - 1) / tobits
  fixedNumeral (2 ^ tobits) outLen (numeralValue (2 ^ frombits) xs * 2 ^ (outLen * tobits - nbits))

/-- without padding: the surplus bits must be fewer than `frombits` and all zero; they are dropped -/
def regroupNoPad (frombits tobits : Nat) (xs : List Nat) : Option (List Nat) :=
  let nbits := xs.length * frombits
  let outLen := nbits / tobits
  let rem := nbits - outLen * tobits
  let v := numeralValue (2 ^ frombits) xs
  if rem ≥ frombits || v % 2 ^ rem != 0 then none
  else some (fixedNumeral (2 ^ tobits) outLen (v / 2 ^ rem))

-- ---------------------------------------------------------------------------------------------
-- Bech32 / Bech32m (BIP173, BIP350 reference code)

inductive Bech32Variant where
  | bech32 | bech32m
deriving Repr, DecidableEq, Inhabited

def bech32Const : Bech32Variant → Nat
  | .bech32 => 1
  | .bech32m => 0x2bc830a3

def bech32Charset : List Char :=
  ['q', 'p', 'z', 'r', 'y', '9', 'x', '8', 'g', 'f', '2', 't', 'v', 'd', 'w', '0', 's', '3', 'j', 'n', '5', '4', 'k', 'h',
   'c', 'e', '6', 'm', 'u', 'a', '7', 'l']

def bech32Char (d : Nat) : UInt8 := UInt8.ofNat (bech32Charset.getD d 'q').toNat
def bech32Digit (c : UInt8) : Option Nat := bech32Charset.idxOf? (Char.ofNat c.toNat)

def bech32Generator : List Nat := [0x3b6a57b2, 0x26508e6d, 0x1ea119fa, 0x3d4233dd, 0x2a1462b3]

/-- `bech32_polymod`:  b = chk >> 25; chk = (chk & 0x1ffffff) << 5 ^ v; chk ^= GEN[i] if ((b >> i) & 1) -/
def bech32PolymodStep (chk v : Nat) : Nat :=
  let b := chk >>> 25
  let chk := ((chk &&& 0x1ffffff) <<< 5) ^^^ v
  (List.range 5).foldl (fun c i => if (b >>> i) % 2 == 1 then c ^^^ bech32Generator.getD i 0 else c) chk

def bech32Polymod (values : List Nat) : Nat := values.foldl bech32PolymodStep 1

/-- `bech32_hrp_expand` -/
def bech32HrpExpand (hrp : Bytes) : List Nat :=
  hrp.map (fun c => c.toNat / 32) ++ [0] ++ hrp.map (fun c => c.toNat % 32)

/-- `bech32_verify_checksum`: which variant, if any, the checksum is valid for -/
def bech32Verify (hrp : Bytes) (data : List Nat) : Option Bech32Variant :=
  let c := bech32Polymod (bech32HrpExpand hrp ++ data)
  if c == bech32Const .bech32 then some .bech32
  else if c == bech32Const .bech32m then some .bech32m
  else none

/-- `bech32_create_checksum` -/
def bech32CreateChecksum (variant : Bech32Variant) (hrp : Bytes) (data : List Nat) : List Nat :=
  let polymod := bech32Polymod (bech32HrpExpand hrp ++ data ++ [0, 0, 0, 0, 0, 0]) ^^^ bech32Const variant
  (List.range 6).map (fun i => (polymod >>> (5 * (5 - i))) % 32)

/-- `bech32_encode` -/
def bech32Encode (variant : Bech32Variant) (hrp : Bytes) (data : List Nat) : Bytes :=
  hrp ++ [UInt8.ofNat '1'.toNat] ++ (data ++ bech32CreateChecksum variant hrp data).map bech32Char

def isUpperB (c : UInt8) : Bool := 65 ≤ c.toNat && c.toNat ≤ 90
def isLowerB (c : UInt8) : Bool := 97 ≤ c.toNat && c.toNat ≤ 122
def toLowerB (c : UInt8) : UInt8 := if isUpperB c then UInt8.ofNat (c.toNat + 32) else c

/-- position of the last '1' -/
def lastSeparator (s : Bytes) : Option Nat :=
  match s.reverse.idxOf? (UInt8.ofNat '1'.toNat) with
  | none => none
  | some k => some (s.length - 1 - k)

/-- `bech32_decode`: characters 33..126, not mixed case, at most 90 characters, separator not first and at
    least six characters after it, data characters in the character set, checksum valid for one variant -/
def bech32Decode (bech : Bytes) : Option (Bech32Variant × Bytes × List Nat) :=
  if bech.any (fun c => c.toNat < 33 || c.toNat > 126) then none
  else if bech.any isUpperB && bech.any isLowerB then none
  else
    let bech := bech.map toLowerB
    match lastSeparator bech with
    | none => none
    | some pos =>
      if pos < 1 || pos + 7 > bech.length || bech.length > 90 then none
      else
        let hrp := bech.take pos
        match (bech.drop (pos + 1)).mapM bech32Digit with
        | none => none
        | some data =>
          match bech32Verify hrp data with
          | none => none
          | some variant => some (variant, hrp, data.take (data.length - 6))

-- ---------------------------------------------------------------------------------------------
-- compact size

/-- little-endian bytes, fixed width -/
def leBytesFixed : Nat → Nat → Bytes
  | 0, _ => []
  | k + 1, n => UInt8.ofNat (n % 256) :: leBytesFixed k (n / 256)

/-- Bitcoin's variable-length integer -/
def compactSize (n : Nat) : Bytes :=
  if n < 253 then [UInt8.ofNat n]
  else if n < 2 ^ 16 then 253 :: leBytesFixed 2 n
  else if n < 2 ^ 32 then 254 :: leBytesFixed 4 n
  else 255 :: leBytesFixed 8 n

/-- reading a compact size back: value and the remaining bytes -/
def readCompactSize (b : Bytes) : Option (Nat × Bytes) :=
  match b with
  | [] => none
  | h :: rest =>
    if h.toNat < 253 then some (h.toNat, rest)
    else
      let w := if h.toNat == 253 then 2 else if h.toNat == 254 then 4 else 8
      if rest.length < w then none else some (leValue (rest.take w), rest.drop w)

end Btcdeb.Spec
