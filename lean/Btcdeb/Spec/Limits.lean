/-
  Consensus constants of the specification, as numbers (Properties/Tables proves the code's constants
  equal these), and BIP342's OP_SUCCESSx list.
-/
namespace Btcdeb.Spec

def maxElementSize : Nat := 520
def maxOpsPerScript : Nat := 201
def maxPubkeysPerMultisig : Nat := 20
def maxScriptSize : Nat := 10000
def maxStackSize : Nat := 1000

/-- BIP342 OP_SUCCESSx opcodes -/
def isOpSuccess (o : Nat) : Bool :=
  o == 80 || o == 98 || (126 ≤ o && o ≤ 129) || (131 ≤ o && o ≤ 134) || (137 ≤ o && o ≤ 138) ||
  (141 ≤ o && o ≤ 142) || (149 ≤ o && o ≤ 153) || (187 ≤ o && o ≤ 254)

end Btcdeb.Spec
