/-
  Specification of the three transaction digests that Bitcoin signatures commit to, and of "this signature is
  valid for this input":

    * the original digest (Satoshi's `SignatureHash`): a modified copy of the transaction is encoded and
      double-SHA256 hashed, with the hash type appended;
    * BIP143 (segregated witness version 0);
    * BIP341 (taproot key path) with the BIP342 extension (tapscript).

  Written as the texts define them: straight-line, every hash computed from the transaction, no caches, no
  readiness flags, no streams.  Only the record types (`Model.Tx` ...) and the transaction encoding of
  `Spec/Tx.lean` and `FindAndDelete` of `Spec/Script.lean` are reused.

  A hash type is the natural number that is appended to the transaction (32 bits, legacy / BIP143) or the single
  byte in front of the BIP341 message.  `ht % 32` are its low five bits ("base type": 2 = NONE, 3 = SINGLE, anything
  else behaves as ALL), `ht / 128 % 2 = 1` says that bit 7 (ANYONECANPAY) is set.
  Core Lean only.
-/
import Btcdeb.Basic.Bytes
import Btcdeb.Spec.Types
import Btcdeb.Spec.Script
import Btcdeb.Spec.Tx
namespace Btcdeb.Spec
open Btcdeb

/-- 32 zero bytes -/
def zeros32 : Bytes := List.replicate 32 0

/-- the number one as a 256-bit little-endian integer -/
def one32 : Bytes := leFixed 32 1

/-- bit 7 of the hash type: SIGHASH_ANYONECANPAY -/
def anyoneCanPay (ht : Nat) : Prop := ht / 128 % 2 = 1
instance (ht : Nat) : Decidable (anyoneCanPay ht) := by unfold anyoneCanPay; exact inferInstance

/-- the low five bits are SIGHASH_NONE -/
def isNone (ht : Nat) : Prop := ht % 32 = 2
instance (ht : Nat) : Decidable (isNone ht) := by unfold isNone; exact inferInstance

/-- the low five bits are SIGHASH_SINGLE -/
def isSingle (ht : Nat) : Prop := ht % 32 = 3
instance (ht : Nat) : Decidable (isSingle ht) := by unfold isSingle; exact inferInstance

/-- outpoint: txid | index LE32 -/
def encodeOutPoint (o : Model.OutPoint) : Bytes := o.hash ++ leFixed 4 o.n

/-! ## the original digest -/

/-- the script that is signed: the script code with every OP_CODESEPARATOR removed (`FindAndDelete(scriptCode, OP_CODESEPARATOR)`) -/
def withoutCodeSeparators (scriptCode : Bytes) : Bytes := (findAndDelete scriptCode [0xab]).1

/-- The transaction copy that the original algorithm hashes:
    all input scripts are blanked except that of input `nIn`, which becomes the script code without code separators;
    NONE: no outputs, and the other inputs' sequence numbers are zeroed;
    SINGLE: only the outputs up to `nIn`, those before `nIn` replaced by (-1, empty script), other sequences zeroed;
    ANYONECANPAY: input `nIn` is the only input. -/
def legacyTxCopy (tx : Model.Tx) (nIn : Nat) (scriptCode : Bytes) (ht : Nat) : Model.Tx :=
  let ins : List Model.TxIn := tx.vin.mapIdx (fun k i =>
    { prevout := i.prevout
      scriptSig := if k = nIn then withoutCodeSeparators scriptCode else []
      sequence := if k ≠ nIn ∧ (isNone ht ∨ isSingle ht) then 0 else i.sequence
      witness := [] })
  let ins := if anyoneCanPay ht then ins[nIn]?.toList else ins
  let outs : List Model.TxOut :=
    if isNone ht then []
    else if isSingle ht then
      (tx.vout.take (nIn + 1)).mapIdx (fun k o => if k = nIn then o else { value := -1, scriptPubKey := [] })
    else tx.vout
  { version := tx.version, vin := ins, vout := outs, lockTime := tx.lockTime }

/-- the original signature digest of input `nIn` (which must exist).
    SIGHASH_SINGLE without a matching output: the digest is the number one (the historical quirk, consensus). -/
def legacyDigest (sha256 : Bytes → Bytes) (scriptCode : Bytes) (tx : Model.Tx) (nIn ht : Nat) : Bytes :=
  if isSingle ht ∧ tx.vout.length ≤ nIn then one32
  else sha256 (sha256 (encodeTx (legacyTxCopy tx nIn scriptCode ht) false ++ leFixed 4 ht))

/-! ## BIP143 -/

/-- BIP143 digest of input `nIn` (which must exist; otherwise the empty string):
    1 nVersion | 2 hashPrevouts | 3 hashSequence | 4 outpoint | 5 scriptCode | 6 amount | 7 nSequence | 8 hashOutputs
    | 9 nLockTime | 10 sighash type, double SHA-256 -/
def bip143Digest (sha256 : Bytes → Bytes) (scriptCode : Bytes) (tx : Model.Tx) (nIn ht : Nat) (amount : Int) : Bytes :=
  let dsha := fun b => sha256 (sha256 b)
  let hashPrevouts :=
    if anyoneCanPay ht then zeros32 else dsha (tx.vin.map (fun i => encodeOutPoint i.prevout)).flatten
  let hashSequence :=
    if ¬ anyoneCanPay ht ∧ ¬ isSingle ht ∧ ¬ isNone ht then dsha (tx.vin.map (fun i => leFixed 4 i.sequence)).flatten
    else zeros32
  let hashOutputs :=
    if ¬ isSingle ht ∧ ¬ isNone ht then dsha (tx.vout.map encodeOut).flatten
    else match (if isSingle ht then tx.vout[nIn]? else none) with
      | some o => dsha (encodeOut o)
      | none => zeros32
  match tx.vin[nIn]? with
  | none => []
  | some i =>
    dsha (leFixed 4 (twos 32 tx.version) ++ hashPrevouts ++ hashSequence ++ encodeOutPoint i.prevout
      ++ encodeBytes scriptCode ++ leFixed 8 (twos 64 amount) ++ leFixed 4 i.sequence ++ hashOutputs
      ++ leFixed 4 tx.lockTime ++ leFixed 4 ht)

/-! ## BIP341 / BIP342 -/

/-- the BIP342 extension of the message: tapleaf hash and the position of the last executed OP_CODESEPARATOR
    (0xffffffff if none); key version is 0 -/
structure TapExt where
  leafHash : Bytes
  codesepPos : Nat
deriving Repr, DecidableEq

/-- ASCII "TapSighash" -/
def tapSighashTag : Bytes := [84, 97, 112, 83, 105, 103, 104, 97, 115, 104]

/-- BIP340 tagged hash -/
def tagged (sha256 : Bytes → Bytes) (tag msg : Bytes) : Bytes := sha256 (sha256 tag ++ sha256 tag ++ msg)

/-- the hash types BIP341 defines -/
def tapHashTypeValid (ht : Nat) : Prop := ht = 0 ∨ ht = 1 ∨ ht = 2 ∨ ht = 3 ∨ ht = 0x81 ∨ ht = 0x82 ∨ ht = 0x83
instance (ht : Nat) : Decidable (tapHashTypeValid ht) := by unfold tapHashTypeValid; exact inferInstance

/-- BIP341: the signature message exists: the hash type is defined, and SIGHASH_SINGLE has a corresponding output -/
def bip341Defined (tx : Model.Tx) (nIn ht : Nat) : Prop :=
  tapHashTypeValid ht ∧ (ht % 4 = 3 → nIn < tx.vout.length)
instance (tx : Model.Tx) (nIn ht : Nat) : Decidable (bip341Defined tx nIn ht) := by unfold bip341Defined; exact inferInstance

/-- `SigMsg(hash_type, ext_flag)` of BIP341, followed by the BIP342 extension when `ext` is given (ext_flag = 1).
    `spent` lists the outputs spent by the inputs, in order; `annex` is the annex including its 0x50 prefix byte. -/
def bip341SigMsg (sha256 : Bytes → Bytes) (tx : Model.Tx) (nIn ht : Nat) (spent : List Model.TxOut)
    (annex : Option Bytes) (ext : Option TapExt) : Bytes :=
  let out : Nat := ht % 4                                   -- 0 (default) and 1: ALL, 2: NONE, 3: SINGLE
  let extFlag : Nat := if ext.isSome then 1 else 0
  let spendType : Nat := extFlag * 2 + (if annex.isSome then 1 else 0)
  [UInt8.ofNat ht] ++ leFixed 4 (twos 32 tx.version) ++ leFixed 4 tx.lockTime
    ++ (if anyoneCanPay ht then [] else
          sha256 (tx.vin.map (fun i => encodeOutPoint i.prevout)).flatten                 -- sha_prevouts
          ++ sha256 (spent.map (fun o => leFixed 8 (twos 64 o.value))).flatten            -- sha_amounts
          ++ sha256 (spent.map (fun o => encodeBytes o.scriptPubKey)).flatten             -- sha_scriptpubkeys
          ++ sha256 (tx.vin.map (fun i => leFixed 4 i.sequence)).flatten)                 -- sha_sequences
    ++ (if out = 2 ∨ out = 3 then [] else sha256 (tx.vout.map encodeOut).flatten)       -- sha_outputs
    ++ [UInt8.ofNat spendType]
    ++ (if anyoneCanPay ht then
          (match tx.vin[nIn]?, spent[nIn]? with
           | some i, some o => encodeOutPoint i.prevout ++ encodeOut o ++ leFixed 4 i.sequence
           | _, _ => [])
        else leFixed 4 nIn)
    ++ (match annex with | some a => sha256 (encodeBytes a) | none => [])                 -- sha_annex
    ++ (if out = 3 then (match tx.vout[nIn]? with | some o => sha256 (encodeOut o) | none => []) else [])
    ++ (match ext with | some e => e.leafHash ++ [0x00] ++ leFixed 4 e.codesepPos | none => [])

/-- the BIP341 / BIP342 digest: `hash_TapSighash(0x00 || SigMsg || ext)`; meaningful when `bip341Defined` -/
def bip341Digest (sha256 : Bytes → Bytes) (tx : Model.Tx) (nIn ht : Nat) (spent : List Model.TxOut)
    (annex : Option Bytes) (ext : Option TapExt) : Bytes :=
  tagged sha256 tapSighashTag ([0x00] ++ bip341SigMsg sha256 tx nIn ht spent annex ext)

/-! ## valid signatures -/

/-- a public key in SEC1 shape: 33 bytes starting 02/03, or 65 bytes starting 04 (uncompressed) or 06/07 (hybrid) -/
def secShape (key : Bytes) : Prop :=
  let h := (key.headD 0).toNat
  (key.length = 33 ∧ (h = 2 ∨ h = 3)) ∨ (key.length = 65 ∧ (h = 4 ∨ h = 6 ∨ h = 7))
instance (key : Bytes) : Decidable (secShape key) := by unfold secShape; exact inferInstance

/-- `sig` (DER signature followed by the hash type byte) is a valid ECDSA signature by `key` for input `nIn` of `tx`
    with script code `scriptCode`: over the BIP143 digest for witness version 0 (which needs the amount), over the
    original digest otherwise.  `ecdsaVerify key der digest` is ECDSA verification. -/
def ecdsaSigValid (sha256 : Bytes → Bytes) (ecdsaVerify : Bytes → Bytes → Bytes → Bool) (tx : Model.Tx) (nIn : Nat)
    (amount : Int) (sig key scriptCode : Bytes) (sv : SigVersion) : Bool :=
  match sig.getLast? with
  | none => false
  | some htb =>
    let ht := htb.toNat
    decide (secShape key) &&
    (if sv = .WITNESS_V0 then
      decide (0 ≤ amount) && ecdsaVerify key sig.dropLast (bip143Digest sha256 scriptCode tx nIn ht amount)
     else ecdsaVerify key sig.dropLast (legacyDigest sha256 scriptCode tx nIn ht))

/-- BIP341 signature validation rules for a 32-byte key: a 64-byte signature signs with the default hash type 0x00,
    a 65-byte signature carries the hash type in its last byte, which must not be 0x00; the message must be defined.
    Error = the script error that validation selects. -/
def schnorrSigValid (sha256 : Bytes → Bytes) (schnorrVerify : Bytes → Bytes → Bytes → Bool) (tx : Model.Tx) (nIn : Nat)
    (spent : List Model.TxOut) (annex : Option Bytes) (ext : Option TapExt) (sig key : Bytes) : Except ScriptError Unit :=
  let check := fun (ht : Nat) (s : Bytes) =>
    if ¬ bip341Defined tx nIn ht then .error ScriptError.SCHNORR_SIG_HASHTYPE
    else if schnorrVerify key (bip341Digest sha256 tx nIn ht spent annex ext) s then .ok ()
    else .error ScriptError.SCHNORR_SIG
  if sig.length = 64 then check 0 sig
  else if sig.length = 65 then
    (if (sig.getLast?.getD 0).toNat = 0 then .error .SCHNORR_SIG_HASHTYPE else check (sig.getLast?.getD 0).toNat sig.dropLast)
  else .error .SCHNORR_SIG_SIZE

/-! ## lock times -/

/-- BIP65: the operand and the transaction's lock time are of the same kind (block height below 500000000, time
    otherwise), the operand is not after the lock time, and the input is not final -/
def bip65Satisfied (tx : Model.Tx) (nIn : Nat) (n : Int) : Bool :=
  match tx.vin[nIn]? with
  | none => false
  | some i =>
    decide (((tx.lockTime : Int) < 500000000 ↔ n < 500000000) ∧ n ≤ (tx.lockTime : Int) ∧ i.sequence ≠ 0xffffffff)

/-- BIP112 for a non-negative operand: transaction version (as unsigned) at least 2, the input's sequence number has
    the disable bit 31 clear, both have the same type bit 22, and the operand's 16-bit value is not larger -/
def bip112Satisfied (tx : Model.Tx) (nIn : Nat) (n : Nat) : Bool :=
  match tx.vin[nIn]? with
  | none => false
  | some i =>
    decide (2 ≤ twos 32 tx.version ∧ i.sequence / 2 ^ 31 % 2 = 0 ∧ i.sequence / 2 ^ 22 % 2 = n / 2 ^ 22 % 2
      ∧ n % 2 ^ 16 ≤ i.sequence % 2 ^ 16)

end Btcdeb.Spec
