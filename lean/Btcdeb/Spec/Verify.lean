/-
  Specification: validation of one transaction input (BIP16, BIP141, BIP143 via the oracle, BIP341, BIP342),
  as Bitcoin's consensus code (`VerifyScript`) defines it.  This is what a `--tx`+`--txin` session must reproduce.
-/
import Btcdeb.Spec.Script
import Btcdeb.Spec.Taproot
namespace Btcdeb.Spec
open Btcdeb

/-- everything validation needs from the transaction context -/
structure SpendCtx where
  /-- signature oracle for scripts executed under `sv`, with the annex and leaf hash of the spend (taproot) -/
  oracleFor : SigVersion → (annex : Option Bytes) → (leafHash : Option Bytes) → SigOracle
  sha256 : Bytes → Bytes
  hash160 : Bytes → Bytes
  tap : TapOracle

def isP2SH (spk : Bytes) : Bool :=
  spk.length == 23 && spk[0]? == some 0xa9 && spk[1]? == some 0x14 && spk[22]? == some 0x87

/-- BIP141 witness program: a 1-byte push opcode (version 0..16) followed by one direct push of 2..40 bytes -/
def witnessProgram (spk : Bytes) : Option (Nat × Bytes) :=
  match spk with
  | v :: l :: prog =>
    if spk.length < 4 || spk.length > 42 then none
    else if !(v.toNat == 0 || (0x51 ≤ v.toNat && v.toNat ≤ 0x60)) then none
    else if l.toNat + 2 != spk.length then none
    else some (if v.toNat == 0 then 0 else v.toNat - 0x50, prog)
  | _ => none

def isPushOnly (s : Bytes) : Bool :=
  match decode s with
  | none => false
  | some is => is.all (fun i => i.opcode ≤ 0x60)

/-- run one script to completion on an initial stack (top first) -/
def runScript (cx : SpendCtx) (flags : Nat) (sv : SigVersion) (annex leaf : Option Bytes) (script : Bytes) (st0 : St) : R St :=
  (evalScript { flags := flags, sigversion := sv, oracle := cx.oracleFor sv annex leaf } script st0).result

def p2pkhScript (h : Bytes) : Bytes := [0x76, 0xa9, 0x14] ++ h ++ [0x88, 0xac]

def witnessStackSize (w : List Bytes) : Nat :=
  (varint w.length).length + (w.map (fun i => (varint i.length).length + i.length)).sum

/-- `ExecuteWitnessScript`: witness items bottom-first in `items` -/
def executeWitnessScript (cx : SpendCtx) (flags : Nat) (sv : SigVersion) (annex leaf : Option Bytes)
    (items : List Bytes) (script : Bytes) (weight : Int) : R Unit := do
  if sv == .TAPSCRIPT then
    -- OP_SUCCESSx processing overrides everything, including stack element size limits
    let d := decodePrefix script.length script
    match d.1.find? (fun p => isOpSuccess p.1.opcode) with
    | some _ =>
      -- (an undecodable instruction *before* the first OP_SUCCESS fails first; decodePrefix stops there)
      if hasFlag flags Flag.DISCOURAGE_OP_SUCCESS then throw .DISCOURAGE_OP_SUCCESS else return ()
    | none =>
      if !d.2 then throw .BAD_OPCODE
      if items.length > maxStackSize then throw .STACK_SIZE
  if items.any (fun i => i.length > maxElementSize) then throw .PUSH_SIZE
  let st ← runScript cx flags sv annex leaf script
              { stack := items.reverse, weightLeft := weight, weightInit := sv == .TAPSCRIPT }
  if st.stack.length != 1 then throw .CLEANSTACK
  match st.stack with
  | [t] => if toBool t then return () else throw .EVAL_FALSE
  | _ => throw .CLEANSTACK

/-- `VerifyWitnessProgram` -/
def verifyWitnessProgram (cx : SpendCtx) (flags : Nat) (witness : List Bytes) (ver : Nat) (prog : Bytes) (isP2sh : Bool) : R Unit := do
  if ver == 0 then
    if prog.length == 32 then
      match witness.getLast? with
      | none => throw .WITNESS_PROGRAM_WITNESS_EMPTY
      | some script =>
        if cx.sha256 script != prog then throw .WITNESS_PROGRAM_MISMATCH
        executeWitnessScript cx flags .WITNESS_V0 none none witness.dropLast script 0
    else if prog.length == 20 then
      if witness.length != 2 then throw .WITNESS_PROGRAM_MISMATCH
      executeWitnessScript cx flags .WITNESS_V0 none none witness (p2pkhScript prog) 0
    else throw .WITNESS_PROGRAM_WRONG_LENGTH
  else if ver == 1 && prog.length == 32 && !isP2sh then
    if !hasFlag flags Flag.TAPROOT then return ()
    match witness.getLast? with
    | none => throw .WITNESS_PROGRAM_WITNESS_EMPTY
    | some last =>
      let hasAnnex := witness.length ≥ 2 && last.head? == some 0x50
      let annex := if hasAnnex then some last else none
      let stack := if hasAnnex then witness.dropLast else witness
      match stack with
      | [sig] =>
        -- key path
        match (cx.oracleFor .TAPROOT annex none).schnorr sig prog .TAPROOT 0xFFFFFFFF with
        | .ok () => return ()
        | .error e => throw e
      | _ =>
        match stack.getLast?, stack.dropLast.getLast? with
        | some control, some script =>
          if control.length < 33 || control.length > 33 + 32 * 128 || (control.length - 33) % 32 != 0 then
            throw .TAPROOT_WRONG_CONTROL_SIZE
          if !bip341Valid cx.tap control script prog then throw .WITNESS_PROGRAM_MISMATCH
          let c0 := (control.headD 0).toNat
          let leafVer := c0 - c0 % 2
          if leafVer == 0xc0 then
            let leaf := tapLeafHash cx.tap leafVer script
            executeWitnessScript cx flags .TAPSCRIPT annex (some leaf) stack.dropLast.dropLast script
              ((witnessStackSize witness + 50 : Nat) : Int)
          else if hasFlag flags Flag.DISCOURAGE_UPGRADABLE_TAPROOT_VERSION then throw .DISCOURAGE_UPGRADABLE_TAPROOT_VERSION
          else return ()
        | _, _ => throw .WITNESS_PROGRAM_WITNESS_EMPTY     -- unreachable: the stack has at least two items here
  else
    if hasFlag flags Flag.DISCOURAGE_UPGRADABLE_WITNESS_PROGRAM then throw .DISCOURAGE_UPGRADABLE_WITNESS_PROGRAM
    else return ()

def evalTrue (st : St) : R Unit :=
  match st.stack with
  | [] => throw .EVAL_FALSE
  | t :: _ => if toBool t then return () else throw .EVAL_FALSE

/-- `VerifyScript(scriptSig, scriptPubKey, witness, flags, checker)` -/
def verifyScript (cx : SpendCtx) (flags : Nat) (scriptSig scriptPubKey : Bytes) (witness : List Bytes) : R Unit := do
  if hasFlag flags Flag.SIGPUSHONLY && !isPushOnly scriptSig then throw .SIG_PUSHONLY
  let s1 ← runScript cx flags .BASE none none scriptSig {}
  let s2 ← runScript cx flags .BASE none none scriptPubKey { stack := s1.stack }
  evalTrue s2
  let mut finalSize := s2.stack.length
  let mut hadWitness := false
  if hasFlag flags Flag.WITNESS then
    match witnessProgram scriptPubKey with
    | some (ver, prog) =>
      hadWitness := true
      if !scriptSig.isEmpty then throw .WITNESS_MALLEATED
      verifyWitnessProgram cx flags witness ver prog false
      finalSize := 1
    | none => pure ()
  if hasFlag flags Flag.P2SH && isP2SH scriptPubKey then
    if !isPushOnly scriptSig then throw .SIG_PUSHONLY
    match s1.stack with
    | [] => throw .EVAL_FALSE       -- unreachable (the scriptPubKey would have failed)
    | redeem :: rest =>
      let s3 ← runScript cx flags .BASE none none redeem { stack := rest }
      evalTrue s3
      finalSize := s3.stack.length
      if hasFlag flags Flag.WITNESS then
        match witnessProgram redeem with
        | some (ver, prog) =>
          hadWitness := true
          if scriptSig != pushOf redeem then throw .WITNESS_MALLEATED_P2SH
          verifyWitnessProgram cx flags witness ver prog true
          finalSize := 1
        | none => pure ()
  if hasFlag flags Flag.CLEANSTACK then
    if finalSize != 1 then throw .CLEANSTACK
  if hasFlag flags Flag.WITNESS then
    if !hadWitness && !witness.isEmpty then throw .WITNESS_UNEXPECTED
  return ()

end Btcdeb.Spec
