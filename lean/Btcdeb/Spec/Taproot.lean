/-
  BIP341 script-path commitment rule, declaratively.
-/
import Btcdeb.Basic.Bytes
namespace Btcdeb.Spec
open Btcdeb

/-- hashing and key arithmetic BIP341 is stated over -/
structure TapOracle where
  /-- BIP340 tagged hash -/
  taggedHash : String → Bytes → Bytes
  /-- does tweaking the x-only key `p` with the scalar `t` give the x-only key `q` with the given parity of y -/
  tweakCheck : (q p t : Bytes) → Bool → Bool

def varint (n : Nat) : Bytes :=
  if n < 253 then [UInt8.ofNat n]
  else if n ≤ 0xffff then 253 :: leFixed 2 n
  else if n ≤ 0xffffffff then 254 :: leFixed 4 n
  else 255 :: leFixed 8 n

/-- lexicographic order on byte strings -/
def bytesLt : Bytes → Bytes → Bool
  | [], [] => false
  | [], _ :: _ => true
  | _ :: _, [] => false
  | a :: as, b :: bs => a.toNat < b.toNat || (a.toNat == b.toNat && bytesLt as bs)

def tapLeafHash (o : TapOracle) (leafVersion : Nat) (script : Bytes) : Bytes :=
  o.taggedHash "TapLeaf" (UInt8.ofNat leafVersion :: (varint script.length ++ script))

/-- TapBranch of two nodes, smaller first -/
def tapBranchHash (o : TapOracle) (a b : Bytes) : Bytes :=
  if bytesLt a b then o.taggedHash "TapBranch" (a ++ b) else o.taggedHash "TapBranch" (b ++ a)

/-- split the path part of a control block into 32-byte nodes -/
def pathNodes : Nat → Bytes → List Bytes
  | 0, _ => []
  | k + 1, b => if b.length < 32 then [] else b.take 32 :: pathNodes k (b.drop 32)

/-- the Merkle roots along the path: leaf hash, then after each node -/
def merkleChain (o : TapOracle) (leaf : Bytes) : List Bytes → List Bytes
  | [] => [leaf]
  | n :: rest => leaf :: merkleChain o (tapBranchHash o leaf n) rest

/-- BIP341: the control block `c` and leaf script `s` commit to the witness program `q` -/
def bip341Valid (o : TapOracle) (c s q : Bytes) : Bool :=
  33 ≤ c.length && c.length ≤ 33 + 32 * 128 && (c.length - 33) % 32 == 0 &&
  (let c0 := (c.headD 0).toNat
   let p := (c.drop 1).take 32
   let nodes := pathNodes ((c.length - 33) / 32) (c.drop 33)
   let root := (merkleChain o (tapLeafHash o (c0 - c0 % 2) s) nodes).getLastD []
   o.tweakCheck q p (o.taggedHash "TapTweak" (p ++ root)) (c0 % 2 == 1))

end Btcdeb.Spec
