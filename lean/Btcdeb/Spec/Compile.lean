/-
  Specification of the script assembler (`btcc`): tokens as an abstract syntax tree, their reading from
  program text by a small recursive-descent grammar, and the encoding each token must produce.
-/
import Btcdeb.Basic.Bytes
import Btcdeb.Spec.Opcode
import Btcdeb.Model.ScriptNum
namespace Btcdeb.Spec
open Btcdeb

/-- a token of the assembler's input language -/
inductive Tok where
  | op (code : Nat)             -- an opcode name (with or without OP_, or the OP_xNN escape)
  | int (n : Int)               -- a decimal integer
  | hex (d : Bytes)             -- a hex literal: exactly these bytes are to be placed on the stack
  | sub (body : List Tok)       -- a bracketed sub-script
deriving Repr, Inhabited

/-- push encoding chosen by length only -/
def lengthPush (b : Bytes) : Bytes :=
  if b.length < 0x4c then UInt8.ofNat b.length :: b
  else if b.length ≤ 0xff then 0x4c :: UInt8.ofNat b.length :: b
  else if b.length ≤ 0xffff then 0x4d :: (leFixed 2 b.length ++ b)
  else 0x4e :: (leFixed 4 b.length ++ b)

/-- THE minimal-form push that places exactly `d` on the stack (Bitcoin's minimal-push rule) -/
def minimalPushOf (d : Bytes) : Bytes :=
  match d with
  | [] => [0x00]
  | [b] => if 1 ≤ b.toNat ∧ b.toNat ≤ 16 then [UInt8.ofNat (0x50 + b.toNat)]
           else if b.toNat = 0x81 then [0x4f] else lengthPush d
  | _ => lengthPush d

mutual
/-- what each token must assemble to -/
def compileTok : Tok → Bytes
  | .op c => [UInt8.ofNat c]
  | .int n => minimalPushOf (Model.serialize n)
  | .hex d => minimalPushOf d
  | .sub body => minimalPushOf (compileToks body)
def compileToks : List Tok → Bytes
  | [] => []
  | t :: ts => compileTok t ++ compileToks ts
end

-- ---------------------------------------------------------------------------------------------
-- reading tokens from text

def isHexDigit (c : UInt8) : Bool :=
  (48 ≤ c.toNat && c.toNat ≤ 57) || (97 ≤ c.toNat && c.toNat ≤ 102) || (65 ≤ c.toNat && c.toNat ≤ 70)
def hexNibble (c : UInt8) : Nat :=
  if c.toNat ≤ 57 then c.toNat - 48 else if c.toNat ≥ 97 then c.toNat - 87 else c.toNat - 55
def unhexPairs : Bytes → Bytes
  | a :: b :: rest => UInt8.ofNat (hexNibble a * 16 + hexNibble b) :: unhexPairs rest
  | _ => []
def isDec (c : UInt8) : Bool := 48 ≤ c.toNat && c.toNat ≤ 57
def decValue (ds : Bytes) : Nat := ds.foldl (fun a c => a * 10 + (c.toNat - 48)) 0
def asString (b : Bytes) : String := String.ofList (b.map (fun c => Char.ofNat c.toNat))

/-- canonical decimal: `0`, or optional `-` then a non-zero digit then digits; within int64 -/
def readInt (w : Bytes) : Option Int :=
  let (neg, ds) := match w with
    | 45 :: r => (true, r)
    | r => (false, r)
  match ds with
  | [] => none
  | d :: rest =>
    if !(ds.all isDec) then none
    else if d.toNat == 48 then (if rest.isEmpty && !neg then some 0 else none)
    else
      let v : Int := decValue ds
      let v := if neg then -v else v
      if -9223372036854775808 ≤ v && v ≤ 9223372036854775807 then some v else none

def readOpcode (w : Bytes) : Option Nat :=
  let name := asString w
  let full := if name.startsWith "OP_" then name else "OP_" ++ name
  match (Op.table ++ Op.aliases).find? (fun p => p.1 == full && p.1 != "OP_INVALIDOPCODE") with
  | some p => some p.2
  | none =>
    let bare := match w with
      | 79 :: 80 :: 95 :: r => r
      | r => r
    match bare with
    | [120, a, b] => if isHexDigit a && isHexDigit b then some (hexNibble a * 16 + hexNibble b) else none
    | _ => none

/-- split the inside of a bracket into words: a word is a maximal run of non-separator characters at bracket
    depth 0, where a `[` (at the start of a word or inside one) opens a group that belongs to the word up to its
    matching `]` whatever it contains; separators are blanks; `#` at depth 0 starts a comment running to the end of
    the line; brackets must balance (`none` otherwise: unclosed `[`, or `]` at depth 0).
    State: `cur` the word in progress, `depth` the bracket depth inside it. -/
def splitWords : Nat → Bytes → Bytes → Nat → List Bytes → Option (List Bytes)
  | 0, _, _, _, _ => none
  | _ + 1, [], cur, depth, acc =>
    if depth != 0 then none else some ((if cur.isEmpty then acc else cur :: acc).reverse)
  | k + 1, c :: rest, cur, depth, acc =>
    let n := c.toNat
    if depth > 0 then
      splitWords k rest (cur ++ [c]) (if n == 91 then depth + 1 else if n == 93 then depth - 1 else depth) acc
    else if n == 91 then splitWords k rest (cur ++ [c]) 1 acc
    else if n == 93 then none
    else if n == 32 || n == 9 || n == 10 || n == 13 then
      splitWords k rest [] 0 (if cur.isEmpty then acc else cur :: acc)
    else if n == 35 then
      splitWords k (rest.dropWhile (fun x => x.toNat != 10 && x.toNat != 13)) [] 0 (if cur.isEmpty then acc else cur :: acc)
    else splitWords k rest (cur ++ [c]) 0 acc

/-- read one word as a token; `none` = the word is outside the assembler's input grammar -/
def readTok : Nat → Bytes → Option Tok
  | 0, _ => none
  | fuel + 1, w =>
    match w with
    | [48, 120] => some (.hex [])                                      -- 0x
    | 91 :: rest =>
      if rest.getLast? == some 93 then
        match splitWords (rest.length + 2) rest.dropLast [] 0 [] with
        | some ws => (ws.mapM (readTok fuel)).map .sub
        | none => none
      else none
    | _ =>
      match readInt w with
      | some n => some (.int n)
      | none =>
        match readOpcode w with
        | some c => some (.op c)
        | none =>
          let h := match w with
            | 48 :: 120 :: r => r
            | r => r
          if !h.isEmpty && h.length % 2 == 0 && h.all isHexDigit then some (.hex (unhexPairs h)) else none

def bracketBalance (w : Bytes) : Int :=
  w.foldl (fun d c => if c.toNat == 91 then d + 1 else if c.toNat == 93 then d - 1 else d) 0

/-- command-line words → token texts: a word that opens more brackets than it closes absorbs the following
    words (joined by single spaces) until the brackets balance -/
def groupWords : List Bytes → Bytes → Int → List Bytes → List Bytes
  | [], _, _, acc => acc.reverse
  | w :: rest, cur, depth, acc =>
    if depth > 0 then
      let cur' := cur ++ [32] ++ w
      let d := depth + bracketBalance w
      if d ≤ 0 then groupWords rest [] 0 (cur' :: acc) else groupWords rest cur' d acc
    else if w.isEmpty then groupWords rest cur depth acc
    else if w.head? == some 91 && bracketBalance w > 0 then groupWords rest w (bracketBalance w) acc
    else groupWords rest cur depth (w :: acc)

/-- the program `btcc w1 w2 ...` -/
def readProgram (words : List Bytes) : Option (List Tok) :=
  (groupWords words [] 0 []).mapM (fun w => readTok (w.length + 2) w)

end Btcdeb.Spec
