/-
  Specification of Bitcoin script numbers: little-endian sign-magnitude, declaratively.
-/
import Btcdeb.Basic.Bytes
namespace Btcdeb.Spec

/-- value Bitcoin assigns to a byte string: magnitude = little-endian number formed by the
    bytes with the top bit of the last byte cleared; that top bit is the sign. -/
def numValue (b : Bytes) : Int :=
  match b.getLast? with
  | none => 0
  | some last =>
    let mag : Nat := leValue b.dropLast + 256 ^ (b.length - 1) * lo7 last
    if hi last then -(mag : Int) else (mag : Int)

/-- `b` is *the* minimal encoding of its value: every other byte string with the same value is
    strictly longer. (Excludes negative zero and padded forms.) -/
def Minimal (b : Bytes) : Prop :=
  ∀ b' : Bytes, numValue b' = numValue b → b' ≠ b → b.length < b'.length

end Btcdeb.Spec
