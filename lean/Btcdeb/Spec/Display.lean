/-
  Specification of the state displays of a debugging session (property C01: the debugger SHOWS the main stack, the alt
  stack and the conditional-nesting state that Bitcoin's script rules prescribe).

  A stack is shown from the top down, one item per line: the position of the item counted from the top (1 = top,
  decimal, at least two digits), a TAB, the item in hexadecimal; the first line is marked `(top)`; an empty stack is
  announced as such.  The conditional nesting is shown the same way, innermost level first: a level reads `01` when
  the operations at that level are being executed — the level itself and every level enclosing it are on their taken
  branch — and `00` otherwise.  (That is all Bitcoin's rules use of the nesting: operations are executed exactly when
  every level is on its taken branch; whether a level INSIDE a branch that is not taken is itself "taken" never
  matters, and Bitcoin Core's own `ConditionStack` does not store it.)

  The specification's state (`Spec.St`) keeps its stacks top first and its nesting innermost first.
-/
import Btcdeb.Spec.Script
namespace Btcdeb.Spec
open Btcdeb

/-- an item in hexadecimal: two lower-case digits per byte, nothing for the empty item -/
def showHex (b : Bytes) : List Char := b.flatMap hexOfByte

/-- a position: decimal, at least two digits -/
def lineNumber (i : Nat) : List Char := if i < 10 then '0' :: Nat.toDigits 10 i else Nat.toDigits 10 i

def emptyStackText : List Char :=
  ['-', ' ', 'e', 'm', 'p', 't', 'y', ' ', 's', 't', 'a', 'c', 'k', ' ', '-', '\n']

/-- the line of the item at position `i` from the top -/
def itemLine (it : Bytes) (i : Nat) : List Char :=
  ['<'] ++ lineNumber i ++ ['>', '\t'] ++ showHex it ++ (if i = 1 then ['\t', '(', 't', 'o', 'p', ')'] else []) ++ ['\n']

/-- a stack (top first) as it is to be shown -/
def showStack (items : List Bytes) : List Char :=
  if items.isEmpty then emptyStackText
  else (items.zipIdx 1).flatMap (fun p => itemLine p.1 p.2)

/-- a stack (top first) as a piped run reports it: bottom first, one hexadecimal line per item -/
def showRaw (items : List Bytes) : List Char := items.reverse.flatMap (fun it => showHex it ++ ['\n'])

/-- the line of the nesting level at position `i` from the innermost one; `active`: operations at that level execute -/
def levelLine (active : Bool) (i : Nat) : List Char :=
  ['<'] ++ lineNumber i ++ ['>', '\t'] ++ (if active then ['0', '1'] else ['0', '0']) ++ ['\n']

/-- the conditional nesting (innermost level first) as it is to be shown: level `k` from the inside is active when
    it and all levels around it are on their taken branch -/
def showCond (levels : List Bool) : List Char :=
  if levels.isEmpty then emptyStackText
  else (List.range levels.length).flatMap (fun k => levelLine ((levels.drop k).all id) (k + 1))

/-- what the three state displays (`stack`, `altstack`, `vfexec`) are to show in a state of the specification -/
def shownOf (st : St) : List Char × List Char × List Char := (showStack st.stack, showStack st.alt, showCond st.cond)

end Btcdeb.Spec
