/- Opcode numbering (Bitcoin). Tied to script/script.h by Properties/Tables (Gen.opcodeEnum). -/
namespace Btcdeb
namespace Op
abbrev OP_0 : Nat := 0
abbrev OP_PUSHDATA1 : Nat := 76
abbrev OP_PUSHDATA2 : Nat := 77
abbrev OP_PUSHDATA4 : Nat := 78
abbrev OP_1NEGATE : Nat := 79
abbrev OP_RESERVED : Nat := 80
abbrev OP_1 : Nat := 81
abbrev OP_2 : Nat := 82
abbrev OP_3 : Nat := 83
abbrev OP_4 : Nat := 84
abbrev OP_5 : Nat := 85
abbrev OP_6 : Nat := 86
abbrev OP_7 : Nat := 87
abbrev OP_8 : Nat := 88
abbrev OP_9 : Nat := 89
abbrev OP_10 : Nat := 90
abbrev OP_11 : Nat := 91
abbrev OP_12 : Nat := 92
abbrev OP_13 : Nat := 93
abbrev OP_14 : Nat := 94
abbrev OP_15 : Nat := 95
abbrev OP_16 : Nat := 96
abbrev OP_NOP : Nat := 97
abbrev OP_VER : Nat := 98
abbrev OP_IF : Nat := 99
abbrev OP_NOTIF : Nat := 100
abbrev OP_VERIF : Nat := 101
abbrev OP_VERNOTIF : Nat := 102
abbrev OP_ELSE : Nat := 103
abbrev OP_ENDIF : Nat := 104
abbrev OP_VERIFY : Nat := 105
abbrev OP_RETURN : Nat := 106
abbrev OP_TOALTSTACK : Nat := 107
abbrev OP_FROMALTSTACK : Nat := 108
abbrev OP_2DROP : Nat := 109
abbrev OP_2DUP : Nat := 110
abbrev OP_3DUP : Nat := 111
abbrev OP_2OVER : Nat := 112
abbrev OP_2ROT : Nat := 113
abbrev OP_2SWAP : Nat := 114
abbrev OP_IFDUP : Nat := 115
abbrev OP_DEPTH : Nat := 116
abbrev OP_DROP : Nat := 117
abbrev OP_DUP : Nat := 118
abbrev OP_NIP : Nat := 119
abbrev OP_OVER : Nat := 120
abbrev OP_PICK : Nat := 121
abbrev OP_ROLL : Nat := 122
abbrev OP_ROT : Nat := 123
abbrev OP_SWAP : Nat := 124
abbrev OP_TUCK : Nat := 125
abbrev OP_CAT : Nat := 126
abbrev OP_SUBSTR : Nat := 127
abbrev OP_LEFT : Nat := 128
abbrev OP_RIGHT : Nat := 129
abbrev OP_SIZE : Nat := 130
abbrev OP_INVERT : Nat := 131
abbrev OP_AND : Nat := 132
abbrev OP_OR : Nat := 133
abbrev OP_XOR : Nat := 134
abbrev OP_EQUAL : Nat := 135
abbrev OP_EQUALVERIFY : Nat := 136
abbrev OP_RESERVED1 : Nat := 137
abbrev OP_RESERVED2 : Nat := 138
abbrev OP_1ADD : Nat := 139
abbrev OP_1SUB : Nat := 140
abbrev OP_2MUL : Nat := 141
abbrev OP_2DIV : Nat := 142
abbrev OP_NEGATE : Nat := 143
abbrev OP_ABS : Nat := 144
abbrev OP_NOT : Nat := 145
abbrev OP_0NOTEQUAL : Nat := 146
abbrev OP_ADD : Nat := 147
abbrev OP_SUB : Nat := 148
abbrev OP_MUL : Nat := 149
abbrev OP_DIV : Nat := 150
abbrev OP_MOD : Nat := 151
abbrev OP_LSHIFT : Nat := 152
abbrev OP_RSHIFT : Nat := 153
abbrev OP_BOOLAND : Nat := 154
abbrev OP_BOOLOR : Nat := 155
abbrev OP_NUMEQUAL : Nat := 156
abbrev OP_NUMEQUALVERIFY : Nat := 157
abbrev OP_NUMNOTEQUAL : Nat := 158
abbrev OP_LESSTHAN : Nat := 159
abbrev OP_GREATERTHAN : Nat := 160
abbrev OP_LESSTHANOREQUAL : Nat := 161
abbrev OP_GREATERTHANOREQUAL : Nat := 162
abbrev OP_MIN : Nat := 163
abbrev OP_MAX : Nat := 164
abbrev OP_WITHIN : Nat := 165
abbrev OP_RIPEMD160 : Nat := 166
abbrev OP_SHA1 : Nat := 167
abbrev OP_SHA256 : Nat := 168
abbrev OP_HASH160 : Nat := 169
abbrev OP_HASH256 : Nat := 170
abbrev OP_CODESEPARATOR : Nat := 171
abbrev OP_CHECKSIG : Nat := 172
abbrev OP_CHECKSIGVERIFY : Nat := 173
abbrev OP_CHECKMULTISIG : Nat := 174
abbrev OP_CHECKMULTISIGVERIFY : Nat := 175
abbrev OP_NOP1 : Nat := 176
abbrev OP_CHECKLOCKTIMEVERIFY : Nat := 177
abbrev OP_CHECKSEQUENCEVERIFY : Nat := 178
abbrev OP_NOP4 : Nat := 179
abbrev OP_NOP5 : Nat := 180
abbrev OP_NOP6 : Nat := 181
abbrev OP_NOP7 : Nat := 182
abbrev OP_NOP8 : Nat := 183
abbrev OP_NOP9 : Nat := 184
abbrev OP_NOP10 : Nat := 185
abbrev OP_CHECKSIGADD : Nat := 186
abbrev OP_INVALIDOPCODE : Nat := 255

/-- every named opcode with its number -/
def table : List (String × Nat) := [
  ("OP_0", 0),
  ("OP_PUSHDATA1", 76),
  ("OP_PUSHDATA2", 77),
  ("OP_PUSHDATA4", 78),
  ("OP_1NEGATE", 79),
  ("OP_RESERVED", 80),
  ("OP_1", 81),
  ("OP_2", 82),
  ("OP_3", 83),
  ("OP_4", 84),
  ("OP_5", 85),
  ("OP_6", 86),
  ("OP_7", 87),
  ("OP_8", 88),
  ("OP_9", 89),
  ("OP_10", 90),
  ("OP_11", 91),
  ("OP_12", 92),
  ("OP_13", 93),
  ("OP_14", 94),
  ("OP_15", 95),
  ("OP_16", 96),
  ("OP_NOP", 97),
  ("OP_VER", 98),
  ("OP_IF", 99),
  ("OP_NOTIF", 100),
  ("OP_VERIF", 101),
  ("OP_VERNOTIF", 102),
  ("OP_ELSE", 103),
  ("OP_ENDIF", 104),
  ("OP_VERIFY", 105),
  ("OP_RETURN", 106),
  ("OP_TOALTSTACK", 107),
  ("OP_FROMALTSTACK", 108),
  ("OP_2DROP", 109),
  ("OP_2DUP", 110),
  ("OP_3DUP", 111),
  ("OP_2OVER", 112),
  ("OP_2ROT", 113),
  ("OP_2SWAP", 114),
  ("OP_IFDUP", 115),
  ("OP_DEPTH", 116),
  ("OP_DROP", 117),
  ("OP_DUP", 118),
  ("OP_NIP", 119),
  ("OP_OVER", 120),
  ("OP_PICK", 121),
  ("OP_ROLL", 122),
  ("OP_ROT", 123),
  ("OP_SWAP", 124),
  ("OP_TUCK", 125),
  ("OP_CAT", 126),
  ("OP_SUBSTR", 127),
  ("OP_LEFT", 128),
  ("OP_RIGHT", 129),
  ("OP_SIZE", 130),
  ("OP_INVERT", 131),
  ("OP_AND", 132),
  ("OP_OR", 133),
  ("OP_XOR", 134),
  ("OP_EQUAL", 135),
  ("OP_EQUALVERIFY", 136),
  ("OP_RESERVED1", 137),
  ("OP_RESERVED2", 138),
  ("OP_1ADD", 139),
  ("OP_1SUB", 140),
  ("OP_2MUL", 141),
  ("OP_2DIV", 142),
  ("OP_NEGATE", 143),
  ("OP_ABS", 144),
  ("OP_NOT", 145),
  ("OP_0NOTEQUAL", 146),
  ("OP_ADD", 147),
  ("OP_SUB", 148),
  ("OP_MUL", 149),
  ("OP_DIV", 150),
  ("OP_MOD", 151),
  ("OP_LSHIFT", 152),
  ("OP_RSHIFT", 153),
  ("OP_BOOLAND", 154),
  ("OP_BOOLOR", 155),
  ("OP_NUMEQUAL", 156),
  ("OP_NUMEQUALVERIFY", 157),
  ("OP_NUMNOTEQUAL", 158),
  ("OP_LESSTHAN", 159),
  ("OP_GREATERTHAN", 160),
  ("OP_LESSTHANOREQUAL", 161),
  ("OP_GREATERTHANOREQUAL", 162),
  ("OP_MIN", 163),
  ("OP_MAX", 164),
  ("OP_WITHIN", 165),
  ("OP_RIPEMD160", 166),
  ("OP_SHA1", 167),
  ("OP_SHA256", 168),
  ("OP_HASH160", 169),
  ("OP_HASH256", 170),
  ("OP_CODESEPARATOR", 171),
  ("OP_CHECKSIG", 172),
  ("OP_CHECKSIGVERIFY", 173),
  ("OP_CHECKMULTISIG", 174),
  ("OP_CHECKMULTISIGVERIFY", 175),
  ("OP_NOP1", 176),
  ("OP_CHECKLOCKTIMEVERIFY", 177),
  ("OP_CHECKSEQUENCEVERIFY", 178),
  ("OP_NOP4", 179),
  ("OP_NOP5", 180),
  ("OP_NOP6", 181),
  ("OP_NOP7", 182),
  ("OP_NOP8", 183),
  ("OP_NOP9", 184),
  ("OP_NOP10", 185),
  ("OP_CHECKSIGADD", 186),
  ("OP_INVALIDOPCODE", 255)
]
/-- aliases in script.h -/
def aliases : List (String × Nat) := [("OP_FALSE", 0), ("OP_TRUE", 81), ("OP_NOP2", 177), ("OP_NOP3", 178)]
end Op

/-- the decoded opcode byte. `PUSHN n` is the direct push of n bytes (1..75); `UNKNOWN n` any other byte. -/
inductive Opcode where
  | OP_0
  | OP_PUSHDATA1
  | OP_PUSHDATA2
  | OP_PUSHDATA4
  | OP_1NEGATE
  | OP_RESERVED
  | OP_1
  | OP_2
  | OP_3
  | OP_4
  | OP_5
  | OP_6
  | OP_7
  | OP_8
  | OP_9
  | OP_10
  | OP_11
  | OP_12
  | OP_13
  | OP_14
  | OP_15
  | OP_16
  | OP_NOP
  | OP_VER
  | OP_IF
  | OP_NOTIF
  | OP_VERIF
  | OP_VERNOTIF
  | OP_ELSE
  | OP_ENDIF
  | OP_VERIFY
  | OP_RETURN
  | OP_TOALTSTACK
  | OP_FROMALTSTACK
  | OP_2DROP
  | OP_2DUP
  | OP_3DUP
  | OP_2OVER
  | OP_2ROT
  | OP_2SWAP
  | OP_IFDUP
  | OP_DEPTH
  | OP_DROP
  | OP_DUP
  | OP_NIP
  | OP_OVER
  | OP_PICK
  | OP_ROLL
  | OP_ROT
  | OP_SWAP
  | OP_TUCK
  | OP_CAT
  | OP_SUBSTR
  | OP_LEFT
  | OP_RIGHT
  | OP_SIZE
  | OP_INVERT
  | OP_AND
  | OP_OR
  | OP_XOR
  | OP_EQUAL
  | OP_EQUALVERIFY
  | OP_RESERVED1
  | OP_RESERVED2
  | OP_1ADD
  | OP_1SUB
  | OP_2MUL
  | OP_2DIV
  | OP_NEGATE
  | OP_ABS
  | OP_NOT
  | OP_0NOTEQUAL
  | OP_ADD
  | OP_SUB
  | OP_MUL
  | OP_DIV
  | OP_MOD
  | OP_LSHIFT
  | OP_RSHIFT
  | OP_BOOLAND
  | OP_BOOLOR
  | OP_NUMEQUAL
  | OP_NUMEQUALVERIFY
  | OP_NUMNOTEQUAL
  | OP_LESSTHAN
  | OP_GREATERTHAN
  | OP_LESSTHANOREQUAL
  | OP_GREATERTHANOREQUAL
  | OP_MIN
  | OP_MAX
  | OP_WITHIN
  | OP_RIPEMD160
  | OP_SHA1
  | OP_SHA256
  | OP_HASH160
  | OP_HASH256
  | OP_CODESEPARATOR
  | OP_CHECKSIG
  | OP_CHECKSIGVERIFY
  | OP_CHECKMULTISIG
  | OP_CHECKMULTISIGVERIFY
  | OP_NOP1
  | OP_CHECKLOCKTIMEVERIFY
  | OP_CHECKSEQUENCEVERIFY
  | OP_NOP4
  | OP_NOP5
  | OP_NOP6
  | OP_NOP7
  | OP_NOP8
  | OP_NOP9
  | OP_NOP10
  | OP_CHECKSIGADD
  | PUSHN (n : Nat)
  | UNKNOWN (n : Nat)
deriving Repr, DecidableEq, Inhabited

namespace Opcode
def ofNat (n : Nat) : Opcode :=
  match n with
  | 0 => .OP_0
  | 76 => .OP_PUSHDATA1
  | 77 => .OP_PUSHDATA2
  | 78 => .OP_PUSHDATA4
  | 79 => .OP_1NEGATE
  | 80 => .OP_RESERVED
  | 81 => .OP_1
  | 82 => .OP_2
  | 83 => .OP_3
  | 84 => .OP_4
  | 85 => .OP_5
  | 86 => .OP_6
  | 87 => .OP_7
  | 88 => .OP_8
  | 89 => .OP_9
  | 90 => .OP_10
  | 91 => .OP_11
  | 92 => .OP_12
  | 93 => .OP_13
  | 94 => .OP_14
  | 95 => .OP_15
  | 96 => .OP_16
  | 97 => .OP_NOP
  | 98 => .OP_VER
  | 99 => .OP_IF
  | 100 => .OP_NOTIF
  | 101 => .OP_VERIF
  | 102 => .OP_VERNOTIF
  | 103 => .OP_ELSE
  | 104 => .OP_ENDIF
  | 105 => .OP_VERIFY
  | 106 => .OP_RETURN
  | 107 => .OP_TOALTSTACK
  | 108 => .OP_FROMALTSTACK
  | 109 => .OP_2DROP
  | 110 => .OP_2DUP
  | 111 => .OP_3DUP
  | 112 => .OP_2OVER
  | 113 => .OP_2ROT
  | 114 => .OP_2SWAP
  | 115 => .OP_IFDUP
  | 116 => .OP_DEPTH
  | 117 => .OP_DROP
  | 118 => .OP_DUP
  | 119 => .OP_NIP
  | 120 => .OP_OVER
  | 121 => .OP_PICK
  | 122 => .OP_ROLL
  | 123 => .OP_ROT
  | 124 => .OP_SWAP
  | 125 => .OP_TUCK
  | 126 => .OP_CAT
  | 127 => .OP_SUBSTR
  | 128 => .OP_LEFT
  | 129 => .OP_RIGHT
  | 130 => .OP_SIZE
  | 131 => .OP_INVERT
  | 132 => .OP_AND
  | 133 => .OP_OR
  | 134 => .OP_XOR
  | 135 => .OP_EQUAL
  | 136 => .OP_EQUALVERIFY
  | 137 => .OP_RESERVED1
  | 138 => .OP_RESERVED2
  | 139 => .OP_1ADD
  | 140 => .OP_1SUB
  | 141 => .OP_2MUL
  | 142 => .OP_2DIV
  | 143 => .OP_NEGATE
  | 144 => .OP_ABS
  | 145 => .OP_NOT
  | 146 => .OP_0NOTEQUAL
  | 147 => .OP_ADD
  | 148 => .OP_SUB
  | 149 => .OP_MUL
  | 150 => .OP_DIV
  | 151 => .OP_MOD
  | 152 => .OP_LSHIFT
  | 153 => .OP_RSHIFT
  | 154 => .OP_BOOLAND
  | 155 => .OP_BOOLOR
  | 156 => .OP_NUMEQUAL
  | 157 => .OP_NUMEQUALVERIFY
  | 158 => .OP_NUMNOTEQUAL
  | 159 => .OP_LESSTHAN
  | 160 => .OP_GREATERTHAN
  | 161 => .OP_LESSTHANOREQUAL
  | 162 => .OP_GREATERTHANOREQUAL
  | 163 => .OP_MIN
  | 164 => .OP_MAX
  | 165 => .OP_WITHIN
  | 166 => .OP_RIPEMD160
  | 167 => .OP_SHA1
  | 168 => .OP_SHA256
  | 169 => .OP_HASH160
  | 170 => .OP_HASH256
  | 171 => .OP_CODESEPARATOR
  | 172 => .OP_CHECKSIG
  | 173 => .OP_CHECKSIGVERIFY
  | 174 => .OP_CHECKMULTISIG
  | 175 => .OP_CHECKMULTISIGVERIFY
  | 176 => .OP_NOP1
  | 177 => .OP_CHECKLOCKTIMEVERIFY
  | 178 => .OP_CHECKSEQUENCEVERIFY
  | 179 => .OP_NOP4
  | 180 => .OP_NOP5
  | 181 => .OP_NOP6
  | 182 => .OP_NOP7
  | 183 => .OP_NOP8
  | 184 => .OP_NOP9
  | 185 => .OP_NOP10
  | 186 => .OP_CHECKSIGADD
  | n => if 1 ≤ n ∧ n ≤ 75 then .PUSHN n else .UNKNOWN n

def toNat : Opcode → Nat
  | .OP_0 => 0
  | .OP_PUSHDATA1 => 76
  | .OP_PUSHDATA2 => 77
  | .OP_PUSHDATA4 => 78
  | .OP_1NEGATE => 79
  | .OP_RESERVED => 80
  | .OP_1 => 81
  | .OP_2 => 82
  | .OP_3 => 83
  | .OP_4 => 84
  | .OP_5 => 85
  | .OP_6 => 86
  | .OP_7 => 87
  | .OP_8 => 88
  | .OP_9 => 89
  | .OP_10 => 90
  | .OP_11 => 91
  | .OP_12 => 92
  | .OP_13 => 93
  | .OP_14 => 94
  | .OP_15 => 95
  | .OP_16 => 96
  | .OP_NOP => 97
  | .OP_VER => 98
  | .OP_IF => 99
  | .OP_NOTIF => 100
  | .OP_VERIF => 101
  | .OP_VERNOTIF => 102
  | .OP_ELSE => 103
  | .OP_ENDIF => 104
  | .OP_VERIFY => 105
  | .OP_RETURN => 106
  | .OP_TOALTSTACK => 107
  | .OP_FROMALTSTACK => 108
  | .OP_2DROP => 109
  | .OP_2DUP => 110
  | .OP_3DUP => 111
  | .OP_2OVER => 112
  | .OP_2ROT => 113
  | .OP_2SWAP => 114
  | .OP_IFDUP => 115
  | .OP_DEPTH => 116
  | .OP_DROP => 117
  | .OP_DUP => 118
  | .OP_NIP => 119
  | .OP_OVER => 120
  | .OP_PICK => 121
  | .OP_ROLL => 122
  | .OP_ROT => 123
  | .OP_SWAP => 124
  | .OP_TUCK => 125
  | .OP_CAT => 126
  | .OP_SUBSTR => 127
  | .OP_LEFT => 128
  | .OP_RIGHT => 129
  | .OP_SIZE => 130
  | .OP_INVERT => 131
  | .OP_AND => 132
  | .OP_OR => 133
  | .OP_XOR => 134
  | .OP_EQUAL => 135
  | .OP_EQUALVERIFY => 136
  | .OP_RESERVED1 => 137
  | .OP_RESERVED2 => 138
  | .OP_1ADD => 139
  | .OP_1SUB => 140
  | .OP_2MUL => 141
  | .OP_2DIV => 142
  | .OP_NEGATE => 143
  | .OP_ABS => 144
  | .OP_NOT => 145
  | .OP_0NOTEQUAL => 146
  | .OP_ADD => 147
  | .OP_SUB => 148
  | .OP_MUL => 149
  | .OP_DIV => 150
  | .OP_MOD => 151
  | .OP_LSHIFT => 152
  | .OP_RSHIFT => 153
  | .OP_BOOLAND => 154
  | .OP_BOOLOR => 155
  | .OP_NUMEQUAL => 156
  | .OP_NUMEQUALVERIFY => 157
  | .OP_NUMNOTEQUAL => 158
  | .OP_LESSTHAN => 159
  | .OP_GREATERTHAN => 160
  | .OP_LESSTHANOREQUAL => 161
  | .OP_GREATERTHANOREQUAL => 162
  | .OP_MIN => 163
  | .OP_MAX => 164
  | .OP_WITHIN => 165
  | .OP_RIPEMD160 => 166
  | .OP_SHA1 => 167
  | .OP_SHA256 => 168
  | .OP_HASH160 => 169
  | .OP_HASH256 => 170
  | .OP_CODESEPARATOR => 171
  | .OP_CHECKSIG => 172
  | .OP_CHECKSIGVERIFY => 173
  | .OP_CHECKMULTISIG => 174
  | .OP_CHECKMULTISIGVERIFY => 175
  | .OP_NOP1 => 176
  | .OP_CHECKLOCKTIMEVERIFY => 177
  | .OP_CHECKSEQUENCEVERIFY => 178
  | .OP_NOP4 => 179
  | .OP_NOP5 => 180
  | .OP_NOP6 => 181
  | .OP_NOP7 => 182
  | .OP_NOP8 => 183
  | .OP_NOP9 => 184
  | .OP_NOP10 => 185
  | .OP_CHECKSIGADD => 186
  | .PUSHN n => n
  | .UNKNOWN n => n

end Opcode
end Btcdeb
