/-
  Specification of the script listing and of the position marker (property C12).

  The listing is the EXECUTION PLAN of the session: one line per thing a `step` command will do, in the
  order in which the steps do them —
    * taproot script path: one Merkle step per node of the control block, then the check of the tweak
      (BIP341: `k_{j+1} = TapBranch(k_j, e_j)` for the m nodes, then `Q = P + int(TapTweak(p ‖ k_m))G`);
    * every instruction of the script, decoded exactly (opcode name, or the pushed bytes in hex);
    * for a legacy spend: the hand-over to the scriptPubKey, then its instructions; for P2SH (BIP16):
      the hand-over to the redeem script (the item on top of the stack when the scriptPubKey is entered),
      then its instructions.
  The marker designates the line of the operation the next `step` performs; when the session has ended
  nothing is pending.

  The instruction decoder is the specification's own (`Spec.decodeOne`), not the model's `getOp`.
-/
import Btcdeb.Spec.Script
import Btcdeb.Model.Session
namespace Btcdeb.Spec
open Btcdeb

/-- one line of the execution plan -/
structure PlanLine where
  /-- a hand-over to another script (no instruction of its own) -/
  header : Bool
  /-- byte offset of the instruction within its script (commitment: offset of the bytes used in the
      control block) -/
  offset : Nat
  text : String
deriving Repr, DecidableEq

/-- how an instruction is shown: the bytes it pushes, in hex; an instruction that carries no data by
    its name -/
def instrText (i : Instr) : String :=
  if i.data.isEmpty then Gen.opName.getD i.opcode "OP_UNKNOWN" else toHex i.data

/-- the instructions of the bytes `s`, which are the last `s.length` bytes of a script of `total` bytes,
    in order, as far as they decode -/
def planFrom (total : Nat) : Nat → Bytes → List PlanLine
  | 0, _ => []
  | fuel + 1, s =>
    match decodeOne s with
    | none => []
    | some (i, after) => ⟨false, total - s.length, instrText i⟩ :: planFrom total fuel after

def planOf (s : Bytes) : List PlanLine := planFrom s.length s.length s

def handOverSpk : PlanLine := ⟨true, 0, "<<< scriptPubKey >>>"⟩
def handOverP2sh : PlanLine := ⟨true, 0, "<<< P2SH script >>>"⟩

/-- node `j` of a control block: bytes `33 + 32j ..< 65 + 32j` -/
def controlNode (control : Bytes) (j : Nat) : Bytes := (control.drop (33 + 32 * j)).take 32

def merkleStep (control : Bytes) (j : Nat) : PlanLine := ⟨false, 33 + 32 * j, "Branch: " ++ toHex (controlNode control j)⟩
/-- the final commitment step: the output key is the internal key `p` (control block bytes 1..32) tweaked by the Merkle root -/
def tweakCheck (p : Bytes) : PlanLine := ⟨false, 1, "CheckTapTweak: " ++ toHex p⟩

/-- the commitment steps still to do when `done` of the `m` Merkle steps have been made -/
def commitmentPlan (control p : Bytes) (m done : Nat) : List PlanLine :=
  (List.range' done (m - done)).map (merkleStep control) ++ [tweakCheck p]

/-- what remains of the commitment phase of a session -/
def commitFuture : Option Model.Tce → List PlanLine
  | none => []
  | some t => commitmentPlan t.control t.p t.pathLen t.i

/-- what follows the script that is being executed: the P2SH hand-over pending for it (BIP16: the
    serialized script is the item on top of the stack saved when the script was entered), then the
    scriptPubKey of the spent output, and after a P2SH scriptPubKey the redeem script `redeem`
    (the item that is on top of the stack when the scriptPubKey is entered) -/
def tailFuture (redeem : Bytes) (e : Model.IEnv) : List PlanLine :=
  (if e.isP2sh then handOverP2sh :: planOf (e.p2shStack.getLast?.getD []) else []) ++
  (if e.successor.isEmpty then []
   else handOverSpk :: planOf e.successor ++
     (if Model.p2shPattern e.see.flags e.successor then handOverP2sh :: planOf redeem else []))

/-- the execution plan of a session that is at the start of its current script -/
def sessionPlan (redeem : Bytes) (e : Model.IEnv) : List PlanLine :=
  commitFuture e.tce ++ planOf e.see.script ++ tailFuture redeem e

/-- THE LISTING THE PROPERTY ASKS FOR: the plan of the fresh session -/
def idealListing (redeem : Bytes) (e0 : Model.IEnv) : List PlanLine := sessionPlan redeem e0

/-- the operation the next `step` performs, as a plan line; `none` = nothing is pending
    (the session has ended, or only the end-of-script step remains, or the bytes at the current position
    do not decode to an instruction) -/
def pending (e : Model.IEnv) : Option PlanLine :=
  if e.done then none
  else match e.tce with
    | some t => some (if t.i < t.pathLen then merkleStep t.control t.i else tweakCheck t.p)
    | none =>
      if !e.pc.isEmpty then
        (decodeOne e.pc).map (fun r => ⟨false, e.see.script.length - e.pc.length, instrText r.1⟩)
      else if e.isP2sh then some handOverP2sh
      else if !e.successor.isEmpty then some handOverSpk
      else none

end Btcdeb.Spec
