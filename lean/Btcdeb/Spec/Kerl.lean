/-
  The rule of the interactive command line (what `kerl` is meant to do), independent of buffers and indices.

  A command line is a command word followed by arguments.
    * Everything from the comment character `#` on is dropped; blanks (space, tab) around the rest are dropped; an empty
      line repeats the previous non-empty line (when that is enabled).
    * The command word ends at the first blank; the argument text starts at the next character that is not a blank.
      A word that is the exact name of a registered command runs that command on the argument text; any other word goes
      to the fallback with the line as typed, or is "No such command".
    * `exec` and `tf` cut their argument text into words.  Every character has one role:
        - a backslash that is not itself escaped is a MARK and makes the next character a LITERAL, whatever it is;
        - a quote character (' or ") that is not escaped and not inside the other kind of quote is a MARK: it opens, or
          closes, a quoted stretch; inside a quoted stretch every other character is a LITERAL (also the space);
        - outside quotes a space is a SEPARATOR (a tab is not: it is an ordinary character of a word);
        - every other character is a LITERAL.
      The words are the non-empty strings of literals between separators.  (A word cannot be empty: `""` is no word.)
    * A line that ends inside a quoted stretch, or with a pending backslash, continues on the next line (only where the
      line source is readline).  A line break inside a quoted stretch is a literal newline of the word; after a pending
      backslash the first character of the next line is a literal and no newline is added.
  The history file holds one command per line: `escape` must produce a text without a raw newline from which `unescape`
  gives the command back.
-/
import Btcdeb.Basic.Bytes
namespace Btcdeb.Spec.Kerl
open Btcdeb

def isBlank (c : UInt8) : Bool := c == 32 || c == 9

-- ---------------------------------------------------------------------------------------------
-- words

inductive Role where
  | lit (c : UInt8)
  | sep
  | mark
deriving Repr, DecidableEq

/-- lexical state between two characters -/
structure Lex where
  /-- the quote character of the stretch we are in -/
  quote : Option UInt8 := none
  /-- the previous character was an effective backslash -/
  escaped : Bool := false
deriving Repr, DecidableEq

/-- the role of every character of a text -/
def classify : Lex → Bytes → List Role × Lex
  | lx, [] => ([], lx)
  | lx, c :: rest =>
    let (r, lx') : Role × Lex :=
      if lx.escaped then (.lit c, { lx with escaped := false })
      else if c == 92 then (.mark, { lx with escaped := true })
      else match lx.quote with
        | some q => if c == q then (.mark, { lx with quote := none }) else (.lit c, lx)
        | none =>
          if c == 39 || c == 34 then (.mark, { lx with quote := some c })
          else if c == 32 then (.sep, lx)
          else (.lit c, lx)
    let (rs, lx'') := classify lx' rest
    (r :: rs, lx'')

/-- the strings of literals between separators (possibly empty ones) -/
def groups : List Role → List Bytes
  | [] => [[]]
  | .sep :: r => [] :: groups r
  | .mark :: r => groups r
  | .lit c :: r =>
    match groups r with
    | g :: gs => (c :: g) :: gs
    | [] => [[c]]

/-- the words of a role string -/
def wordsOfRoles (r : List Role) : List Bytes := (groups r).filter (fun g => !g.isEmpty)

/-- the words of a complete one-line argument text (whatever is open at the end of the line is closed by the end) -/
def words (text : Bytes) : List Bytes := wordsOfRoles (classify {} text).1

/-- `kerl_make_argcv_escape` with an escape character `e`: every literal `e` is delivered with a backslash in front -/
def protect (e : UInt8) (w : Bytes) : Bytes := w.flatMap (fun c => if c == e then [92, c] else [c])

/-- the text is complete: no quote open, no backslash pending -/
def complete (lx : Lex) : Bool := lx.quote.isNone && !lx.escaped

/-- the roles of a command text that continues over the lines `more`, and the lines that remain; `none` = the input ended
    while more was needed.  A line break inside a quoted stretch is a literal newline — every one of them. -/
def logical (lx : Lex) (acc : List Role) (line : Bytes) (more : List Bytes) : Option (List Role × List Bytes) :=
  let (r, lx') := classify lx line
  let acc := acc ++ r
  if complete lx' then some (acc, more)
  else
    let acc := if lx'.quote.isSome then acc ++ [.lit 10] else acc
    match more with
    | [] => none
    | l :: rest => logical lx' acc l rest

/-- the argument words of a command typed over several lines -/
def wordsMulti (text : Bytes) (more : List Bytes) : Option (List Bytes × List Bytes) :=
  (logical {} [] text more).map (fun p => (wordsOfRoles p.1, p.2))

-- ---------------------------------------------------------------------------------------------
-- lines and dispatch

/-- blanks at both ends removed -/
def trim (s : Bytes) : Bytes := ((s.dropWhile isBlank).reverse.dropWhile isBlank).reverse

/-- everything from the comment character on removed (`c = 0`: no comment character) -/
def cutComment (c : UInt8) (s : Bytes) : Bytes := if c == 0 then s else s.takeWhile (· != c)

/-- the command word of a line -/
def commandWord (line : Bytes) : Bytes := (line.dropWhile isBlank).takeWhile (fun c => !isBlank c)

/-- the argument text of a line -/
def argText (line : Bytes) : Bytes := ((line.dropWhile isBlank).dropWhile (fun c => !isBlank c)).dropWhile isBlank

inductive Action where
  /-- the registered command `name` runs on `arg` -/
  | run (name arg : Bytes)
  | fallback (line : Bytes)
  | unknown (word : Bytes)
deriving Repr, DecidableEq

/-- what a line does -/
def interpret (commands : List Bytes) (hasFallback : Bool) (line : Bytes) : Action :=
  let w := commandWord line
  if commands.contains w then .run w (argText line)
  else if hasFallback then .fallback line
  else .unknown w

/-- the line that is executed for what was typed: comments and surrounding blanks removed; an empty line stands for the
    previous non-empty one -/
def effective (commentChar : UInt8) (repeatEmpty : Bool) (prev : Option Bytes) (typed : Bytes) : Option Bytes :=
  let l := trim (cutComment commentChar typed)
  if !l.isEmpty then some l else if repeatEmpty then prev else none

-- ---------------------------------------------------------------------------------------------
-- the history file

def special (c : UInt8) : Bool := c == 10 || c == 9 || c == 13 || c == 8 || c == 92 || c == 34

def letterOf (c : UInt8) : UInt8 :=
  if c == 10 then 110 else if c == 9 then 116 else if c == 13 then 114 else if c == 8 then 98 else c

/-- newline, tab, carriage return, backspace, backslash and double quote are written as backslash + letter -/
def escape (s : Bytes) : Bytes := s.flatMap (fun c => if special c then [92, letterOf c] else [c])

def codeOf (c : UInt8) : Option UInt8 :=
  if c == 110 then some 10 else if c == 116 then some 9 else if c == 114 then some 13 else if c == 98 then some 8
  else if c == 92 then some 92 else if c == 34 then some 34 else none

/-- the inverse: backslash + known letter is one character; any other backslash stays as it is -/
def unescape : Bytes → Bytes
  | [] => []
  | [c] => [c]
  | c :: d :: rest =>
    if c == 92 then
      match codeOf d with
      | some v => v :: unescape rest
      | none => 92 :: d :: unescape rest
    else c :: unescape (d :: rest)

end Btcdeb.Spec.Kerl
