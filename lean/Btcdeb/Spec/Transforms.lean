/-
  Specification of the value transforms (`tf name args` / `name(arg)`): what each one is defined to compute,
  on abstract arguments, independent of the C++ `Value` structure.

  An argument is an integer, a byte string, a character string, an opcode or a bracketed script.  The byte string
  an argument denotes is: the script-number encoding of an integer, the bytes, the characters, the opcode byte,
  the assembled script.  Several arguments given to a one-argument transform denote the script that pushes them.
  Transforms of several operands (add, sub, tagged-hash, the key functions, verify-sig) take them either as
  separate arguments or as the pushes of one bracketed script.
-/
import Btcdeb.Spec.Encodings
import Btcdeb.Spec.Compile
import Btcdeb.Spec.ScriptNum
import Btcdeb.Crypto.Hash
import Btcdeb.Crypto.Ecdsa
import Btcdeb.Crypto.Schnorr
namespace Btcdeb.Spec
open Btcdeb

/-- the hash functions the transforms are stated over -/
structure HashFns where
  sha256 : Bytes → Bytes
  ripemd160 : Bytes → Bytes

def HashFns.hash256 (h : HashFns) (m : Bytes) : Bytes := h.sha256 (h.sha256 m)
def HashFns.hash160 (h : HashFns) (m : Bytes) : Bytes := h.ripemd160 (h.sha256 m)
/-- BIP340 tagged hash -/
def HashFns.tagged (h : HashFns) (tag msg : Bytes) : Bytes := h.sha256 (h.sha256 tag ++ h.sha256 tag ++ msg)

inductive Arg where
  | int (n : Int)
  | bytes (d : Bytes)
  | str (s : Bytes)
  | op (code : Nat)
  | script (body : List Tok)
deriving Repr, Inhabited

/-- result of a transform -/
inductive Res where
  | int (n : Int)
  | bytes (d : Bytes)
  | str (s : Bytes)
  | op (code : Nat)
  /-- a decoded bech32 string: variant, human-readable part, program bytes -/
  | witness (variant : Bech32Variant) (hrp : Bytes) (program : Bytes)
  | reject
  /-- the definition does not cover these arguments (e.g. the Jacobi symbol for an even modulus) -/
  | unspecified
deriving Repr, Inhabited

/-- read one command-line word -/
def readArg (w : Bytes) : Arg :=
  match readTok (w.length + 2) w with
  | some (.int n) => .int n
  | some (.hex d) => .bytes d
  | some (.op c) => .op c
  | some (.sub body) => .script body
  | none => .str w

/-- the byte string an argument denotes -/
def Arg.toBytes : Arg → Bytes
  | .int n => Model.serialize n
  | .bytes d => d
  | .str s => s
  | .op c => [UInt8.ofNat c]
  | .script body => compileToks body

/-- what an argument contributes to a script -/
def Arg.assemble : Arg → Bytes
  | .op c => [UInt8.ofNat c]
  | a => minimalPushOf a.toBytes

/-- the single value the arguments of a command denote -/
def theValue (args : List Arg) : Arg :=
  match args with
  | [a] => a
  | _ => .bytes (args.map Arg.assemble).flatten

/-- the byte string an opcode written as an operand stands for: the number opcodes stand for their number -/
def opOperand (c : Nat) : Option Bytes :=
  if c = 0 then some []
  else if 0x51 ≤ c ∧ c ≤ 0x60 then some [UInt8.ofNat (c - 0x50)]
  else if c = 0x4f then some [0x81]
  else none

/-- the byte string a token places on the stack, if it is a push -/
def tokOperand : Tok → Option Bytes
  | .op c => opOperand c
  | .int n => some (Model.serialize n)
  | .hex d => some d
  | .sub body => some (compileToks body)

/-- the operands of a several-operand transform -/
def operandsOf (args : List Arg) : Option (List Bytes) :=
  match args with
  | [.script body] => body.mapM tokOperand
  | _ => args.mapM (fun a => match a with
      | .op c => opOperand c
      | a => some a.toBytes)

-- ---------------------------------------------------------------------------------------------
-- arithmetic

/-- 256-bit little-endian reading of an operand (bytes beyond the 32nd are ignored) -/
def le256 (d : Bytes) : Nat := leValue (d.take 32)

/-- (a + b) mod g; g = 0 (or absent) means mod 2^256 -/
def modAdd (a b g : Nat) : Nat := (a + b) % (if g = 0 then 2 ^ 256 else g)
/-- (a − b) mod g on the integers -/
def modSub (a b g : Nat) : Nat := (((a : Int) - (b : Int)) % ((if g = 0 then 2 ^ 256 else g : Nat) : Int)).toNat

/-- the Jacobi symbol (a / n) for odd positive n, by the standard recursive law:
    (a/n) = (a mod n / n);  (0/n) = 0 for n > 1, (0/1) = 1;  (2a/n) = (2/n)(a/n) with (2/n) = −1 iff n ≡ 3, 5 (mod 8);
    for odd a: (a/n) = (n/a)·(−1)^((a−1)/2·(n−1)/2). -/
def jacobiRec (a n : Nat) : Int :=
  if h0 : a = 0 then (if n = 1 then 1 else 0)
  else if h2 : a % 2 = 0 then (if n % 8 = 3 ∨ n % 8 = 5 then -1 else 1) * jacobiRec (a / 2) n
  else (if a % 4 = 3 ∧ n % 4 = 3 then -1 else 1) * jacobiRec (n % a) a
termination_by a
decreasing_by
  · omega
  · exact Nat.mod_lt _ (Nat.pos_of_ne_zero h0)

/-- Jacobi symbol; `none` when it is not defined (even or zero modulus) -/
def jacobi (a n : Nat) : Option Int :=
  if n % 2 = 0 then none else some (jacobiRec (a % n) n)

def secp256k1P : Nat := 2 ^ 256 - 2 ^ 32 - 977

-- ---------------------------------------------------------------------------------------------
-- addresses

def p2pkhSpk (h : Bytes) : Bytes := [0x76, 0xa9, 0x14] ++ h ++ [0x88, 0xac]

def isBlank (c : UInt8) : Bool := c.toNat == 32 || (9 ≤ c.toNat && c.toNat ≤ 13)
/-- white space around a Base58 string is not part of it -/
def trimBlanks (s : Bytes) : Bytes := ((s.dropWhile isBlank).reverse.dropWhile isBlank).reverse

/-- Base58Check address → scriptPubKey: version byte 0 followed by a 20-byte hash = pay to public key hash (the only
    kind of address the transform is defined for) -/
def addrToSpk (hf : HashFns) (addr : Bytes) : Option Bytes :=
  match base58CheckDecode hf.hash256 (trimBlanks addr) with
  | some (ver :: h) =>
    if h.length != 20 then none
    else if ver == 0 then some (p2pkhSpk h)
    else none
  | _ => none

/-- pay-to-public-key-hash scriptPubKey → address -/
def spkToAddr (hf : HashFns) (spk : Bytes) : Option Bytes :=
  if spk.length == 25 && spk.take 3 == [0x76, 0xa9, 0x14] && spk.drop 23 == [0x88, 0xac] then
    some (base58CheckEncode hf.hash256 (0 :: (spk.drop 3).take 20))
  else none

-- ---------------------------------------------------------------------------------------------
-- the table

def natOfBE (b : Bytes) : Nat := Crypto.bytesToNatBE b

/-- a public key encoding whose header byte announces its length: 02/03 ‖ 32 bytes, 04/06/07 ‖ 64 bytes -/
def wellFormedKey (pk : Bytes) : Bool :=
  match pk with
  | [] => false
  | h :: _ => ((h == 2 || h == 3) && pk.length == 33) || ((h == 4 || h == 6 || h == 7) && pk.length == 65)

/-- the human-readable part `tf bech32-encode` uses (regtest) and the witness version it prepends -/
def tfHrp : Bytes := "bcrt".toUTF8.toList
def tfWitnessVersion : Nat := 1

def optRes (o : Option Res) : Res := o.getD .reject

/-- `tf name args`: `none` = no transform of that name -/
def tfSpec (hf : HashFns) (name : String) (args : List Arg) : Option Res :=
  let v := theValue args
  let b := v.toBytes
  let ops := operandsOf args
  match name with
  | "echo" => some (match v with
      | .int n => .int n | .str s => .str s | .op c => .op c | a => .bytes a.toBytes)
  | "hex" => some (.str (toHex b).toUTF8.toList)
  | "int" => some (match v with
      | .int n => .int n
      | .op c => .int c
      | .str _ => .reject
      | a => if a.toBytes.length ≤ 4 then .int (Spec.numValue a.toBytes) else .reject)
  | "len" => some (.int b.length)
  | "reverse" => some (match v with
      | .str s => .str s.reverse
      | .bytes d => .bytes d.reverse
      | .script body => .bytes (compileToks body).reverse
      | .int n => .int n           -- no definition stated for numbers; the value is left as it is
      | .op _ => .reject)
  | "sha256" => some (.bytes (hf.sha256 b))
  | "ripemd160" => some (.bytes (hf.ripemd160 b))
  | "hash256" => some (.bytes (hf.hash256 b))
  | "hash160" => some (.bytes (hf.hash160 b))
  | "prefix-compact-size" => some (.bytes (compactSize b.length ++ b))
  | "base58chk-encode" => some (.str (base58CheckEncode hf.hash256 b))
  | "base58chk-decode" => some (match v with
      | .str s => (match base58CheckDecode hf.hash256 (trimBlanks s) with | some p => .bytes p | none => .reject)
      | _ => .reject)
  | "bech32-encode" => some (.str (bech32Encode .bech32 tfHrp (tfWitnessVersion :: regroupPad 8 5 (b.map UInt8.toNat))))
  | "bech32m-encode" => some (.str (bech32Encode .bech32m tfHrp (tfWitnessVersion :: regroupPad 8 5 (b.map UInt8.toNat))))
  | "bech32-decode" => some (match v with
      | .str s =>
        (match bech32Decode s with
         | some (variant, hrp, _ :: prog5) =>
           (match regroupNoPad 5 8 prog5 with
            | some prog => .witness variant hrp (prog.map UInt8.ofNat)
            | none => .reject)
         | _ => .reject)
      | _ => .reject)
  | "addr-to-scriptpubkey" => some (match v with
      | .str s => (match addrToSpk hf s with | some spk => .bytes spk | none => .reject)
      | _ => .reject)
  | "scriptpubkey-to-addr" => some (match v with
      | .str _ => .reject
      | a => (match spkToAddr hf a.toBytes with | some s => .str s | none => .reject))
  | "add" => some (match ops with
      | some [a, b] => .bytes (leBytesFixed 32 (modAdd (le256 a) (le256 b) 0))
      | some [a, b, g] => .bytes (leBytesFixed 32 (modAdd (le256 a) (le256 b) (le256 g)))
      | _ => .reject)
  | "sub" => some (match ops with
      | some [a, b] => .bytes (leBytesFixed 32 (modSub (le256 a) (le256 b) 0))
      | some [a, b, g] => .bytes (leBytesFixed 32 (modSub (le256 a) (le256 b) (le256 g)))
      | _ => .reject)
  | "jacobi-symbol" => some (match args, ops with
      | [.bytes n], _ =>
        if n.length != 32 then .reject else (match jacobi (leValue n) secp256k1P with | some j => .int j | none => .unspecified)
      | _, some [n, k] =>
        if n.length != 32 || k.length != 32 then .reject
        else (match jacobi (leValue n) (leValue k) with | some j => .int j | none => .unspecified)
      | _, _ => .reject)
  | "tagged-hash" => some (match ops with
      | some (tag :: m :: ms) => .bytes (hf.tagged tag (m ++ ms.flatten))
      | _ => .reject)
  | "combine-pubkeys" => some (match ops with
      | some [k1, k2] =>
        (match Crypto.parsePubKey k1, Crypto.parsePubKey k2 with
         | some p1, some p2 =>
           (match Crypto.pointAdd p1 p2 with
            | .infinity => .reject
            | q => .bytes (Crypto.serializeCompressed q))
         | _, _ => .reject)
      | _ => .reject)
  | "tweak-pubkey" => some (match ops with
      | some [t, k] =>
        (match Crypto.parsePubKey k with
         | some p =>
           if t.length != 32 || natOfBE t == 0 || natOfBE t ≥ Crypto.N then .reject
           else .bytes (Crypto.serializeCompressed (Crypto.pointMul (natOfBE t) p))
         | none => .reject)
      | _ => .reject)
  | "pubkey-to-xpubkey" => some (match v with
      | .str _ => .reject
      | a => (match Crypto.parsePubKey a.toBytes with
        | some p => .bytes (Crypto.xonlyBytes p)
        | none => .reject))
  | "taproot-tweak-pubkey" => some (match ops with
      | some [pk, t] =>
        if pk.length != 32 || t.length != 32 then .reject
        else (match Crypto.xonlyTweakAdd pk t with
          | some q => .bytes (Crypto.serializeCompressed q)
          | none => .reject)
      | _ => .reject)
  | "verify-sig" => some (match ops with
      | some [h, pk, sig] =>
        if h.length != 32 then .reject
        else if pk.length == 32 then
          (if sig.length != 64 || (Crypto.parseXOnly pk).isNone then .reject else .int (if Crypto.schnorrVerify pk h sig then 1 else 0))
        else if (Crypto.parsePubKey pk).isNone then (if wellFormedKey pk then .int 0 else .reject)
        else .int (if Crypto.ecdsaVerify pk sig h then 1 else 0)
      | _ => .reject)
  | "verify-sig-compact" => some (match ops with
      | some [h, pk, sig] =>
        if h.length != 32 then .reject
        else if pk.length == 32 then
          (if sig.length != 64 || (Crypto.parseXOnly pk).isNone then .reject else .int (if Crypto.schnorrVerify pk h sig then 1 else 0))
        else match Crypto.parsePubKey pk with
          | none => if wellFormedKey pk then .int 0 else .reject
          | some q =>
            if sig.length != 64 then .int 0
            else
              let r := natOfBE (sig.take 32)
              let s := natOfBE (sig.drop 32)
              .int (if r < Crypto.N && s < Crypto.N && Crypto.ecdsaVerifyRS q r (Crypto.normalizeS s) (natOfBE h % Crypto.N) then 1 else 0)
      | _ => .reject)
  | _ => none

end Btcdeb.Spec
