/-
  Specification of Bitcoin's transaction encoding (original format and BIP144 extended format), of the
  transaction id, and of the decimal-to-satoshi conversion of amounts.

  Written declaratively ("the encoding is the concatenation of these fields"), independently of the stream
  parser/serialiser of the model (`Btcdeb/Model/Tx.lean`); only the record types are shared.
  Core Lean only.
-/
import Btcdeb.Basic.Bytes
import Btcdeb.Model.Tx
namespace Btcdeb.Spec
open Btcdeb

/-- Bitcoin's variable length integer ("CompactSize"): 1, 3, 5 or 9 bytes, the shortest form that fits -/
def varInt (n : Nat) : Bytes :=
  if n < 0xfd then [UInt8.ofNat n]
  else if n < 2 ^ 16 then 0xfd :: leFixed 2 n
  else if n < 2 ^ 32 then 0xfe :: leFixed 4 n
  else 0xff :: leFixed 8 n

/-- two's complement representation of a signed integer in `bits` bits -/
def twos (bits : Nat) (v : Int) : Nat := (v % (2 : Int) ^ bits).toNat

/-- a byte string with its length in front -/
def encodeBytes (x : Bytes) : Bytes := varInt x.length ++ x

/-- a list of items with its length in front -/
def encodeList {α : Type} (f : α → Bytes) (xs : List α) : Bytes := varInt xs.length ++ (xs.map f).flatten

/-- outpoint (txid 32 bytes | index LE32) | script | sequence LE32 -/
def encodeIn (i : Model.TxIn) : Bytes :=
  i.prevout.hash ++ leFixed 4 i.prevout.n ++ encodeBytes i.scriptSig ++ leFixed 4 i.sequence

/-- value LE64 | script -/
def encodeOut (o : Model.TxOut) : Bytes :=
  leFixed 8 (twos 64 o.value) ++ encodeBytes o.scriptPubKey

/-- the witness stack of one input: number of items, then every item with its length -/
def encodeWitness (i : Model.TxIn) : Bytes := encodeList encodeBytes i.witness

/-- some input carries witness data -/
def carriesWitness (tx : Model.Tx) : Prop := ∃ i ∈ tx.vin, i.witness ≠ []

instance (tx : Model.Tx) : Decidable (carriesWitness tx) := by unfold carriesWitness; exact inferInstance

/-- The encoding of a transaction.
    Original format:  version LE32 | inputs | outputs | lock time LE32
    BIP144 format:    version LE32 | marker 00 | flag 01 | inputs | outputs | witness stacks | lock time LE32
    The BIP144 format is used exactly when witness data is wanted and some input carries any. -/
def encodeTx (tx : Model.Tx) (withWitness : Bool) : Bytes :=
  if withWitness = true ∧ carriesWitness tx then
    leFixed 4 (twos 32 tx.version) ++ [0x00, 0x01]
      ++ encodeList encodeIn tx.vin ++ encodeList encodeOut tx.vout
      ++ (tx.vin.map encodeWitness).flatten
      ++ leFixed 4 tx.lockTime
  else
    leFixed 4 (twos 32 tx.version)
      ++ encodeList encodeIn tx.vin ++ encodeList encodeOut tx.vout
      ++ leFixed 4 tx.lockTime

/-- the largest count / length a decoder accepts (`MAX_SIZE`, 32 MiB) -/
def maxSize : Nat := 0x02000000

/-- The transactions that the encoding represents faithfully: every field fits its fixed width, every count and
    length is at most `maxSize`, and the transaction is not "no inputs but some outputs".

    The last condition is exactly what the BIP144 marker costs: a transaction without inputs starts
    `version | 00`, which a witness-aware decoder reads as the marker, so the next byte (the output count) is
    taken for the flag byte.  With no outputs either, that byte is 00, which the decoder (flag 0 = "no
    optional data") reads back as the empty transaction, so `vin = [] ∧ vout = []` still round-trips; with
    outputs the count byte is a non-zero "flag" and the decoding goes wrong (it fails or yields another
    transaction).  Hence `vin = [] → vout = []`, not `vin ≠ []`. -/
def WellFormed (tx : Model.Tx) : Prop :=
  (-(2 : Int) ^ 31 ≤ tx.version ∧ tx.version < (2 : Int) ^ 31)
  ∧ tx.lockTime < 2 ^ 32
  ∧ tx.vin.length ≤ maxSize
  ∧ tx.vout.length ≤ maxSize
  ∧ (∀ i ∈ tx.vin,
        i.prevout.hash.length = 32 ∧ i.prevout.n < 2 ^ 32 ∧ i.scriptSig.length ≤ maxSize ∧ i.sequence < 2 ^ 32
        ∧ i.witness.length ≤ maxSize ∧ ∀ w ∈ i.witness, w.length ≤ maxSize)
  ∧ (∀ o ∈ tx.vout,
        (-(2 : Int) ^ 63 ≤ o.value ∧ o.value < (2 : Int) ^ 63) ∧ o.scriptPubKey.length ≤ maxSize)
  ∧ (tx.vin = [] → tx.vout = [])

instance (tx : Model.Tx) : Decidable (WellFormed tx) := by unfold WellFormed; exact inferInstance

/-- the transaction id (as a 32-byte string in hashing order; it is displayed byte-reversed):
    the double SHA-256 of the encoding without witness data -/
def txidOf (hash256 : Bytes → Bytes) (tx : Model.Tx) : Bytes := hash256 (encodeTx tx false)

/-! ## amounts -/

def isDecDigit (c : UInt8) : Bool := 48 ≤ c.toNat && c.toNat ≤ 57

/-- the number written by a string of decimal digits -/
def decVal (ds : Bytes) : Nat := ds.foldl (fun a c => a * 10 + (c.toNat - 48)) 0

/-- The exact conversion of a decimal amount in bitcoin to satoshi.
    Grammar: `[-] int [. frac]` where `int` is a non-empty string of digits without superfluous leading zero
    (`0` or starting with 1-9), `frac` is 1 to 8 digits.  Value: `±(int * 10^8 + frac * 10^(8 - |frac|))`,
    provided its magnitude is below 10^18 (the documented range of `ParseFixedPoint`: "cannot represent values
    larger than or equal to 10^(18-decimals)").  Everything else: `none`. -/
def amountOf (s : Bytes) : Option Int :=
  let neg : Bool := s.head? = some 45                          -- '-'
  let body : Bytes := if neg then s.drop 1 else s
  let ip : Bytes := body.takeWhile (fun c => c != 46)          -- up to the '.'
  let tail : Bytes := body.dropWhile (fun c => c != 46)
  let fp : Bytes := tail.drop 1
  if ip ≠ [] ∧ ip.all isDecDigit = true ∧ (ip.head? = some 48 → ip.length = 1)
      ∧ (tail ≠ [] → fp ≠ []) ∧ fp.all isDecDigit = true ∧ fp.length ≤ 8 then
    let v : Nat := decVal ip * 10 ^ 8 + decVal fp * 10 ^ (8 - fp.length)
    if v < 10 ^ 18 then some (if neg then -(v : Int) else (v : Int)) else none
  else none

end Btcdeb.Spec
