/-
  Bytes, hex, little-endian helpers, FNV-1a and splitmix64.
  Core Lean only (no Mathlib) so that the driver executable links.
-/
namespace Btcdeb

abbrev Bytes := List UInt8

/-- bit 7 of a byte (`b & 0x80` in the C++). -/
@[inline] def hi (b : UInt8) : Bool := decide (128 ≤ b.toNat)
/-- low seven bits of a byte (`b & 0x7f`). -/
@[inline] def lo7 (b : UInt8) : Nat := b.toNat % 128

def hexDigit (n : Nat) : Char :=
  if n < 10 then Char.ofNat (48 + n) else Char.ofNat (87 + n)

def hexOfByte (b : UInt8) : List Char :=
  [hexDigit (b.toNat / 16), hexDigit (b.toNat % 16)]

def toHex (bs : Bytes) : String :=
  String.ofList (bs.flatMap hexOfByte)

def hexVal (c : Char) : Option Nat :=
  if '0' ≤ c ∧ c ≤ '9' then some (c.toNat - 48)
  else if 'a' ≤ c ∧ c ≤ 'f' then some (c.toNat - 87)
  else if 'A' ≤ c ∧ c ≤ 'F' then some (c.toNat - 55)
  else none

def ofHexChars : List Char → Option Bytes
  | [] => some []
  | [_] => none
  | a :: b :: rest =>
    match hexVal a, hexVal b, ofHexChars rest with
    | some x, some y, some r => some (UInt8.ofNat (x * 16 + y) :: r)
    | _, _, _ => none

/-- strict hex decoding used at the driver's protocol boundary; "-" is the empty string -/
def ofHex (s : String) : Option Bytes :=
  if s == "-" then some [] else ofHexChars s.toList

/-- little-endian value of a byte string -/
def leValue : Bytes → Nat
  | [] => 0
  | b :: rest => b.toNat + 256 * leValue rest

/-- little-endian bytes of a natural number, no leading (most significant) zero byte:
    the loop `while (abs) { push(abs & 0xff); abs >>= 8; }` -/
def leBytes (n : Nat) : Bytes :=
  if h : n = 0 then [] else UInt8.ofNat (n % 256) :: leBytes (n / 256)
termination_by n
decreasing_by omega

/-- fixed-width little-endian -/
def leFixed : Nat → Nat → Bytes
  | 0, _ => []
  | k+1, n => UInt8.ofNat (n % 256) :: leFixed k (n / 256)

/-- FNV-1a 64 bit over bytes -/
def fnv1a (h : UInt64) (bs : Bytes) : UInt64 :=
  bs.foldl (fun h b => (h ^^^ b.toUInt64) * 1099511628211) h

def fnvInit : UInt64 := 14695981039346656037

def fnvStr (h : UInt64) (s : String) : UInt64 :=
  fnv1a h s.toUTF8.toList

/-- splitmix64 -/
structure Rng where
  s : UInt64
deriving Repr

def Rng.next (r : Rng) : UInt64 × Rng :=
  let s := r.s + 0x9E3779B97F4A7C15
  let z := s
  let z := (z ^^^ (z >>> 30)) * 0xBF58476D1CE4E5B9
  let z := (z ^^^ (z >>> 27)) * 0x94D049BB133111EB
  (z ^^^ (z >>> 31), ⟨s⟩)

def Rng.below (r : Rng) (n : Nat) : Nat × Rng :=
  let (v, r') := r.next
  (if n = 0 then 0 else v.toNat % n, r')

end Btcdeb
