/-
  The concrete hash / curve functions the models and specifications are instantiated with when they are
  run against the implementation (the theorems are stated for arbitrary instances).
-/
import Btcdeb.Model.Session
import Btcdeb.Model.SpendMain
import Btcdeb.Crypto.Sha1
import Btcdeb.Crypto.Ripemd160
import Btcdeb.Crypto.Ecdsa
import Btcdeb.Spec.Taproot
import Btcdeb.Crypto.Hash
import Btcdeb.Crypto.Schnorr
namespace Btcdeb.Glue
open Btcdeb

/-- what `TaprootCommitmentEnv` calls: `TaggedHash`, `XOnlyPubKey::CheckTapTweak` -/
def tapCtx : Model.TapCtx where
  taggedHash := fun tag msg => Crypto.taggedHash (Crypto.strBytes tag) msg
  checkTapTweak := fun q p k parity => Crypto.checkTapTweak q p k parity

/-- what BIP341 is stated over -/
def tapOracle : Spec.TapOracle where
  taggedHash := fun tag msg => Crypto.taggedHash (Crypto.strBytes tag) msg
  tweakCheck := fun q p t parity => Crypto.xonlyTweakAddCheck q parity p t

/-- `BaseSignatureChecker` + the real hash functions -/
def baseCtx : Model.Ctx where
  sha256 := Crypto.sha256
  ripemd160 := Crypto.ripemd160
  sha1 := Crypto.sha1
  checkLowS := fun sig => Crypto.checkLowS sig
  checkLockTime := fun _ => false
  checkSequence := fun _ => false
  checkECDSA := fun _ _ _ _ => false
  checkSchnorr := fun _ _ _ _ => .error (.script .UNKNOWN_ERROR)

/-- TEMPORARY: transaction checker = base checker (replaced once Model/Sighash.lean lands) -/
def checkerBuilder : Model.CheckerBuilder where
  build := fun _ _ _ _ => baseCtx
  base := baseCtx

end Btcdeb.Glue
