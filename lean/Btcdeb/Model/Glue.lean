/-
  The concrete hash / curve functions the models and specifications are instantiated with when they are
  run against the implementation (the theorems are stated for arbitrary instances).
-/
import Btcdeb.Model.Session
import Btcdeb.Model.SpendMain
import Btcdeb.Model.Sighash
import Btcdeb.Crypto.Sha1
import Btcdeb.Crypto.Ripemd160
import Btcdeb.Crypto.Ecdsa
import Btcdeb.Spec.Taproot
import Btcdeb.Spec.Script
import Btcdeb.Crypto.Hash
import Btcdeb.Crypto.Schnorr
namespace Btcdeb.Glue
open Btcdeb

/-- what `TaprootCommitmentEnv` calls: `TaggedHash`, `XOnlyPubKey::CheckTapTweak` -/
def tapCtx : Model.TapCtx where
  taggedHash := fun tag msg => Crypto.taggedHash (Crypto.strBytes tag) msg
  checkTapTweak := fun q p k parity => Crypto.checkTapTweak q p k parity

/-- what BIP341 is stated over -/
def tapOracle : Spec.TapOracle where
  taggedHash := fun tag msg => Crypto.taggedHash (Crypto.strBytes tag) msg
  tweakCheck := fun q p t parity => Crypto.xonlyTweakAddCheck q parity p t

/-- `BaseSignatureChecker` + the real hash functions -/
def baseCtx : Model.Ctx where
  sha256 := Crypto.sha256
  ripemd160 := Crypto.ripemd160
  sha1 := Crypto.sha1
  checkLowS := fun sig => Crypto.checkLowS sig
  checkLockTime := fun _ => false
  checkSequence := fun _ => false
  checkECDSA := fun _ _ _ _ => false
  checkSchnorr := fun _ _ _ _ => .error (.script .UNKNOWN_ERROR)

/-- the specification's oracle for a session without a transaction (what `baseCtx` is measured against): no signature
    verifies, no lock time is satisfied, the hash functions are the real ones -/
def baseOracle : Spec.SigOracle where
  checkLowS := fun sig => Crypto.checkLowS sig
  checkLockTime := fun _ => false
  checkSequence := fun _ => false
  ecdsa := fun _ _ _ _ => false
  schnorr := fun _ _ _ _ => .error .UNKNOWN_ERROR
  sha256 := Crypto.sha256
  ripemd160 := Crypto.ripemd160
  sha1 := Crypto.sha1

/-- how `Instance::setup_environment` builds its checker (instance.cpp:187-203): `txdata.Init` with the one known
    spent output when requested; an assertion failure inside `Init` cannot happen there (one output, one input) -/
def checkerBuilder : Model.CheckerBuilder where
  build := fun tx nIn amount init =>
    let txdata : Model.PrecomputedTxData :=
      match init with
      | some (spent, force) =>
        match Model.precomputeInit Model.stdCrypto tx spent force with
        | .ok d => d
        | .error _ => {}
      | none => {}
    Model.txChecker tx nIn amount txdata
  base := baseCtx

end Btcdeb.Glue
