/-
  The concrete hash / curve functions the models and specifications are instantiated with when they are
  run against the implementation (the theorems are stated for arbitrary instances).
-/
import Btcdeb.Model.Session
import Btcdeb.Spec.Taproot
import Btcdeb.Crypto.Hash
import Btcdeb.Crypto.Schnorr
namespace Btcdeb.Glue
open Btcdeb

/-- what `TaprootCommitmentEnv` calls: `TaggedHash`, `XOnlyPubKey::CheckTapTweak` -/
def tapCtx : Model.TapCtx where
  taggedHash := fun tag msg => Crypto.taggedHash (Crypto.strBytes tag) msg
  checkTapTweak := fun q p k parity => Crypto.checkTapTweak q p k parity

/-- what BIP341 is stated over -/
def tapOracle : Spec.TapOracle where
  taggedHash := fun tag msg => Crypto.taggedHash (Crypto.strBytes tag) msg
  tweakCheck := fun q p t parity => Crypto.xonlyTweakAddCheck q parity p t

end Btcdeb.Glue
