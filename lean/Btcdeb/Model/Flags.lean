/-
  Model of `svf_parse_flags`, `svf_get_flag`, `svf_string` (btcdeb.cpp), over the generated `svf` table,
  and the specification of `--modify-flags`.
-/
import Btcdeb.Basic.Bytes
import Btcdeb.Spec.Types
import Btcdeb.Generated.Tables
namespace Btcdeb.Model
open Btcdeb

def strOfBytes' (b : Bytes) : String := String.ofList (b.map (fun c => Char.ofNat c.toNat))

/-- `svf_get_flag(name)`: first table entry with that name, 0 when unknown -/
def svfGetFlag (name : Bytes) : Nat :=
  match Gen.svf.find? (fun p => p.1 == strOfBytes' name) with
  | some p => p.2
  | none => 0

/-- one list item `buf`: sign, name lookup, application; `none` = `exit(1)` -/
def applyItem (flags : Nat) (buf : Bytes) : Option Nat :=
  match buf with
  | 43 :: name =>                                   -- '+'
    let f := svfGetFlag name
    if f == 0 then none else some (flags ||| f)
  | 45 :: name =>                                   -- '-'
    let f := svfGetFlag name
    if f == 0 then none else some (flags &&& (f ^^^ 0xFFFFFFFF))
  | _ => none                                       -- "expected + or -"

/-- the loop `for (i = 0; mod[i-(i>0)]; i++)`: items end at ',' or at the terminating NUL;
    `buf` is the item collected so far (`char buf[128]`, bound checked) -/
def parseFlagsGo (flags : Nat) : Bytes → Bytes → Option Nat
  | [], buf => applyItem flags buf                  -- the iteration on the terminating NUL
  | c :: rest, buf =>
    if c.toNat == 44 then                           -- ','
      match applyItem flags buf with
      | some f => parseFlagsGo f rest []
      | none => none
    else if buf.length + 1 ≥ 128 then none          -- item does not fit the buffer: rejected
    else parseFlagsGo flags rest (buf ++ [c])

/-- `svf_parse_flags(in_flags, mod)`; the empty string runs no iteration at all -/
def parseFlags (flags : Nat) (mod : Bytes) : Option Nat :=
  if mod.isEmpty then some flags else parseFlagsGo flags mod []

/-- `svf_string(flags, sep)`: names of the set bits in table order (every set bit must be owned by the
    table, otherwise the C++ `while (flags)` loop never ends: `none`) -/
def svfString (flags : Nat) : Option (List String) :=
  let names := (Gen.svf.filter (fun p => flags &&& p.2 != 0)).map (·.1)
  let owned := Gen.svf.foldl (fun acc p => acc ||| p.2) 0
  if flags &&& (owned ^^^ 0xFFFFFFFF) != 0 then none else some names

end Btcdeb.Model

namespace Btcdeb.Spec
open Btcdeb

/-- split a byte string at commas (always at least one item) -/
def splitComma : Bytes → List Bytes
  | [] => [[]]
  | c :: rest =>
    if c.toNat == 44 then [] :: splitComma rest
    else match splitComma rest with
      | [] => [[c]]
      | x :: xs => (c :: x) :: xs

def flagBit (name : Bytes) : Option Nat :=
  (Flag.table.find? (fun p => p.1 == "SCRIPT_VERIFY_" ++ Model.strOfBytes' name)).map (·.2)

/-- `--modify-flags=list`: each `+NAME` adds the flag, each `-NAME` removes it, in order; anything else
    (unknown name, missing sign, empty item) is rejected -/
def modifyFlags (flags : Nat) (list : Bytes) : Option Nat :=
  if list.isEmpty then some flags
  else (splitComma list).foldlM (fun fl item =>
    match item with
    | 43 :: name => (flagBit name).map (fun b => fl ||| (1 <<< b))
    | 45 :: name => (flagBit name).map (fun b => if fl.testBit b then fl - (1 <<< b) else fl)
    | _ => none) flags

end Btcdeb.Spec
