/-
  Model of `Value` (value.h): classification of a token (`Value(const char*, vlen)`) in its real order,
  the three `parse_args` overloads (bracket accumulation across argv words, the string tokenizer with
  its depth counter and `#` comments), `operator>>` (how a value is appended to a script),
  `data_value`, `hex_str`, `int_value`, and the inline transforms of `do_exec` that do not need
  libsecp256k1.  Program text is bytes (C strings); reads past the terminating NUL are explicit.
-/
import Btcdeb.Model.Session
namespace Btcdeb.Model
open Btcdeb

inductive VType where
  | T_STRING | T_INT | T_DATA | T_OPCODE
deriving Repr, DecidableEq, Inhabited

structure Value where
  type : VType := .T_STRING
  int64 : Int := 0
  opcode : Nat := 0xff
  data : Bytes := []
  str : Bytes := []
deriving Repr, DecidableEq, Inhabited

/-- why token processing can end other than with a value -/
inductive VErr where
  | exit1 (msg : String)          -- `exit(1)` with a diagnostic
  | abnormal (kind : String)      -- out-of-bounds read, assertion (the process dies)
  | exc (what : String)           -- a C++ exception derived from std::exception with this `what()`; the tools'
                                  -- `main`s catch it, report it and exit with status 1
deriving Repr, DecidableEq, Inhabited

abbrev VM := Except VErr

/-- hash functions the inline transforms use -/
structure VCtx where
  sha256 : Bytes → Bytes
  ripemd160 : Bytes → Bytes

/-- `args_string[i]` for a C string with content `s`: the NUL at `s.length`, undefined beyond -/
def cAt (s : Bytes) (i : Nat) : VM UInt8 :=
  if i < s.length then .ok (s.getD i 0) else if i == s.length then .ok 0 else .error (.abnormal "read past the end of the string")

def isSepChar (c : UInt8) : Bool :=
  c.toNat == 93 || c.toNat == 32 || c.toNat == 9 || c.toNat == 10 || c.toNat == 13 || c.toNat == 35   -- ] space \t \n \r #

/-- `CScriptNum(data, false).GetInt64()` as `Value::int_value` uses it on data (default 4-byte limit: longer data throws) -/
def dataIntValue (d : Bytes) : VM Int :=
  match scriptNum d false 4 with
  | .ok v => .ok v
  | .error _ => .error (.exc "script number overflow")      -- scriptnum_error thrown by the CScriptNum constructor

/-- `Value::data_value()` -/
def Value.dataValue (v : Value) : Bytes :=
  match v.type with
  | .T_DATA => v.data
  | .T_OPCODE => [UInt8.ofNat v.opcode]
  | .T_INT => serialize v.int64
  | .T_STRING => v.str

/-- `Value::int_value()`; for a string it prints a diagnostic and returns -1 -/
def Value.intValue (v : Value) : VM Int :=
  match v.type with
  | .T_INT => .ok v.int64
  | .T_OPCODE => .ok v.opcode
  | .T_DATA => dataIntValue v.data
  | .T_STRING => .ok (-1)

/-- `v >> s`: append the value to a script -/
def Value.appendTo (v : Value) (s : Bytes) : VM Bytes :=
  match v.type with
  | .T_OPCODE => .ok (s ++ [UInt8.ofNat v.opcode])
  | .T_INT => .ok (s ++ pushInt64 v.int64)
  | .T_DATA =>
    if v.data.length < 5 then do
      -- short data that is the canonical encoding of a number is pushed as that number (OP_n where one exists)
      let i ← dataIntValue v.data
      if serialize i == v.data then .ok (s ++ pushInt64 i) else .ok (s ++ pushData v.data)
    else .ok (s ++ pushData v.data)
  | .T_STRING => .ok (s ++ pushData v.str)

def appendAll : List Value → Bytes → VM Bytes
  | [], s => .ok s
  | v :: vs, s => do
    let s' ← v.appendTo s
    appendAll vs s'

/-- `HexStr` -/
def hexBytes (b : Bytes) : Bytes := (toHex b).toUTF8.toList

/-- `Value::hex_str()` -/
def Value.hexStr (v : Value) : Bytes :=
  match v.type with
  | .T_OPCODE => hexBytes [UInt8.ofNat v.opcode]
  | .T_INT => hexBytes (serialize v.int64)
  | .T_DATA => hexBytes v.data
  | .T_STRING => hexBytes v.str

/-- inline transforms (`do_exec(fun)`): `some v'` when the name is known to the model, `none` otherwise.
    Unknown-to-the-model names (signature, key and address transforms) are reported as such by the driver. -/
def Value.doExec (cx : VCtx) (v : Value) (fn : Bytes) : Option (VM Value) :=
  let name := strOfBytes fn
  if name == "echo" then some (.ok v)
  else if name == "hex" then some (.ok { v with str := v.hexStr, type := .T_STRING })
  else if name == "int" then some (do let i ← v.intValue; pure { v with int64 := i, type := .T_INT })
  else if name == "reverse" then
    some (match v.type with
      | .T_INT => .ok v      -- digits are collected least-significant first and folded back from the end: the same number
      | .T_DATA => .ok { v with data := v.data.reverse }
      | .T_STRING => .ok { v with str := v.str.reverse }
      | .T_OPCODE => .error (.exit1 "irreversible value type"))
  else if name == "sha256" then some (.ok { v with data := cx.sha256 v.dataValue, type := .T_DATA })
  else if name == "ripemd160" then some (.ok { v with data := cx.ripemd160 v.dataValue, type := .T_DATA })
  else if name == "hash256" then some (.ok { v with data := cx.sha256 (cx.sha256 v.dataValue), type := .T_DATA })
  else if name == "hash160" then some (.ok { v with data := cx.ripemd160 (cx.sha256 v.dataValue), type := .T_DATA })
  else if name == "prefix_compact_size" then
    some (.ok { v with data := compactSize v.dataValue.length ++ v.dataValue, type := .T_DATA })
  else if name == "len" then some (.ok { v with int64 := v.dataValue.length, type := .T_INT })
  else none

def knownInline : List String :=
  ["echo", "hex", "int", "reverse", "sha256", "ripemd160", "hash256", "hash160", "prefix_compact_size", "len"]
/-- every name `do_exec` accepts in a build without ENABLE_DANGEROUS -/
def allInline : List String :=
  knownInline ++ ["base58chkenc", "base58chkdec", "bech32enc", "bech32dec", "verify_sig", "combine_pubkeys", "tweak_pubkey",
    "pubkey_to_xpubkey", "addr_to_spk", "spk_to_addr", "add", "sub", "jacobi", "tagged_hash", "taproot_tweak_pubkey",
    "bech32menc", "verify_sig_compact", "b32e", "b32me", "b32d", "b58ce", "b58cd", "jacobi_sym"]

/-- the tail of the constructor: number, opcode, hex, else string.  `cur` is the value built so far
    (after a failed function call it is the inner value: fields that are not overwritten are kept). -/
def classifyPlain (cur : Value) (full : Bytes) (vlen : Nat) : VM Value :=
  let n := cAtoi 64 full
  if (n != 0 || full == [48]) && intDecimal n == full then .ok { cur with int64 := n, type := .T_INT }
  else
    match parseOpCode full with     -- `if (ParseOpCode(v, opcode)) { type = T_OPCODE; return; }` (value.h:238); a refusal leaves opcode = 0xff
    | some opc => .ok { cur with int64 := n, opcode := opc, type := .T_OPCODE }
    | none =>
      if vlen % 2 == 0 then
        let h := if vlen > 2 && full.getD 0 0 == 48 && full.getD 1 0 == 120 then full.drop 2 else full
        match tryHex h with
        | some d => .ok { cur with int64 := n, opcode := 0xff, data := d, type := .T_DATA }
        | none => .ok { cur with int64 := n, opcode := 0xff }
      else .ok { cur with int64 := n, opcode := 0xff }

/-- number of '[' minus number of ']' in a word -/
def bracketBalance (w : Bytes) : Int :=
  w.foldl (fun d c => if c.toNat == 91 then d + 1 else if c.toNat == 93 then d - 1 else d) 0

/-- `parse_args(const std::vector<const char*> args)`: a bracketed sub-script may span several words;
    nesting depth is tracked across words and the sub-script is emitted once it closes.
    `mk` is the `Value(const char*, vlen)` constructor. -/
def parseArgsListWith (mk : Bytes → Nat → VM Value) : List Bytes → Bytes → Int → List Value → VM (List Value)
  | [], _, _, acc => .ok acc.reverse
  | v :: rest, accum, depth, acc =>
    if depth > 0 then
      let accum' := accum ++ [32] ++ v
      let depth' := depth + bracketBalance v
      if depth' ≤ 0 then do
        let x ← mk accum' accum'.length
        parseArgsListWith mk rest [] 0 (x :: acc)
      else parseArgsListWith mk rest accum' depth' acc
    else if v.isEmpty then parseArgsListWith mk rest accum depth acc
    else if v.head? == some 91 && bracketBalance v > 0 then
      parseArgsListWith mk rest v (bracketBalance v) acc
    else do
      let x ← mk v v.length
      parseArgsListWith mk rest accum depth (x :: acc)

/-- `while ((++i) <= args_len && depth > 0) { ch = args_string[i]; depth += ... }`: final i and last ch;
    an unclosed bracket is `exit(1)` -/
def bracketScan (full : Bytes) (len : Nat) : Nat → Nat → Nat → UInt8 → VM (Nat × UInt8)
  | 0, i, _, ch => .ok (i, ch)
  | k + 1, i, depth, ch =>
    if i ≤ len && depth > 0 then do
      let c ← cAt full i
      let depth' := if c.toNat == 91 then depth + 1 else if c.toNat == 93 then depth - 1 else depth
      bracketScan full len k (i + 1) depth' c
    else if depth > 0 then .error (.exit1 "parse error, unclosed [bracket")
    else .ok (i, ch)

def skipLine (full : Bytes) (len : Nat) : Nat → Nat → Nat
  | 0, i => i
  | k + 1, i => if i < len && full.getD i 0 != 10 && full.getD i 0 != 13 then skipLine full len k (i + 1) else i

/-- the `for (i = 0; i <= args_len; i++)` loop of `parse_args(const char*, size_t)`; `k` is loop fuel.
    A `[` (at the start of a word or inside one) is scanned to its matching `]`; the group is part of the word
    it occurs in (`i--; continue;`), which goes on until the next separator. -/
def tokenize (full : Bytes) (len : Nat) : Nat → Nat → Nat → List Bytes → VM (List Bytes)
  | 0, _, _, acc => .ok acc.reverse
  | k + 1, i, start, acc =>
    if i > len then .ok acc.reverse
    else if len == 0 then .error (.abnormal "args_string[-1]")
    else do
      let ch ← cAt full (if i == len then i - 1 else i)
      if ch.toNat == 91 then do
        -- bracket: count depth until it closes; the scan leaves i one past the closing bracket, `i--; continue`
        -- and the loop's `i++` resume there
        let (i2, _) ← bracketScan full len (len + 2) (i + 1) 1 ch
        tokenize full len k i2 start acc
      else if i == len || isSepChar ch then
        let (acc, start) :=
          if start == i then (acc, start + 1)
          else ((full.drop start).take (i - start) :: acc, i + 1)
        if ch.toNat == 35 then
          -- trim out the remainder of this line
          let j := skipLine full len (len + 1) i
          tokenize full len k (j + 1) (j + 1) acc
        else tokenize full len k (i + 1) start acc
      else tokenize full len k (i + 1) start acc

/-- `parse_args(const char* args_string, size_t args_len)` -/
def parseArgsStringWith (mk : Bytes → Nat → VM Value) (full : Bytes) (len : Nat) : VM (List Value) := do
  let len := if len == 0 then full.length else len
  let toks ← tokenize full len (len + 2) 0 0 []
  parseArgsListWith mk toks [] 0 []

/-- body of `Value(const char* v, size_t vlen)`: `full` is the C string, `vlen` the length the caller
    passes (for a bracket accumulated over several argv words it is one less than `strlen`);
    `mk` constructs nested values -/
def valueBody (cx : VCtx) (mk : Bytes → Nat → VM Value) (full : Bytes) (vlen : Nat) : VM Value :=
  let vlen := if vlen == 0 then full.length else vlen
  if vlen == 2 && full.getD 0 0 == 48 && full.getD 1 0 == 120 then .ok { type := .T_DATA, data := [] }
  else
    let base : Value := { type := .T_STRING, str := full }
    if vlen > 1 && full.getD 0 0 == 91 && full.getD (vlen - 1) 0 == 93 then do
      -- decompile from Bitcoin Script: parse_args(&v[1], vlen - 2)
      let vs ← parseArgsStringWith mk (full.drop 1) (vlen - 2)
      let s ← appendAll vs []
      pure { base with data := s, type := .T_DATA }
    else
      -- inline function call name(arg)
      let fnChars := (full.take 29).takeWhile (fun c => c.toNat != 40 && c.toNat != 0)
      let i := fnChars.length
      if vlen > 3 && full.getD (vlen - 1) 0 == 41 && full.getD i 0 == 40 then do
        let valStart := i + 1
        let vallen := vlen - valStart - 1
        let val := (full.drop valStart).take vallen
        -- `*this = Value(val, vallen)` — strndup gives a fresh C string of exactly vallen characters
        let inner ← mk val vallen
        match inner.doExec cx fnChars with
        | some r => r
        | none =>
          if allInline.contains (strOfBytes fnChars) then .error (.exit1 ("UNMODELLED:" ++ strOfBytes fnChars))
          else classifyPlain inner full vlen      -- "unknown function: expression left as is"
      else classifyPlain base full vlen

/-- the nesting limit of `Value::DepthGuard` (value.h): sub-scripts and inline calls count against it -/
def valueDepthLimit : Nat := 200
def depthMsg : String := "parse error, expression nested too deeply (more than 200 levels)"

/-- `Value(const char*, vlen)`; `fuel` = how many more `Value` constructors may be active at once
    (`DepthGuard`: `if (++depth() > 200) exit(1)`; a top-level value is constructed with fuel 200) -/
def valueOf (cx : VCtx) : Nat → Bytes → Nat → VM Value
  | 0 => fun _ _ => .error (.exit1 depthMsg)
  | fuel + 1 => fun full vlen => valueBody cx (valueOf cx fuel) full vlen

def parseArgsList (cx : VCtx) (fuel : Nat) (args : List Bytes) : VM (List Value) :=
  parseArgsListWith (valueOf cx fuel) args [] 0 []

/-- what a tool's `main` does with a C++ exception: `catch (std::exception const& ex)`, a message, exit status 1 -/
def catchExc {α} (pfx : String) (x : VM α) : VM α :=
  match x with
  | .error (.exc w) => .error (.exit1 (pfx ++ w))
  | r => r

/-- `Value::serialize(parse_args(argc, argv, 1))` inside btcc's `try`: what `btcc` prints (as bytes of the script) -/
def btcc (cx : VCtx) (argv : List Bytes) : VM Bytes :=
  catchExc "error: " (do
    let vs ← parseArgsList cx valueDepthLimit argv
    appendAll vs [])

/-- `Value(text).data_value()`: how btcdeb / tap read a script or stack argument and the fields of --pretend-valid
    (an exception is caught by the caller's `main`, see `catchExc`) -/
def valueData (cx : VCtx) (text : Bytes) : VM Bytes := do
  let v ← valueOf cx valueDepthLimit text text.length
  pure v.dataValue

end Btcdeb.Model
