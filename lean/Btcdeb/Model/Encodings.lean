/-
  Model of the text encodings the value transforms use:
  base58.cpp (`EncodeBase58`, `DecodeBase58`, `EncodeBase58Check`, `DecodeBase58Check`),
  bech32.cpp (`bech32::Encode`, `bech32::Decode` for BECH32 and BECH32M, `PolyMod`, `ExpandHRP`,
  `CreateChecksum`, `VerifyChecksum`, `CheckCharacters`) and `ConvertBits` (util/strencodings.h:267).
  Strings are byte lists (C strings / std::string contents).  Every function mirrors the control flow of the
  C++, including its failure returns; the scratch buffers of base58.cpp (`b58`, `b256`, sized
  `len*138/100+1` / `len*733/1000+1`) are modelled by the list of the digits in use (`length` in the C++ is
  the length of that list), least significant digit first; `BtcdebProofs` (`base58_encode_buffer_suffices`,
  `base58_decode_buffer_suffices`) proves that list never outgrows the buffer, so `assert(carry == 0)` cannot fail.
-/
import Btcdeb.Basic.Bytes
namespace Btcdeb.Model
open Btcdeb

/-- `IsSpace` (util/strencodings.h:156): space, \f, \n, \r, \t, \v -/
def isSpaceB (c : UInt8) : Bool :=
  c.toNat == 32 || c.toNat == 12 || c.toNat == 10 || c.toNat == 13 || c.toNat == 9 || c.toNat == 11

-- ---------------------------------------------------------------------------------------------
-- base58.cpp

/-- `pszBase58` (base58.cpp:18) -/
def pszBase58 : List UInt8 :=
  [49, 50, 51, 52, 53, 54, 55, 56, 57, 65, 66, 67, 68, 69, 70, 71, 72, 74, 75, 76, 77, 78, 80, 81, 82, 83, 84, 85, 86,
   87, 88, 89, 90, 97, 98, 99, 100, 101, 102, 103, 104, 105, 106, 107, 109, 110, 111, 112, 113, 114, 115, 116, 117,
   118, 119, 120, 121, 122]

/-- `mapBase58[256]` (base58.cpp:19) -/
def mapBase58 : List Int := [
  -1, -1, -1, -1, -1, -1, -1, -1, -1, -1, -1, -1, -1, -1, -1, -1,
  -1, -1, -1, -1, -1, -1, -1, -1, -1, -1, -1, -1, -1, -1, -1, -1,
  -1, -1, -1, -1, -1, -1, -1, -1, -1, -1, -1, -1, -1, -1, -1, -1,
  -1, 0, 1, 2, 3, 4, 5, 6, 7, 8, -1, -1, -1, -1, -1, -1,
  -1, 9, 10, 11, 12, 13, 14, 15, 16, -1, 17, 18, 19, 20, 21, -1,
  22, 23, 24, 25, 26, 27, 28, 29, 30, 31, 32, -1, -1, -1, -1, -1,
  -1, 33, 34, 35, 36, 37, 38, 39, 40, 41, 42, 43, -1, 44, 45, 46,
  47, 48, 49, 50, 51, 52, 53, 54, 55, 56, 57, -1, -1, -1, -1, -1,
  -1, -1, -1, -1, -1, -1, -1, -1, -1, -1, -1, -1, -1, -1, -1, -1,
  -1, -1, -1, -1, -1, -1, -1, -1, -1, -1, -1, -1, -1, -1, -1, -1,
  -1, -1, -1, -1, -1, -1, -1, -1, -1, -1, -1, -1, -1, -1, -1, -1,
  -1, -1, -1, -1, -1, -1, -1, -1, -1, -1, -1, -1, -1, -1, -1, -1,
  -1, -1, -1, -1, -1, -1, -1, -1, -1, -1, -1, -1, -1, -1, -1, -1,
  -1, -1, -1, -1, -1, -1, -1, -1, -1, -1, -1, -1, -1, -1, -1, -1,
  -1, -1, -1, -1, -1, -1, -1, -1, -1, -1, -1, -1, -1, -1, -1, -1,
  -1, -1, -1, -1, -1, -1, -1, -1, -1, -1, -1, -1, -1, -1, -1, -1]

/-- the part of the carry loop that runs past the digits in use: `carry != 0` keeps it going, each round
    stores `carry % base` in a fresh digit -/
def extendDigits (base : Nat) (carry : Nat) : List Nat :=
  if h : carry = 0 ∨ base < 2 then [] else (carry % base) :: extendDigits base (carry / base)
termination_by carry
decreasing_by
  have h1 : carry ≠ 0 := fun e => h (Or.inl e)
  have h2 : 2 ≤ base := Nat.le_of_not_lt (fun e => h (Or.inr e))
  exact Nat.div_lt_self (Nat.pos_of_ne_zero h1) h2

/-- the inner `for` loop of base58.cpp:62 / :104:
    `for (it = buf.rbegin(); (carry != 0 || i < length) && it != buf.rend(); ++it, ++i) { carry += mul * (*it); *it = carry % base; carry /= base; }`
    on the digits in use (least significant first): it computes `buf = buf * mul + carry` in base `base`. -/
def mulAdd (base mul : Nat) : List Nat → Nat → List Nat
  | [], carry => extendDigits base carry
  | d :: ds, carry => ((carry + mul * d) % base) :: mulAdd base mul ds ((carry + mul * d) / base)

/-- `EncodeBase58(Span<const unsigned char>)` (base58.cpp:87) -/
def encodeBase58 (input : Bytes) : Bytes :=
  -- Skip & count leading zeroes.
  let zeroes := (input.takeWhile (· == 0)).length
  let rest := input.dropWhile (· == 0)
  -- Process the bytes: b58 = b58 * 256 + ch
  let b58 := rest.foldl (fun ds ch => mulAdd 58 256 ds ch.toNat) []
  -- Skip leading zeroes in base58 result.
  let it := b58.reverse.dropWhile (· == 0)
  -- Translate the result into a string.
  List.replicate zeroes 49 ++ it.map (fun d => pszBase58.getD d 0)

/-- the `while (*psz && !IsSpace(*psz))` loop of `DecodeBase58` (base58.cpp:56) over the characters up to the
    first space / NUL; `none` = `return false` -/
def decodeBase58Loop (maxRetLen zeroes : Nat) : Bytes → List Nat → Option (List Nat)
  | [], b256 => some b256
  | c :: rest, b256 =>
    -- Decode base58 character
    let carry := mapBase58.getD c.toNat (-1)
    if carry == -1 then none   -- Invalid b58 character
    else
      let b256' := mulAdd 256 58 b256 carry.toNat
      if b256'.length + zeroes > maxRetLen then none
      else decodeBase58Loop maxRetLen zeroes rest b256'

/-- `DecodeBase58(const char* psz, vch, max_ret_len)` (base58.cpp:38); `psz` has no NUL inside -/
def decodeBase58Psz (psz : Bytes) (maxRetLen : Nat) : Option Bytes :=
  -- Skip leading spaces.
  let psz := psz.dropWhile isSpaceB
  -- Skip and count leading '1's.
  let zeroes := (psz.takeWhile (· == 49)).length
  if zeroes > maxRetLen then none
  else
    let psz := psz.dropWhile (· == 49)
    let body := psz.takeWhile (fun c => !isSpaceB c)
    let tail := psz.dropWhile (fun c => !isSpaceB c)
    match decodeBase58Loop maxRetLen zeroes body [] with
    | none => none
    | some b256 =>
      -- Skip trailing spaces.
      if !(tail.dropWhile isSpaceB).isEmpty then none
      else some (List.replicate zeroes 0 ++ b256.reverse.map UInt8.ofNat)

/-- `DecodeBase58(const std::string&, vchRet, max_ret_len)` (base58.cpp:127) -/
def decodeBase58 (str : Bytes) (maxRetLen : Nat) : Option Bytes :=
  if str.any (· == 0) then none      -- !ContainsNoNUL(str)
  else decodeBase58Psz str maxRetLen

/-- `EncodeBase58Check` (base58.cpp:135); `hash` is `Hash()` = double SHA-256 -/
def encodeBase58Check (hash : Bytes → Bytes) (input : Bytes) : Bytes :=
  encodeBase58 (input ++ (hash input).take 4)

/-- `DecodeBase58Check(const std::string&, vchRet, max_ret)` (base58.cpp:144, :161); the limit handed on is
    `max_ret_len > INT_MAX - 4 ? INT_MAX : max_ret_len + 4` (the transforms pass INT_MAX) -/
def decodeBase58Check (hash : Bytes → Bytes) (str : Bytes) (maxRet : Nat) : Option Bytes :=
  match decodeBase58 str (if maxRet > 2147483647 - 4 then 2147483647 else maxRet + 4) with
  | none => none
  | some vch =>
    if vch.length < 4 then none
    else
      let payload := vch.take (vch.length - 4)
      -- re-calculate the checksum, ensure it matches the included 4-byte checksum
      if (hash payload).take 4 != vch.drop (vch.length - 4) then none
      else some payload

-- ---------------------------------------------------------------------------------------------
-- ConvertBits

/-- the `while (bits >= tobits) { bits -= tobits; outfn((acc >> bits) & maxv); }` loop -/
def convertBitsEmit (tobits acc : Nat) (bits : Nat) (out : List Nat) : Nat × List Nat :=
  if _h : tobits = 0 ∨ bits < tobits then (bits, out)
  else convertBitsEmit tobits acc (bits - tobits) (out ++ [(acc >>> (bits - tobits)) % 2 ^ tobits])
termination_by bits
decreasing_by omega

structure ConvState where
  acc : Nat := 0
  bits : Nat := 0
  out : List Nat := []
deriving Repr, DecidableEq

/-- one round of the `while (it != end)` loop -/
def convertBitsStep (frombits tobits : Nat) (s : ConvState) (v : Nat) : ConvState :=
  let acc := ((s.acc <<< frombits) ||| v) % 2 ^ (frombits + tobits - 1)      -- & max_acc
  let r := convertBitsEmit tobits acc (s.bits + frombits) s.out
  { acc := acc, bits := r.1, out := r.2 }

/-- `ConvertBits<frombits, tobits, pad>(outfn, it, end)` (util/strencodings.h:267): the values handed to
    `outfn` and the return value.  (The inputs are `unsigned char`, so `v < 0` never holds.) -/
def convertBits (frombits tobits : Nat) (pad : Bool) (input : List Nat) : List Nat × Bool :=
  let s := input.foldl (convertBitsStep frombits tobits) {}
  if pad then
    (if s.bits != 0 then s.out ++ [(s.acc <<< (tobits - s.bits)) % 2 ^ tobits] else s.out, true)
  else if s.bits ≥ frombits || (s.acc <<< (tobits - s.bits)) % 2 ^ tobits != 0 then (s.out, false)
  else (s.out, true)

-- ---------------------------------------------------------------------------------------------
-- bech32.cpp

inductive Bech32Encoding where
  | INVALID | BECH32 | BECH32M
deriving Repr, DecidableEq, Inhabited

/-- `CHARSET` (bech32.cpp:23) -/
def bech32Charset : List UInt8 :=
  [113, 112, 122, 114, 121, 57, 120, 56, 103, 102, 50, 116, 118, 100, 119, 48, 115, 51, 106, 110, 53, 52, 107, 104, 99,
   101, 54, 109, 117, 97, 55, 108]

/-- `CHARSET_REV[128]` (bech32.cpp:26) -/
def bech32CharsetRev : List Int := [
  -1, -1, -1, -1, -1, -1, -1, -1, -1, -1, -1, -1, -1, -1, -1, -1,
  -1, -1, -1, -1, -1, -1, -1, -1, -1, -1, -1, -1, -1, -1, -1, -1,
  -1, -1, -1, -1, -1, -1, -1, -1, -1, -1, -1, -1, -1, -1, -1, -1,
  15, -1, 10, 17, 21, 20, 26, 30, 7, 5, -1, -1, -1, -1, -1, -1,
  -1, 29, -1, 24, 13, 25, 9, 8, 23, -1, 18, 22, 31, 27, 19, -1,
  1, 0, 3, 16, 11, 28, 12, 14, 6, 4, 2, -1, -1, -1, -1, -1,
  -1, 29, -1, 24, 13, 25, 9, 8, 23, -1, 18, 22, 31, 27, 19, -1,
  1, 0, 3, 16, 11, 28, 12, 14, 6, 4, 2, -1, -1, -1, -1, -1]

/-- `EncodingConstant` (bech32.cpp:122); the C++ asserts the encoding is not INVALID -/
def encodingConstant : Bech32Encoding → Nat
  | .BECH32M => 0x2bc830a3
  | _ => 1

/-- one round of the loop of `PolyMod` (bech32.cpp:178).  `c` is a `uint32_t` that stays below 2^30
    (`BtcdebProofs`: `polyModStep_lt`), so no wrap-around is involved; `c0 & (1 << i)` is `testBit i`. -/
def polyModStep (c : Nat) (v : UInt8) : Nat :=
  let c0 := (c >>> 25) % 256                          -- uint8_t c0 = c >> 25
  let c := ((c % 0x2000000) <<< 5) ^^^ v.toNat        -- ((c & 0x1ffffff) << 5) ^ v_i
  let c := if c0.testBit 0 then c ^^^ 0x3b6a57b2 else c
  let c := if c0.testBit 1 then c ^^^ 0x26508e6d else c
  let c := if c0.testBit 2 then c ^^^ 0x1ea119fa else c
  let c := if c0.testBit 3 then c ^^^ 0x3d4233dd else c
  let c := if c0.testBit 4 then c ^^^ 0x2a1462b3 else c
  c

/-- `PolyMod(v)` (bech32.cpp:130) -/
def polyMod (v : Bytes) : Nat := v.foldl polyModStep 1

/-- `ExpandHRP(hrp)` (bech32.cpp:312) -/
def expandHRP (hrp : Bytes) : Bytes :=
  hrp.map (fun (c : UInt8) => c >>> 5) ++ [0] ++ hrp.map (fun (c : UInt8) => c &&& 0x1f)

/-- `VerifyChecksum(hrp, values)` (bech32.cpp:327) -/
def verifyChecksum (hrp : Bytes) (values : Bytes) : Bech32Encoding :=
  let check := polyMod (expandHRP hrp ++ values)
  if check == encodingConstant .BECH32 then .BECH32
  else if check == encodingConstant .BECH32M then .BECH32M
  else .INVALID

/-- `CreateChecksum(encoding, hrp, values)` (bech32.cpp:341) -/
def createChecksum (encoding : Bech32Encoding) (hrp : Bytes) (values : Bytes) : Bytes :=
  let enc := expandHRP hrp ++ values ++ List.replicate 6 0
  let mod := polyMod enc ^^^ encodingConstant encoding
  (List.range 6).map (fun i => UInt8.ofNat ((mod >>> (5 * (5 - i))) % 32))

/-- `bech32::Encode(encoding, hrp, values)` (bech32.cpp:357); `none` = the assertion on an upper-case HRP
    fails or `CHARSET[c]` is read out of bounds (c ≥ 32) -/
def bech32Encode (encoding : Bech32Encoding) (hrp : Bytes) (values : Bytes) : Option Bytes :=
  -- `for (const char& c : hrp) assert(c < 'A' || c > 'Z')`
  if hrp.any (fun c => 65 ≤ c.toNat && c.toNat ≤ 90) then none
  else if encoding == .INVALID then none
  else
    let combined := values ++ createChecksum encoding hrp values
    if combined.any (fun c => c.toNat ≥ 32) then none
    else some (hrp ++ [49] ++ combined.map (fun c => bech32Charset.getD c.toNat 0))

/-- `LowerCase` (bech32.cpp:281) -/
def lowerCase (c : UInt8) : UInt8 :=
  if 65 ≤ c.toNat && c.toNat ≤ 90 then UInt8.ofNat (c.toNat - 65 + 97) else c

/-- state of `CheckCharacters` (bech32.cpp:287): lower seen, upper seen, no error so far -/
def checkCharactersStep (s : Bool × Bool × Bool) (c : UInt8) : Bool × Bool × Bool :=
  let (lower, upper, ok) := s
  if 97 ≤ c.toNat && c.toNat ≤ 122 then (if upper then (lower, upper, false) else (true, upper, ok))
  else if 65 ≤ c.toNat && c.toNat ≤ 90 then (if lower then (lower, upper, false) else (lower, true, ok))
  else if c.toNat < 33 || c.toNat > 126 then (lower, upper, false)
  else (lower, upper, ok)

/-- `CheckCharacters(str, errors)`: `errors.empty()` -/
def checkCharacters (str : Bytes) : Bool :=
  (str.foldl checkCharactersStep (false, false, true)).2.2

/-- `str.rfind('1')` -/
def rfindOne (str : Bytes) : Option Nat :=
  match str.reverse.idxOf? 49 with
  | none => none
  | some k => some (str.length - 1 - k)

/-- the `for` loop translating the data part through `CHARSET_REV`; `none` = `return {}` -/
def bech32Values : Bytes → Option Bytes
  | [] => some []
  | c :: rest =>
    let rev := bech32CharsetRev.getD c.toNat (-1)
    if rev == -1 then none
    else match bech32Values rest with
      | none => none
      | some vs => some (UInt8.ofNat rev.toNat :: vs)

/-- `bech32::Decode(str)` (bech32.cpp:373): `none` = the default-constructed result (encoding INVALID) -/
def bech32Decode (str : Bytes) : Option (Bech32Encoding × Bytes × Bytes) :=
  if !checkCharacters str then none
  else match rfindOne str with
    | none => if str.length > 90 then none else none
    | some pos =>
      if str.length > 90 || pos == 0 || pos + 7 > str.length then none
      else match bech32Values (str.drop (pos + 1)) with
        | none => none
        | some values =>
          let hrp := (str.take pos).map lowerCase
          match verifyChecksum hrp values with
          | .INVALID => none
          | result => some (result, hrp, values.take (values.length - 6))

end Btcdeb.Model
