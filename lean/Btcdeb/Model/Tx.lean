/-
  Model of transaction (de)serialisation and of the `--tx=` argument parsing.

  Mirrors, function by function:
    serialize.h                 `ReadCompactSize`, (pre)vector (de)serialisation (compact size + elements)
    primitives/transaction.h    `COutPoint` / `CTxIn` / `CTxOut` `SERIALIZE_METHODS`,
                                `UnserializeTransaction`, `SerializeTransaction`, `HasWitness`
    primitives/transaction.cpp  `CTransaction::ComputeHash` (`SerializeHash(.., SERIALIZE_TRANSACTION_NO_WITNESS)`)
    instance.cpp                `parse_tx`, `Instance::parse_transaction(txdata, true)`
    util/strencodings.cpp       `ParseFixedPoint`, `ProcessMantissaDigit`

  A stream is the list of bytes not yet read; `none` = the C++ throws `std::ios_base::failure` (read past
  the end of the stream, non-canonical / too large compact size, "Superfluous witness record", "Unknown
  transaction optional data") or returns `false` / `nullptr`.

  Modelling assumptions (stated here, nowhere else): byte strings are shorter than 2^31 (C++ `int ptr, end,
  mantissa_tzeros, point_ofs` in `ParseFixedPoint` do not wrap) and memory allocation does not fail.
  Core Lean only.
-/
import Btcdeb.Basic.Bytes
import Btcdeb.Model.Session
namespace Btcdeb.Model
open Btcdeb

/-- `COutPoint`: `hash` holds the 32 bytes exactly as serialised (uint256 memory order), `n` is uint32 -/
structure OutPoint where
  hash : Bytes
  n : Nat
deriving Repr, DecidableEq, Inhabited

/-- `CTxIn`; `witness` = `scriptWitness.stack` -/
structure TxIn where
  prevout : OutPoint
  scriptSig : Bytes
  sequence : Nat
  witness : List Bytes
deriving Repr, DecidableEq, Inhabited

/-- `CTxOut`; `value` is `CAmount` = int64 -/
structure TxOut where
  value : Int
  scriptPubKey : Bytes
deriving Repr, DecidableEq, Inhabited

/-- `CMutableTransaction` / `CTransaction`: int32 version, uint32 lock time -/
structure Tx where
  version : Int
  vin : List TxIn
  vout : List TxOut
  lockTime : Nat
deriving Repr, DecidableEq, Inhabited

/-- `MAX_SIZE` (serialize.h:31) -/
def MAX_SIZE : Nat := 0x02000000

/-! ## reading -/

/-- `is.read(span of n bytes)`: throws when fewer than `n` bytes are left -/
def readBytes (n : Nat) (b : Bytes) : Option (Bytes × Bytes) :=
  if n ≤ b.length then some (b.take n, b.drop n) else none

/-- `ser_readdata8/16/32/64`: `k` bytes, little endian, as an unsigned number -/
def readLE (k : Nat) (b : Bytes) : Option (Nat × Bytes) :=
  match readBytes k b with
  | some (x, r) => some (leValue x, r)
  | none => none

/-- reinterpretation of an unsigned `bits`-wide number as two's complement -/
def toSigned (bits : Nat) (v : Nat) : Int :=
  if v < 2 ^ (bits - 1) then (v : Int) else (v : Int) - (2 ^ bits : Nat)

/-- the unsigned `bits`-wide representation of a signed number -/
def ofSigned (bits : Nat) (v : Int) : Nat := (v % ((2 ^ bits : Nat) : Int)).toNat

/-- `ReadCompactSize(is, range_check)` (serialize.h:275-305) -/
def readCompactSize (b : Bytes) (rangeCheck : Bool := true) : Option (Nat × Bytes) :=
  match b with
  | [] => none
  | c :: r =>
    let res : Option (Nat × Bytes) :=
      if c.toNat < 253 then some (c.toNat, r)
      else if c.toNat = 253 then
        match readLE 2 r with
        | some (n, r') => if n < 253 then none else some (n, r')
        | none => none
      else if c.toNat = 254 then
        match readLE 4 r with
        | some (n, r') => if n < 0x10000 then none else some (n, r')
        | none => none
      else
        match readLE 8 r with
        | some (n, r') => if n < 0x100000000 then none else some (n, r')
        | none => none
    match res with
    | some (n, r') => if rangeCheck && decide (n > MAX_SIZE) then none else some (n, r')
    | none => none

/-- `Unserialize_impl(is, vector<unsigned char>/prevector<N, unsigned char>)`: compact size, then that many bytes
    (the C++ reads them in blocks of at most 5,000,000) -/
def readVarBytes (b : Bytes) : Option (Bytes × Bytes) :=
  match readCompactSize b with
  | some (n, r) => readBytes n r
  | none => none

/-- `n` items, each read with `p` -/
def readN {α : Type} (p : Bytes → Option (α × Bytes)) : Nat → Bytes → Option (List α × Bytes)
  | 0, b => some ([], b)
  | n + 1, b =>
    match p b with
    | some (a, r) =>
      match readN p n r with
      | some (as, r') => some (a :: as, r')
      | none => none
    | none => none

/-- `VectorFormatter<DefaultFormatter>::Unser`: compact size, then that many items -/
def readVector {α : Type} (p : Bytes → Option (α × Bytes)) (b : Bytes) : Option (List α × Bytes) :=
  match readCompactSize b with
  | some (n, r) => readN p n r
  | none => none

/-- `COutPoint`: `READWRITE(obj.hash, obj.n)` -/
def readOutPoint (b : Bytes) : Option (OutPoint × Bytes) :=
  match readBytes 32 b with
  | some (h, r) =>
    match readLE 4 r with
    | some (n, r') => some ({ hash := h, n := n }, r')
    | none => none
  | none => none

/-- `CTxIn`: `READWRITE(obj.prevout, obj.scriptSig, obj.nSequence)`; the witness stack is not part of it -/
def readTxIn (b : Bytes) : Option (TxIn × Bytes) :=
  match readOutPoint b with
  | some (o, r) =>
    match readVarBytes r with
    | some (s, r') =>
      match readLE 4 r' with
      | some (q, r'') => some ({ prevout := o, scriptSig := s, sequence := q, witness := [] }, r'')
      | none => none
    | none => none
  | none => none

/-- `CTxOut`: `READWRITE(obj.nValue, obj.scriptPubKey)` -/
def readTxOut (b : Bytes) : Option (TxOut × Bytes) :=
  match readLE 8 b with
  | some (v, r) =>
    match readVarBytes r with
    | some (s, r') => some ({ value := toSigned 64 v, scriptPubKey := s }, r')
    | none => none
  | none => none

/-- `for (i < tx.vin.size()) s >> tx.vin[i].scriptWitness.stack;` -/
def readWitnesses : List TxIn → Bytes → Option (List TxIn × Bytes)
  | [], b => some ([], b)
  | i :: is, b =>
    match readVector readVarBytes b with
    | some (w, r) =>
      match readWitnesses is r with
      | some (is', r') => some ({ i with witness := w } :: is', r')
      | none => none
    | none => none

/-- `HasWitness()` on the input vector -/
def hasWitnessIns (vin : List TxIn) : Bool := vin.any (fun i => !i.witness.isEmpty)

/-- `CTransaction::HasWitness` / `CMutableTransaction::HasWitness` -/
def hasWitness (tx : Tx) : Bool := hasWitnessIns tx.vin

/-- the part of `UnserializeTransaction` after `s >> tx.nVersion` up to the flag checks:
    result = (flags, vin, vout, stream) -/
def readInsOuts (b : Bytes) : Option (Nat × List TxIn × List TxOut × Bytes) :=
  match readVector readTxIn b with
  | none => none
  | some (vin, r) =>
    if vin.isEmpty then
      -- "We read a dummy or an empty vin."
      match readLE 1 r with
      | none => none
      | some (flags, r1) =>
        if flags ≠ 0 then
          match readVector readTxIn r1 with
          | none => none
          | some (vin', r2) =>
            match readVector readTxOut r2 with
            | none => none
            | some (vout, r3) => some (flags, vin', vout, r3)
        else some (0, [], [], r1)
    else
      -- "We read a non-empty vin. Assume a normal vout follows."
      match readVector readTxOut r with
      | none => none
      | some (vout, r1) => some (0, vin, vout, r1)

/-- `UnserializeTransaction(tx, s)` with `fAllowWitness` (stream version 0, as in `parse_tx`);
    returns the transaction and the rest of the stream -/
def parseTx (b : Bytes) : Option (Tx × Bytes) :=
  match readLE 4 b with
  | none => none
  | some (ver, r0) =>
    match readInsOuts r0 with
    | none => none
    | some (flags, vin, vout, r) =>
      let wit : Option (Nat × List TxIn × Bytes) :=
        if flags % 2 = 1 then
          -- "The witness flag is present, and we support witnesses."
          match readWitnesses vin r with
          | none => none
          | some (vin', r') =>
            if hasWitnessIns vin' then some (flags - 1, vin', r')      -- flags ^= 1
            else none                                                   -- "Superfluous witness record"
        else some (flags, vin, r)
      match wit with
      | none => none
      | some (flags', vin', r') =>
        if flags' ≠ 0 then none                                         -- "Unknown transaction optional data"
        else
          match readLE 4 r' with
          | none => none
          | some (lock, r'') =>
            some ({ version := toSigned 32 ver, vin := vin', vout := vout, lockTime := lock }, r'')

/-! ## writing -/

/-- `Serialize_impl(os, vector<unsigned char>)`: compact size + bytes -/
def serVarBytes (x : Bytes) : Bytes := compactSize x.length ++ x

/-- `VectorFormatter<DefaultFormatter>::Ser` -/
def serVector {α : Type} (f : α → Bytes) (xs : List α) : Bytes :=
  compactSize xs.length ++ xs.flatMap f

def serOutPoint (o : OutPoint) : Bytes := o.hash ++ leFixed 4 o.n

def serTxIn (i : TxIn) : Bytes := serOutPoint i.prevout ++ serVarBytes i.scriptSig ++ leFixed 4 i.sequence

def serTxOut (o : TxOut) : Bytes := leFixed 8 (ofSigned 64 o.value) ++ serVarBytes o.scriptPubKey

/-- `s << tx.vin[i].scriptWitness.stack` -/
def serWitness (i : TxIn) : Bytes := serVector serVarBytes i.witness

/-- `SerializeTransaction(tx, s)`; `allowWitness` = `!(s.GetVersion() & SERIALIZE_TRANSACTION_NO_WITNESS)` -/
def serTx (tx : Tx) (allowWitness : Bool) : Bytes :=
  let flags : Nat := if allowWitness && hasWitness tx then 1 else 0
  leFixed 4 (ofSigned 32 tx.version)
    ++ (if flags ≠ 0 then serVector serTxIn [] ++ [UInt8.ofNat flags] else [])
    ++ serVector serTxIn tx.vin
    ++ serVector serTxOut tx.vout
    ++ (if flags % 2 = 1 then tx.vin.flatMap serWitness else [])
    ++ leFixed 4 tx.lockTime

/-- `CTransaction::GetHash()` as a 32-byte string in memory order (`ToString()` prints it reversed);
    `hash256` = double SHA-256 -/
def txHash (hash256 : Bytes → Bytes) (tx : Tx) : Bytes := hash256 (serTx tx false)

/-! ## `parse_tx`, `ParseFixedPoint`, `Instance::parse_transaction` -/

/-- a `const char*` argument: the bytes before the first NUL -/
def cstr (text : Bytes) : Bytes := text.takeWhile (fun c => c != 0)

/-- the first three statements of `parse_tx`: `TryHex`, then `UnserializeTransaction` on the stream;
    result = the transaction and `ss.size()` afterwards (the number of bytes not consumed) -/
def unserializeHex (text : Bytes) : Option (Tx × Nat) :=
  match tryHex (cstr text) with
  | none => none
  | some data =>
    match parseTx data with
    | none => none
    | some (tx, rest) => some (tx, rest.length)

/-- `parse_tx(text)` (instance.cpp:11-27).  Since the commit "fix: transaction hex with trailing bytes was
    accepted" the function returns `nullptr` unless the stream is exhausted (`!ss.empty()`), so the second
    component of a successful result is always 0.  `none` = `nullptr` or an exception. -/
def parseTxHex (text : Bytes) : Option (Tx × Nat) :=
  match unserializeHex text with
  | some (tx, n) => if n = 0 then some (tx, 0) else none
  | none => none

/-- `UPPER_BOUND` (util/strencodings.cpp:328) -/
def UPPER_BOUND : Int := 1000000000000000000 - 1

/-- `ProcessMantissaDigit(ch, mantissa, mantissa_tzeros)`; `none` = `false` (overflow).
    The loop `for (i = 0; i <= mantissa_tzeros; ++i)` is `mulTen (tzeros + 1)`. -/
def mulTen : Nat → Int → Option Int
  | 0, m => some m
  | k + 1, m => if m > UPPER_BOUND / 10 then none else mulTen k (m * 10)

def processMantissaDigit (ch : UInt8) (mantissa : Int) (tzeros : Nat) : Option (Int × Nat) :=
  if ch.toNat = 48 then some (mantissa, tzeros + 1)
  else
    match mulTen (tzeros + 1) mantissa with
    | none => none
    | some m => some (m + ((ch.toNat : Int) - 48), 0)

/-- `while (ptr < end && IsDigit(val[ptr])) { if (!ProcessMantissaDigit(..)) return false; ++ptr; [++point_ofs;] }`
    result: mantissa, trailing zeros, number of digits consumed, rest of the string -/
def mantissaDigits : Bytes → Int → Nat → Nat → Option (Int × Nat × Nat × Bytes)
  | [], m, tz, cnt => some (m, tz, cnt, [])
  | c :: r, m, tz, cnt =>
    if isDigit c then
      match processMantissaDigit c m tz with
      | none => none
      | some (m', tz') => mantissaDigits r m' tz' (cnt + 1)
    else some (m, tz, cnt, c :: r)

/-- the exponent digit loop; `none` = overflow -/
def exponentDigits : Bytes → Int → Option (Int × Bytes)
  | [], e => some (e, [])
  | c :: r, e =>
    if isDigit c then
      if e > UPPER_BOUND / 10 then none else exponentDigits r (e * 10 + ((c.toNat : Int) - 48))
    else some (e, c :: r)

/-- the final loop `for (i < exponent) { if (mantissa > UB/10 || mantissa < -(UB/10)) return false; mantissa *= 10; }` -/
def scaleTen : Nat → Int → Option Int
  | 0, m => some m
  | k + 1, m => if m > UPPER_BOUND / 10 || m < -(UPPER_BOUND / 10) then none else scaleTen k (m * 10)

/-- `if (ptr < end && val[ptr] == '-') { mantissa_sign = true; ++ptr; }` -/
def pfpSign (s : Bytes) : Bool × Bytes :=
  match s with
  | 45 :: r => (true, r)
  | _ => (false, s)

/-- the integer part: a single `0`, or `[1-9][0-9]*`; result: mantissa, trailing zeros, rest of the string -/
def pfpInt (s1 : Bytes) : Option (Int × Nat × Bytes) :=
  match s1 with
  | [] => none                                             -- empty string or loose '-'
  | c :: r =>
    if c.toNat = 48 then some (0, 0, r)                    -- pass single 0
    else if 49 ≤ c.toNat && c.toNat ≤ 57 then
      match mantissaDigits (c :: r) 0 0 0 with
      | none => none
      | some (m, tz, _, r') => some (m, tz, r')
    else none                                              -- missing expected digit

/-- the optional fraction `.[0-9]+`; result: mantissa, trailing zeros, `point_ofs`, rest -/
def pfpFrac (m : Int) (tz : Nat) (s2 : Bytes) : Option (Int × Nat × Nat × Bytes) :=
  match s2 with
  | 46 :: r =>
    match r with
    | d :: _ => if isDigit d then mantissaDigits r m tz 0 else none     -- missing expected digit
    | [] => none
  | _ => some (m, tz, 0, s2)

/-- the optional exponent `[eE][+-]?[0-9]+`; result: exponent magnitude, `exponent_sign`, rest -/
def pfpExp (s3 : Bytes) : Option (Int × Bool × Bytes) :=
  let isE : Bool := match s3 with
    | c :: _ => c.toNat = 101 || c.toNat = 69
    | [] => false
  if isE then
    let r := s3.drop 1
    let (eneg, r1) : Bool × Bytes := match r with
      | 43 :: r' => (false, r')
      | 45 :: r' => (true, r')
      | _ => (false, r)
    match r1 with
    | d :: _ =>
      if isDigit d then
        match exponentDigits r1 0 with
        | none => none
        | some (e, r2) => some (e, eneg, r2)
      else none                                            -- missing expected digit
    | [] => none
  else some (0, false, s3)

/-- everything after `if (ptr != end) return false;` -/
def pfpFinal (neg : Bool) (m : Int) (tz pointOfs : Nat) (e : Int) (eneg : Bool) (decimals : Nat) : Option Int :=
  let e : Int := if eneg then -e else e
  let e : Int := e - (pointOfs : Int) + (tz : Int)
  let m : Int := if neg then -m else m
  let e : Int := e + (decimals : Int)
  if e < 0 then none                       -- cannot represent values smaller than 10^-decimals
  else if e ≥ 18 then none                 -- cannot represent values larger than or equal to 10^(18-decimals)
  else
    match scaleTen e.toNat m with
    | none => none
    | some m' =>
      if m' > UPPER_BOUND || m' < -UPPER_BOUND then none else some m'

/-- `ParseFixedPoint(val, decimals, &amount)`: `some amount` when it returns true -/
def parseFixedPoint (s : Bytes) (decimals : Nat) : Option Int :=
  match pfpInt (pfpSign s).2 with
  | none => none
  | some (m, tz, s2) =>
    match pfpFrac m tz s2 with
    | none => none
    | some (m, tz, pointOfs, s3) =>
      match pfpExp s3 with
      | none => none
      | some (e, eneg, s4) =>
        if !s4.isEmpty then none                            -- trailing garbage
        else pfpFinal (pfpSign s).1 m tz pointOfs e eneg decimals

/-- the amount prefix loop of `Instance::parse_transaction` (instance.cpp:33-55):
    `p` = the text from the current position, `amounts` = the amounts collected so far (in order).
    result: the amounts and the position of the transaction hex; `none` = `return false`.
    (`fuel` bounds the number of iterations; each iteration consumes at least one character.) -/
def amountLoop : Nat → Bytes → List Int → Option (List Int × Bytes)
  | 0, _, _ => none
  | fuel + 1, p, amounts =>
    let tok := p.takeWhile (fun c => c != 44 && c != 58)        -- up to ',' or ':' (NUL was cut off by `cstr`)
    let rest := p.drop tok.length
    match rest with
    | [] =>
      if amounts.isEmpty then some ([], p)                       -- no amounts provided
      else none                                                  -- "tx hex missing from input"
    | c :: rest' =>
      match parseFixedPoint tok 8 with
      | none => none                                             -- "failed to parse amount"
      | some a =>
        if c.toNat = 58 then some (amounts ++ [a], rest')
        else amountLoop fuel rest' (amounts ++ [a])

/-- `Instance::parse_transaction(text, true)` up to and including the padding of `amounts`
    (`while (amounts.size() < tx->vin.size()) amounts.push_back(0)`), on a fresh `Instance`:
    amounts, transaction, number of unconsumed stream bytes (see `parseTxHex`) -/
def parseTransactionArg (text : Bytes) : Option (List Int × Tx × Nat) :=
  let t := cstr text
  match amountLoop (t.length + 1) t [] with
  | none => none
  | some (amounts, p) =>
    match parseTxHex p with
    | none => none
    | some (tx, n) =>
      if tx.vin.isEmpty then none                      -- "error: the transaction has no inputs"
      else some (amounts ++ List.replicate (tx.vin.length - amounts.length) 0, tx, n)

/-! ## canonical rendering for the differential test -/

private def hexOrUnderscore (b : Bytes) : String := if b.isEmpty then "_" else toHex b

private def joinWith (sep : String) : List String → String
  | [] => ""
  | [x] => x
  | x :: xs => x ++ sep ++ joinWith sep xs

def txInLine (i : TxIn) : String :=
  toHex i.prevout.hash ++ ":" ++ toString i.prevout.n ++ ":" ++ toHex i.scriptSig ++ ":" ++ toString i.sequence
    ++ ":" ++ (if i.witness.isEmpty then "-" else joinWith "." (i.witness.map hexOrUnderscore))

def txOutLine (o : TxOut) : String := toString o.value ++ ":" ++ toHex o.scriptPubKey

/-- one line per parse result, compared verbatim with the C++ reference program -/
def txLine (hash256 : Bytes → Bytes) (r : Option (Tx × Nat)) : String :=
  match r with
  | none => "ERR"
  | some (tx, n) =>
    "OK v=" ++ toString tx.version ++ " lock=" ++ toString tx.lockTime
      ++ " wit=" ++ (if hasWitness tx then "1" else "0")
      ++ " in=[" ++ joinWith ";" (tx.vin.map txInLine) ++ "]"
      ++ " out=[" ++ joinWith ";" (tx.vout.map txOutLine) ++ "]"
      ++ " ser=" ++ toHex (serTx tx true)
      ++ " nowit=" ++ toHex (serTx tx false)
      ++ " txid=" ++ toHex (txHash hash256 tx).reverse
      ++ " rest=" ++ toString n

end Btcdeb.Model
