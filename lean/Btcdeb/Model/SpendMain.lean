/-
  The start-up sequence of btcdeb.cpp `main` for a session with `--tx` (and `--txin`), up to the
  debugger environment: option parsing is outside (argument texts are given), everything from
  `parse_transaction` to `setup_environment` is here.
-/
import Btcdeb.Model.Spend
import Btcdeb.Model.Pretend
namespace Btcdeb.Model

/-- how `Instance::setup_environment` obtains its signature checker:
    `TransactionSignatureChecker(tx, nIn, amount, txdata)` where `txdata.Init(tx, spent, force)` has been
    called iff `init` is `some (spent, force)` -/
structure CheckerBuilder where
  build : (tx : Tx) → (nIn : Nat) → (amount : Int) → (init : Option (List TxOut × Bool)) → Ctx
  /-- `BaseSignatureChecker` (no transaction) -/
  base : Ctx

structure SpendArgs where
  txText : Bytes                 -- `--tx=` value (may carry amounts)
  txinText : Option Bytes        -- `--txin=` value
  select : Int := -1             -- `--select=` value, after atoi
  flags : Nat
  allowDisabled : Bool := false
  pretend : Option Bytes := none
  /-- script and stack arguments after evaluation (`parse_script` / `parse_stack_args`), if given -/
  script : Option Bytes := none
  stackArgs : List Bytes := []

inductive SpendRefusal where
  | tx | txin | pretend | script | configure | env (e : ScriptError)
deriving Repr, DecidableEq

structure SpendSession where
  env : IEnv
  cx : Ctx
  conf : Configured
  txinIndex : Int
  voutIndex : Int

/-- pad `amounts` with zeros up to the number of inputs -/
def padAmounts (a : List Int) (n : Nat) : List Int := a ++ List.replicate (n - a.length) 0

def spendSetup (h : HashCtx) (tc : TapCtx) (vcx : VCtx) (cb : CheckerBuilder) (a : SpendArgs) : VM (Except SpendRefusal SpendSession) := do
  match parseTransactionArg a.txText with
  | none => pure (.error .tx)
  | some (amts, tx, _) =>
    let amounts := padAmounts amts tx.vin.length
    let sigver0 : SigVersion := if hasWitness tx then .WITNESS_V0 else .BASE
    -- --txin
    let sel : Except SpendRefusal (Option (Tx × Nat × Nat)) :=
      match a.txinText with
      | none => .ok none
      | some t =>
        match parseTxHex t with
        | none => .error .txin
        | some (txin, _) =>
          match parseInputTransaction h tx txin a.select with
          | none => .error .txin
          | some (i, n) => .ok (some (txin, i, n))
    match sel with
    | .error r => pure (.error r)
    | .ok sel =>
      -- --pretend-valid
      let pv ← match a.pretend with
        | none => pure (some ([], []))
        | some p => parsePretendValidExpr vcx p
      match pv with
      | none => pure (.error .pretend)
      | some (pm, pk) =>
        -- script / stack arguments
        match a.script with
        | some s => if !hasValidOps s then return (.error .script)
        | none => pure ()
        -- `if (instance.txin && instance.tx && ca.l.size() == 0 && instance.script.size() == 0) configure_tx_txin()`
        let auto := sel.isSome && a.stackArgs.isEmpty && (a.script.getD []).isEmpty
        let conf? : Except SpendRefusal Configured :=
          match sel, auto with
          | some (txin, i, n), true =>
            match configureTxTxin h tc tx txin i n sigver0 with
            | none => .error .configure
            | some c => .ok c
          | _, _ => .ok { sigver := sigver0, script := a.script.getD [], stack := a.stackArgs, amount := 0 }
        match conf? with
        | .error r => pure (.error r)
        | .ok conf =>
          let (nIn, amount) : Nat × Int :=
            match sel with
            | some (_, i, _) =>
              -- configure_tx_txin overwrote amounts[txin_index] when it ran
              (i, if auto then conf.amount else amounts.getD i 0)
            | none => (0, amounts.getD 0 0)
          let init : Option (List TxOut × Bool) :=
            match sel with
            | some (txin, _, n) => if tx.vin.length == 1 then (txin.vout[n]?).map (fun o => ([o], conf.hasPreamble)) else none
            | none => none
          let cx := cb.build tx nIn amount init
          match setupEnvironment conf.stack conf.script a.flags conf.sigver conf.successor a.allowDisabled conf.execdata conf.tce pm pk with
          | .error e => pure (.error (.env e))
          | .ok env =>
            pure (.ok { env := env, cx := cx, conf := conf,
                        txinIndex := match sel with | some (_, i, _) => i | none => -1,
                        voutIndex := match sel with | some (_, _, n) => n | none => -1 })

end Btcdeb.Model
