/-
  Model of the start-up of a `--tx`+`--txin` session: `Instance::parse_input_transaction`,
  `Instance::configure_tx_txin` (instance.cpp) and the part of `main` (btcdeb.cpp) that strings them together.
-/
import Btcdeb.Model.Session
import Btcdeb.Model.Tx
namespace Btcdeb.Model

/-- hash functions the set-up code calls -/
structure HashCtx where
  sha256 : Bytes → Bytes
  hash160 : Bytes → Bytes
  hash256 : Bytes → Bytes

/-- `Instance::parse_input_transaction(txdata, select_index)` once both transactions are decoded;
    result: (txin_index, txin_vout_index); `none` = refused -/
def parseInputTransaction (h : HashCtx) (tx txin : Tx) (select : Int) : Option (Nat × Nat) :=
  let txinHash := txHash h.hash256 txin
  let found : Option (Nat × Nat) :=
    if select > -1 then
      -- verify index is valid
      match tx.vin[select.toNat]? with
      | none => none                                  -- "the selected index is out of bounds"
      | some i => if i.prevout.hash != txinHash then none else some (select.toNat, i.prevout.n)
    else
      -- figure out index from tx vin
      match tx.vin.findIdx? (fun i => i.prevout.hash == txinHash) with
      | none => none                                  -- "not found in any of the inputs"
      | some k => (tx.vin[k]?).map (fun i => (k, i.prevout.n))
  match found with
  | none => none
  | some (k, n) => if n ≥ txin.vout.length then none else some (k, n)

/-- what `configure_tx_txin` leaves in the `Instance` -/
structure Configured where
  sigver : SigVersion
  script : Bytes
  successor : Bytes := []
  stack : List Bytes := []
  amount : Int
  execdata : ExecData := {}
  tce : Option Tce := none
  hasPreamble : Bool := false
deriving Repr, DecidableEq

/-- `::GetSerializeSize(wstack)` -/
def witnessSerializeSize (w : List Bytes) : Nat :=
  (compactSize w.length).length + (w.map (fun i => (compactSize i.length).length + i.length)).sum

/-- `CScript() << program` for a 20/32-byte vector: direct push -/
def pushProgram (program : Bytes) : Bytes := UInt8.ofNat program.length :: program

/-- `Instance::configure_tx_txin()`; `none` = returns false (a diagnostic was printed).
    `sigver0` is what `parse_transaction` left (`WITNESS_V0` when the spending tx carries witness data). -/
def configureTxTxin (h : HashCtx) (tc : TapCtx) (tx txin : Tx) (idx vout : Nat) (sigver0 : SigVersion) : Option Configured :=
  match tx.vin[idx]?, txin.vout[vout]? with
  | some inp, some spent =>
    let wstack := inp.witness
    let scriptSig := inp.scriptSig
    let scriptPubKey := spent.scriptPubKey
    let amount := spent.value
    match wstack.getLast? with
    | none =>
      -- legacy
      if !hasValidOps scriptSig then none
      else some { sigver := .BASE, script := scriptSig, successor := scriptPubKey, amount := amount }
    | some wlast =>
      -- segwit: which script carries the witness program
      let validation? : Option Bytes :=
        if scriptSig.length > 0 then
          -- Embedded in P2SH -- payload extraction required
          match getOp scriptSig with
          | none => none
          | some g1 =>
            if g1.data.length == 0 then none
            else if !g1.rest.isEmpty || scriptSig != pushData g1.data then none   -- not exactly one push of the redeem script
            else
              match getOp scriptPubKey with
              | none => none
              | some s1 =>
                if s1.opcode != Op.OP_HASH160 || !isPayToScriptHash scriptPubKey then none
                else
                  match getOp s1.rest with
                  | none => none
                  | some s2 =>
                    if s2.data.length != 20 then none
                    else if h.hash160 g1.data != s2.data then none
                    else some g1.data
        else some scriptPubKey
      match validation? with
      | none => none
      | some validation =>
        if validation.length != 22 && validation.length != 34 then none
        else
          let wsh := validation.length == 34
          match getOp validation with
          | none => none
          | some v1 =>
            if v1.opcode != Op.OP_0 && v1.opcode != Op.OP_1 then none
            else
              let witprogver := if v1.opcode == Op.OP_0 then 0 else 1
              match getOp v1.rest with
              | none => none
              | some v2 =>
                let program := v2.data
                if program.length != (if wsh then 32 else 20) then none
                else if witprogver == 0 then
                  -- w2pkh/w2sh
                  let hashOk := if wsh then h.sha256 wlast == program else h.hash160 wlast == program
                  if !hashOk then none
                  else
                    let (validation', toStack, pre) :=
                      if !wsh then
                        (([Op.OP_DUP, Op.OP_HASH160].map UInt8.ofNat) ++ pushProgram program ++ ([Op.OP_EQUALVERIFY, Op.OP_CHECKSIG].map UInt8.ofNat),
                         wstack.length, true)
                      else (wlast, wstack.length - 1, false)
                    if (wstack.take toStack).any (fun i => i.length > Gen.MAX_SCRIPT_ELEMENT_SIZE) then none
                    else if !hasValidOps validation' then none
                    else some { sigver := .WITNESS_V0, script := validation', stack := wstack.take toStack, amount := amount,
                                hasPreamble := pre }
                else
                  -- taproot/tapscript
                  if program.length != 32 then none
                  else
                    -- (the witness is non-empty here)
                    let hasAnnex := wstack.length ≥ 2 && !wlast.isEmpty && byteAt wlast 0 == Gen.ANNEX_TAG
                    let stack := if hasAnnex then wstack.dropLast else wstack
                    let ed : ExecData :=
                      { annexInit := true, annexPresent := hasAnnex,
                        annexHash := if hasAnnex then h.sha256 (compactSize wlast.length ++ wlast) else [] }
                    if stack.length == 1 then
                      -- Key path spending (stack size is 1 after removing optional annex)
                      let validation' := pushProgram program ++ [UInt8.ofNat Op.OP_CHECKSIG]
                      if !hasValidOps validation' then none
                      else some { sigver := .TAPROOT, script := validation', stack := wstack.take stack.length, amount := amount,
                                  execdata := ed, hasPreamble := true }
                    else
                      -- Script path spending (stack size is >1 after removing optional annex)
                      match stack.getLast?, stack.dropLast.getLast? with
                      | some control, some leafScript =>
                        let rest := stack.dropLast.dropLast
                        if control.length < Gen.TAPROOT_CONTROL_BASE_SIZE || control.length > Gen.TAPROOT_CONTROL_MAX_SIZE ||
                           (control.length - Gen.TAPROOT_CONTROL_BASE_SIZE) % Gen.TAPROOT_CONTROL_NODE_SIZE != 0 then none
                        else
                          let tce := Tce.init tc control program leafScript
                          if (byteAt control 0) &&& Gen.TAPROOT_LEAF_MASK != Gen.TAPROOT_LEAF_TAPSCRIPT then none   -- "unable to determine v1 script type"
                          else if rest.length > Gen.MAX_STACK_SIZE then none
                          else if rest.any (fun i => i.length > Gen.MAX_SCRIPT_ELEMENT_SIZE) then none
                          else if !hasValidOps leafScript then none
                          else
                            let ed' := { ed with tapleafHash := tce.leaf, tapleafHashInit := true,
                                                 weightLeft := (witnessSerializeSize wstack + Gen.VALIDATION_WEIGHT_OFFSET : Nat),
                                                 weightInit := true }
                            some { sigver := .TAPSCRIPT, script := leafScript, stack := wstack.take rest.length, amount := amount,
                                   execdata := ed', tce := some tce }
                      | _, _ => none
  | _, _ => none            -- (indices were validated by parse_input_transaction)

end Btcdeb.Model
