/-
  What a finished `--tx`/`--txin` session amounts to as a validation verdict (the reading of the final
  state that `btcdeb` prints and that the correspondence check of C03 applies to the implementation's output):
  the session ran to its end without error, the final stack is not empty, its top element is true, and —
  for every script version but the legacy one, and for the legacy one under CLEANSTACK — it holds exactly one
  element.
-/
import Btcdeb.Model.Session
namespace Btcdeb.Model
open Btcdeb

/-- verdict of a session result: `result` is what `ContinueScript` returned -/
def sessionValid (flags : Nat) (sv : SigVersion) (result : M IEnv) : Bool :=
  match result with
  | .error _ => false
  | .ok e =>
    match e.see.stack.getLast? with
    | none => false
    | some t =>
      castToBool t && !((sv != .BASE || hasFlag flags Flag.CLEANSTACK) && e.see.stack.length != 1)

end Btcdeb.Model
