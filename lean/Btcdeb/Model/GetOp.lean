/-
  Model of `GetScriptOp`, `CScript::HasValidOps`, `CheckMinimalPush`, `IsPushOnly`,
  `IsPayToScriptHash`, `IsWitnessProgram` (script/script.cpp), byte level.
  A script position (`CScript::const_iterator`) is modelled as the remaining suffix.
-/
import Btcdeb.Basic.Bytes
import Btcdeb.Spec.Opcode
import Btcdeb.Generated.Tables
namespace Btcdeb.Model

/-- result of one `GetScriptOp` call that returned `true`: opcode byte, push payload, new position -/
structure GotOp where
  opcode : Nat
  data : Bytes
  rest : Bytes
deriving Repr, DecidableEq

/-- `GetScriptOp(pc, end, opcodeRet, &vchRet)`; `none` = returned false -/
def getOp (pc : Bytes) : Option GotOp :=
  match pc with
  | [] => none                                        -- pc >= end
  | b :: pc1 =>
    let opcode := b.toNat
    if opcode ≤ Op.OP_PUSHDATA4 then
      -- Immediate operand
      let hdr : Option (Nat × Bytes) :=
        if opcode < Op.OP_PUSHDATA1 then some (opcode, pc1)
        else if opcode = Op.OP_PUSHDATA1 then
          (if pc1.length < 1 then none else some (leValue (pc1.take 1), pc1.drop 1))
        else if opcode = Op.OP_PUSHDATA2 then
          (if pc1.length < 2 then none else some (leValue (pc1.take 2), pc1.drop 2))
        else
          (if pc1.length < 4 then none else some (leValue (pc1.take 4), pc1.drop 4))
      match hdr with
      | none => none
      | some (nSize, pc2) =>
        if pc2.length < nSize then none
        else some { opcode := opcode, data := pc2.take nSize, rest := pc2.drop nSize }
    else some { opcode := opcode, data := [], rest := pc1 }

theorem getOp_rest_lt {pc : Bytes} {g : GotOp} (h : getOp pc = some g) : g.rest.length < pc.length := by
  unfold getOp at h
  cases pc with
  | nil => simp at h
  | cons b pc1 =>
    simp only at h
    split at h
    · split at h
      · simp at h
      · rename_i nSize pc2 hh
        split at h
        · simp at h
        · simp at h
          subst h
          simp only [List.length_drop, List.length_cons]
          split at hh
          · simp at hh; obtain ⟨_, rfl⟩ := hh; omega
          · split at hh
            · split at hh
              · simp at hh
              · simp at hh; obtain ⟨_, rfl⟩ := hh; simp; omega
            · split at hh
              · split at hh
                · simp at hh
                · simp at hh; obtain ⟨_, rfl⟩ := hh; simp; omega
              · split at hh
                · simp at hh
                · simp at hh; obtain ⟨_, rfl⟩ := hh; simp; omega
    · simp at h; subst h; simp

/-- `CScript::HasValidOps()` -/
def hasValidOps (s : Bytes) : Bool :=
  match h : getOp s with
  | none => s.isEmpty                                   -- loop `while (it < end())` ends, or GetOp failed
  | some g =>
    if g.opcode > Gen.MAX_OPCODE || g.data.length > Gen.MAX_SCRIPT_ELEMENT_SIZE then false
    else hasValidOps g.rest
termination_by s.length
decreasing_by exact getOp_rest_lt h

/-- `CheckMinimalPush(data, opcode)` (precondition: opcode ≤ OP_PUSHDATA4) -/
def checkMinimalPush (data : Bytes) (opcode : Nat) : Bool :=
  match data with
  | [] => opcode == Op.OP_0
  | [b] =>
    if 1 ≤ b.toNat && b.toNat ≤ 16 then false
    else if b.toNat == 0x81 then false
    else opcode == 1
  | _ =>
    if data.length ≤ 75 then opcode == data.length
    else if data.length ≤ 255 then opcode == Op.OP_PUSHDATA1
    else if data.length ≤ 65535 then opcode == Op.OP_PUSHDATA2
    else true

/-- `CScript::IsPushOnly()` -/
def isPushOnly (s : Bytes) : Bool :=
  match h : getOp s with
  | none => s.isEmpty
  | some g => if g.opcode > Op.OP_16 then false else isPushOnly g.rest
termination_by s.length
decreasing_by exact getOp_rest_lt h

/-- `CScript::IsPayToScriptHash()` -/
def isPayToScriptHash (s : Bytes) : Bool :=
  s.length == 23 && s[0]? == some 0xa9 && s[1]? == some 0x14 && s[22]? == some 0x87

/-- `CScript::IsWitnessProgram(version, program)` -/
def isWitnessProgram (s : Bytes) : Option (Nat × Bytes) :=
  if s.length < 4 || s.length > 42 then none
  else match s with
    | b0 :: b1 :: prog =>
      if b0.toNat != Op.OP_0 && (b0.toNat < Op.OP_1 || b0.toNat > Op.OP_16) then none
      else if b1.toNat + 2 == s.length then
        some (if b0.toNat == 0 then 0 else b0.toNat - 80, prog)
      else none
    | _ => none

end Btcdeb.Model
