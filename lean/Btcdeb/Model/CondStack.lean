/-
  Model of `ConditionStack` (debugger/see.h): the compressed (size, first-false) form,
  and the specification: a plain list of booleans (innermost level last).
-/
namespace Btcdeb.Model

/-- `m_stack_size`, `m_first_false_pos` (`none` = NO_FALSE) -/
structure CondStack where
  size : Nat := 0
  firstFalse : Option Nat := none
deriving Repr, DecidableEq, Inhabited

namespace CondStack
def empty (c : CondStack) : Bool := c.size == 0
def allTrue (c : CondStack) : Bool := c.firstFalse.isNone
/-- `at(idx)`: `m_first_false_pos > idx` -/
def atIdx (c : CondStack) (idx : Nat) : Bool :=
  match c.firstFalse with
  | none => true
  | some p => decide (p > idx)

def pushBack (c : CondStack) (f : Bool) : CondStack :=
  { size := c.size + 1,
    firstFalse := if c.firstFalse.isNone && !f then some c.size else c.firstFalse }

/-- precondition in the C++: `assert(m_stack_size > 0)` (callers check `empty()` first) -/
def popBack (c : CondStack) : CondStack :=
  let s := c.size - 1
  { size := s, firstFalse := if c.firstFalse == some s then none else c.firstFalse }

def toggleTop (c : CondStack) : CondStack :=
  match c.firstFalse with
  | none => { c with firstFalse := some (c.size - 1) }
  | some p => if p == c.size - 1 then { c with firstFalse := none } else c

/-- the observable view (`vfexec` command prints `at(j)` for every level): outermost first -/
def toList (c : CondStack) : List Bool := (List.range c.size).map c.atIdx
end CondStack

end Btcdeb.Model

namespace Btcdeb.Spec
/-- specification: the condition stack is a list of booleans, innermost level FIRST -/
abbrev Cond := List Bool
def Cond.allTrue (c : Cond) : Bool := c.all id
def Cond.toggleTop : Cond → Cond
  | [] => []
  | b :: r => (!b) :: r
end Btcdeb.Spec
