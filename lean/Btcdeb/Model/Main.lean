/-
  Model of the non-interactive path of `btcdeb`'s `main` (btcdeb.cpp): script and stack already parsed to
  bytes, standard or modified flags, `ContinueScript` under an exception guard, `print_stack(raw)`.
-/
import Btcdeb.Model.Session
namespace Btcdeb.Model
open Btcdeb

inductive MainResult where
  | exit0 (stdout : List String)        -- one lowercase-hex line per stack item, bottom to top
  | exit1 (diagnostic : String)         -- refused, script error or exception: message on stderr
  | abnormal (kind : String)            -- the process dies (signal, assertion)
deriving Repr, DecidableEq

def errString (e : ScriptError) : String := Gen.scriptErrString.getD e.code "?"

/-- `btcdeb <script> <stack...>` when stdin or stdout is not a terminal -/
def nonInteractive (cx : Ctx) (tc : TapCtx) (script : Bytes) (stack : List Bytes) (flags : Nat) (z : Bool) : MainResult :=
  if !hasValidOps script then .exit1 "invalid script"
  else match setupEnvironment stack script flags .BASE [] z {} none [] [] with
    | .error e => .exit1 ("failed to initialize script environment: " ++ errString e)
    | .ok e0 =>
      match continueScript cx tc (continueFuel e0) e0 with
      | .ok e => .exit0 (e.see.stack.map toHex)
      | .error (.script err) => .exit1 ("error: " ++ errString err)
      | .error (.exc what) => .exit1 ("error: exception thrown: " ++ what)
      | .error (.abnormal k) => .abnormal k

end Btcdeb.Model
