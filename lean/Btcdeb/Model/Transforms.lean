/-
  Model of the value transforms: the `Value::do_*` methods (value.h:348-537, value.cpp), the inline dispatch
  `Value::do_exec` (value.h:588) with every name it accepts in a build without ENABLE_DANGEROUS, the `Value`
  constructor path `name(arg)` with the real assignment semantics (`operator=` copies only the active field),
  the command wrappers `_e_*`, the table `tfs[]` and `fn_tf` (functions.cpp:229-370).
  What the code prints on stdout / stderr is part of the model (`Log`).
-/
import Btcdeb.Model.Value
import Btcdeb.Model.Encodings
import Btcdeb.Crypto.Hash
import Btcdeb.Crypto.Ecdsa
import Btcdeb.Crypto.Schnorr
namespace Btcdeb.Model
open Btcdeb

/-- ASCII bytes of a message literal -/
def asc (s : String) : Bytes := s.toUTF8.toList

/-- what has been written to stdout and stderr -/
structure Log where
  out : Bytes := []
  err : Bytes := []
deriving Repr, DecidableEq, Inhabited

/-- transforms run in: state = the two output streams; error = the process ends (exit / crash / C++ exception) -/
abbrev TM := StateT Log VM

def sayOut (b : Bytes) : TM Unit := modify fun l => { l with out := l.out ++ b }
def sayErr (b : Bytes) : TM Unit := modify fun l => { l with err := l.err ++ b }
/-- the `abort(msg)` macro of value.cpp:22: message and newline on stderr, then `return` -/
def abortMsg (v : Value) (msg : String) : TM Value := do sayErr (asc msg ++ [10]); pure v
def liftVM {α} (x : VM α) : TM α := fun l => match x with | .ok a => .ok (a, l) | .error e => .error e
/-- a C++ exception derived from std::exception with this `what()` -/
def throwExc {α} (what : String) : TM α := liftVM (.error (.exc what))

/-- `what()` of the exception a `VErr` stands for, if it is one (`Value::int_value` on more than 4 bytes throws
    scriptnum_error "script number overflow") -/
def VErr.excWhat : VErr → Option String
  | .exc w => some w
  | _ => none

/-- the value after the non-const `data_value()` ran on it (value.h:285): `data` is rewritten from the active
    field; an integer additionally becomes T_DATA -/
def Value.dv (v : Value) : Value :=
  match v.type with
  | .T_DATA => v
  | .T_OPCODE => { v with data := [UInt8.ofNat v.opcode] }
  | .T_INT => { v with data := serialize v.int64, type := .T_DATA }
  | .T_STRING => { v with data := v.str }

/-- `%s` of a `std::string::c_str()`: up to the first NUL -/
def cstrOf (s : Bytes) : Bytes := s.takeWhile (· != 0)

/-- `Value::print()` (value.h:630); the T_OPCODE case falls through into the T_DATA case -/
def Value.printBytes (v : Value) : Bytes :=
  match v.type with
  | .T_INT => intDecimal v.int64
  | .T_OPCODE => asc (Gen.opName.getD v.opcode "OP_UNKNOWN") ++ asc " (" ++ hexBytes [UInt8.ofNat v.opcode] ++ asc ")" ++ hexBytes v.data
  | .T_DATA => hexBytes v.data
  | .T_STRING => [34] ++ cstrOf v.str ++ [34]

/-- `Value::println()` -/
def Value.println (v : Value) : TM Unit := sayOut (v.printBytes ++ [10])

/-- one element of `extract_values`: OP_1..OP_16 stand for [n], OP_1NEGATE for [0x81], any push (OP_0 included) for its
    data; other opcodes are refused -/
def extractOne (opcode : Nat) (data : Bytes) : Option Bytes :=
  if 0x51 ≤ opcode && opcode ≤ 0x60 then some [UInt8.ofNat (opcode - 0x50)]
  else if opcode == 0x4f then some [0x81]
  else if opcode > 0x4e then none          -- we only allow push operations here
  else some data

/-- `Value::extract_values` (value.cpp:30): the operations of `data` read as a script -/
def extractValues (s : Bytes) : Option (List Bytes) :=
  match h : getOp s with
  | none => if s.isEmpty then some [] else none
  | some g =>
    match extractOne g.opcode g.data with
    | none => none
    | some v => match extractValues g.rest with
      | none => none
      | some vs => some (v :: vs)
termination_by s.length
decreasing_by exact getOp_rest_lt h

-- ---------------------------------------------------------------------------------------------
-- the do_* methods

/-- `do_reverse` (value.h:348).  For an integer the decimal digits are collected least significant first and
    folded back starting from the most significant one: the number is unchanged. -/
def doReverse (v : Value) : TM Value :=
  match v.type with
  | .T_INT => pure v
  | .T_DATA => pure { v with data := v.data.reverse }
  | .T_STRING => pure { v with str := v.str.reverse }
  | .T_OPCODE => liftVM (.error (.exit1 "irreversible value type"))

def doSha256 (cx : VCtx) (v : Value) : TM Value :=
  pure { v.dv with data := cx.sha256 v.dv.data, type := .T_DATA }
def doRipemd160 (cx : VCtx) (v : Value) : TM Value :=
  pure { v.dv with data := cx.ripemd160 v.dv.data, type := .T_DATA }
def doHash256 (cx : VCtx) (v : Value) : TM Value := do doSha256 cx (← doSha256 cx v)
def doHash160 (cx : VCtx) (v : Value) : TM Value := do doRipemd160 cx (← doSha256 cx v)

/-- `Hash()` of base58.cpp: double SHA-256 -/
def VCtx.hash (cx : VCtx) (b : Bytes) : Bytes := cx.sha256 (cx.sha256 b)

/-- `do_base58chkenc` (value.h:412) -/
def doBase58ChkEnc (cx : VCtx) (v : Value) : TM Value :=
  pure { v.dv with str := encodeBase58Check cx.hash v.dv.data, type := .T_STRING }

/-- `std::numeric_limits<int>::max()` -/
def intMaxC : Nat := 2147483647

/-- `do_base58chkdec` (value.h:417) -/
def doBase58ChkDec (cx : VCtx) (v : Value) : TM Value :=
  if v.type != .T_STRING then abortMsg v "cannot base58-decode non-string value"
  else if v.str.any (· == 0) then do
    -- the std::string overload returns false before touching `data`
    sayErr (asc "decode failed\n"); pure { v with type := .T_DATA }
  else match decodeBase58Check cx.hash v.str intMaxC with
    | none => do sayErr (asc "decode failed\n"); pure { v with data := [], type := .T_DATA }
    | some d => pure { v with data := d, type := .T_DATA }

/-- `do_addr_to_spk` (value.h:427): the decoded payload must be version byte 0x00 followed by 20 bytes -/
def doAddrToSpk (cx : VCtx) (v : Value) : TM Value := do
  let v ← doBase58ChkDec cx v
  if v.type != .T_DATA || v.data.length != 21 || v.data.getD 0 0 != 0 then do
    sayErr (asc "not a pay-to-pubkey-hash address\n")
    pure { v with data := [] }
  else
    -- data.erase(data.begin()); s << OP_DUP << OP_HASH160 << data << OP_EQUALVERIFY << OP_CHECKSIG
    pure { v with data := [0x76, 0xa9] ++ pushData (v.data.drop 1) ++ [0x88, 0xac] }

/-- `do_spk_to_addr` (value.h:438): reads `data` whatever the type is -/
def doSpkToAddr (cx : VCtx) (v : Value) : TM Value :=
  if v.data.length != 25 then abortMsg v "wrong length (expected 25 bytes)"
  else if v.data.getD 0 0 != 0x76 || v.data.getD 1 0 != 0xa9 || v.data.getD 2 0 != 0x14 ||
          v.data.getD 23 0 != 0x88 || v.data.getD 24 0 != 0xac then
    abortMsg v "unknown script (expected DUP H160 0x14 <20b> EQUALVERIFY CHECKSIG"
  else
    doBase58ChkEnc cx { v with data := 0 :: (v.data.drop 3).take 20 }

/-- `bech32_hrp` (value.cpp:19) -/
def bech32Hrp : Bytes := [98, 99, 114, 116]    -- "bcrt"

/-- `do_bech32enc` / `do_bech32menc` (value.h:457, :464): witness version fixed to 1 -/
def doBech32Enc (enc : Bech32Encoding) (v : Value) : TM Value :=
  let tmp := 1 :: ((convertBits 8 5 true (v.dv.data.map UInt8.toNat)).1.map UInt8.ofNat)
  match bech32Encode enc bech32Hrp tmp with
  | none => liftVM (.error (.abnormal "bech32::Encode assertion"))
  | some s => pure { v.dv with str := s, type := .T_STRING }

/-- `do_bech32dec` (value.h:471) -/
def doBech32Dec (v : Value) : TM Value :=
  if v.type != .T_STRING then abortMsg v "cannot bech32-decode non-string value"
  else match bech32Decode v.str with
    | none => abortMsg v "failed to bech32(m)-decode string"
    | some (enc, hrp, bech) =>
      match bech with
      | [] => abortMsg v "bech32(m) string has no data part"
      | version :: rest => do
        sayOut (asc "(bech32" ++ (if enc == .BECH32M then asc "m" else []) ++ asc " HRP = " ++ cstrOf hrp ++ asc ")\n")
        let r := convertBits 5 8 false (rest.map UInt8.toNat)
        let v' : Value := { v with type := .T_DATA, data := r.1.map UInt8.ofNat }
        if r.2 then do
          if version == 0 && v'.data.length != 20 && v'.data.length != 32 then
            sayErr (asc s!"warning: unknown size {v'.data.length}\n")
          pure v'
        else do
          -- the 5-bit symbols do not regroup into whole bytes (BIP173: invalid padding)
          sayErr (asc "failed to bech32(m)-decode string (invalid padding)\n")
          pure { v' with data := [] }

/-- `CPubKey(vch).IsValid()`: the length announced by the header byte is the length given -/
def cpubkeyValid (b : Bytes) : Bool :=
  match b with
  | [] => false
  | h :: _ => ((h == 2 || h == 3) && b.length == 33) || ((h == 4 || h == 6 || h == 7) && b.length == 65)

/-- `verify_sig(compact)` (value.cpp:44) -/
def verifySig (compact : Bool) (v : Value) : TM Value :=
  if v.type != .T_DATA then abortMsg v "invalid type (must be data)"
  else match extractValues v.data with
    | some [sighash, pk, sig] =>
      if sighash.length != 32 then abortMsg v "invalid input (sighash must be 32 bytes)"
      else if pk.length == 32 && sig.length != 64 then abortMsg v "invalid input (a signature for an x-only pubkey must be 64 bytes)"
      else if pk.length == 32 then
        -- new style pubkey, so use schnorr validation
        match Crypto.parseXOnly pk with
        | none => abortMsg v "invalid x only pubkey"
        | some _ =>
            let ok := Crypto.schnorrVerify pk sighash sig
            let sh2 := sighash.reverse
            let pk2 := pk.reverse
            let pk2ok := (Crypto.parseXOnly pk2).isSome
            let note : Bytes :=
              if ok then []
              else if Crypto.schnorrVerify pk sh2 sig then
                asc "NOTE: your sighash is probably in reverse order (validation succeeds for flipped sighash)\n"
              else if pk2ok && Crypto.schnorrVerify pk2 sighash sig then
                asc "NOTE: your pubkey is probably in reverse order (validation succeeds for flipped pubkey)\n"
              else if pk2ok && Crypto.schnorrVerify pk2 sh2 sig then
                asc "NOTE: your pubkey and sighash are probably both in reverse order (validation succeeds for flipped pubkey and sighash)\n"
              else []
            do sayErr note; pure { v with int64 := if ok then 1 else 0, type := .T_INT }
      else if !cpubkeyValid pk then abortMsg v "invalid pubkey"
      else if !compact then
        pure { v with int64 := if Crypto.ecdsaVerify pk sig sighash then 1 else 0, type := .T_INT }
      else
        -- CPubKey::VerifyCompact (pubkey.cpp:277)
        match Crypto.parsePubKey pk with
        | none => pure { v with int64 := 0, type := .T_INT }
        | some q =>
          if sig.length != 64 then do
            sayErr (asc s!"vchSig.size()={sig.length} != 64\n"); pure { v with int64 := 0, type := .T_INT }
          else
            let r := Crypto.bytesToNatBE (sig.take 32)
            let s := Crypto.bytesToNatBE (sig.drop 32)
            if r ≥ Crypto.N || s ≥ Crypto.N then do
              sayErr (asc "signature_parse_compact failed\n"); pure { v with int64 := 0, type := .T_INT }
            else
              let ok := Crypto.ecdsaVerifyRS q r (Crypto.normalizeS s) (Crypto.bytesToNatBE sighash % Crypto.N)
              pure { v with int64 := if ok then 1 else 0, type := .T_INT }
    | _ => abortMsg v "invalid input (needs a sighash, a pubkey, and a signature)"

/-- `do_combine_pubkeys` (value.cpp:81) -/
def doCombinePubkeys (v : Value) : TM Value :=
  if v.type != .T_DATA then abortMsg v "invalid type (must be data)"
  else match extractValues v.data with
    | some [k1, k2] =>
      if !cpubkeyValid k1 then abortMsg v "invalid pubkey (first)"
      else if !cpubkeyValid k2 then abortMsg v "invalid pubkey (second)"
      else match Crypto.parsePubKey k1 with
        | none => abortMsg v "failed to parse pubkey 1"
        | some p1 => match Crypto.parsePubKey k2 with
          | none => abortMsg v "failed to parse pubkey 2"
          | some p2 =>
            match Crypto.pointAdd p1 p2 with
            | .infinity => abortMsg v "failed to combine pubkeys"
            | q => pure { v with data := Crypto.serializeCompressed q }
    | _ => abortMsg v "invalid input (needs two pubkeys)"

/-- `do_tweak_pubkey` (value.cpp:111) -/
def doTweakPubkey (v : Value) : TM Value :=
  if v.type != .T_DATA then abortMsg v "invalid type (must be data)"
  else match extractValues v.data with
    | some [tweak, k] =>
      if tweak.length != 32 then abortMsg v "invalid tweak value (32 byte value required)"
      else if !cpubkeyValid k then abortMsg v "invalid pubkey"
      else match Crypto.parsePubKey k with
        | none => abortMsg v "failed to parse pubkey"
        | some p =>
          let t := Crypto.bytesToNatBE tweak
          if t ≥ Crypto.N || t == 0 then
            abortMsg v "tweak was out of range (chance of around 1 in 2^128 for uniformly random 32-byte arrays, or equal to zero"
          else pure { v with data := Crypto.serializeCompressed (Crypto.pointMul t p) }
    | _ => abortMsg v "invalid input (needs a 32 byte value and a public key)"

/-- `do_pubkey_to_xpubkey` (value.cpp:315): reads `data` whatever the type is -/
def doPubkeyToXpubkey (v : Value) : TM Value :=
  if !cpubkeyValid v.data then abortMsg v "invalid pubkey"
  else match Crypto.parsePubKey v.data with
    | none => abortMsg v "failed to parse pubkey"
    | some p => pure { v with data := Crypto.xonlyBytes p }

/-- `get_arith_uint256(Value(vector), a)`: the first 32 bytes, little-endian -/
def arithOfBytes (d : Bytes) : Nat := leValue (d.take 32)

/-- `add(data, a, b, g)` (value.cpp:191) on 256-bit unsigned integers: the operands are reduced modulo g first -/
def arithAdd (a b g : Nat) : Bytes :=
  let a := if g != 0 then a % g else a
  let b := if g != 0 then b % g else b
  let c := (a + b) % 2 ^ 256
  let c := if g != 0 && (c ≥ g || c < a) then (c + 2 ^ 256 - g) % 2 ^ 256 else c
  leFixed 32 c

/-- `do_add` (value.cpp:204) -/
def doAdd (v : Value) : TM Value :=
  match extractValues v.data with
  | some [a, b] => pure { v with data := arithAdd (arithOfBytes a) (arithOfBytes b) 0 }
  | some [a, b, g] => pure { v with data := arithAdd (arithOfBytes a) (arithOfBytes b) (arithOfBytes g) }
  | _ => abortMsg v "invalid input (needs two values, with optional group as third)"

/-- the subtrahend `do_sub` hands to `add`: `g - b % g` with a modulus, the two's complement `-b` without -/
def arithNeg (b g : Nat) : Nat := if g != 0 then g - b % g else (2 ^ 256 - b) % 2 ^ 256

/-- `do_sub` (value.cpp:221) -/
def doSub (v : Value) : TM Value :=
  match extractValues v.data with
  | some [a, b] => pure { v with data := arithAdd (arithOfBytes a) (arithNeg (arithOfBytes b) 0) 0 }
  | some [a, b, g] => pure { v with data := arithAdd (arithOfBytes a) (arithNeg (arithOfBytes b) (arithOfBytes g)) (arithOfBytes g) }
  | _ => abortMsg v "invalid input (needs two values, with optional group as third)"

/-- `do_tagged_hash` (value.cpp:280) -/
def doTaggedHash (cx : VCtx) (v : Value) : TM Value :=
  match extractValues v.data with
  | some (tag :: m :: ms) => do
    let msg := m ++ ms.flatten
    if !ms.isEmpty then sayErr (asc "msg = " ++ hexBytes msg ++ [10])
    pure { v with data := cx.sha256 (cx.sha256 tag ++ cx.sha256 tag ++ msg) }
  | _ => abortMsg v "invalid input (need at least two values: tag, msg[, msg2, ...])"

/-- `do_taproot_tweak_pubkey` (value.cpp:289) -/
def doTaprootTweakPubkey (v : Value) : TM Value :=
  match extractValues v.data with
  | some [pk, tweak] =>
    if pk.length != 32 then abortMsg v "invalid input: first argument must be an x-only 32 byte pubkey"
    else if tweak.length != 32 then abortMsg v "invalid input: second argument must be a 32 byte tweak"
    else match Crypto.parseXOnly pk with
      | none => abortMsg v "invalid input: pubkey invalid (parse failed)"
      | some _ =>
        match Crypto.xonlyTweakAdd pk tweak with
        | none => abortMsg v "failure: secp256k1_xonly_pubkey_tweak_add call failed"
        | some q => pure { v with data := Crypto.serializeCompressed q }
  | _ => abortMsg v "invalid input (needs two values: pubkey, tweak)"

/-- the inner loop `while ((n & 1) == 0) { n >>= 1; r = k & 7; t ^= (r == 3 || r == 5); }` (n ≠ 0) -/
def jacobiStrip (k : Nat) (n : Nat) (t : Bool) : Nat × Bool :=
  if h : n % 2 = 0 ∧ n ≠ 0 then jacobiStrip k (n / 2) (t ^^ (k % 8 == 3 || k % 8 == 5)) else (n, t)
termination_by n
decreasing_by omega

theorem jacobiStrip_pos (k n : Nat) (t : Bool) (h : n ≠ 0) : (jacobiStrip k n t).1 ≠ 0 := by
  induction n using Nat.strongRecOn generalizing t with
  | _ n ih =>
    unfold jacobiStrip
    split
    · rename_i hc
      exact ih (n / 2) (by omega) _ (by omega)
    · exact h

theorem jacobiStrip_le (k n : Nat) (t : Bool) : (jacobiStrip k n t).1 ≤ n := by
  induction n using Nat.strongRecOn generalizing t with
  | _ n ih =>
    unfold jacobiStrip
    split
    · rename_i hc
      exact Nat.le_trans (ih (n / 2) (by omega) _) (by omega)
    · exact Nat.le_refl n

/-- the outer loop of `do_jacobi_symbol` (value.cpp:355): final `k` and `t` -/
def jacobiLoop (n k : Nat) (t : Bool) : Nat × Bool :=
  if h : n = 0 then (k, t)
  else
    let s := jacobiStrip k n t
    -- tmp = n; n = k; k = tmp; t ^= ((n & k & 3) == 3); n = n % k
    jacobiLoop (k % s.1) s.1 (s.2 ^^ (k % 4 == 3 && s.1 % 4 == 3))
termination_by n
decreasing_by
  have h1 := jacobiStrip_pos k n t h
  have h2 := jacobiStrip_le k n t
  exact Nat.lt_of_lt_of_le (Nat.mod_lt _ (Nat.pos_of_ne_zero h1)) h2

/-- `SECP256K1_FIELD_SIZE` (value.cpp:13) as an integer -/
def secp256k1FieldSize : Nat := 0xfffffffffffffffffffffffffffffffffffffffffffffffffffffffefffffc2f

/-- `n = n % k; loop; int64 = k == 1 ? (t ? -1 : 1) : 0`; division by zero throws `uint_error` -/
def jacobiOf (n k : Nat) : TM Int :=
  if k == 0 then throwExc "Division by zero"
  else
    let r := jacobiLoop (n % k) k false
    pure (if r.1 == 1 then (if r.2 then -1 else 1) else 0)

/-- `do_jacobi_symbol` (value.cpp:334) -/
def doJacobiSymbol (v : Value) : TM Value :=
  if v.type != .T_DATA then abortMsg v "invalid type (must be data)"
  else match extractValues v.data with
    | none =>
      -- user omitting k value; use secp256k1 field
      if v.data.length != 32 then abortMsg v s!"n must be 32 bytes (not {v.data.length})"
      else do
        let j ← jacobiOf (leValue v.data) secp256k1FieldSize
        pure { v with int64 := j, type := .T_INT }
    | some [n, k] =>
      if n.length != 32 then abortMsg v s!"n must be 32 bytes (not {n.length})"
      else if k.length != 32 then abortMsg v s!"k must be 32 bytes (not {k.length})"
      else do
        let j ← jacobiOf (leValue n) (leValue k)
        pure { v with int64 := j, type := .T_INT }
    | some _ => abortMsg v "invalid input (needs n and optional k)"

/-- `do_prefix_compact_size` (value.cpp:267): `data_value()`, `type = T_DATA`, then the prefix is inserted into `data` -/
def doPrefixCompactSize (v : Value) : TM Value :=
  pure { v.dv with data := compactSize v.dv.data.length ++ v.dv.data, type := .T_DATA }

/-- `do_len` (value.cpp:266) -/
def doLen (v : Value) : TM Value :=
  pure { v.dv with int64 := v.dv.data.length, type := .T_INT }

/-- `int_value()` in the transform monad; on a string: diagnostic on stderr and -1 -/
def intValueM (v : Value) : TM Int :=
  match v.type with
  | .T_STRING => do
    sayErr (asc "cannot convert string into integer value: " ++ cstrOf v.str ++ [10]); pure (-1)
  | _ => liftVM v.intValue

-- ---------------------------------------------------------------------------------------------
-- inline dispatch

/-- `Value::do_exec(fun)` (value.h:588) without ENABLE_DANGEROUS: `none` = `return false` -/
def Value.doExecName (cx : VCtx) (v : Value) (name : String) : Option (TM Value) :=
  if name == "echo" then some (pure v)
  else if name == "hex" then some (pure { v with str := v.hexStr, type := .T_STRING, data := (if v.type == .T_STRING then v.str else v.data) })
  else if name == "int" then some (do let i ← intValueM v; pure { v with int64 := i, type := .T_INT })
  else if name == "reverse" then some (doReverse v)
  else if name == "sha256" then some (doSha256 cx v)
  else if name == "ripemd160" then some (doRipemd160 cx v)
  else if name == "hash256" then some (doHash256 cx v)
  else if name == "hash160" then some (doHash160 cx v)
  else if name == "base58chkenc" then some (doBase58ChkEnc cx v)
  else if name == "base58chkdec" then some (doBase58ChkDec cx v)
  else if name == "bech32enc" then some (doBech32Enc .BECH32 v)
  else if name == "bech32dec" then some (doBech32Dec v)
  else if name == "verify_sig" then some (verifySig false v)
  else if name == "combine_pubkeys" then some (doCombinePubkeys v)
  else if name == "tweak_pubkey" then some (doTweakPubkey v)
  else if name == "pubkey_to_xpubkey" then some (doPubkeyToXpubkey v)
  else if name == "addr_to_spk" then some (doAddrToSpk cx v)
  else if name == "spk_to_addr" then some (doSpkToAddr cx v)
  else if name == "add" then some (doAdd v)
  else if name == "sub" then some (doSub v)
  else if name == "jacobi" then some (doJacobiSymbol v)
  else if name == "tagged_hash" then some (doTaggedHash cx v)
  else if name == "taproot_tweak_pubkey" then some (doTaprootTweakPubkey v)
  else if name == "prefix_compact_size" then some (doPrefixCompactSize v)
  else if name == "bech32menc" then some (doBech32Enc .BECH32M v)
  else if name == "verify_sig_compact" then some (verifySig true v)
  else if name == "len" then some (doLen v)
  -- the names under which `tf -h` lists the inline operators (value.h:649)
  else if name == "b32e" then some (doBech32Enc .BECH32 v)
  else if name == "b32me" then some (doBech32Enc .BECH32M v)
  else if name == "b32d" then some (doBech32Dec v)
  else if name == "b58ce" then some (doBase58ChkEnc cx v)
  else if name == "b58cd" then some (doBase58ChkDec cx v)
  else if name == "jacobi_sym" then some (doJacobiSymbol v)
  else none

/-- `do_exec` on the function name as it stands in the expression text -/
def Value.doExecF (cx : VCtx) (v : Value) (fn : Bytes) : Option (TM Value) := v.doExecName cx (strOfBytes fn)

-- ---------------------------------------------------------------------------------------------
-- the constructor `Value(const char*, vlen)` with every inline function, real field semantics

/-- `TryHex(str, rv)` (util/strencodings.cpp:497): `rv` keeps the bytes read before a failure -/
def tryHexP : Bytes → Bytes → Bool × Bytes
  | [], acc => (true, acc.reverse)
  | c :: rest, acc =>
    if isSpaceB c then tryHexP rest acc
    else match hexDigitVal c, rest with
      | some h, d :: rest' =>
        match hexDigitVal d with
        | some l => tryHexP rest' (UInt8.ofNat (h * 16 + l) :: acc)
        | none => (false, acc.reverse)
      | _, _ => (false, acc.reverse)

/-- `Value& operator=(const Value& other)` (value.h:272): the type and the field that is active for it -/
def Value.assign (self other : Value) : Value :=
  match other.type with
  | .T_INT => { self with type := .T_INT, int64 := other.int64 }
  | .T_STRING => { self with type := .T_STRING, str := other.str }
  | .T_OPCODE => { self with type := .T_OPCODE, opcode := other.opcode }
  | .T_DATA => { self with type := .T_DATA, data := other.data }

/-- tail of the constructor (value.h:197-234): number, opcode, hex, else the string it already is -/
def classifyPlainF (cur : Value) (full : Bytes) (vlen : Nat) : Value :=
  let n := cAtoi 64 full
  if (n != 0 || full == [48]) && intDecimal n == full then { cur with int64 := n, type := .T_INT }
  else
    match parseOpCode full with     -- `if (ParseOpCode(v, opcode)) { type = T_OPCODE; return; }`; a refusal leaves opcode = 0xff
    | some opc => { cur with int64 := n, opcode := opc, type := .T_OPCODE }
    | none =>
      if vlen % 2 == 0 then
        let h := if vlen > 2 && full.getD 0 0 == 48 && full.getD 1 0 == 120 then full.drop 2 else full
        let r := tryHexP h []
        if r.1 then { cur with int64 := n, opcode := 0xff, data := r.2, type := .T_DATA }
        else { cur with int64 := n, opcode := 0xff, data := [] }      -- `data.clear()` after a failed TryHex
      else { cur with int64 := n, opcode := 0xff }

/-- `parse_args(const std::vector<const char*>)` in the transform monad (see `parseArgsListWith`) -/
def parseArgsListM (mk : Bytes → Nat → TM Value) : List Bytes → Bytes → Int → List Value → TM (List Value)
  | [], _, _, acc => pure acc.reverse
  | v :: rest, accum, depth, acc =>
    if depth > 0 then
      let accum' := accum ++ [32] ++ v
      let depth' := depth + bracketBalance v
      if depth' ≤ 0 then do
        let x ← mk accum' accum'.length
        parseArgsListM mk rest [] 0 (x :: acc)
      else parseArgsListM mk rest accum' depth' acc
    else if v.isEmpty then parseArgsListM mk rest accum depth acc
    else if v.head? == some 91 && bracketBalance v > 0 then
      parseArgsListM mk rest v (bracketBalance v) acc
    else do
      let x ← mk v v.length
      parseArgsListM mk rest accum depth (x :: acc)

/-- `parse_args(const char* args_string, size_t args_len)` in the transform monad -/
def parseArgsStringM (mk : Bytes → Nat → TM Value) (full : Bytes) (len : Nat) : TM (List Value) := do
  let len := if len == 0 then full.length else len
  let toks ← liftVM (tokenize full len (len + 2) 0 0 [])
  parseArgsListM mk toks [] 0 []

/-- body of `Value(const char* v, size_t vlen)` (value.h:154) -/
def valueBodyF (cx : VCtx) (mk : Bytes → Nat → TM Value) (full : Bytes) (vlen : Nat) : TM Value :=
  let vlen := if vlen == 0 then full.length else vlen
  if vlen == 2 && full.getD 0 0 == 48 && full.getD 1 0 == 120 then pure { type := .T_DATA, data := [] }
  else
    let base : Value := { type := .T_STRING, str := full }
    if vlen > 1 && full.getD 0 0 == 91 && full.getD (vlen - 1) 0 == 93 then do
      let vs ← parseArgsStringM mk (full.drop 1) (vlen - 2)
      let s ← liftVM (appendAll vs [])
      pure { base with data := s, type := .T_DATA }
    else
      let fnChars := (full.take 29).takeWhile (fun c => c.toNat != 40 && c.toNat != 0)
      let i := fnChars.length
      if vlen > 3 && full.getD (vlen - 1) 0 == 41 && full.getD i 0 == 40 then do
        let valStart := i + 1
        let vallen := vlen - valStart - 1
        let val := (full.drop valStart).take vallen
        let inner ← mk val vallen
        let this := base.assign inner           -- *this = Value(val, vallen)
        match this.doExecF cx fnChars with
        | some r => r
        | none => do
          sayErr (asc "unknown function " ++ cstrOf fnChars ++ asc ": expression left as is\n")
          pure (classifyPlainF this full vlen)
      else pure (classifyPlainF base full vlen)

def valueOfF (cx : VCtx) : Nat → Bytes → Nat → TM Value
  | 0 => fun _ _ => liftVM (.error (.exit1 depthMsg))      -- `Value::DepthGuard`: more than 200 levels
  | fuel + 1 => fun full vlen => valueBodyF cx (valueOfF cx fuel) full vlen

/-- `Value(std::vector<Value>&& v, bool fallthrough_single)` (value.h:137) -/
def valueOfVector (vs : List Value) (fallthroughSingle : Bool) : TM Value :=
  match vs, fallthroughSingle with
  | [v], true => pure v
  | _, _ => do
    let s ← liftVM (appendAll vs [])
    pure { type := .T_DATA, data := s }

-- ---------------------------------------------------------------------------------------------
-- the `tf` command

/-- one row of `tfs[]` (functions.cpp:278): name, inline name shown by `tf -h`, help, the `_e_*` wrapper -/
structure TfEntry where
  name : String
  inl : String
  help : String
  /-- the `DO(...)` name `do_exec` knows this transform by (every row has one; `inl` is accepted as well) -/
  exec : Option String
  run : VCtx → Value → TM Unit

/-- the common wrapper shape `pv.do_x(); pv.println(); return 0;` -/
def wrap (f : Value → TM Value) : Value → TM Unit := fun v => do (← f v).println

def tfTable : List TfEntry := [
  ⟨"addr-to-scriptpubkey", "addr_to_spk", "[address] convert a base58 encoded address into its corresponding scriptPubKey", some "addr_to_spk", fun cx => wrap (doAddrToSpk cx)⟩,
  ⟨"add", "add", "[value1] [value2] add two values together", some "add", fun _ => wrap doAdd⟩,
  ⟨"bech32-decode", "b32d", "[string]  decode [string] into a pubkey using bech32 encoding", some "bech32dec", fun _ => wrap doBech32Dec⟩,
  ⟨"bech32-encode", "b32e", "[pubkey]  encode [pubkey] using bech32 encoding", some "bech32enc", fun _ => wrap (doBech32Enc .BECH32)⟩,
  ⟨"bech32m-encode", "b32me", "[pubkey]  encode [pubkey] using bech32m encoding", some "bech32menc", fun _ => wrap (doBech32Enc .BECH32M)⟩,
  ⟨"base58chk-decode", "b58cd", "[string]  decode [string] into a pubkey using base58 encoding (with checksum)", some "base58chkdec", fun cx => wrap (doBase58ChkDec cx)⟩,
  ⟨"base58chk-encode", "b58ce", "[pubkey]  encode [pubkey] using base58 encoding (with checksum)", some "base58chkenc", fun cx => wrap (doBase58ChkEnc cx)⟩,
  ⟨"combine-pubkeys", "combine_pubkeys", "[pubkey1] [pubkey2] combine the two pubkeys into one pubkey", some "combine_pubkeys", fun _ => wrap doCombinePubkeys⟩,
  ⟨"echo", "echo", "[*]       show as-is serialized value", some "echo", fun _ v => v.println⟩,
  ⟨"hash160", "hash160", "[message] perform HASH160 (RIPEMD160(SHA256(message))", some "hash160", fun cx => wrap (doHash160 cx)⟩,
  ⟨"hash256", "hash256", "[message] perform HASH256 (SHA256(SHA256(message))", some "hash256", fun cx => wrap (doHash256 cx)⟩,
  ⟨"hex", "hex", "[*]       convert into a hex string", some "hex", fun _ v => sayOut (v.hexStr ++ [10])⟩,
  ⟨"int", "int", "[arg]     convert into an integer", some "int", fun _ v => do let i ← intValueM v; sayOut (intDecimal i ++ [10])⟩,
  ⟨"len", "len", "[*]       show length of expression in bytes", some "len", fun _ => wrap doLen⟩,
  ⟨"jacobi-symbol", "jacobi_sym", "[n] ([k]) calculate the Jacobi symbol for n modulo k, where k defaults to the secp256k1 field size", some "jacobi", fun _ => wrap doJacobiSymbol⟩,
  ⟨"prefix-compact-size", "prefix_compact_size", "[value] prefix [value] with its compact size encoded byte length", some "prefix_compact_size", fun _ => wrap doPrefixCompactSize⟩,
  ⟨"pubkey-to-xpubkey", "pubkey_to_xpubkey", "[pubkey] convert the given pubkey into an x-only pubkey, as those used in taproot/tapscript", some "pubkey_to_xpubkey", fun _ => wrap doPubkeyToXpubkey⟩,
  ⟨"reverse", "reverse", "[arg]     reverse the value according to the type", some "reverse", fun _ => wrap doReverse⟩,
  ⟨"ripemd160", "ripemd160", "[message] perform RIPEMD160", some "ripemd160", fun cx => wrap (doRipemd160 cx)⟩,
  ⟨"sha256", "sha256", "[message] perform SHA256", some "sha256", fun cx => wrap (doSha256 cx)⟩,
  ⟨"scriptpubkey-to-addr", "spk_to_addr", "[script]  convert a scriptPubKey into its corresponding base58 encoded address", some "spk_to_addr", fun cx => wrap (doSpkToAddr cx)⟩,
  ⟨"sub", "sub", "[value1] [value2] subtract value2 from value1", some "sub", fun _ => wrap doSub⟩,
  ⟨"tagged-hash", "tagged_hash", "[tag] [message] generate the [tag]ged hash of [message]", some "tagged_hash", fun cx => wrap (doTaggedHash cx)⟩,
  ⟨"taproot-tweak-pubkey", "taproot_tweak_pubkey", "[pubkey] [tweak] tweak the pubkey with the tweak", some "taproot_tweak_pubkey", fun _ => wrap doTaprootTweakPubkey⟩,
  ⟨"tweak-pubkey", "tweak_pubkey", "[value] [pubkey] multiply the pubkey with the given 32 byte value", some "tweak_pubkey", fun _ => wrap doTweakPubkey⟩,
  ⟨"verify-sig", "verify_sig", "[sighash] [pubkey] [signature] verify the given signature for the given sighash and pubkey (der)", some "verify_sig", fun _ => wrap (verifySig false)⟩,
  ⟨"verify-sig-compact", "verify_sig_compact", "[sighash] [pubkey] [signature] verify the given signature for the given sighash and pubkey (compact)", some "verify_sig_compact", fun _ => wrap (verifySig true)⟩ ]

/-- what `fn_tf` leaves behind: the two streams and its return value; `exit` = the process was ended instead -/
structure TfResult where
  out : Bytes := []
  err : Bytes := []
  rv : Int := 0
  exit : Option VErr := none
deriving Repr, DecidableEq

/-- `printf("%-16s", s)` -/
def padRight16 (s : Bytes) : Bytes := s ++ List.replicate (16 - s.length) 32

/-- `fn_tf(arg)` (functions.cpp:323) after `kerl_make_argcv` produced `argv` -/
def tfCommand (cx : VCtx) (argv : List Bytes) : TfResult :=
  match argv with
  | [] =>
    { out := asc "syntax: tf <command> [<param1> [...]]\ntransform a value using some function\navailable functions are (tf -h for details):" ++
        (tfTable.map (fun e => asc (" " ++ e.name))).flatten ++ asc "\nexample: tf hex 35        (output: 0x23)\n" }
  | name :: args =>
    if args.isEmpty && name == asc "-h" then
      { out := (tfTable.map (fun e => padRight16 (asc e.name) ++ [32] ++ asc e.help ++ [10])).flatten ++
          asc "\nThe inline operators have slightly different names; they are called:" ++
          (tfTable.map (fun e => asc (" " ++ e.inl))).flatten ++ [10] }
    else match tfTable.find? (fun e => asc e.name == cstrOf name) with
      | none => { out := asc "unknown function: " ++ cstrOf name ++ [10], rv := -1 }
      | some e =>
        if args.isEmpty then { out := asc e.help ++ [10] }
        else
          let depth := valueDepthLimit
          let act : TM Unit := do
            let vs ← parseArgsListM (valueOfF cx depth) args [] 0 []
            let v ← valueOfVector vs true
            e.run cx v
          match act {} with
          | .ok (_, l) => { out := l.out, err := l.err, rv := 0 }
          | .error er =>
            match er.excWhat with
            | some w => { err := asc ("exception: " ++ w ++ "\n"), rv := -1, exit := none }
            | none => { exit := some er }

/-- `Value v(text); v.println();` — the inline form as the Value parser evaluates it -/
def inlineEval (cx : VCtx) (text : Bytes) : Except VErr (Value × Log) :=
  (do let v ← valueOfF cx valueDepthLimit text text.length; v.println; pure v : TM Value) {}

end Btcdeb.Model
