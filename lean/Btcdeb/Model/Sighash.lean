/-
  Model of the transaction signature digests and of the transaction signature checker.

  Mirrors, function by function (script/interpreter.cpp unless stated otherwise):
    1330-1432  `CTransactionSignatureSerializer` (`SerializeScriptCode`, `SerializeInput`, `SerializeOutput`, `Serialize`)
    1434-1487  `GetPrevoutsSHA256`, `GetSequencesSHA256`, `GetOutputsSHA256`, `GetSpentAmountsSHA256`, `GetSpentScriptsSHA256`
    1492-1542  `PrecomputedTransactionData::Init(txTo, spent_outputs, force)`
    1560-1570  `HandleMissingData`
    1572-1696  `SignatureHashSchnorr`
    1698-1783  `SignatureHash` (BIP143 branch for `SigVersion::WITNESS_V0`, legacy branch otherwise)
    1803-1891  `GenericTransactionSignatureChecker::CheckECDSASignature`, `CheckSchnorrSignature`
    1893-1975  `CheckLockTime`, `CheckSequence`
    script/script.cpp:283-333   where `GetScriptOp` leaves `pc` when it returns false (`getOpFailRest`)
    pubkey.h:60-112,189-192     `CPubKey::GetLen`, `Set`, `IsValid`
    instance.cpp:192-201        how `Instance::setup_environment` builds `txdata` and the checker
    instance.cpp:634-647        `Instance::calc_sighash`

  Hash types are natural numbers standing for the bit pattern of the C++ `int nHashType` / `uint8_t hash_type`
  (`& 0x1f`, `& 0x80` act on the bit pattern; `ss << nHashType` writes its low 32 bits little endian).
  A 32-byte `uint256` is the byte string in memory order (what `begin()..end()` yields, what `HashWriter` writes).

  Modelling assumptions (stated here, nowhere else): `tx.vin.size()` and `tx.vout.size()` are below 2^32 (the C++
  holds them in `unsigned int`), sequence numbers, lock times and outpoint indices are uint32 values, and
  memory allocation does not fail.
  Core Lean only.
-/
import Btcdeb.Basic.Bytes
import Btcdeb.Generated.Tables
import Btcdeb.Model.Step
import Btcdeb.Model.Tx
import Btcdeb.Crypto.Hash
import Btcdeb.Crypto.Ecdsa
import Btcdeb.Crypto.Schnorr
namespace Btcdeb.Model
open Btcdeb

/-- what the digests and the checker call outside this file: SHA-256 (everything else is built from it:
    `HashWriter::GetHash` = double, `GetSHA256` = single, `TaggedHash`), `CPubKey::Verify(hash, sig)` and
    `XOnlyPubKey::VerifySchnorr(hash, sig)` -/
structure SigCrypto where
  sha256 : Bytes → Bytes
  /-- `CPubKey(pubkey).Verify(msg32, sigDer)`: argument order (pubkey, sigDer, msg32) as `Crypto.ecdsaVerify` -/
  ecdsaVerify : Bytes → Bytes → Bytes → Bool
  /-- `XOnlyPubKey(pk32).VerifySchnorr(msg, sig64)`: argument order (pk32, msg, sig64) as `Crypto.schnorrVerify` -/
  schnorrVerify : Bytes → Bytes → Bytes → Bool

/-- `HashWriter::GetHash()`: double SHA-256 -/
def SigCrypto.hash256 (cr : SigCrypto) (b : Bytes) : Bytes := cr.sha256 (cr.sha256 b)

/-- `uint256()` : all zero -/
def zero32 : Bytes := List.replicate 32 0

/-- `uint256::ONE` : `base_blob(uint8_t v) : m_data{v}`, the first byte in memory order is 1 -/
def uint256One : Bytes := 1 :: List.replicate 31 0

/-- `nHashType & SIGHASH_ANYONECANPAY` is non-zero -/
def htAnyoneCanPay (ht : Nat) : Bool := ht &&& Gen.SIGHASH_ANYONECANPAY != 0
/-- `(nHashType & 0x1f) == SIGHASH_SINGLE` -/
def htSingle (ht : Nat) : Bool := ht &&& 0x1f == Gen.SIGHASH_SINGLE
/-- `(nHashType & 0x1f) == SIGHASH_NONE` -/
def htNone (ht : Nat) : Bool := ht &&& 0x1f == Gen.SIGHASH_NONE

/-! ## `CTransactionSignatureSerializer` -/

/-- the position of `pc` after a `GetScriptOp(pc, end, ..)` call that returned false: the opcode byte and a complete
    length field have been consumed, an incomplete length field and the payload have not (script.cpp:288-325) -/
def getOpFailRest (pc : Bytes) : Bytes :=
  match pc with
  | [] => []                                            -- `if (pc >= end) return false;`
  | b :: pc1 =>
    let opcode := b.toNat
    if opcode < Op.OP_PUSHDATA1 then pc1
    else if opcode = Op.OP_PUSHDATA1 then (if pc1.length < 1 then pc1 else pc1.drop 1)
    else if opcode = Op.OP_PUSHDATA2 then (if pc1.length < 2 then pc1 else pc1.drop 2)
    else if opcode = Op.OP_PUSHDATA4 then (if pc1.length < 4 then pc1 else pc1.drop 4)
    else pc1                                            -- not reached: these opcodes never fail

/-- the first loop of `SerializeScriptCode`: `while (scriptCode.GetOp(it, opcode)) if (opcode == OP_CODESEPARATOR) nCodeSeparators++;` -/
def countCodeSeparators (it : Bytes) (n : Nat) : Nat :=
  match h : getOp it with
  | none => n
  | some g => countCodeSeparators g.rest (if g.opcode = Op.OP_CODESEPARATOR then n + 1 else n)
termination_by it.length
decreasing_by exact getOp_rest_lt h

/-- the second loop of `SerializeScriptCode` and the final write.  `itBegin` and `it` are iterators = remaining
    suffixes (`it` is a suffix of `itBegin`), `acc` = what has been written so far.
    On OP_CODESEPARATOR: `s.write(itBegin, it - itBegin - 1); itBegin = it;`.
    After the loop: `if (itBegin != scriptCode.end()) s.write(itBegin, it - itBegin);` where `it` is where the failed
    `GetOp` left it. -/
def serScriptCodeGo (itBegin it : Bytes) (acc : Bytes) : Bytes :=
  match h : getOp it with
  | none =>
    if itBegin ≠ [] then acc ++ itBegin.take (itBegin.length - (getOpFailRest it).length) else acc
  | some g =>
    if g.opcode = Op.OP_CODESEPARATOR then
      serScriptCodeGo g.rest g.rest (acc ++ itBegin.take (itBegin.length - g.rest.length - 1))
    else serScriptCodeGo itBegin g.rest acc
termination_by it.length
decreasing_by
  · exact getOp_rest_lt h
  · exact getOp_rest_lt h

/-- `SerializeScriptCode`: `WriteCompactSize(s, scriptCode.size() - nCodeSeparators)` then the segments -/
def serScriptCode (scriptCode : Bytes) : Bytes :=
  compactSize (scriptCode.length - countCodeSeparators scriptCode 0) ++ serScriptCodeGo scriptCode scriptCode []

/-- `SerializeInput(s, nInput)` -/
def serSigInput (tx : Tx) (scriptCode : Bytes) (nIn ht : Nat) (nInput : Nat) : Bytes :=
  let nInput := if htAnyoneCanPay ht then nIn else nInput
  let inp := tx.vin.getD nInput default
  serOutPoint inp.prevout
    ++ (if nInput ≠ nIn then serVarBytes [] else serScriptCode scriptCode)
    ++ (if nInput ≠ nIn ∧ (htSingle ht || htNone ht) then leFixed 4 0 else leFixed 4 inp.sequence)

/-- `SerializeOutput(s, nOutput)`; `CTxOut()` is `SetNull()`: value -1, empty script -/
def serSigOutput (tx : Tx) (nIn ht : Nat) (nOutput : Nat) : Bytes :=
  if htSingle ht ∧ nOutput ≠ nIn then serTxOut { value := -1, scriptPubKey := [] }
  else serTxOut (tx.vout.getD nOutput default)

/-- `CTransactionSignatureSerializer::Serialize` -/
def serSigTx (tx : Tx) (scriptCode : Bytes) (nIn ht : Nat) : Bytes :=
  let nInputs := if htAnyoneCanPay ht then 1 else tx.vin.length
  let nOutputs := if htNone ht then 0 else if htSingle ht then nIn + 1 else tx.vout.length
  leFixed 4 (ofSigned 32 tx.version)
    ++ compactSize nInputs ++ (List.range nInputs).flatMap (serSigInput tx scriptCode nIn ht)
    ++ compactSize nOutputs ++ (List.range nOutputs).flatMap (serSigOutput tx nIn ht)
    ++ leFixed 4 tx.lockTime

/-! ## the shared single-SHA256 midstates -/

/-- what `GetPrevoutsSHA256` hashes -/
def prevoutsBytes (tx : Tx) : Bytes := tx.vin.flatMap (fun i => serOutPoint i.prevout)
/-- what `GetSequencesSHA256` hashes -/
def sequencesBytes (tx : Tx) : Bytes := tx.vin.flatMap (fun i => leFixed 4 i.sequence)
/-- what `GetOutputsSHA256` hashes -/
def outputsBytes (tx : Tx) : Bytes := tx.vout.flatMap serTxOut
/-- what `GetSpentAmountsSHA256` hashes -/
def spentAmountsBytes (spent : List TxOut) : Bytes := spent.flatMap (fun o => leFixed 8 (ofSigned 64 o.value))
/-- what `GetSpentScriptsSHA256` hashes -/
def spentScriptsBytes (spent : List TxOut) : Bytes := spent.flatMap (fun o => serVarBytes o.scriptPubKey)

/-! ## `PrecomputedTransactionData` -/

/-- `struct PrecomputedTransactionData` (script/interpreter.h:151-186); default = `PrecomputedTransactionData()` -/
structure PrecomputedTxData where
  prevoutsSingleHash : Bytes := zero32
  sequencesSingleHash : Bytes := zero32
  outputsSingleHash : Bytes := zero32
  spentAmountsSingleHash : Bytes := zero32
  spentScriptsSingleHash : Bytes := zero32
  bip341TaprootReady : Bool := false
  hashPrevouts : Bytes := zero32
  hashSequence : Bytes := zero32
  hashOutputs : Bytes := zero32
  bip143SegwitReady : Bool := false
  spentOutputs : List TxOut := []
  spentOutputsReady : Bool := false
deriving Repr, DecidableEq, Inhabited

/-- the test inside the loop of `Init`: a 34-byte scriptPubKey starting with OP_1 -/
def looksTaproot (o : TxOut) : Bool :=
  o.scriptPubKey.length == 2 + Gen.WITNESS_V1_TAPROOT_SIZE && byteAt o.scriptPubKey 0 == Op.OP_1

/-- the loop of `Init` that determines `uses_bip143_segwit` / `uses_bip341_taproot`; `vin` and `spent` are the
    inputs and spent outputs from position `inpos` on (`spent` is all of `[]` when no spent outputs were given) -/
def scanUses (spentReady : Bool) : List TxIn → List TxOut → Bool → Bool → Bool × Bool
  | [], _, u143, u341 => (u143, u341)
  | i :: is, sp, u143, u341 =>
    if u143 && u341 then (u143, u341)                  -- loop condition / `break`
    else
      let r : Bool × Bool :=
        if !i.witness.isEmpty then
          if spentReady && (match sp with | o :: _ => looksTaproot o | [] => false) then (u143, true)
          else (true, u341)
        else (u143, u341)
      scanUses spentReady is sp.tail r.1 r.2

/-- `PrecomputedTransactionData::Init(txTo, std::move(spent_outputs), force)` on a freshly constructed object
    (so `assert(!m_spent_outputs_ready)` holds).  The other assertion is an explicit outcome. -/
def precomputeInit (cr : SigCrypto) (tx : Tx) (spent : List TxOut) (force : Bool) : M PrecomputedTxData :=
  if !spent.isEmpty && spent.length ≠ tx.vin.length then
    .error (.abnormal "assert(m_spent_outputs.size() == txTo.vin.size())")
  else
    let spentReady := !spent.isEmpty
    let uses := scanUses spentReady tx.vin spent force force
    let d : PrecomputedTxData := { spentOutputs := spent, spentOutputsReady := spentReady }
    let d := if uses.1 || uses.2 then
        { d with prevoutsSingleHash := cr.sha256 (prevoutsBytes tx),
                 sequencesSingleHash := cr.sha256 (sequencesBytes tx),
                 outputsSingleHash := cr.sha256 (outputsBytes tx) }
      else d
    let d := if uses.1 then
        { d with hashPrevouts := cr.sha256 d.prevoutsSingleHash,
                 hashSequence := cr.sha256 d.sequencesSingleHash,
                 hashOutputs := cr.sha256 d.outputsSingleHash,
                 bip143SegwitReady := true }
      else d
    let d := if uses.2 then
        { d with spentAmountsSingleHash := cr.sha256 (spentAmountsBytes spent),
                 spentScriptsSingleHash := cr.sha256 (spentScriptsBytes spent),
                 bip341TaprootReady := true }
      else d
    .ok d

/-- `Instance::setup_environment` (instance.cpp:194-200): `txdata` starts default-constructed and `Init` is called
    with the one spent output that btcdeb knows, and only `if (tx->vin.size() == 1)`.
    For any other number of inputs `txdata` stays `PrecomputedTransactionData()`. -/
def instanceTxData (cr : SigCrypto) (tx : Tx) (spentOutput : TxOut) (hasPreamble : Bool) : M PrecomputedTxData :=
  if tx.vin.length = 1 then precomputeInit cr tx [spentOutput] hasPreamble else .ok {}

/-- `Instance::calc_sighash` (instance.cpp:636-639): `Init` is called unconditionally -/
def calcSighashTxData (cr : SigCrypto) (tx : Tx) (spentOutput : TxOut) (hasPreamble : Bool) : M PrecomputedTxData :=
  precomputeInit cr tx [spentOutput] hasPreamble

/-! ## `SignatureHash` -/

/-- legacy branch of `SignatureHash` (any `sigversion` other than WITNESS_V0), for `nIn < txTo.vin.size()` -/
def legacySighash (cr : SigCrypto) (scriptCode : Bytes) (tx : Tx) (nIn ht : Nat) : Bytes :=
  if htSingle ht && decide (nIn ≥ tx.vout.length) then uint256One          -- "nOut out of range"
  else cr.hash256 (serSigTx tx scriptCode nIn ht ++ leFixed 4 ht)

/-- BIP143 branch of `SignatureHash`, for `nIn < txTo.vin.size()`; `cache` is `*cache` (the btcdeb checker always
    passes a non-null pointer) -/
def bip143Sighash (cr : SigCrypto) (scriptCode : Bytes) (tx : Tx) (nIn ht : Nat) (amount : Int)
    (cache : PrecomputedTxData) : Bytes :=
  let cacheready := cache.bip143SegwitReady
  let hashPrevouts :=
    if !htAnyoneCanPay ht then
      (if cacheready then cache.hashPrevouts else cr.sha256 (cr.sha256 (prevoutsBytes tx)))
    else zero32
  let hashSequence :=
    if !htAnyoneCanPay ht && !htSingle ht && !htNone ht then
      (if cacheready then cache.hashSequence else cr.sha256 (cr.sha256 (sequencesBytes tx)))
    else zero32
  let hashOutputs :=
    if !htSingle ht && !htNone ht then
      (if cacheready then cache.hashOutputs else cr.sha256 (cr.sha256 (outputsBytes tx)))
    else if htSingle ht && decide (nIn < tx.vout.length) then
      cr.hash256 (serTxOut (tx.vout.getD nIn default))
    else zero32
  let inp := tx.vin.getD nIn default
  cr.hash256 (leFixed 4 (ofSigned 32 tx.version) ++ hashPrevouts ++ hashSequence
    ++ serOutPoint inp.prevout ++ serVarBytes scriptCode ++ leFixed 8 (ofSigned 64 amount)
    ++ leFixed 4 inp.sequence ++ hashOutputs ++ leFixed 4 tx.lockTime ++ leFixed 4 ht)

/-- `SignatureHash(scriptCode, txTo, nIn, nHashType, amount, sigversion, cache)` -/
def signatureHash (cr : SigCrypto) (scriptCode : Bytes) (tx : Tx) (nIn ht : Nat) (amount : Int) (sv : SigVersion)
    (cache : PrecomputedTxData) : M Bytes :=
  if nIn ≥ tx.vin.length then .error (.abnormal "assert(nIn < txTo.vin.size())")
  else if sv == .WITNESS_V0 then .ok (bip143Sighash cr scriptCode tx nIn ht amount cache)
  else .ok (legacySighash cr scriptCode tx nIn ht)

/-! ## `SignatureHashSchnorr` -/

/-- `enum class MissingDataBehavior` -/
inductive MissingDataBehavior where
  | assertFail | fail
deriving Repr, DecidableEq, Inhabited

/-- `HandleMissingData(mdb)`: `.ok false` = `return false` -/
def handleMissingData (mdb : MissingDataBehavior) : M Bool :=
  match mdb with
  | .assertFail => .error (.abnormal "assert(!\"Missing data\")")
  | .fail => .ok false

/-- the ASCII bytes of "TapSighash" -/
def tapSighashTag : Bytes := [0x54, 0x61, 0x70, 0x53, 0x69, 0x67, 0x68, 0x61, 0x73, 0x68]

/-- `HashWriter{HASHER_TAPSIGHASH} << msg` then `GetSHA256()`: `TaggedHash(tag)` has absorbed SHA256(tag) twice -/
def tapSighashOf (cr : SigCrypto) (msg : Bytes) : Bytes :=
  cr.sha256 (cr.sha256 tapSighashTag ++ cr.sha256 tapSighashTag ++ msg)

/-- `SignatureHashSchnorr(hash_out, execdata, tx_to, in_pos, hash_type, sigversion, cache, mdb)`.
    Result: `(some digest | none = returned false, execdata.m_output_hash afterwards)`; assertion failures are errors.
    `ht` is the `uint8_t hash_type`. -/
def schnorrSighashM (cr : SigCrypto) (ed : ExecData) (tx : Tx) (nIn ht : Nat) (sv : SigVersion)
    (cache : PrecomputedTxData) (mdb : MissingDataBehavior) : M (Option Bytes × Option Bytes) :=
  if sv ≠ .TAPROOT ∧ sv ≠ .TAPSCRIPT then .error (.abnormal "assert(false) (sigversion)")
  else
    let extFlag : Nat := if sv == .TAPSCRIPT then 1 else 0
    if nIn ≥ tx.vin.length then .error (.abnormal "assert(in_pos < tx_to.vin.size())")
    else if !(cache.bip341TaprootReady && cache.spentOutputsReady) then
      match handleMissingData mdb with
      | .ok _ => .ok (none, ed.outputHash)
      | .error e => .error e
    else
      let outputType := if ht = Gen.SIGHASH_DEFAULT then Gen.SIGHASH_ALL else ht &&& Gen.SIGHASH_OUTPUT_MASK
      let inputType := ht &&& Gen.SIGHASH_INPUT_MASK
      if !(ht ≤ 0x03 || (ht ≥ 0x81 && ht ≤ 0x83)) then .ok (none, ed.outputHash)
      else
        let inp := tx.vin.getD nIn default
        let s1 : Bytes := [0x00] ++ [UInt8.ofNat ht] ++ leFixed 4 (ofSigned 32 tx.version) ++ leFixed 4 tx.lockTime
        let s2 : Bytes :=
          if inputType ≠ Gen.SIGHASH_ANYONECANPAY then
            cache.prevoutsSingleHash ++ cache.spentAmountsSingleHash ++ cache.spentScriptsSingleHash ++ cache.sequencesSingleHash
          else []
        let s3 : Bytes := if outputType = Gen.SIGHASH_ALL then cache.outputsSingleHash else []
        if !ed.annexInit then .error (.abnormal "assert(execdata.m_annex_init)")
        else
          let haveAnnex := ed.annexPresent
          let spendType : Nat := extFlag * 2 + (if haveAnnex then 1 else 0)
          let s4 : Bytes := [UInt8.ofNat spendType]
          let s5 : Bytes :=
            if inputType = Gen.SIGHASH_ANYONECANPAY then
              serOutPoint inp.prevout ++ serTxOut (cache.spentOutputs.getD nIn default) ++ leFixed 4 inp.sequence
            else leFixed 4 nIn
          let s6 : Bytes := if haveAnnex then ed.annexHash else []
          if outputType = Gen.SIGHASH_SINGLE ∧ nIn ≥ tx.vout.length then .ok (none, ed.outputHash)
          else
            -- `if (!execdata.m_output_hash) { ...; execdata.m_output_hash = sha_single_output.GetSHA256(); }` then `.value()`
            let outHashV : Bytes := ed.outputHash.getD (cr.sha256 (serTxOut (tx.vout.getD nIn default)))
            let outHash : Option Bytes := if outputType = Gen.SIGHASH_SINGLE then some outHashV else ed.outputHash
            let s7 : Bytes := if outputType = Gen.SIGHASH_SINGLE then outHashV else []
            if sv == .TAPSCRIPT then
              if !ed.tapleafHashInit then .error (.abnormal "assert(execdata.m_tapleaf_hash_init)")
              else if !ed.codesepPosInit then .error (.abnormal "assert(execdata.m_codeseparator_pos_init)")
              else
                let s8 : Bytes := ed.tapleafHash ++ [0x00] ++ leFixed 4 ed.codesepPos
                .ok (some (tapSighashOf cr (s1 ++ s2 ++ s3 ++ s4 ++ s5 ++ s6 ++ s7 ++ s8)), outHash)
            else
              .ok (some (tapSighashOf cr (s1 ++ s2 ++ s3 ++ s4 ++ s5 ++ s6 ++ s7)), outHash)

/-- the digest of `SignatureHashSchnorr` with `MissingDataBehavior::FAIL`: `none` = it returned false
    (an assertion failure, excluded by `SchnorrPre` in the theorems, also shows as `none` here) -/
def schnorrSighash (cr : SigCrypto) (ed : ExecData) (tx : Tx) (nIn ht : Nat) (sv : SigVersion)
    (cache : PrecomputedTxData) : Option Bytes :=
  match schnorrSighashM cr ed tx nIn ht sv cache .fail with
  | .ok (r, _) => r
  | .error _ => none

/-! ## `GenericTransactionSignatureChecker` -/

/-- `CPubKey(vchPubKey).IsValid()`: the length announced by the header byte is the actual length -/
def cpubkeyIsValid (k : Bytes) : Bool :=
  match k with
  | [] => false
  | h :: _ =>
    let len : Nat := if h.toNat = 2 || h.toNat = 3 then 33 else if h.toNat = 4 || h.toNat = 6 || h.toNat = 7 then 65 else 0
    len != 0 && len == k.length

/-- `CheckECDSASignature(vchSigIn, vchPubKey, scriptCode, sigversion)` of a checker built with
    `(txTo, nIn, amount, txdata, mdb)` -/
def checkECDSASignatureM (cr : SigCrypto) (tx : Tx) (nIn : Nat) (amount : Int) (txdata : PrecomputedTxData)
    (mdb : MissingDataBehavior) (sigIn key scriptCode : Bytes) (sv : SigVersion) : M Bool :=
  if !cpubkeyIsValid key then .ok false
  else if sigIn.isEmpty then .ok false
  else
    let ht := (sigIn.getLast?.getD 0).toNat
    let sig := sigIn.dropLast
    if sv == .WITNESS_V0 && decide (amount < 0) then handleMissingData mdb
    else
      match signatureHash cr scriptCode tx nIn ht amount sv txdata with
      | .error e => .error e
      | .ok sighash => .ok (cr.ecdsaVerify key sig sighash)

/-- `CheckSchnorrSignature(sig, pubkey_in, sigversion, execdata, serror)`; `.ok ()` = true,
    `.error (.script e)` = `return set_error(serror, e)`.  (`this->txdata` is never null in btcdeb.) -/
def checkSchnorrSignatureM (cr : SigCrypto) (tx : Tx) (nIn : Nat) (txdata : PrecomputedTxData)
    (mdb : MissingDataBehavior) (sig key : Bytes) (sv : SigVersion) (ed : ExecData) : M Unit :=
  if sv ≠ .TAPROOT ∧ sv ≠ .TAPSCRIPT then .error (.abnormal "assert(sigversion == TAPROOT || sigversion == TAPSCRIPT)")
  else if key.length ≠ 32 then .error (.exc "assertion failed: pubkey_in.size() == 32")
  else if sig.length ≠ 64 ∧ sig.length ≠ 65 then fail .SCHNORR_SIG_SIZE
  else
    let ht : Nat := if sig.length = 65 then (sig.getLast?.getD 0).toNat else Gen.SIGHASH_DEFAULT
    let sig64 : Bytes := if sig.length = 65 then sig.dropLast else sig
    if sig.length = 65 ∧ ht = Gen.SIGHASH_DEFAULT then fail .SCHNORR_SIG_HASHTYPE
    else
      match schnorrSighashM cr ed tx nIn ht sv txdata mdb with
      | .error e => .error e
      | .ok (none, _) => fail .SCHNORR_SIG_HASHTYPE
      | .ok (some sighash, _) =>
        if cr.schnorrVerify key sighash sig64 then .ok () else fail .SCHNORR_SIG

/-- `CheckLockTime(nLockTime)`; the argument is the value of the `CScriptNum` -/
def checkLockTimeTx (tx : Tx) (nIn : Nat) (nLockTime : Int) : Bool :=
  let txLock : Int := tx.lockTime
  let thr : Int := Gen.LOCKTIME_THRESHOLD
  if !((txLock < thr && nLockTime < thr) || (txLock ≥ thr && nLockTime ≥ thr)) then false
  else if nLockTime > txLock then false
  else if Gen.SEQUENCE_FINAL = (tx.vin.getD nIn default).sequence then false
  else true

/-- `CheckSequence(nSequence)`; `nSequence & nLockTimeMask` is the bitwise AND of the int64 two's complement -/
def checkSequenceTx (tx : Tx) (nIn : Nat) (nSequence : Int) : Bool :=
  let txToSequence : Nat := (tx.vin.getD nIn default).sequence
  if ofSigned 32 tx.version < 2 then false
  else if txToSequence &&& Gen.SEQUENCE_LOCKTIME_DISABLE_FLAG != 0 then false
  else
    let mask : Nat := Gen.SEQUENCE_LOCKTIME_TYPE_FLAG ||| Gen.SEQUENCE_LOCKTIME_MASK
    let txToSequenceMasked : Nat := txToSequence &&& mask
    let nSequenceMasked : Nat := ofSigned 64 nSequence &&& mask
    let tf : Nat := Gen.SEQUENCE_LOCKTIME_TYPE_FLAG
    if !((txToSequenceMasked < tf && nSequenceMasked < tf) || (txToSequenceMasked ≥ tf && nSequenceMasked ≥ tf)) then false
    else if nSequenceMasked > txToSequenceMasked then false
    else true

/-- the `BaseSignatureChecker` part of a `Ctx` replaced by
    `TransactionSignatureChecker(tx, nIn, amount, txdata, MissingDataBehavior::FAIL)` (instance.cpp:201).
    `base` supplies the hash functions of the opcodes and `CPubKey::CheckLowS`.
    `checkECDSA` is a `Bool` in `Ctx`; for `nIn ≥ tx.vin.length` (`assert` in `SignatureHash`) it answers `false`
    here and `checkECDSASignatureM` says what really happens. -/
def txCheckerWith (cr : SigCrypto) (base : Ctx) (tx : Tx) (nIn : Nat) (amount : Int) (txdata : PrecomputedTxData) : Ctx :=
  { base with
    checkLockTime := checkLockTimeTx tx nIn
    checkSequence := checkSequenceTx tx nIn
    checkECDSA := fun sig key scriptCode sv =>
      match checkECDSASignatureM cr tx nIn amount txdata .fail sig key scriptCode sv with
      | .ok b => b
      | .error _ => false
    checkSchnorr := fun sig key sv ed => checkSchnorrSignatureM cr tx nIn txdata .fail sig key sv ed }

/-! ## the concrete instance (what the driver runs against the C++) -/

/-- SHA-256, `CPubKey::Verify` and `XOnlyPubKey::VerifySchnorr` as implemented in `Btcdeb/Crypto` -/
def stdCrypto : SigCrypto where
  sha256 := Crypto.sha256
  ecdsaVerify := Crypto.ecdsaVerify
  schnorrVerify := Crypto.schnorrVerify

/-- `BaseSignatureChecker` with the real hash functions -/
def stdBaseCtx : Ctx where
  sha256 := Crypto.sha256
  ripemd160 := Crypto.ripemd160
  sha1 := Crypto.sha1
  checkLowS := Crypto.checkLowS
  checkLockTime := fun _ => false
  checkSequence := fun _ => false
  checkECDSA := fun _ _ _ _ => false
  checkSchnorr := fun _ _ _ _ => .error (.script .UNKNOWN_ERROR)

/-- `TransactionSignatureChecker(tx, nIn, amount, txdata, MissingDataBehavior::FAIL)` as a `Ctx` -/
def txChecker (tx : Tx) (nIn : Nat) (amount : Int) (txdata : PrecomputedTxData) : Ctx :=
  txCheckerWith stdCrypto stdBaseCtx tx nIn amount txdata

end Btcdeb.Model
