/-
  Model of the interactive command-line layer `kerl` (/repo/kerl/kerl.c), function by function.

  Every interactive command of btcdeb is read by `kerl_run`, looked up by `execute_line`, and — for `exec` and
  `tf` — cut into words by `kerl_make_argcv` (functions.cpp:331, 404).  kerl.c is hand-written C: malloc'd buffers,
  capacity doubling, `int` indices.  The model keeps

    * every buffer as the list of the bytes of its ALLOCATION (the length of the list is the allocated size;
      bytes that malloc/realloc leave indeterminate are the non-zero `poison` value), next to the C variable that
      the code believes to be the capacity (`bufcap`, `cap`, `more_final_cap`);
    * every index computation: a read or write `mem[i]` outside the allocation, a C string that is not terminated
      inside its allocation, and an `int` that leaves its range are the explicit outcome `.abnormal`.

  kerl.c exists in two configurations and both are modelled (`rl : Bool`):
    * `rl = true`   HAVE_LIBREADLINE — the repository's own build (Makefile.am: -DHAVE_CONFIG_H).  Lines come from GNU
                    readline (a list of NUL-free lines here; the end of the list is end-of-input) and an unterminated
                    quote or a trailing backslash makes `kerl_make_argcv_escape` ask for continuation lines;
    * `rl = false`  no readline — what harness/build.py links into the `btcdeb` of the build directory: kerl's own
                    `fgets` reader (`fallbackReadline`), continuation compiled out.

  Scanning loops over a C string (`for (s = string; whitespace(*s); s++)`, `strlen`) are written with list functions
  over the allocation; a scan that does not stop inside the allocation is `.abnormal`.
-/
import Btcdeb.Model.Session
namespace Btcdeb.Model.Kerl
open Btcdeb

inductive KErr where
  /-- memory outside an allocation touched, unterminated string, signed overflow: the process may die or anything may happen -/
  | abnormal (kind : String)
deriving Repr, DecidableEq

abbrev KM := Except KErr

def abn {α : Type} (kind : String) : KM α := .error (.abnormal kind)

/-- `INT_MAX`: the indices `i`, `j`, `escapes` are `int` -/
def intMax : Nat := 2147483647

/-- an `int` computation must stay in range (signed overflow is undefined) -/
def chkInt (n : Nat) : KM Unit := if n ≤ intMax then pure () else abn "signed int overflow"

/-- content of bytes that malloc/realloc leave indeterminate (never NUL, so a missing terminator is not hidden) -/
def poison : UInt8 := 0xAA

/-- `malloc(n)` -/
def malloc (n : Nat) : List UInt8 := List.replicate n poison
/-- `realloc(mem, n)` -/
def realloc (mem : List UInt8) (n : Nat) : List UInt8 := mem.take n ++ List.replicate (n - mem.length) poison

/-- `mem[i]` read -/
def rd (mem : List UInt8) (i : Nat) (what : String) : KM UInt8 :=
  if h : i < mem.length then pure mem[i] else abn what
/-- `mem[i] = v` -/
def wr (mem : List UInt8) (i : Nat) (v : UInt8) (what : String) : KM (List UInt8) :=
  if i < mem.length then pure (mem.set i v) else abn what

/-- the C string that starts at offset `off` of an allocation (`strlen`, `strdup`, `%s`): the bytes before the first NUL;
    no NUL inside the allocation = a read past its end -/
def cstrAt (mem : List UInt8) (off : Nat) : KM Bytes :=
  if off ≤ mem.length ∧ (mem.drop off).contains 0 then pure ((mem.drop off).takeWhile (· != 0))
  else abn "C string not terminated inside its allocation"

def cstr (mem : List UInt8) : KM Bytes := cstrAt mem 0

/-- a C string as the caller hands it over: its bytes and the terminator, in an allocation of exactly that size -/
def ofStr (s : Bytes) : List UInt8 := s ++ [0]

/-- `whitespace(c)` (kerl.c:24) -/
def isWs (c : UInt8) : Bool := c == 32 || c == 9

-- ---------------------------------------------------------------------------------------------
-- stripwhite, strdup_command (kerl.c:344-369)

/-- `while (t > s && whitespace(*t)) t--;` -/
def backWs (mem : List UInt8) (s : Nat) : Nat → KM Nat
  | 0 => pure 0
  | t + 1 =>
    if t + 1 > s then do
      let c ← rd mem (t + 1) "stripwhite: *t"
      if isWs c then backWs mem s t else pure (t + 1)
    else pure (t + 1)

/-- `stripwhite(string)`: offset of the result inside the buffer, and the buffer afterwards (a NUL is written behind
    the last character that is not white space) -/
def stripwhite (mem : List UInt8) : KM (Nat × List UInt8) :=
  -- for (s = string; whitespace(*s); s++);
  let s := (mem.takeWhile isWs).length
  if s ≥ mem.length then abn "stripwhite: *s read past the end" else do
  let c ← rd mem s "stripwhite: *s"
  if c == 0 then pure (s, mem) else do
  -- t = s + strlen(s) - 1;
  let rest ← cstrAt mem s
  let t ← backWs mem s (s + rest.length - 1)
  -- *++t = '\0';
  let mem ← wr mem (t + 1) 0 "stripwhite: *++t"
  pure (s, mem)

/-- `strdup_command(line)`: the characters before the first blank (`strndup(line, i)`) -/
def strdupCommand (mem : List UInt8) : KM Bytes := do
  let s ← cstr mem
  pure (s.takeWhile (· != 32))

-- ---------------------------------------------------------------------------------------------
-- escape / unescape (kerl.c:197-256)

/-- the characters `escape` protects -/
def needsEscape (c : UInt8) : Bool := c == 10 || c == 9 || c == 13 || c == 8 || c == 92 || c == 34

/-- the letter after the backslash -/
def escLetter (c : UInt8) : UInt8 :=
  if c == 10 then 110 else if c == 9 then 116 else if c == 13 then 114 else if c == 8 then 98 else c

/-- second loop of `escape`: `*(ptr++) = …` into `rv` -/
def escapeLoop : Bytes → List UInt8 → Nat → KM (List UInt8 × Nat)
  | [], rv, ptr => pure (rv, ptr)
  | c :: rest, rv, ptr =>
    if needsEscape c then do
      let rv ← wr rv ptr 92 "escape: *(ptr++)"
      let rv ← wr rv (ptr + 1) (escLetter c) "escape: *(ptr++)"
      escapeLoop rest rv (ptr + 2)
    else do
      let rv ← wr rv ptr c "escape: *(ptr++)"
      escapeLoop rest rv (ptr + 1)

/-- `escape(input)`: `none` = NULL (nothing to escape) -/
def escape (input : Bytes) : KM (Option Bytes) := do
  let len := input.length
  let escapes := (input.filter needsEscape).length
  chkInt escapes
  if escapes == 0 then pure none else do
  let rv := malloc (len + escapes + 1)
  let (rv, ptr) ← escapeLoop input rv 0
  let rv ← wr rv ptr 0 "escape: *ptr = 0"
  some <$> cstr rv

/-- first loop of `unescape`: (`escapes`, `escaped`) -/
def unescCount : Bytes → Nat → Bool → Nat
  | [], escapes, _ => escapes
  | c :: rest, escapes, escaped =>
    unescCount rest (escapes + (if c == 92 && !escaped then 1 else 0)) (!escaped && c == 92)

/-- what `\c` stands for; `none` = not an escape sequence (both characters are kept) -/
def unescLetter (c : UInt8) : Option UInt8 :=
  if c == 110 then some 10 else if c == 116 then some 9 else if c == 114 then some 13 else if c == 98 then some 8
  else if c == 92 then some 92 else if c == 34 then some 34 else none

/-- second loop of `unescape`, `fuel` iterations at most.  `src` is the input allocation, `dst` the output allocation;
    with `reuse` they are the SAME memory (`rv = (char*)input`): reads see earlier writes. -/
def unescLoop (reuse : Bool) (len : Nat) : Nat → List UInt8 → List UInt8 → Nat → Nat → KM (List UInt8 × Nat)
  | 0, _, dst, _, ptr => pure (dst, ptr)
  | fuel + 1, src, dst, i, ptr =>
    if i < len then do
      let inp := if reuse then dst else src
      let c ← rd inp i "unescape: input[i]"
      if i + 1 < len && c == 92 then do
        let d ← rd inp (i + 1) "unescape: input[i]"
        match unescLetter d with
        | some v => do
          let dst ← wr dst ptr v "unescape: *(ptr++)"
          unescLoop reuse len fuel src dst (i + 2) (ptr + 1)
        | none => do
          let dst ← wr dst ptr 92 "unescape: *(ptr++)"
          -- `*(ptr++) = input[i]` reads the input again, after the write above
          let inp := if reuse then dst else src
          let d ← rd inp (i + 1) "unescape: input[i]"
          let dst ← wr dst (ptr + 1) d "unescape: *(ptr++)"
          unescLoop reuse len fuel src dst (i + 2) (ptr + 2)
      else do
        let dst ← wr dst ptr c "unescape: *(ptr++)"
        unescLoop reuse len fuel src dst (i + 1) (ptr + 1)
    else pure (dst, ptr)

/-- `unescape(input, reuse)` on the allocation `mem` holding the input string.
    Result: `none` = NULL; otherwise the returned string, and the input allocation afterwards (changed when `reuse`). -/
def unescape (mem : List UInt8) (reuse : Bool) : KM (Option Bytes × List UInt8) := do
  let input ← cstr mem
  let len := input.length
  let escapes := unescCount input 0 false
  chkInt escapes
  if escapes == 0 then pure (if reuse then some input else none, mem) else do
  if reuse then do
    let (dst, ptr) ← unescLoop true len len mem mem 0 0
    let dst ← wr dst ptr 0 "unescape: *ptr = 0"
    let r ← cstr dst
    pure (some r, dst)
  else do
    let (dst, ptr) ← unescLoop false len len mem (malloc (len - escapes + 1)) 0 0
    let dst ← wr dst ptr 0 "unescape: *ptr = 0"
    let r ← cstr dst
    pure (some r, mem)

-- ---------------------------------------------------------------------------------------------
-- more_final (kerl.c:47-48, 403-418): the text of a command spread over several lines, kept for the history

structure MoreFinal where
  /-- the allocation; `none` = NULL -/
  mem : Option (List UInt8) := none
  /-- `more_final_cap` -/
  cap : Nat := 0
  /-- `more_final_pos` -/
  pos : Nat := 0
  /-- `more_final_lines` -/
  lines : Nat := 0
deriving Repr, DecidableEq

/-- `snprintf(&mem[off], size, "%s", s)`: at most `size - 1` characters and a NUL are written; returns `strlen(s)` -/
def snprintfAt : List UInt8 → Nat → Nat → Bytes → KM (List UInt8)
  | mem, _, 0, _ => pure mem
  | mem, off, 1, _ => wr mem off 0 "snprintf: terminator"
  | mem, off, _ + 1, [] => wr mem off 0 "snprintf: terminator"
  | mem, off, size + 1, c :: rest => do
    let mem ← wr mem off c "snprintf: character"
    snprintfAt mem (off + 1) size rest

/-- `_more_final_init(argstring)` -/
def mfInit (m : MoreFinal) (arg : Bytes) : KM MoreFinal := do
  let pos := arg.length + 1
  let (mem, cap) := match m.mem with
    | none => (malloc pos, pos)
    | some mem => if m.cap < pos then (realloc mem pos, pos) else (mem, m.cap)
  let mem ← snprintfAt mem 0 cap arg
  pure { mem := some mem, cap := cap, pos := pos, lines := 0 }

/-- `_more_final_append(line, add_newline)` -/
def mfAppend (m : MoreFinal) (line : Bytes) (addNewline : Bool) : KM MoreFinal := do
  match m.mem with
  | none => abn "_more_final_append: more_final is NULL"
  | some mem =>
    let req := m.pos + line.length + 1 + (if addNewline then 1 else 0)
    let (mem, cap) := if m.cap < req then (realloc mem req, req) else (mem, m.cap)
    let text := (if addNewline then [10] else []) ++ line
    if m.pos > mem.length then abn "_more_final_append: &more_final[more_final_pos]" else do
    let mem ← snprintfAt mem m.pos cap text
    pure { mem := some mem, cap := cap, pos := m.pos + text.length, lines := m.lines + 1 }

/-- `more_final` as `kerl_add_history` prints it -/
def MoreFinal.text (m : MoreFinal) : KM Bytes :=
  match m.mem with
  | none => abn "more_final is NULL"
  | some mem => cstr mem

-- ---------------------------------------------------------------------------------------------
-- kerl_make_argcv_escape (kerl.c:420-485)

/-- the local variables of `kerl_make_argcv_escape` (`argc` is `argv.length`) -/
structure ArgSt where
  /-- `argv[0 .. argc)` -/
  argv : List Bytes := []
  /-- `cap`: number of pointers `argv` has room for -/
  cap : Nat := 2
  /-- allocation of `buf` -/
  buf : List UInt8 := malloc 1024
  bufcap : Nat := 1024
  j : Nat := 0
  /-- `quot`: 0 or the quote character that is open -/
  quot : UInt8 := 0
  esc : Bool := false
deriving Repr, DecidableEq

/-- `buf[j++] = v` -/
def bufPut (s : ArgSt) (v : UInt8) : KM ArgSt := do
  let buf ← wr s.buf s.j v "kerl_make_argcv_escape: buf[j++]"
  pure { s with buf := buf, j := s.j + 1 }

/-- the macro `bufiter()` -/
def bufiter (escape : UInt8) (s : ArgSt) (ch : UInt8) : KM ArgSt := do
  let s ← if ch == escape then bufPut s 92 else pure s
  bufPut s ch

/-- `buf[j] = 0; argv[argc++] = strdup(buf);` -/
def storeArg (s : ArgSt) : KM ArgSt := do
  let buf ← wr s.buf s.j 0 "kerl_make_argcv_escape: buf[j] = 0"
  let a ← cstr buf
  if s.argv.length < s.cap then pure { s with buf := buf, argv := s.argv ++ [a] }
  else abn "kerl_make_argcv_escape: argv[argc++]"

/-- one iteration of `for (i = 0; argstring[i]; i++)` -/
def argChar (escape : UInt8) (s : ArgSt) (ch : UInt8) : KM ArgSt := do
  -- if (bufcap <= j + 2) { bufcap *= 2; buf = realloc(buf, bufcap); }
  chkInt (s.j + 2)
  let s := if s.bufcap ≤ s.j + 2 then { s with bufcap := s.bufcap * 2, buf := realloc s.buf (s.bufcap * 2) } else s
  if s.esc then do
    let s ← bufiter escape s ch
    pure { s with esc := false }
  else if ch == 92 then pure { s with esc := true }
  else if s.quot != 0 then
    if ch == s.quot then pure { s with quot := 0 } else bufiter escape s ch
  else if ch == 39 || ch == 34 then pure { s with quot := ch }
  else if ch == 32 then
    if s.j > 0 then do
      -- if (argc == cap) { cap *= 2; argv = realloc(argv, sizeof(char*) * cap); }
      let s := if s.argv.length == s.cap then { s with cap := s.cap * 2 } else s
      let s ← storeArg s
      pure { s with j := 0 }
    else pure s
  else bufiter escape s ch

/-- the whole `for` loop over one line -/
def argLine (escape : UInt8) : ArgSt → Bytes → KM ArgSt
  | s, [] => pure s
  | s, ch :: rest => do
    let s ← argChar escape s ch
    argLine escape s rest

/-- what the function hands back -/
inductive ArgRes where
  /-- return 0: `*argcOut`, `*argvOut` -/
  | ok (argv : List Bytes)
  /-- return -1 (end of input while more was needed): `*argcOut = 0`, `*argvOut = NULL` -/
  | abort
deriving Repr, DecidableEq

/-- the continuation prompt: `dquote> `, `quote> `, `> ` -/
def contPrompt (quot : UInt8) : Char := if quot == 34 then 'd' else if quot == 39 then 'q' else 'g'

/-- everything the call leaves behind -/
structure ArgOut where
  res : ArgRes
  /-- lines not read -/
  rest : List Bytes
  mf : MoreFinal
  /-- continuation prompts shown, in order -/
  prompts : List Char
deriving Repr, DecidableEq

/-- after the loop: the last argument (kerl.c:471-484) -/
def argFinish (s : ArgSt) : KM (List Bytes) :=
  if s.j > 0 then do
    -- if (argc == cap) { cap++; argv = realloc(argv, sizeof(char*) * cap); }
    let s := if s.argv.length == s.cap then { s with cap := s.cap + 1 } else s
    let s ← storeArg s
    pure s.argv
  else pure s.argv

/-- the continuation of a quoted argument contains the line break — every one of them, empty lines included (kerl.c:459-464):
    `int add_newline = quot != 0;
     if (add_newline) { if (bufcap <= j + 2) { bufcap *= 2; buf = realloc(buf, bufcap); } buf[j++] = '\n'; }` -/
def contNewline (s : ArgSt) : KM (Bool × ArgSt) :=
  if s.quot != 0 then do
    chkInt (s.j + 2)
    let s := if s.bufcap ≤ s.j + 2 then { s with bufcap := s.bufcap * 2, buf := realloc s.buf (s.bufcap * 2) } else s
    let s ← bufPut s 10
    pure (true, s)
  else pure (false, s)

/-- the `while (1)` loop: `line` is the text being scanned, `more` the lines `readline` will deliver -/
def argLoop (rl : Bool) (escape : UInt8) (mf : MoreFinal) (s : ArgSt) (line : Bytes) (more : List Bytes)
    (prompts : List Char) : KM ArgOut := do
  chkInt line.length
  let s ← argLine escape s line
  if rl && (s.quot != 0 || s.esc) then do
    let (addNl, s) ← contNewline s
    match more with
    | [] => pure { res := .abort, rest := [], mf := mf, prompts := prompts ++ [contPrompt s.quot] }
    | l :: rest => do
      let mf ← mfAppend mf l addNl
      argLoop rl escape mf s l rest (prompts ++ [contPrompt s.quot])
  else do
    let argv ← argFinish s
    pure { res := .ok argv, rest := more, mf := mf, prompts := prompts }

/-- `kerl_make_argcv_escape(argstring, &argc, &argv, escape)` -/
def makeArgcvEscape (rl : Bool) (escape : UInt8) (mf : MoreFinal) (arg : Bytes) (more : List Bytes) : KM ArgOut := do
  let mf ← mfInit mf arg
  argLoop rl escape mf {} arg more []

/-- `kerl_make_argcv(argstring, &argc, &argv)` (kerl.c:398) -/
def makeArgcv (rl : Bool) (mf : MoreFinal) (arg : Bytes) (more : List Bytes) : KM ArgOut :=
  makeArgcvEscape rl 0 mf arg more

-- ---------------------------------------------------------------------------------------------
-- kerl_process_citation (kerl.c:494-531)

structure CiteSt where
  buf : List UInt8
  bufcap : Nat
  j : Nat := 0
  quot : UInt8 := 0
deriving Repr, DecidableEq

/-- quote tracking shared by `kerl_process_citation` and `kerl_more` -/
def quoteStep (quot ch : UInt8) : UInt8 :=
  if quot != 0 then (if ch == quot then 0 else quot)
  else if ch == 39 || ch == 34 then ch else quot

def citeChar (s : CiteSt) (ch : UInt8) : KM CiteSt := do
  chkInt (s.j + 2)
  let s := if s.bufcap ≤ s.j + 2 then { s with bufcap := s.bufcap * 2, buf := realloc s.buf (s.bufcap * 2) } else s
  let buf ← wr s.buf s.j ch "kerl_process_citation: buf[j++]"
  pure { s with buf := buf, j := s.j + 1, quot := quoteStep s.quot ch }

def citeLine : CiteSt → Bytes → KM CiteSt
  | s, [] => pure s
  | s, ch :: rest => do
    let s ← citeChar s ch
    citeLine s rest

inductive CiteRes where
  /-- return 0: `*bytesOut`, the string in `*argsOut` -/
  | ok (bytes : Nat) (text : Bytes)
  | abort
deriving Repr, DecidableEq

structure CiteOut where
  res : CiteRes
  rest : List Bytes
  mf : MoreFinal
  prompts : List Char
deriving Repr, DecidableEq

/-- `int add_newline = (j == 0 || buf[j-1] != '\n'); if (add_newline) buf[j++] = '\n';` (kerl.c:514-515) -/
def citeNewline (s : CiteSt) : KM (Bool × CiteSt) := do
  let addNl ← if s.j == 0 then pure true else do
      let c ← rd s.buf (s.j - 1) "kerl_process_citation: buf[j-1]"
      pure (c != 10)
  let s ← if addNl then do
      let buf ← wr s.buf s.j 10 "kerl_process_citation: buf[j++] = '\\n'"
      pure { s with buf := buf, j := s.j + 1 }
    else pure s
  pure (addNl, s)

def citeLoop (rl : Bool) (mf : MoreFinal) (s : CiteSt) (line : Bytes) (more : List Bytes) (prompts : List Char) : KM CiteOut := do
  chkInt line.length
  let s ← citeLine s line
  if rl && s.quot != 0 then do
    let (addNl, s) ← citeNewline s
    match more with
    | [] => pure { res := .abort, rest := [], mf := mf, prompts := prompts ++ [contPrompt s.quot] }
    | l :: rest => do
      let mf ← mfAppend mf l addNl
      citeLoop rl mf s l rest (prompts ++ [contPrompt s.quot])
  else do
    let buf ← wr s.buf s.j 0 "kerl_process_citation: buf[j] = 0"
    let text ← cstr buf
    pure { res := .ok s.j text, rest := more, mf := mf, prompts := prompts }

/-- `kerl_process_citation(argstring, &bytes, &args)` -/
def processCitation (rl : Bool) (mf : MoreFinal) (arg : Bytes) (more : List Bytes) : KM CiteOut := do
  let bufcap := arg.length + 1
  let mf ← mfInit mf arg
  citeLoop rl mf { buf := malloc bufcap, bufcap := bufcap } arg more []

-- ---------------------------------------------------------------------------------------------
-- kerl_more (kerl.c:533-573)

structure MoreSt where
  buf : List UInt8
  bufcap : Nat
  j : Nat
  quot : UInt8 := 0
  running : Bool := true
deriving Repr, DecidableEq

def moreChar (terminator : UInt8) (s : MoreSt) (ch : UInt8) : KM MoreSt := do
  let s := if s.bufcap ≤ s.j + 2 then { s with bufcap := s.bufcap * 2, buf := realloc s.buf (s.bufcap * 2) } else s
  let buf ← wr s.buf s.j ch "kerl_more: buf[j++]"
  pure { s with buf := buf, j := s.j + 1, quot := quoteStep s.quot ch, running := s.running && ch != terminator }

def moreLine (terminator : UInt8) : MoreSt → Bytes → KM MoreSt
  | s, [] => pure s
  | s, ch :: rest => do
    let s ← moreChar terminator s ch
    moreLine terminator s rest

inductive MoreRes where
  /-- return 0: `*capacity`, `*position`, the string in `*argsOut` -/
  | ok (capacity position : Nat) (text : Bytes)
  | abort
deriving Repr, DecidableEq

structure MoreOut where
  res : MoreRes
  rest : List Bytes
  mf : MoreFinal
  prompts : List Char
deriving Repr, DecidableEq

/-- the prompts of `kerl_more`: `dquote: `, `quote: `, `:  ` -/
def morePrompt (quot : UInt8) : Char := if quot == 34 then 'c' else if quot == 39 then 'k' else 'm'

/-- the end of `kerl_more`: `_more_final_init(buf)` runs BEFORE `buf[j] = 0` -/
def moreFinish (mf : MoreFinal) (s : MoreSt) (more : List Bytes) (prompts : List Char) : KM MoreOut := do
  let unterminated ← cstr s.buf
  let mf ← mfInit mf unterminated
  let mf := { mf with lines := mf.lines + 1 }
  let buf ← wr s.buf s.j 0 "kerl_more: buf[j] = 0"
  let text ← cstr buf
  pure { res := .ok s.bufcap s.j text, rest := more, mf := mf, prompts := prompts }

/-- the `while (running)` loop -/
def moreLoop (terminator : UInt8) (mf : MoreFinal) (s : MoreSt) : List Bytes → List Char → KM MoreOut
  | more, prompts =>
    if s.running then do
      -- buf[j++] = '\n';
      let buf ← wr s.buf s.j 10 "kerl_more: buf[j++] = '\\n'"
      let s := { s with buf := buf, j := s.j + 1 }
      let prompts := prompts ++ [morePrompt s.quot]
      match more with
      | [] => pure { res := .abort, rest := [], mf := mf, prompts := prompts }
      | l :: rest => do
        let s ← moreLine terminator s l
        moreLoop terminator mf s rest prompts
    else moreFinish mf s more prompts

/-- `kerl_more(&capacity, &position, &args, terminator)`; `buf` is the caller's allocation `*argsOut` -/
def kerlMore (rl : Bool) (mf : MoreFinal) (capacity position : Nat) (buf : List UInt8) (terminator : UInt8)
    (more : List Bytes) : KM MoreOut :=
  let s : MoreSt := { buf := buf, bufcap := capacity, j := position }
  if rl then moreLoop terminator mf s more []
  else moreFinish mf s more []     -- without readline the loop body is `break`

-- ---------------------------------------------------------------------------------------------
-- execute_line, find_command (kerl.c:290-342)

/-- how a registered command function behaves, as far as kerl is concerned -/
inductive CmdKind where
  /-- leaves no trace in the event list (`help`: kerl's own `kerl_com_help`) -/
  | silent
  /-- looks at nothing but its argument string -/
  | plain
  /-- cuts its argument string with `kerl_make_argcv` first (`fn_exec`, `fn_tf`) -/
  | splitting
deriving Repr, DecidableEq

structure Config where
  /-- the command table in registration order -/
  commands : List (Bytes × CmdKind)
  hasFallback : Bool := false
  /-- `repeat_empty` -/
  repeatEmpty : Bool := false
  /-- `comment_char` (0 = none) -/
  commentChar : UInt8 := 0
  /-- `may_skip_history` -/
  maySkipHistory : Bool := false
  /-- `whitespace_to_skip_history` -/
  wsSkipHistory : Bool := false
  /-- `history_file != NULL` -/
  historyFile : Bool := false
  /-- `fopen(history_file, "a")` fails (the path is a directory, the working directory is read-only, …): nothing is written -/
  historyOpenFails : Bool := false
  /-- HAVE_LIBREADLINE / HAVE_READLINE_HISTORY -/
  rl : Bool := false

/-- the bytes of an ASCII text (reducible by the kernel, unlike `String.toUTF8`) -/
def tok (s : String) : Bytes := s.toList.map (fun c => UInt8.ofNat c.toNat)

/-- btcdeb's set-up (btcdeb.cpp:396-410) -/
def btcdebConfig (rl : Bool) : Config :=
  { commands := [(tok "step", .plain), (tok "rewind", .plain), (tok "stack", .plain), (tok "altstack", .plain),
                 (tok "vfexec", .plain), (tok "exec", .splitting), (tok "tf", .splitting), (tok "print", .plain),
                 (tok "help", .silent)],
    repeatEmpty := true, commentChar := 35, maySkipHistory := true, historyFile := true, rl := rl }

/-- `find_command(name)`: first entry whose name is equal (`strcmp`) -/
def findCommand (cmds : List (Bytes × CmdKind)) (name : Bytes) : Option (Nat × CmdKind) :=
  match cmds.findIdx? (fun c => c.1 == name) with
  | some i => (cmds[i]?).map (fun c => (i, c.2))
  | none => none

/-- the decision of `execute_line` -/
inductive Dispatch where
  /-- `command->func(word)`: index in the table, and the argument string -/
  | call (idx : Nat) (kind : CmdKind) (arg : Bytes)
  /-- `fallback(line)` -/
  | fallback (line : Bytes)
  /-- "No such command", return -1 -/
  | noSuch (word : Bytes)
deriving Repr, DecidableEq

/-- `if (i > 0 && !line[i-1]) line[i-1] = ' ';` (kerl.c:312) -/
def restoreBlank (mem : List UInt8) (i : Nat) : KM (List UInt8) :=
  if i > 0 then do
    let p ← rd mem (i - 1) "execute_line: line[i-1]"
    if p == 0 then wr mem (i - 1) 32 "execute_line: line[i-1] = ' '" else pure mem
  else pure mem

/-- `execute_line` from `find_command(word)` on: `word` is the offset of the command word, `i` the index behind it -/
def executeLookup (cfg : Config) (mem : List UInt8) (word i : Nat) : KM (Dispatch × List UInt8) := do
  let name ← cstrAt mem word
  match findCommand cfg.commands name with
  | none =>
    if cfg.hasFallback then do
      let mem ← restoreBlank mem i
      let whole ← cstr mem
      pure (.fallback whole, mem)
    else pure (.noSuch name, mem)
  | some (idx, kind) => do
    -- while (whitespace(line[i])) i++;
    if i > mem.length then abn "execute_line: line[i]" else do
    let i := i + ((mem.drop i).takeWhile isWs).length
    chkInt i
    let arg ← cstrAt mem i
    pure (.call idx kind arg, mem)

/-- `execute_line(line)` up to the call; `mem` is the memory from `line` to the end of its allocation.
    Result: the decision and the memory afterwards (the command word gets terminated in place). -/
def executeLine (cfg : Config) (mem : List UInt8) : KM (Dispatch × List UInt8) := do
  let line ← cstr mem
  -- while (line[i] && whitespace(line[i])) i++;
  let word := (line.takeWhile isWs).length
  -- while (line[i] && !whitespace(line[i])) i++;
  let i := word + ((line.drop word).takeWhile (fun c => !isWs c)).length
  chkInt (i + 1)
  -- if (line[i]) line[i++] = '\0';
  let c ← rd mem i "execute_line: line[i]"
  if c != 0 then do
    let mem ← wr mem i 0 "execute_line: line[i++] = 0"
    executeLookup cfg mem word (i + 1)
  else executeLookup cfg mem word i

-- ---------------------------------------------------------------------------------------------
-- the line readers

/-- `fgets(buf, n, stdin)`: at most `n - 1` bytes, through the first newline; `none` = end of input, nothing read -/
def fgets (n : Nat) (stream : Bytes) : Option (Bytes × Bytes) :=
  if stream.isEmpty then none else
  let upto := stream.take (n - 1)
  let k := match upto.idxOf? 10 with
    | some p => p + 1
    | none => upto.length
  some (stream.take k, stream.drop k)

theorem fgets_rest_lt {n : Nat} {stream chunk rest : Bytes} (hn : 2 ≤ n) (h : fgets n stream = some (chunk, rest)) :
    rest.length < stream.length := by
  unfold fgets at h
  split at h
  · cases h
  · rename_i hne
    have hs : stream ≠ [] := by intro h0; simp [h0] at hne
    have hpos : 0 < stream.length := List.length_pos_iff.mpr hs
    simp only [Option.some.injEq, Prod.mk.injEq] at h
    rw [← h.2, List.length_drop]
    have htl : 0 < (stream.take (n - 1)).length := by rw [List.length_take]; omega
    split
    · exact Nat.sub_lt hpos (Nat.succ_pos _)
    · exact Nat.sub_lt hpos htl

/-- `while (len > 0 && (buf[len-1] == '\n' || buf[len-1] == '\r')) buf[--len] = 0;` -/
def chompEol (s : Bytes) : Bytes := (s.reverse.dropWhile (fun c => c == 10 || c == 13)).reverse

/-- kerl's own `readline` (kerl.c:129-139, no HAVE_LIBREADLINE): `static char buf[10240]`, `fgets`, `strlen` (stops at an
    embedded NUL), end-of-line characters removed, `strdup` -/
def fallbackReadline (stream : Bytes) : Option (Bytes × Bytes) :=
  match fgets 10240 stream with
  | none => none
  | some (chunk, rest) => some (chompEol (chunk.takeWhile (· != 0)), rest)

/-- all lines kerl's reader delivers for the bytes on stdin -/
def fallbackLines (stream : Bytes) : List Bytes :=
  match h : fallbackReadline stream with
  | none => []
  | some (l, rest) => l :: fallbackLines rest
termination_by stream.length
decreasing_by
  unfold fallbackReadline at h
  split at h
  · cases h
  · rename_i chunk rest' hf
    cases h
    exact fgets_rest_lt (by decide) hf

-- ---------------------------------------------------------------------------------------------
-- kerl_add_history, kerl_set_history_file (kerl.c:258-288)

/-- what a run leaves behind, in order -/
inductive Event where
  /-- a command function was called -/
  | call (name arg : Bytes)
  /-- a splitting command function obtained this argv -/
  | argv (a : List Bytes)
  /-- … or the end of input while it asked for more ("user abort") -/
  | argvAbort
  | fallback (line : Bytes)
  /-- a continuation prompt -/
  | prompt (c : Char)
  /-- `add_history(line)` (readline's in-memory history) -/
  | addHistory (line : Bytes)
deriving Repr, DecidableEq

structure RunSt where
  /-- `p`: the last non-empty line, stripped -/
  prev : Option Bytes := none
  /-- `skip_history` -/
  skipHistory : Bool := false
  mf : MoreFinal := {}
  /-- bytes appended to the history file -/
  hist : Bytes := []
  /-- events, newest first -/
  events : List Event := []
deriving Repr, DecidableEq

/-- `kerl_add_history(s)` -/
def addHistory (cfg : Config) (st : RunSt) (s : Bytes) : KM RunSt := do
  let st := if cfg.rl then { st with events := .addHistory s :: st.events } else st
  if cfg.historyFile then do
    let e ← escape s
    -- FILE *fp = fopen(history_file, "a"); if (fp) { fprintf(fp, "%s\n", escaped ?: s); fclose(fp); }
    if cfg.historyOpenFails then pure st else
    pure { st with hist := st.hist ++ e.getD s ++ [10] }
  else pure st

/-- `size_t len = strlen(buf); if (len > 0 && buf[len-1] == '\n') buf[len-1] = 0;` (kerl.c:281-282) -/
def chopNewline (buf : List UInt8) : KM (List UInt8) := do
  let s ← cstr buf
  if s.length > 0 then do
    let c ← rd buf (s.length - 1) "kerl_set_history_file: buf[len-1]"
    if c == 10 then wr buf (s.length - 1) 0 "kerl_set_history_file: buf[len-1] = 0" else pure buf
  else pure buf

/-- the loop of `kerl_set_history_file` (HAVE_READLINE_HISTORY): `fgets(buf, 1024)`, the newline removed, `unescape(buf, 1)`,
    `add_history(buf)`.  `buf` is `char buf[1024]` on the stack.  (`fuel`: every round consumes bytes.) -/
def historyLoadAux : Nat → Bytes → List Bytes → KM (List Bytes)
  | 0, _, acc => pure acc.reverse
  | fuel + 1, file, acc =>
    match fgets 1024 file with
    | none => pure acc.reverse
    | some (chunk, rest) => do
      let buf ← chopNewline (chunk ++ [0] ++ malloc (1024 - (chunk.length + 1)))
      let (r, _) ← unescape buf true
      historyLoadAux fuel rest (r.getD [] :: acc)

/-- the lines handed to `add_history` for the content of the history file -/
def historyLoad (file : Bytes) (acc : List Bytes) : KM (List Bytes) := historyLoadAux (file.length + 1) file acc

-- ---------------------------------------------------------------------------------------------
-- kerl_run (kerl.c:141-195)

/-- `execute_line(s)` including what the command function does with the argument string.  `more`: the lines that
    follow on the input (a splitting command may read continuation lines). -/
def runExecute (cfg : Config) (st : RunSt) (mem : List UInt8) (more : List Bytes) : KM (RunSt × List Bytes) := do
  let (d, _) ← executeLine cfg mem
  match d with
  | .noSuch _ => pure (st, more)
  | .fallback l => pure ({ st with events := .fallback l :: st.events }, more)
  | .call idx kind arg =>
    let name := ((cfg.commands[idx]?).map (·.1)).getD []
    match kind with
    | .silent => pure (st, more)
    | .plain => pure ({ st with events := .call name arg :: st.events }, more)
    | .splitting => do
      let o ← makeArgcv cfg.rl st.mf arg more
      let evs := (o.prompts.map Event.prompt).reverse ++ (.call name arg :: st.events)
      let ev := match o.res with
        | .ok a => Event.argv a
        | .abort => Event.argvAbort
      pure ({ st with mf := o.mf, events := ev :: evs }, o.rest)

/-- `kerl_run`: the comment is cut (`*p = 0` at the first `comment_char`, kerl.c:150-158) -/
def cutCommentMem (cfg : Config) (line : Bytes) : KM (List UInt8) :=
  if cfg.commentChar != 0 then
    match line.idxOf? cfg.commentChar with
    | some p => wr (ofStr line) p 0 "kerl_run: *p = 0"
    | none => pure (ofStr line)
  else pure (ofStr line)

/-- `if (repeat_empty) { pline = strdup(line); p = stripwhite(pline); }` (kerl.c:169-173) -/
def rememberLine (cfg : Config) (st : RunSt) (mem : List UInt8) : KM RunSt :=
  if cfg.repeatEmpty then do
    let pline ← cstr mem
    let (p, pmem) ← stripwhite (ofStr pline)
    let ptext ← cstrAt pmem p
    pure { st with prev := some ptext }
  else pure st

/-- `if (!skip_history) kerl_add_history(more_final_lines ? more_final : sensitive_s);` (kerl.c:177-179) -/
def historyAfter (cfg : Config) (st : RunSt) (sensitive : Bytes) : KM RunSt :=
  if !st.skipHistory then
    (if st.mf.lines != 0 then st.mf.text else pure sensitive) >>= fun h => addHistory cfg st h
  else pure st

/-- a line with something on it (kerl.c:168-185): `s` is the offset of the stripped text `cur` in `mem` -/
def runNonEmpty (cfg : Config) (st : RunSt) (s : Nat) (mem : List UInt8) (cur : Bytes) (more : List Bytes) :
    KM (RunSt × List Bytes) := do
  let st ← rememberLine cfg st mem
  if cfg.maySkipHistory then do
    let (st, more) ← runExecute cfg st (mem.drop s) more
    let st ← historyAfter cfg st cur
    pure ({ st with skipHistory := false }, more)
  else do
    let st ← addHistory cfg st cur
    runExecute cfg st (mem.drop s) more

/-- the body of the `for` loop for one line that `readline` delivered -/
def runLine (cfg : Config) (st : RunSt) (line : Bytes) (more : List Bytes) : KM (RunSt × List Bytes) := do
  let mem ← cutCommentMem cfg line
  let (s, mem) ← stripwhite mem
  let st := if s > 0 && cfg.wsSkipHistory then { st with skipHistory := true } else st
  let cur ← cstrAt mem s
  if !cur.isEmpty then runNonEmpty cfg st s mem cur more
  else if cfg.repeatEmpty then
    match st.prev with
    | some p => runExecute cfg st (ofStr p) more
    | none => pure (st, more)
  else pure (st, more)

/-- `kerl_run`: until `readline` returns NULL.  (`fuel` ≥ number of lines; every round consumes at least one.) -/
def runLoop (cfg : Config) : Nat → RunSt → List Bytes → KM RunSt
  | 0, st, _ => pure st
  | _, st, [] => pure st
  | fuel + 1, st, line :: more => do
    let (st, more) ← runLine cfg st line more
    runLoop cfg fuel st more

/-- a whole session from the lines typed -/
def kerlRun (cfg : Config) (lines : List Bytes) : KM RunSt := runLoop cfg (lines.length + 1) {} lines

/-- a whole session of the configuration without readline, from the bytes on stdin -/
def kerlRunRaw (cfg : Config) (stdin : Bytes) : KM RunSt := kerlRun cfg (fallbackLines stdin)

-- ---------------------------------------------------------------------------------------------
-- the link to `exec`

/-- `fn_exec(arg)` (functions.cpp:402-418): the argument string is cut by `kerl_make_argcv` and handed to `Instance::eval`.
    `none` = "user abort" or the syntax hint (`argc < 1`). -/
def fnExec (cx : Ctx) (e : IEnv) (rl : Bool) (mf : MoreFinal) (arg : Bytes) (more : List Bytes) :
    KM (Option (Option (IEnv × Option StepErr)) × ArgOut) := do
  let o ← makeArgcv rl mf arg more
  match o.res with
  | .abort => pure (none, o)
  | .ok argv => if argv.length < 1 then pure (none, o) else pure (some (instEval cx e argv), o)

end Btcdeb.Model.Kerl
