/-
  Model of the script listing and of the current-position marker of the interactive debugger.

  * `buildListing`  — the construction of `script_lines` / `count` at start-up (btcdeb.cpp:286-350,
                       `TaprootCommitmentEnv::Description()` debugger/interpreter.cpp:69-78);
  * `markerIndex`   — `fn_print` marks line `env->curr_op_seq` with `" -> "` (functions.cpp:415-418) and
                       `fn_step` / `fn_rewind` echo `script_lines[env->curr_op_seq]` (functions.cpp:15-33);
  * `fnStep`        — `fn_step` including what a FAILED operation leaves behind: `StepScript(env, pc)`
                       receives `env.pc` by reference, `GetOp` has advanced it, and the failure path of
                       `StepScript(InterpreterEnv&)` (interpreter.cpp:153-164) pops the history entries
                       but restores neither `pc` nor anything else.

  A line records the section it belongs to, the byte offset of the instruction inside the script of that
  section, and its text (opcode name or push data in hex) exactly as the C++ renders it, including the
  cut of long hex strings by `snprintf`.
-/
import Btcdeb.Model.Session
namespace Btcdeb.Model
open Btcdeb

/-- the parts of the listing -/
inductive Sect where
  | commitment | main | scriptPubKey | p2sh
deriving Repr, DecidableEq

inductive LineKind where
  /-- an instruction decoded from script bytes: numbered, text possibly cut -/
  | op
  /-- a line of `TaprootCommitmentEnv::Description()`: numbered -/
  | desc
  /-- a section header (`script_headers`): neither numbered nor cut -/
  | header
deriving Repr, DecidableEq

structure Line where
  sect : Sect
  kind : LineKind
  /-- byte offset of the instruction in the script of its section (commitment lines: offset of the
      described bytes in the control block; headers: 0) -/
  offset : Nat
  /-- text after the `#NNNN ` number (headers: the whole line) -/
  text : String
deriving Repr, DecidableEq

/-- instructions decoded from position `pc` on, each with the number of script bytes that were left
    when it was read: the loop `while (script->GetOp(it, opcode, vchPushValue))`.
    It stops at the end of the script and at the first instruction that does not decode. -/
def decodeFrom (pc : Bytes) : List (Nat × GotOp) :=
  match h : getOp pc with
  | none => []
  | some g => (pc.length, g) :: decodeFrom g.rest
termination_by pc.length
decreasing_by exact getOp_rest_lt h

/-- `GetOpName(opcode)` (generated from the implementation's table) -/
def opNameOf (opcode : Nat) : String := Gen.opName.getD opcode "OP_UNKNOWN"

/-- the text of an instruction when nothing is cut: push data in hex (`HexStr`) when there is any,
    otherwise the opcode name (btcdeb.cpp:343-347) -/
def opText (g : GotOp) : String :=
  if g.data.length > 0 then toHex g.data else opNameOf g.opcode

/-- decimal digits of `n`, at least four (`%04d`) -/
def pad4 (n : Nat) : List Char :=
  let d := (toString n).toList
  List.replicate (4 - d.length) '0' ++ d

/-- `"#%04d "` -/
def numberPrefix (i : Nat) : List Char := '#' :: pad4 i ++ [' ']

/-- btcdeb.cpp:341-347: `pbuf += snprintf(pbuf, 1024, "#%04d ", i); snprintf(pbuf, 1024 + pbuf - buf, "%s", text)`.
    The size argument is `1024 + (pbuf - buf)` (not `1024 - (pbuf - buf)`), so at most
    `1023 + |prefix|` characters of the text are stored — into a buffer with room for `1023 - |prefix|`.
    (Texts longer than that overrun `buf[1024]` by up to `2·|prefix|` bytes: undefined behaviour, not
    represented here; the model gives the string that `strdup(buf)` then copies.) -/
def cutLimit (i : Nat) : Nat := 1023 + (numberPrefix i).length

def cutText (i : Nat) (s : String) : String := String.ofList (s.toList.take (cutLimit i))

/-- `script_lines[i]` as printed -/
def Line.render (i : Nat) (l : Line) : String :=
  match l.kind with
  | .header => l.text
  | _ => String.ofList (numberPrefix i) ++ l.text

/-- the lines of one script (uncut) -/
def opLines (sect : Sect) (s : Bytes) : List Line :=
  (decodeFrom s).map (fun p => { sect := sect, kind := .op, offset := s.length - p.1, text := opText p.2 })

def headerLine (sect : Sect) (text : String) : Line := { sect := sect, kind := .header, offset := 0, text := text }

def spkHeader : Line := headerLine .scriptPubKey "<<< scriptPubKey >>>"
def p2shHeader : Line := headerLine .p2sh "<<< P2SH script >>>"

/-- node `i` of the control block (`m_control.data() + 33 + 32 i`, 32 bytes) -/
def Tce.node (t : Tce) (i : Nat) : Bytes :=
  (t.control.drop (Gen.TAPROOT_CONTROL_BASE_SIZE + Gen.TAPROOT_CONTROL_NODE_SIZE * i)).take Gen.TAPROOT_CONTROL_NODE_SIZE

def branchLine (t : Tce) (i : Nat) : Line :=
  { sect := .commitment, kind := .desc, offset := Gen.TAPROOT_CONTROL_BASE_SIZE + Gen.TAPROOT_CONTROL_NODE_SIZE * i,
    text := "Branch: " ++ toHex (t.node i) }
def tweakLine (t : Tce) : Line :=
  { sect := .commitment, kind := .desc, offset := 1, text := "Tweak: " ++ toHex t.p }
def checkLine : Line :=
  { sect := .commitment, kind := .desc, offset := 0, text := "CheckTapTweak" }

/-- `TaprootCommitmentEnv::Description()`: one `Branch:` line per path node, then `Tweak:` and
    `CheckTapTweak` — `m_path_len + 2` lines (interpreter.cpp:69-78) -/
def Tce.description (t : Tce) : List Line :=
  (List.range t.pathLen).map (branchLine t) ++ [tweakLine t, checkLine]

/-- push value of the last instruction of `s` (`p2sh_script_payload`, btcdeb.cpp:294): empty when the
    script has no instruction or the last one carries no data -/
def lastPayload (s : Bytes) : Bytes :=
  match (decodeFrom s).getLast? with
  | some p => p.2.data
  | none => []

/-- the listing before the texts are cut: sections in the order of `script_ptrs` (btcdeb.cpp:286-325).
    (`sigversion == TAPSCRIPT` without a commitment environment does not occur: `configure_tx_txin` sets both
    together; the C++ would dereference a null pointer, the model lists no commitment line.) -/
def rawListing (e : IEnv) : List Line :=
  -- btcdeb.cpp:299-307
  let viaStack := e.isP2sh && !e.p2shStack.isEmpty
  let tcDesc : List Line :=
    if viaStack then []
    else if e.see.sigversion == .TAPSCRIPT then (match e.tce with | some t => t.description | none => [])
    else []
  -- btcdeb.cpp:308-318
  let viaSucc := !e.successor.isEmpty && hasFlag e.see.flags Flag.P2SH && isPayToScriptHash e.successor
  let hasP2sh := viaStack || viaSucc
  let p2shScript : Bytes := if viaSucc then lastPayload e.see.script else e.p2shStack.getLast?.getD []
  -- btcdeb.cpp:330-350
  (if e.see.sigversion == .TAPSCRIPT then tcDesc else []) ++
  opLines .main e.see.script ++
  (if !e.successor.isEmpty then spkHeader :: opLines .scriptPubKey e.successor else []) ++
  (if hasP2sh then p2shHeader :: opLines .p2sh p2shScript else [])

/-- the cut applied to instruction lines (their position in the listing determines the number and so
    the length of the prefix) -/
def cutLine (i : Nat) (l : Line) : Line :=
  match l.kind with
  | .op => { l with text := cutText i l.text }
  | _ => l

def cutAll : Nat → List Line → List Line
  | _, [] => []
  | i, l :: ls => cutLine i l :: cutAll (i + 1) ls

/-- `script_lines` (without the numbers; `Line.render` adds them); `count` is its length -/
def buildListing (e : IEnv) : List Line := cutAll 0 (rawListing e)

/-- `fn_print`: the line marked `" -> "` is number `env->curr_op_seq` -/
def markerIndex (e : IEnv) : Int := e.currOpSeq

/-- the marked line, if any (`i == env->curr_op_seq` for some `0 ≤ i < count`) -/
def markedLine (listing : List Line) (e : IEnv) : Option Line :=
  if e.currOpSeq < 0 then none else listing[e.currOpSeq.toNat]?

/-- the echo of `fn_step` / `fn_rewind`: `if (env->curr_op_seq < count) printf(script_lines[env->curr_op_seq])`.
    A negative index reads before the array (undefined behaviour; shown here as "no line").  In histories
    without a failed step `curr_op_seq` is never negative (`C12_marker_histories`); after a step that failed
    with an exception a rewind can make it negative (`fnStep`), and the real debugger then dies. -/
def echoLine (listing : List Line) (e : IEnv) : Option String :=
  (markedLine listing e).map (Line.render e.currOpSeq.toNat)

/-- where a `GetScriptOp` call that returns false leaves the iterator it was given by reference
    (script/script.cpp:283-333): behind the opcode byte and behind a complete length field -/
def failedGetOpPc (pc : Bytes) : Bytes :=
  match pc with
  | [] => []
  | b :: pc1 =>
    let opcode := b.toNat
    if opcode < Op.OP_PUSHDATA1 then pc1
    else if opcode = Op.OP_PUSHDATA1 then (if pc1.length < 1 then pc1 else pc1.drop 1)
    else if opcode = Op.OP_PUSHDATA2 then (if pc1.length < 2 then pc1 else pc1.drop 2)
    else if opcode = Op.OP_PUSHDATA4 then (if pc1.length < 4 then pc1 else pc1.drop 4)
    else pc1

/-- `fn_step`: new state and whether the step was performed.
    A refused step ("at end of script") changes nothing.  A failed operation leaves `pc` behind the
    instruction that failed (see the header).  When the failure is a C++ exception (script number
    overflow / non-minimal number, `popstack` on an empty stack: caught in `Instance::step`), the
    exception passes the block that pops the history entries (interpreter.cpp:154-163), so the entry
    pushed for the failed instruction stays on the history vectors as well.
    What else a failing operation may have modified before it failed (stack items popped, operation
    count) is not represented: those fields keep their old values. -/
def fnStep (cx : Ctx) (tc : TapCtx) (e : IEnv) : IEnv × Bool :=
  if e.done then (e, false)
  else match stepSession cx tc e with
    | .ok e' => (e', true)
    | .error err =>
      match e.tce with
      | some _ => (e, false)
      | none =>
        match getOp e.pc with
        | some g =>
          (match err with
           | .exc _ => ({ e with pc := g.rest, history := e.snapshot :: e.history }, false)
           | _ => ({ e with pc := g.rest }, false))
        | none => ({ e with pc := failedGetOpPc e.pc }, false)

end Btcdeb.Model
