/-
  Model of the script listing and of the current-position marker of the interactive debugger.

  * `buildListing`  — the construction of `script_lines` / `count` at start-up (btcdeb.cpp:286-350,
                       `TaprootCommitmentEnv::Description()` debugger/interpreter.cpp:69-78);
  * `markerIndex`   — `fn_print` marks line `env->curr_op_seq` with `" -> "` (functions.cpp:415-418) and
                       `fn_step` / `fn_rewind` echo `script_lines[env->curr_op_seq]` (functions.cpp:15-33);
  * `fnStep`        — `fn_step` including a FAILED operation: `StepScript(InterpreterEnv&)` restores the
                       state saved before the step (interpreter.cpp:153-183), so a failed step leaves the
                       session exactly where it was.

  A line records the section it belongs to, the byte offset of the instruction inside the script of that
  section, and its text (opcode name or push data in hex) exactly as the C++ renders it.
-/
import Btcdeb.Model.Session
namespace Btcdeb.Model
open Btcdeb

/-- the parts of the listing -/
inductive Sect where
  | commitment | main | scriptPubKey | p2sh
deriving Repr, DecidableEq

inductive LineKind where
  /-- an instruction decoded from script bytes: numbered -/
  | op
  /-- a line of `TaprootCommitmentEnv::Description()`: numbered -/
  | desc
  /-- a section header (`script_headers`): not numbered -/
  | header
deriving Repr, DecidableEq

structure Line where
  sect : Sect
  kind : LineKind
  /-- byte offset of the instruction in the script of its section (commitment lines: offset of the
      described bytes in the control block; headers: 0) -/
  offset : Nat
  /-- text after the `#NNNN ` number (headers: the whole line) -/
  text : String
deriving Repr, DecidableEq

/-- instructions decoded from position `pc` on, each with the number of script bytes that were left
    when it was read: the loop `while (script->GetOp(it, opcode, vchPushValue))`.
    It stops at the end of the script and at the first instruction that does not decode. -/
def decodeFrom (pc : Bytes) : List (Nat × GotOp) :=
  match h : getOp pc with
  | none => []
  | some g => (pc.length, g) :: decodeFrom g.rest
termination_by pc.length
decreasing_by exact getOp_rest_lt h

/-- `GetOpName(opcode)` (generated from the implementation's table) -/
def opNameOf (opcode : Nat) : String := Gen.opName.getD opcode "OP_UNKNOWN"

/-- the text of an instruction: push data in hex (`HexStr`) when there is any,
    otherwise the opcode name (btcdeb.cpp:343-347) -/
def opText (g : GotOp) : String :=
  if g.data.length > 0 then toHex g.data else opNameOf g.opcode

/-- decimal digits of `n`, at least four (`%04d`) -/
def pad4 (n : Nat) : List Char :=
  let d := (toString n).toList
  List.replicate (4 - d.length) '0' ++ d

/-- `"#%04d "` -/
def numberPrefix (i : Nat) : List Char := '#' :: pad4 i ++ [' ']

/-- `script_lines[i]` as printed -/
def Line.render (i : Nat) (l : Line) : String :=
  match l.kind with
  | .header => l.text
  | _ => String.ofList (numberPrefix i) ++ l.text

/-- the lines of one script -/
def opLines (sect : Sect) (s : Bytes) : List Line :=
  (decodeFrom s).map (fun p => { sect := sect, kind := .op, offset := s.length - p.1, text := opText p.2 })

def headerLine (sect : Sect) (text : String) : Line := { sect := sect, kind := .header, offset := 0, text := text }

def spkHeader : Line := headerLine .scriptPubKey "<<< scriptPubKey >>>"
def p2shHeader : Line := headerLine .p2sh "<<< P2SH script >>>"

/-- node `i` of the control block (`m_control.data() + 33 + 32 i`, 32 bytes) -/
def Tce.node (t : Tce) (i : Nat) : Bytes :=
  (t.control.drop (Gen.TAPROOT_CONTROL_BASE_SIZE + Gen.TAPROOT_CONTROL_NODE_SIZE * i)).take Gen.TAPROOT_CONTROL_NODE_SIZE

def branchLine (t : Tce) (i : Nat) : Line :=
  { sect := .commitment, kind := .desc, offset := Gen.TAPROOT_CONTROL_BASE_SIZE + Gen.TAPROOT_CONTROL_NODE_SIZE * i,
    text := "Branch: " ++ toHex (t.node i) }
def checkLine (t : Tce) : Line :=
  { sect := .commitment, kind := .desc, offset := 1, text := "CheckTapTweak: " ++ toHex t.p }

/-- `TaprootCommitmentEnv::Description()`: one `Branch:` line per path node, then one line
    `CheckTapTweak: <internal key>` — one line per `Iterate()` call (interpreter.cpp:69-78) -/
def Tce.description (t : Tce) : List Line :=
  (List.range t.pathLen).map (branchLine t) ++ [checkLine t]

/-- what an instruction of a scriptSig leaves on top of the stack (btcdeb.cpp:294-300): its push data;
    the one-byte number for `OP_1 … OP_16`; `0x81` for `OP_1NEGATE` -/
def payloadOf (g : GotOp) : Bytes :=
  if Op.OP_1 ≤ g.opcode && g.opcode ≤ Op.OP_16 then [UInt8.ofNat (g.opcode - (Op.OP_1 - 1))]
  else if g.opcode == Op.OP_1NEGATE then [0x81]
  else g.data

/-- `p2sh_script_payload` (btcdeb.cpp:294-300): the payload of the last instruction of `s`; empty when
    the script has no instruction -/
def lastPayload (s : Bytes) : Bytes :=
  match (decodeFrom s).getLast? with
  | some p => payloadOf p.2
  | none => []

/-- the redeem script is on the initial stack (a session started on a P2SH-pattern script): btcdeb.cpp:304 -/
def viaStack (e : IEnv) : Bool := e.isP2sh && !e.p2shStack.isEmpty

/-- the scriptPubKey of a legacy spend pays to a script hash: btcdeb.cpp:319 -/
def viaSucc (e : IEnv) : Bool := !e.successor.isEmpty && hasFlag e.see.flags Flag.P2SH && isPayToScriptHash e.successor

/-- the commitment section (btcdeb.cpp:304-312, 335-339): `Description()`, for a tapscript session that is not
    at the same time started on a P2SH-pattern script with a stack.
    (`sigversion == TAPSCRIPT` without a commitment environment does not occur: `configure_tx_txin` sets both
    together; the C++ would dereference a null pointer, the model lists no commitment line.) -/
def commitLines (e : IEnv) : List Line :=
  if e.see.sigversion == .TAPSCRIPT && !viaStack e then (match e.tce with | some t => t.description | none => []) else []

/-- the scriptPubKey section (btcdeb.cpp:313-318) -/
def spkSection (e : IEnv) : List Line :=
  if !e.successor.isEmpty then spkHeader :: opLines .scriptPubKey e.successor else []

/-- the P2SH section (btcdeb.cpp:304-308, 319-331): the redeem script is the top of the initial stack, or — for a
    P2SH scriptPubKey — what the last instruction of the scriptSig leaves on the stack -/
def p2shSection (e : IEnv) : List Line :=
  if viaStack e || viaSucc e then
    p2shHeader :: opLines .p2sh (if viaSucc e then lastPayload e.see.script else e.p2shStack.getLast?.getD [])
  else []

/-- `script_lines` (without the numbers; `Line.render` adds them), `count` is its length: sections in the
    order of `script_ptrs` (btcdeb.cpp:286-350) -/
def buildListing (e : IEnv) : List Line :=
  commitLines e ++ opLines .main e.see.script ++ spkSection e ++ p2shSection e

/-- `fn_print`: the line marked `" -> "` is number `env->curr_op_seq` -/
def markerIndex (e : IEnv) : Int := e.currOpSeq

/-- the marked line, if any (`i == env->curr_op_seq` for some `0 ≤ i < count`) -/
def markedLine (listing : List Line) (e : IEnv) : Option Line :=
  if e.currOpSeq < 0 then none else listing[e.currOpSeq.toNat]?

/-- the echo of `fn_step` / `fn_rewind`: `if (env->curr_op_seq < count) printf(script_lines[env->curr_op_seq])`.
    (A negative index would read before the array; `curr_op_seq` is never negative: `C12_marker_histories`.) -/
def echoLine (listing : List Line) (e : IEnv) : Option String :=
  (markedLine listing e).map (Line.render e.currOpSeq.toNat)

/-- `fn_step`: new state and whether the step was performed.  A refused step ("at end of script") and a
    failed one (error return or C++ exception: the saved state is restored and the history entry popped,
    interpreter.cpp:153-183) change nothing. -/
def fnStep (cx : Ctx) (tc : TapCtx) (e : IEnv) : IEnv × Bool :=
  if e.done then (e, false)
  else match stepSession cx tc e with
    | .ok e' => (e', true)
    | .error _ => (e, false)

end Btcdeb.Model
