/-
  `Instance::parse_pretend_valid_expr` (instance.cpp): the `--pretend-valid=sig:key,sig:key,...` option.
-/
import Btcdeb.Model.Value
namespace Btcdeb.Model

/-- `pretend_valid_map.insert({sig, key})` on a std::set of pairs: a pair that is already present is not added again;
    pairs with the same signature and different keys coexist.  (The list keeps insertion order; the iteration order of
    the std::set — lexicographic on (signature, key) — is produced where the table is printed, `Driver/Pretend.lean`.) -/
def pretendInsert (m : List (Bytes × Bytes)) (sig key : Bytes) : List (Bytes × Bytes) :=
  if m.contains (sig, key) then m else m ++ [(sig, key)]

structure PretendState where
  map : List (Bytes × Bytes) := []
  keys : List Bytes := []
  sig : Bytes := []
  gotSig : Bool := false

/-- split at the first `,` or `:`: (field, separator or none at the end of the text, rest after the separator) -/
def pretendField : Bytes → Bytes → (Bytes × Option UInt8 × Bytes)
  | [], acc => (acc.reverse, none, [])
  | c :: rest, acc => if c == 44 || c == 58 then (acc.reverse, some c, rest) else pretendField rest (c :: acc)

/-- the `while (*c)` loop; `fuel` ≥ length of the text.  `.ok none` = "parse error" (returns false) -/
def pretendLoop (cx : VCtx) : Nat → Bytes → PretendState → VM (Option PretendState)
  | 0, _, st => pure (some st)
  | fuel + 1, text, st =>
    if text.isEmpty then pure (some st)
    else do
      let (field, sep, rest) := pretendField text []
      if field.isEmpty then return none        -- "parse error (empty signature/pubkey)"
      let s ← valueData cx field
      match sep with
      | some 58 =>
        if st.gotSig then pure none            -- "parse error (unexpected colon)"
        else pretendLoop cx fuel rest { st with sig := s, gotSig := true }
      | _ =>
        if !st.gotSig then pure none           -- "parse error (missing signature)"
        else pretendLoop cx fuel rest { st with gotSig := false, map := pretendInsert st.map st.sig s,
                                                keys := if st.keys.contains s then st.keys else st.keys ++ [s] }

/-- result: the set of (signature, key) pairs and the key set; `.ok none` = option rejected -/
def parsePretendValidExpr (cx : VCtx) (expr : Bytes) : VM (Option (List (Bytes × Bytes) × List Bytes)) := do
  let expr := cstr expr
  match ← pretendLoop cx (expr.length + 1) expr {} with
  | none => pure none
  | some st => if st.gotSig then pure none      -- "missing pubkey after signature"
               else pure (some (st.map, st.keys))
where cstr (b : Bytes) : Bytes := b.takeWhile (fun c => c != 0)

end Btcdeb.Model
