/-
  Model of `CScriptNum` (script/script.h): `serialize`, `set_vch`, the constructor's
  size / minimality checks and `getint`.  Written to mirror the C++ control flow.
  Integers are unbounded `Int`; `Properties/C18` proves every value the C++ stores in its
  `int64_t` stays inside the int64 range on the domain the constructor admits (≤ 5 bytes).
-/
import Btcdeb.Basic.Bytes
namespace Btcdeb.Model

/-- `CScriptNum::serialize(value)` -/
def serialize (v : Int) : Bytes :=
  if v = 0 then [] else
  let neg := decide (v < 0)
  let r := leBytes v.natAbs          -- while (absvalue) { push(absvalue & 0xff); absvalue >>= 8; }
  match r.getLast? with
  | none => []                       -- not reached: absvalue ≠ 0
  | some last =>
    if hi last then r ++ [if neg then 0x80 else 0]                           -- push_back(neg ? 0x80 : 0)
    else if neg then r.dropLast ++ [UInt8.ofNat (last.toNat + 128)]          -- back() |= 0x80
    else r

/-- `CScriptNum::set_vch(vch)` -/
def setVch (vch : Bytes) : Int :=
  match vch.getLast? with
  | none => 0
  | some last =>
    let result := leValue vch        -- result |= vch[i] << 8*i
    if hi last then
      -- -(result & ~(0x80 << 8*(size-1)))
      -(((result - 128 * 256 ^ (vch.length - 1) : Nat) : Int))
    else (result : Int)

/-- the constructor's minimal-encoding test; `true` = accepted -/
def minimalOk (vch : Bytes) : Bool :=
  match vch.getLast? with
  | none => true
  | some last =>
    if lo7 last == 0 then
      -- (vch.size() <= 1 || (vch[size-2] & 0x80) == 0) → throw
      match vch.dropLast.getLast? with
      | none => false
      | some prev => hi prev
    else true

inductive NumErr where
  | overflow      -- "script number overflow"
  | nonMinimal    -- "non-minimally encoded script number"
deriving Repr, DecidableEq, Inhabited

def NumErr.what : NumErr → String
  | .overflow => "script number overflow"
  | .nonMinimal => "non-minimally encoded script number"

/-- `CScriptNum(vch, fRequireMinimal, nMaxNumSize)`; an error is the thrown `scriptnum_error` -/
def scriptNum (vch : Bytes) (requireMinimal : Bool) (maxSize : Nat := 4) : Except NumErr Int :=
  if vch.length > maxSize then .error .overflow
  else if requireMinimal && !minimalOk vch then .error .nonMinimal
  else .ok (setVch vch)

def intMax : Int := 2147483647
def intMin : Int := -2147483648

/-- `CScriptNum::getint()` (clamps to `int`) -/
def getint (v : Int) : Int :=
  if v > intMax then intMax else if v < intMin then intMin else v

end Btcdeb.Model
