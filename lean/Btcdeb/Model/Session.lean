/-
  Model of the debugging session: `InterpreterEnv` and `StepScript(InterpreterEnv&)`, `RewindScript`,
  `ContinueScript`, `TaprootCommitmentEnv` (debugger/interpreter.cpp), and the `Instance` wrappers
  `setup_environment`, `step`, `rewind`, `eval`, `parse_script` (instance.cpp).
-/
import Btcdeb.Model.Step
namespace Btcdeb.Model
open Btcdeb

/-- `WriteCompactSize` -/
def compactSize (n : Nat) : Bytes :=
  if n < 253 then [UInt8.ofNat n]
  else if n ≤ 0xffff then 253 :: leFixed 2 n
  else if n ≤ 0xffffffff then 254 :: leFixed 4 n
  else 255 :: leFixed 8 n

/-- hashing and key arithmetic the taproot commitment check needs -/
structure TapCtx where
  /-- BIP340 tagged hash: `TaggedHash(tag)` then raw bytes -/
  taggedHash : String → Bytes → Bytes
  /-- `q.CheckTapTweak(p, k, parity)` -/
  checkTapTweak : (q p k : Bytes) → Bool → Bool

/-- `TaprootCommitmentEnv` -/
structure Tce where
  control : Bytes
  program : Bytes
  script : Bytes
  pathLen : Nat
  p : Bytes
  q : Bytes
  k : Bytes
  /-- `*m_tapleaf_hash`: the leaf hash computed by the constructor -/
  leaf : Bytes
  i : Nat := 0
deriving Repr, DecidableEq

inductive TceState where
  | processing | failed | done
deriving Repr, DecidableEq

/-- constructor: `m_k = TapLeaf(control[0] & 0xfe, script)` -/
def Tce.init (tc : TapCtx) (control program script : Bytes) : Tce :=
  let leaf := tc.taggedHash "TapLeaf"
          (UInt8.ofNat ((byteAt control 0) &&& Gen.TAPROOT_LEAF_MASK) :: (compactSize script.length ++ script))
  { control := control, program := program, script := script,
    pathLen := (control.length - Gen.TAPROOT_CONTROL_BASE_SIZE) / Gen.TAPROOT_CONTROL_NODE_SIZE,
    p := (control.drop 1).take (Gen.TAPROOT_CONTROL_BASE_SIZE - 1),
    q := program, k := leaf, leaf := leaf }

/-- `std::lexicographical_compare(a, b)` -/
def lexLt : Bytes → Bytes → Bool
  | [], [] => false
  | [], _ :: _ => true
  | _ :: _, [] => false
  | a :: as, b :: bs => if a.toNat < b.toNat then true else if b.toNat < a.toNat then false else lexLt as bs

/-- `TaprootCommitmentEnv::Iterate()` -/
def Tce.iterate (tc : TapCtx) (t : Tce) : TceState × Tce :=
  if t.i < t.pathLen then
    let node := (t.control.drop (Gen.TAPROOT_CONTROL_BASE_SIZE + Gen.TAPROOT_CONTROL_NODE_SIZE * t.i)).take Gen.TAPROOT_CONTROL_NODE_SIZE
    let k' := if lexLt t.k node then tc.taggedHash "TapBranch" (t.k ++ node)
              else tc.taggedHash "TapBranch" (node ++ t.k)
    (.processing, { t with k := k', i := t.i + 1 })
  else
    let res := tc.checkTapTweak t.q t.p t.k ((byteAt t.control 0) % 2 == 1)
    (if res then .done else .failed, t)

/-- `Description()`: the listing lines of the commitment phase -/
def Tce.descriptionCount (t : Tce) : Nat := t.pathLen + 1

/-- one entry of the parallel history vectors -/
structure Snapshot where
  stack : List Bytes
  altstack : List Bytes
  pc : Bytes
  nOpCount : Nat
  cond : CondStack
  pbegincodehash : Bytes
  execdata : ExecData
  opcodePos : Nat
deriving Repr, DecidableEq

/-- `InterpreterEnv` -/
structure IEnv where
  see : SEE
  pc : Bytes
  history : List Snapshot := []       -- newest first (`back()` is the head)
  currOpSeq : Int := 0
  operational : Bool := true
  done : Bool := false
  isP2sh : Bool := false
  p2shStack : List Bytes := []
  successor : Bytes := []
  /-- the script before `successor` was a scriptSig, and whether it was push-only -/
  sigscriptExecuted : Bool := false
  sigscriptPushonly : Bool := true
  tce : Option Tce := none
deriving Repr, DecidableEq

def p2shPattern (flags : Nat) (script : Bytes) : Bool :=
  hasFlag flags Flag.P2SH && script.length == 23 && byteAt script 0 == Op.OP_HASH160 &&
    byteAt script 1 == 20 && byteAt script 22 == Op.OP_EQUAL

/-- `InterpreterEnv::InterpreterEnv(...)`; `.error` = not operational (`SCRIPT_ERR_SCRIPT_SIZE`) -/
def IEnv.init (stack : List Bytes) (script : Bytes) (flags : Nat) (sv : SigVersion) : Except ScriptError IEnv :=
  if sv != .TAPSCRIPT && script.length > Gen.MAX_SCRIPT_SIZE then .error .SCRIPT_SIZE
  else
    let isp := sv == .BASE && p2shPattern flags script
    .ok { see := { script := script, pbegincodehash := script, stack := stack, flags := flags, sigversion := sv,
                   requireMinimal := hasFlag flags Flag.MINIMALDATA },
          pc := script, done := script.isEmpty, isP2sh := isp, p2shStack := if isp then stack else [] }

/-- the OP_SUCCESSx scan of `Instance::setup_environment` (tapscript only) -/
def scanOpSuccess (allowDisabled : Bool) (s : Bytes) : Bool :=
  match h : getOp s with
  | none => false
  | some g =>
    if Gen.opSuccess.getD g.opcode false && !(allowDisabled && isDisabledOpcode (Opcode.ofNat g.opcode)) then true
    else scanOpSuccess allowDisabled g.rest
termination_by s.length
decreasing_by exact getOp_rest_lt h

/-- `Instance::setup_environment(flags)` for an already parsed script; `.error e` = not operational
    ("failed to initialize script environment") -/
def setupEnvironment (stack : List Bytes) (script : Bytes) (flags : Nat) (sv : SigVersion) (successor : Bytes)
    (allowDisabled : Bool) (execdata : ExecData) (tce : Option Tce)
    (pretendMap : List (Bytes × Bytes)) (pretendKeys : List Bytes) : Except ScriptError IEnv :=
  match IEnv.init stack script flags sv with
  | .error e => .error e
  | .ok e =>
    if !successor.isEmpty && hasFlag flags Flag.SIGPUSHONLY && !isPushOnly script then .error .SIG_PUSHONLY
    else if sv == .TAPSCRIPT && scanOpSuccess allowDisabled script then .error .DISCOURAGE_OP_SUCCESS
    else .ok { e with successor := successor, done := e.done && successor.isEmpty && tce.isNone, tce := tce,
                      see := { e.see with allowDisabled := allowDisabled, execdata := execdata,
                                          pretendMap := pretendMap, pretendKeys := pretendKeys } }

def IEnv.snapshot (e : IEnv) : Snapshot :=
  { stack := e.see.stack, altstack := e.see.altstack, pc := e.pc, nOpCount := e.see.nOpCount,
    cond := e.see.cond, pbegincodehash := e.see.pbegincodehash, execdata := e.see.execdata, opcodePos := e.see.opcodePos }

/-- `StepScript(InterpreterEnv& env)` -/
def stepSession (cx : Ctx) (tc : TapCtx) (e : IEnv) : M IEnv :=
  match e.tce with
  | some t =>
    match t.iterate tc with
    | (.failed, _) => .error (.script .WITNESS_PROGRAM_MISMATCH)     -- `return set_error(serror, SCRIPT_ERR_WITNESS_PROGRAM_MISMATCH)`
    | (.processing, t') => pure { e with tce := some t', currOpSeq := e.currOpSeq + 1 }
    | (.done, t') =>
      pure { e with tce := none, currOpSeq := e.currOpSeq + 1,
                    see := { e.see with execdata := { e.see.execdata with tapleafHash := t'.leaf, tapleafHashInit := true } } }
  | none =>
    if !e.pc.isEmpty then do
      -- Store history entry, execute, (undo the entry on failure: the failure is the result)
      let (see', pc') ← step cx e.see e.pc
      pure { e with see := { see' with opcodePos := see'.opcodePos + 1 }, pc := pc', history := e.snapshot :: e.history, currOpSeq := e.currOpSeq + 1 }
    -- end of the current script: own conditional nesting and alt stack per script
    else if !e.see.cond.empty then fail .UNBALANCED_CONDITIONAL
    else if e.isP2sh then do
      match e.see.stack.getLast? with
      | none => fail .EVAL_FALSE
      | some t =>
        if !castToBool t then fail .EVAL_FALSE
        else if isPayToScriptHash e.see.script then
          if e.sigscriptExecuted && !e.sigscriptPushonly then fail .SIG_PUSHONLY
          else
          match e.p2shStack.getLast? with
          | none => fail .INVALID_STACK_OPERATION        -- the saved stack is empty (`exec` supplied the hashed item)
          | some redeem =>
            pure { e with isP2sh := false,
                          see := { e.see with stack := e.p2shStack.dropLast, script := redeem, pbegincodehash := redeem, nOpCount := 0,
                                              altstack := [] },
                          pc := redeem, currOpSeq := e.currOpSeq + 1 }
        else fail .BAD_OPCODE
    else if !e.successor.isEmpty then
      if e.successor.length > Gen.MAX_SCRIPT_SIZE then fail .SCRIPT_SIZE else
      let script := e.successor
      let isp := p2shPattern e.see.flags script
      pure { e with sigscriptExecuted := true, sigscriptPushonly := isPushOnly e.see.script,
                    see := { e.see with script := script, pbegincodehash := script, nOpCount := 0, altstack := [] },
                    successor := [], pc := script, currOpSeq := e.currOpSeq + 1,
                    isP2sh := isp, p2shStack := if isp then e.see.stack else e.p2shStack }
    else
      -- we are at end; set done var
      pure { e with done := true }

/-- `Instance::step()` (one step): refuses when done; a C++ exception becomes a failed step -/
def instStep (cx : Ctx) (tc : TapCtx) (e : IEnv) : M IEnv :=
  if e.done then .error (.script .OK)            -- `if (env->done) return false;` (no error is set)
  else stepSession cx tc e

def atStart (e : IEnv) : Bool := e.pc.length == e.see.script.length

/-- `fn_rewind` → `Instance::rewind()` → `RewindScript`; `none` = refused, nothing changes -/
def instRewind (e : IEnv) : Option IEnv :=
  if atStart e then none                              -- "error: no history to rewind"
  else if e.done then some { e with done := false }   -- undo the end-of-script step
  else
    match e.history with
    | [] => none                                      -- "no stack history"
    | s :: rest =>
      some { e with see := { e.see with stack := s.stack, altstack := s.altstack, nOpCount := s.nOpCount, cond := s.cond,
                                        pbegincodehash := s.pbegincodehash, execdata := s.execdata, opcodePos := s.opcodePos },
                    pc := s.pc, currOpSeq := e.currOpSeq - 1, history := rest }

/-- `ContinueScript`: `fuel` bounds the loop; every iteration consumes script bytes or a phase, so
    `continueFuel e` iterations always suffice (proved in Properties/C01). -/
def continueScript (cx : Ctx) (tc : TapCtx) : Nat → IEnv → M IEnv
  | 0, e => pure e
  | n + 1, e => if e.done then pure e else do
      let e' ← stepSession cx tc e
      continueScript cx tc n e'

def continueFuel (e : IEnv) : Nat :=
  e.pc.length + e.successor.length + (e.p2shStack.getLast?.map List.length).getD 0 +
    (e.tce.map (fun t => t.pathLen + 1)).getD 0 + 4

-- ---------------------------------------------------------------------------------------------
-- `exec` (Instance::eval)

def isDigit (c : UInt8) : Bool := 48 ≤ c.toNat && c.toNat ≤ 57
def isSpaceC (c : UInt8) : Bool := c.toNat == 32 || (9 ≤ c.toNat && c.toNat ≤ 13)

def digitsValue : Bytes → Nat → Nat
  | [], acc => acc
  | c :: rest, acc => if isDigit c then digitsValue rest (acc * 10 + (c.toNat - 48)) else acc

/-- `strtol(s, 0, 10)` then conversion to a 2^bits-wide signed integer as `atoi`/`atoll` do on glibc -/
def cAtoi (bits : Nat) (s : Bytes) : Int :=
  let s := s.dropWhile isSpaceC
  let (neg, s) := match s with
    | 45 :: r => (true, r)
    | 43 :: r => (false, r)
    | _ => (false, s)
  let v := digitsValue s 0
  let long : Int := if neg then (if v > 2 ^ 63 then -(2 ^ 63 : Int) else -(v : Int))
                    else (if v > 2 ^ 63 - 1 then (2 ^ 63 - 1 : Int) else (v : Int))
  -- narrowing conversion (modular)
  let m : Int := (2 : Int) ^ bits
  let r := long % m
  if r ≥ m / 2 then r - m else r

def natDigits (n : Nat) : Bytes := (toString n).toUTF8.toList
/-- `snprintf("%d" / "%lld")` -/
def intDecimal (v : Int) : Bytes := if v < 0 then 45 :: natDigits v.natAbs else natDigits v.toNat

def hexDigitVal (c : UInt8) : Option Nat :=
  let n := c.toNat
  if 48 ≤ n && n ≤ 57 then some (n - 48)
  else if 97 ≤ n && n ≤ 102 then some (n - 87)
  else if 65 ≤ n && n ≤ 70 then some (n - 55)
  else none

/-- `TryHex(str, rv)`: pairs of hex digits, white space allowed between pairs, anything else fails.
    (util/strencodings.cpp: `TryParseHex`) -/
def tryHex : Bytes → Option Bytes
  | [] => some []
  | c :: rest =>
    if isSpaceC c then tryHex rest
    else match hexDigitVal c, rest with
      | some h, d :: rest' =>
        match hexDigitVal d, tryHex rest' with
        | some l, some r => some (UInt8.ofNat (h * 16 + l) :: r)
        | _, _ => none
      | _, _ => none

def strOfBytes (b : Bytes) : String := String.ofList (b.map (fun c => Char.ofNat c.toNat))

/-- `ParseOpCode(name, opcode_out)` (debugger/script.cpp:24): the opcode a name denotes — an optional `OP_` in front,
    then the escape `xNN` (any byte NN, two hex digits) or a name of the table (generated from the real function);
    `none` = the function returns false ("not an opcode") -/
def parseOpCode (name : Bytes) : Option Nat :=
  let name := match name with
    | 79 :: 80 :: 95 :: r => r           -- "OP_"
    | _ => name
  let viaX : Option Nat := match name with
    | [120, a, b] => match hexDigitVal a, hexDigitVal b with   -- 'x' NN
      | some h, some l => some (h * 16 + l)
      | _, _ => none
    | _ => none
  match viaX with
  | some v => some v
  | none =>
    match Gen.opCodeByName.find? (fun p => p.1 == strOfBytes name && !p.1.startsWith "OP_") with
    | some p => some p.2
    | none => none

/-- `GetOpCode(name)` (debugger/script.cpp:185): `ParseOpCode` with OP_INVALIDOPCODE (0xff) for "not an opcode" — it cannot
    tell `OP_xff` from a string that names no opcode, which is why no caller that needs the difference uses it -/
def getOpCode (name : Bytes) : Nat := (parseOpCode name).getD 0xff

/-- `script << (int64_t)n` -/
def pushInt64 (n : Int) : Bytes :=
  if n == -1 || (1 ≤ n && n ≤ 16) then [UInt8.ofNat (n + 80).toNat]
  else if n == 0 then [0]
  else pushData (serialize n)

/-- token → bytes appended to the temporary script; `none` = "invalid opcode" -/
def evalToken (v : Bytes) : Option Bytes :=
  if v.isEmpty then some []
  else
    let n := cAtoi 64 v          -- `atoll` / `%lld` (64 bits, as in the Value constructor)
    if n != 0 && intDecimal n == v then some (pushInt64 n)
    else
      -- hex, with or without the `0x` prefix (instance.cpp: `if (hexlen > 2 && hex[0]=='0' && hex[1]=='x') { hex += 2; … }`)
      let h := if v.length > 2 && v.getD 0 0 == 48 && v.getD 1 0 == 120 then v.drop 2 else v
      match (if h.length % 2 == 0 then tryHex h else none) with
      | some d => some (pushData d)
      | none =>
        match parseOpCode v with            -- `if (ParseOpCode(v, opc)) { script << opc; continue; }` (instance.cpp:336)
        | some opc => some [UInt8.ofNat opc]
        | none => none

def evalScriptOf : List Bytes → Option Bytes
  | [] => some []
  | t :: rest => match evalToken t, evalScriptOf rest with
    | some a, some b => some (a ++ b)
    | _, _ => none

/-- run the temporary script on the session's environment; stops at the first failure.
    `mainPc` is the current position of the debugged script: after an executed OP_CODESEPARATOR the
    script code that follows it is the rest of the debugged script. -/
def evalRun (cx : Ctx) (mainPc : Bytes) : Nat → SEE → Bytes → SEE × Option StepErr
  | 0, e, _ => (e, none)
  | n + 1, e, it =>
    if it.isEmpty then (e, none)
    else
      let isSep := e.cond.allTrue && (match getOp it with | some g => g.opcode == Op.OP_CODESEPARATOR | none => false)
      match step cx e it with
      | .ok (e', it') => evalRun cx mainPc n (if isSep then { e' with pbegincodehash := mainPc } else e') it'
      | .error err => (e, some err)

/-- `Instance::eval(argc, argv)`: result = new environment (position untouched) and the error, if any
    (a C++ exception is caught and reported as a failed operation).
    `none` = refused before execution (no argument / invalid opcode). -/
def instEval (cx : Ctx) (e : IEnv) (args : List Bytes) : Option (IEnv × Option StepErr) :=
  if args.isEmpty then none
  else match evalScriptOf args with
    | none => none
    | some s =>
      let (see', err) := evalRun cx e.pc (s.length + 1) e.see s
      some ({ e with see := see' }, err)

end Btcdeb.Model
