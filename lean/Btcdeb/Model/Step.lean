/-
  Model of `StepScript(ScriptExecutionEnvironment&, pc, local_script)` (script/interpreter.cpp:405-1299),
  `StepExtended` (debugger/interpreter.cpp:267-409), the signature-encoding helpers, `FindAndDelete`,
  `EvalChecksig*`.  Written to mirror the C++: order of checks, bottom-first vector stacks indexed
  with `stacktop(-i)`, `popstack` throwing on empty, `CScriptNum` construction throwing, the
  compressed condition stack.  C++ exceptions, assertion failures and undefined behaviour are
  explicit outcomes, never defaulted away.
-/
import Btcdeb.Basic.Bytes
import Btcdeb.Spec.Opcode
import Btcdeb.Spec.Types
import Btcdeb.Generated.Tables
import Btcdeb.Model.ScriptNum
import Btcdeb.Model.CondStack
import Btcdeb.Model.GetOp
namespace Btcdeb.Model
open Btcdeb

/-- how one step can end other than by returning `true` -/
inductive StepErr where
  | script (e : ScriptError)      -- `return set_error(serror, e)`
  | exc (what : String)           -- a C++ exception leaves StepScript (scriptnum_error, popstack on empty, vector::at)
  | abnormal (kind : String)      -- assertion failure, arithmetic trap, undefined behaviour: the process dies / anything may happen
deriving Repr, DecidableEq, Inhabited

abbrev M := Except StepErr

def fail {α} (e : ScriptError) : M α := .error (.script e)

/-- `ScriptExecutionData` -/
structure ExecData where
  tapleafHashInit : Bool := false
  tapleafHash : Bytes := []
  codesepPosInit : Bool := true
  codesepPos : Nat := 0xFFFFFFFF
  annexInit : Bool := false
  annexPresent : Bool := false
  annexHash : Bytes := []
  weightInit : Bool := false
  weightLeft : Int := 0
  outputHash : Option Bytes := none
deriving Repr, DecidableEq, Inhabited

/-- the external world of a step: hash functions, libsecp256k1 and the signature checker -/
structure Ctx where
  sha256 : Bytes → Bytes
  ripemd160 : Bytes → Bytes
  sha1 : Bytes → Bytes
  /-- `CPubKey::CheckLowS(sig without hash-type byte)` -/
  checkLowS : Bytes → Bool
  /-- `checker.CheckLockTime(n)` / `CheckSequence(n)` -/
  checkLockTime : Int → Bool
  checkSequence : Int → Bool
  /-- `checker.CheckECDSASignature(sig, pubkey, scriptCode, sigversion)` -/
  checkECDSA : Bytes → Bytes → Bytes → SigVersion → Bool
  /-- `checker.CheckSchnorrSignature(sig, pubkey, sigversion, execdata, &err)`:
      `.ok ()` = true, `.error e` = false with `*serror = e` (or a thrown exception) -/
  checkSchnorr : Bytes → Bytes → SigVersion → ExecData → M Unit

/-- `ScriptExecutionEnvironment` (debugger/see.h) without the script position, which is threaded separately -/
structure SEE where
  script : Bytes
  pbegincodehash : Bytes            -- iterator = remaining suffix
  cond : CondStack := {}
  stack : List Bytes := []          -- bottom first, as std::vector
  altstack : List Bytes := []
  nOpCount : Nat := 0
  flags : Nat
  sigversion : SigVersion
  requireMinimal : Bool
  allowDisabled : Bool := false
  opcodePos : Nat := 0
  execdata : ExecData := {}
  /-- `pretend_valid_map`: the set of (signature, pubkey) pairs -/
  pretendMap : List (Bytes × Bytes) := []
  /-- `pretend_valid_pubkeys` -/
  pretendKeys : List Bytes := []
deriving Repr, DecidableEq

-- ---------------------------------------------------------------------------------------------
-- vector primitives

/-- `stacktop(-i)` = `stack.at(stack.size() - i)`; `std::vector::at` throws when out of range -/
def top (st : List Bytes) (i : Nat) : M Bytes :=
  if i = 0 ∨ i > st.length then .error (.exc "vector::_M_range_check")
  else match st[st.length - i]? with
    | some v => .ok v
    | none => .error (.exc "vector::_M_range_check")

/-- `popstack(stack)` -/
def pop (st : List Bytes) : M (List Bytes) :=
  if st.isEmpty then .error (.exc "popstack(): stack empty") else .ok st.dropLast

/-- `stack.erase(stack.end() - k)` for 1 ≤ k ≤ size -/
def eraseFromEnd (st : List Bytes) (k : Nat) : List Bytes := st.eraseIdx (st.length - k)

/-- `CastToBool` -/
def castToBool : Bytes → Bool
  | [] => false
  | [b] => !(b == 0 || b == 0x80)
  | b :: rest => if b != 0 then true else castToBool rest

def vchTrue : Bytes := [1]
def vchFalse : Bytes := []

/-- `CScriptNum(vch, fRequireMinimal, maxSize)` inside a step: a thrown `scriptnum_error` leaves the step -/
def num (vch : Bytes) (rm : Bool) (maxSize : Nat := Gen.DEFAULT_MAX_NUM_SIZE) : M Int :=
  match scriptNum vch rm maxSize with
  | .ok v => .ok v
  | .error e => .error (.exc e.what)

def boolNum (b : Bool) : Int := if b then 1 else 0

/-- `CScript() << vch` : the push encoding chosen by `CScript::operator<<(vector)` -/
def pushData (b : Bytes) : Bytes :=
  if b.length < Op.OP_PUSHDATA1 then UInt8.ofNat b.length :: b
  else if b.length ≤ 0xff then 0x4c :: UInt8.ofNat b.length :: b
  else if b.length ≤ 0xffff then 0x4d :: (leFixed 2 b.length ++ b)
  else 0x4e :: (leFixed 4 b.length ++ b)

-- ---------------------------------------------------------------------------------------------
-- signature / key encodings (script/interpreter.cpp:46-209)

def byteAt (s : Bytes) (i : Nat) : Nat := (s[i]?.map UInt8.toNat).getD 0

def isCompressedOrUncompressedPubKey (k : Bytes) : Bool :=
  if k.length < 33 then false
  else if byteAt k 0 == 0x04 then k.length == 65
  else if byteAt k 0 == 0x02 || byteAt k 0 == 0x03 then k.length == 33
  else false

def isCompressedPubKey (k : Bytes) : Bool :=
  k.length == 33 && (byteAt k 0 == 0x02 || byteAt k 0 == 0x03)

/-- `IsValidSignatureEncoding` (BIP66), index by index as in the C++ -/
def isValidSignatureEncoding (sig : Bytes) : Bool :=
  if sig.length < 9 then false
  else if sig.length > 73 then false
  else if byteAt sig 0 != 0x30 then false
  else if byteAt sig 1 != sig.length - 3 then false
  else
    let lenR := byteAt sig 3
    if 5 + lenR ≥ sig.length then false
    else
      let lenS := byteAt sig (5 + lenR)
      if lenR + lenS + 7 != sig.length then false
      else if byteAt sig 2 != 0x02 then false
      else if lenR == 0 then false
      else if byteAt sig 4 ≥ 0x80 then false
      else if lenR > 1 && byteAt sig 4 == 0x00 && !(byteAt sig 5 ≥ 0x80) then false
      else if byteAt sig (lenR + 4) != 0x02 then false
      else if lenS == 0 then false
      else if byteAt sig (lenR + 6) ≥ 0x80 then false
      else if lenS > 1 && byteAt sig (lenR + 6) == 0x00 && !(byteAt sig (lenR + 7) ≥ 0x80) then false
      else true

def isDefinedHashtypeSignature (sig : Bytes) : Bool :=
  match sig.getLast? with
  | none => false
  | some last =>
    let t := last.toNat % 128            -- & ~SIGHASH_ANYONECANPAY
    !(t < Gen.SIGHASH_ALL || t > Gen.SIGHASH_SINGLE)

/-- `CheckSignatureEncoding`; `.ok ()` = true -/
def checkSignatureEncoding (cx : Ctx) (sig : Bytes) (flags : Nat) : M Unit :=
  if sig.length == 0 then .ok ()
  else if (hasFlag flags Flag.DERSIG || hasFlag flags Flag.LOW_S || hasFlag flags Flag.STRICTENC) && !isValidSignatureEncoding sig then
    fail .SIG_DER
  else if hasFlag flags Flag.LOW_S && !isValidSignatureEncoding sig then fail .SIG_DER      -- IsLowDERSignature, first test
  else if hasFlag flags Flag.LOW_S && !cx.checkLowS sig.dropLast then fail .SIG_HIGH_S
  else if hasFlag flags Flag.STRICTENC && !isDefinedHashtypeSignature sig then fail .SIG_HASHTYPE
  else .ok ()

def checkPubKeyEncoding (key : Bytes) (flags : Nat) (sv : SigVersion) : M Unit :=
  if hasFlag flags Flag.STRICTENC && !isCompressedOrUncompressedPubKey key then fail .PUBKEYTYPE
  else if hasFlag flags Flag.WITNESS_PUBKEYTYPE && sv == .WITNESS_V0 && !isCompressedPubKey key then fail .WITNESS_PUBKEYTYPE
  else .ok ()

-- ---------------------------------------------------------------------------------------------
-- FindAndDelete

/-- the inner `while (end - pc >= b.size() && equal(b, pc)) { pc += b.size(); ++nFound; }` -/
def skipMatches (b : Bytes) (pc : Bytes) (found : Nat) : Bytes × Nat :=
  if h : b.isPrefixOf pc ∧ b ≠ [] then skipMatches b (pc.drop b.length) (found + 1) else (pc, found)
termination_by pc.length
decreasing_by
  obtain ⟨h1, h2⟩ := h
  have hle : b.length ≤ pc.length := (List.isPrefixOf_iff_prefix.mp h1).length_le
  have : 0 < b.length := List.length_pos_iff.mpr h2
  simp only [List.length_drop]; omega

theorem skipMatches_length_le (b pc : Bytes) (n : Nat) : (skipMatches b pc n).1.length ≤ pc.length := by
  induction h : pc.length using Nat.strongRecOn generalizing pc n with
  | _ k ih =>
    rw [skipMatches]
    split
    · rename_i hh
      obtain ⟨h1, h2⟩ := hh
      have hle : b.length ≤ pc.length := (List.isPrefixOf_iff_prefix.mp h1).length_le
      have hpos : 0 < b.length := List.length_pos_iff.mpr h2
      have := ih (pc.drop b.length).length (by simp only [List.length_drop]; omega) (pc.drop b.length) (n + 1) rfl
      simp only [List.length_drop] at this; omega
    · simp only; omega

/-- the `do { ... } while (script.GetOp(pc, opcode));` loop -/
def findAndDeleteGo (b : Bytes) (pc : Bytes) (acc : Bytes) (found : Nat) : Bytes × Nat :=
  match h : getOp (skipMatches b pc found).1 with
  | none => (acc ++ (skipMatches b pc found).1, (skipMatches b pc found).2)
  | some g => findAndDeleteGo b g.rest
      (acc ++ (skipMatches b pc found).1.take ((skipMatches b pc found).1.length - g.rest.length)) (skipMatches b pc found).2
termination_by pc.length
decreasing_by
  have h1 := getOp_rest_lt h
  have h2 := skipMatches_length_le b pc found
  omega

/-- `FindAndDelete(script, b)`: new script and number of deletions -/
def findAndDelete (script b : Bytes) : Bytes × Nat :=
  if b.isEmpty then (script, 0) else findAndDeleteGo b script [] 0

-- ---------------------------------------------------------------------------------------------
-- EvalChecksig

/-- `pretend_valid_map.count({sig, pubkey}) > 0` on the std::set of (signature, pubkey) pairs -/
def pretendHas (m : List (Bytes × Bytes)) (sig key : Bytes) : Bool := m.contains (sig, key)

/-- `EvalChecksigPreTapscript`; result = fSuccess -/
def evalChecksigPreTapscript (cx : Ctx) (e : SEE) (sig key : Bytes) : M Bool := do
  let scriptCode := e.pbegincodehash
  let scriptCode ←
    if e.sigversion == .BASE then
      let (sc, found) := findAndDelete scriptCode (pushData sig)
      if found > 0 && hasFlag e.flags Flag.CONST_SCRIPTCODE then fail .SIG_FINDANDDELETE else pure sc
    else pure scriptCode
  checkSignatureEncoding cx sig e.flags
  checkPubKeyEncoding key e.flags e.sigversion
  let ok := cx.checkECDSA sig key scriptCode e.sigversion
  if !ok && hasFlag e.flags Flag.NULLFAIL && sig.length != 0 then fail .SIG_NULLFAIL
  pure ok

/-- `EvalChecksigTapscript`; result = (success, new execdata) -/
def evalChecksigTapscript (cx : Ctx) (e : SEE) (sig key : Bytes) : M (Bool × ExecData) := do
  let success := !sig.isEmpty
  let ed ←
    if success then
      if !e.execdata.weightInit then .error (.abnormal "assert(execdata.m_validation_weight_left_init)")
      else
        let w := e.execdata.weightLeft - (Gen.VALIDATION_WEIGHT_PER_SIGOP_PASSED : Int)
        if w < 0 then fail .TAPSCRIPT_VALIDATION_WEIGHT
        else pure { e.execdata with weightLeft := w }
    else pure e.execdata
  if key.length == 0 then fail .PUBKEYTYPE
  else if key.length == 32 then
    if success then
      cx.checkSchnorr sig key e.sigversion ed
    pure (success, ed)
  else
    if hasFlag e.flags Flag.DISCOURAGE_UPGRADABLE_PUBKEYTYPE then fail .DISCOURAGE_UPGRADABLE_PUBKEYTYPE
    else pure (success, ed)

/-- `EvalChecksig`: mock short-circuit, then by signature version -/
def evalChecksig (cx : Ctx) (e : SEE) (sig key : Bytes) : M (Bool × ExecData) := do
  if e.pretendKeys.contains key && pretendHas e.pretendMap sig key then
    pure (true, e.execdata)
  else
    match e.sigversion with
    | .TAPROOT =>
      -- `success = checker.CheckSchnorrSignature(..., serror); return success;` (the checker reports the reason of a failure)
      match cx.checkSchnorr sig key .TAPROOT e.execdata with
      | .ok () => pure (true, e.execdata)
      | .error x => .error x
    | .BASE | .WITNESS_V0 => do
      let ok ← evalChecksigPreTapscript cx e sig key
      pure (ok, e.execdata)
    | .TAPSCRIPT => evalChecksigTapscript cx e sig key

/-- the `while (fSuccess && nSigsCount > 0)` loop of OP_CHECKMULTISIG; `nKeys` is the structural fuel -/
def multisigLoop (cx : Ctx) (e : SEE) (scriptCode : Bytes) (st : List Bytes) :
    (nSigs nKeys isig ikey : Nat) → M Bool
  | 0, _, _, _ => pure true
  | _ + 1, 0, _, _ => pure false          -- not reached: nSigs ≤ nKeys at the loop head
  | nSigs + 1, nKeys + 1, isig, ikey => do
    let sig ← top st isig
    let key ← top st ikey
    let ok ←
      if e.pretendKeys.contains key then pure (pretendHas e.pretendMap sig key)
      else do
        checkSignatureEncoding cx sig e.flags
        checkPubKeyEncoding key e.flags e.sigversion
        pure (cx.checkECDSA sig key scriptCode e.sigversion)
    let nSigs' := if ok then nSigs else nSigs + 1
    let isig' := if ok then isig + 1 else isig
    if nSigs' > nKeys then pure false
    else multisigLoop cx e scriptCode st nSigs' nKeys isig' (ikey + 1)

-- ---------------------------------------------------------------------------------------------
-- StepExtended (--allow-disabled-opcodes)

def bytewise (f : UInt8 → UInt8 → UInt8) : Bytes → Bytes → Bytes
  | a :: as, b :: bs => f a b :: bytewise f as bs
  | _, _ => []

/-- the OP_2MUL loop: shift the byte string left one bit, append the carry -/
def shl1 (v : Bytes) (carry : Nat) : Bytes :=
  match v with
  | [] => if carry != 0 then [UInt8.ofNat carry] else []
  | b :: rest =>
    let x := b.toNat * 2 + carry      -- (v << 1) | carry, as uint16
    UInt8.ofNat (x % 256) :: shl1 rest (x / 256)

def int64Min : Int := -9223372036854775808
def int64Max : Int := 9223372036854775807
def inInt64 (v : Int) : Bool := int64Min ≤ v && v ≤ int64Max

def stepExtended (e : SEE) (op : Opcode) : M SEE := do
  let st := e.stack
  match op with
  | .OP_CAT =>
    if st.length < 2 then fail .INVALID_STACK_OPERATION
    let v1 ← top st 2; let v2 ← top st 1
    if v1.length + v2.length > 520 then fail .PUSH_SIZE      -- MAX_SCRIPT_ELEMENT_SIZE
    let st ← pop st; let st ← pop st
    pure { e with stack := st ++ [v1 ++ v2] }
  | .OP_SUBSTR =>
    if st.length < 3 then fail .INVALID_STACK_OPERATION
    let v1 ← top st 3; let v2 ← top st 2; let v3 ← top st 1
    let b ← num v2 e.requireMinimal 2
    if b < 0 then fail .UNKNOWN_ERROR
    let sz ← num v3 e.requireMinimal 2
    if sz < 0 || b + sz > (v1.length : Int) then fail .UNKNOWN_ERROR
    let r := if b > 0 then v1.drop b.toNat else v1
    let r := if sz < (r.length : Int) then r.take sz.toNat else r
    let st ← pop st; let st ← pop st; let st ← pop st
    pure { e with stack := st ++ [r] }
  | .OP_LEFT | .OP_RIGHT =>
    if st.length < 2 then fail .INVALID_STACK_OPERATION
    let v1 ← top st 2; let v2 ← top st 1
    let sz ← num v2 e.requireMinimal 2
    if sz < 0 || sz > (v1.length : Int) then fail .UNKNOWN_ERROR
    let r := if sz < (v1.length : Int) then
               (if op == .OP_LEFT then v1.take sz.toNat else v1.drop (v1.length - sz.toNat))
             else v1
    let st ← pop st; let st ← pop st
    pure { e with stack := st ++ [r] }
  | .OP_INVERT =>
    if st.length < 1 then fail .INVALID_STACK_OPERATION
    let v1 ← top st 1
    let st ← pop st
    pure { e with stack := st ++ [v1.map (fun b => ~~~ b)] }
  | .OP_AND | .OP_OR | .OP_XOR =>
    if st.length < 2 then fail .INVALID_STACK_OPERATION
    let v1 ← top st 2; let v2 ← top st 1
    if v1.length != v2.length then fail .UNKNOWN_ERROR
    let r := if op == .OP_AND then bytewise (· &&& ·) v1 v2
             else if op == .OP_OR then bytewise (· ||| ·) v1 v2
             else bytewise (· ^^^ ·) v1 v2
    let st ← pop st; let st ← pop st
    pure { e with stack := st ++ [r] }
  | .OP_2MUL | .OP_2DIV =>
    if st.length < 1 then fail .INVALID_STACK_OPERATION
    let v1 ← top st 1
    let n ← num v1 e.requireMinimal 5
    let r := if op == .OP_2MUL then n * 2 else Int.tdiv n 2
    let st ← pop st
    pure { e with stack := st ++ [serialize r] }
  | .OP_MUL | .OP_DIV | .OP_MOD | .OP_LSHIFT | .OP_RSHIFT =>
    if st.length < 2 then fail .INVALID_STACK_OPERATION
    let v1 ← top st 2; let v2 ← top st 1
    let a ← num v1 e.requireMinimal 5
    let b ← num v2 e.requireMinimal 5
    let r ← match op with
      | .OP_MUL => pure (a * b)                 -- |a|,|b| < 2^39: the product can exceed int64 → see `mulFits`
      | .OP_DIV => if b == 0 then fail .UNKNOWN_ERROR else pure (Int.tdiv a b)
      | .OP_MOD => if b == 0 then fail .UNKNOWN_ERROR else pure (Int.tmod a b)
      | .OP_LSHIFT =>
        if b < 0 then fail .UNKNOWN_ERROR
        else if b ≥ 64 then (if a == 0 then pure 0 else fail .UNKNOWN_ERROR)
        else pure (a * (2 : Int) ^ b.toNat)
      | _ =>
        if b < 0 then fail .UNKNOWN_ERROR
        else if b ≥ 64 then pure (if a < 0 then -1 else 0)
        else pure (a / ((2 : Int) ^ b.toNat))         -- `>>` on int64_t: arithmetic shift
    if !inInt64 r then fail .UNKNOWN_ERROR
    let st ← pop st; let st ← pop st
    pure { e with stack := st ++ [serialize r] }
  | _ => .error (.abnormal "assert(0) in StepExtended")

-- ---------------------------------------------------------------------------------------------
-- StepScript

def isDisabledOpcode : Opcode → Bool
  | .OP_CAT | .OP_SUBSTR | .OP_LEFT | .OP_RIGHT | .OP_INVERT | .OP_AND | .OP_OR | .OP_XOR
  | .OP_2MUL | .OP_2DIV | .OP_MUL | .OP_DIV | .OP_MOD | .OP_LSHIFT | .OP_RSHIFT => true
  | _ => false

/-- the final `if (stack.size() + altstack.size() > MAX_STACK_SIZE)` -/
def sizeCheck (e : SEE) : M SEE :=
  if e.stack.length + e.altstack.length > Gen.MAX_STACK_SIZE then fail .STACK_SIZE else pure e

/-- unary numeric opcodes -/
def unaryNum (op : Opcode) (bn : Int) : Int :=
  match op with
  | .OP_1ADD => bn + 1
  | .OP_1SUB => bn - 1
  | .OP_NEGATE => -bn
  | .OP_ABS => if bn < 0 then -bn else bn
  | .OP_NOT => boolNum (bn == 0)
  | _ => boolNum (bn != 0)             -- OP_0NOTEQUAL

def binaryNum (op : Opcode) (bn1 bn2 : Int) : Int :=
  match op with
  | .OP_ADD => bn1 + bn2
  | .OP_SUB => bn1 - bn2
  | .OP_BOOLAND => boolNum (bn1 != 0 && bn2 != 0)
  | .OP_BOOLOR => boolNum (bn1 != 0 || bn2 != 0)
  | .OP_NUMEQUAL | .OP_NUMEQUALVERIFY => boolNum (bn1 == bn2)
  | .OP_NUMNOTEQUAL => boolNum (bn1 != bn2)
  | .OP_LESSTHAN => boolNum (bn1 < bn2)
  | .OP_GREATERTHAN => boolNum (bn1 > bn2)
  | .OP_LESSTHANOREQUAL => boolNum (bn1 ≤ bn2)
  | .OP_GREATERTHANOREQUAL => boolNum (bn1 ≥ bn2)
  | .OP_MIN => if bn1 < bn2 then bn1 else bn2
  | _ => if bn1 > bn2 then bn1 else bn2   -- OP_MAX

/-- the `switch (opcode)` for an executed (or IF-family) non-push opcode; `pc` is the position after the opcode -/
def execOpcode (cx : Ctx) (e : SEE) (op : Opcode) (fExec : Bool) (pc : Bytes) : M SEE := do
  let st := e.stack
  match op with
  | .OP_CAT | .OP_SUBSTR | .OP_LEFT | .OP_RIGHT | .OP_INVERT | .OP_AND | .OP_OR | .OP_XOR
  | .OP_2MUL | .OP_2DIV | .OP_MUL | .OP_DIV | .OP_MOD | .OP_LSHIFT | .OP_RSHIFT =>
    stepExtended e op                       -- `return StepExtended(...)`: no stack-size check afterwards
  | .OP_1NEGATE => sizeCheck { e with stack := st ++ [serialize (-1)] }
  | .OP_1 => sizeCheck { e with stack := st ++ [serialize 1] }
  | .OP_2 => sizeCheck { e with stack := st ++ [serialize 2] }
  | .OP_3 => sizeCheck { e with stack := st ++ [serialize 3] }
  | .OP_4 => sizeCheck { e with stack := st ++ [serialize 4] }
  | .OP_5 => sizeCheck { e with stack := st ++ [serialize 5] }
  | .OP_6 => sizeCheck { e with stack := st ++ [serialize 6] }
  | .OP_7 => sizeCheck { e with stack := st ++ [serialize 7] }
  | .OP_8 => sizeCheck { e with stack := st ++ [serialize 8] }
  | .OP_9 => sizeCheck { e with stack := st ++ [serialize 9] }
  | .OP_10 => sizeCheck { e with stack := st ++ [serialize 10] }
  | .OP_11 => sizeCheck { e with stack := st ++ [serialize 11] }
  | .OP_12 => sizeCheck { e with stack := st ++ [serialize 12] }
  | .OP_13 => sizeCheck { e with stack := st ++ [serialize 13] }
  | .OP_14 => sizeCheck { e with stack := st ++ [serialize 14] }
  | .OP_15 => sizeCheck { e with stack := st ++ [serialize 15] }
  | .OP_16 => sizeCheck { e with stack := st ++ [serialize 16] }
  | .OP_NOP => sizeCheck e
  | .OP_CHECKLOCKTIMEVERIFY =>
    if !hasFlag e.flags Flag.CHECKLOCKTIMEVERIFY then sizeCheck e
    else do
      if st.length < 1 then fail .INVALID_STACK_OPERATION
      let v ← top st 1
      let n ← num v e.requireMinimal 5
      if n < 0 then fail .NEGATIVE_LOCKTIME
      if !cx.checkLockTime n then fail .UNSATISFIED_LOCKTIME
      sizeCheck e
  | .OP_CHECKSEQUENCEVERIFY =>
    if !hasFlag e.flags Flag.CHECKSEQUENCEVERIFY then sizeCheck e
    else do
      if st.length < 1 then fail .INVALID_STACK_OPERATION
      let v ← top st 1
      let n ← num v e.requireMinimal 5
      if n < 0 then fail .NEGATIVE_LOCKTIME
      if (n.toNat &&& Gen.SEQUENCE_LOCKTIME_DISABLE_FLAG) != 0 then sizeCheck e
      else do
        if !cx.checkSequence n then fail .UNSATISFIED_LOCKTIME
        sizeCheck e
  | .OP_NOP1 | .OP_NOP4 | .OP_NOP5 | .OP_NOP6 | .OP_NOP7 | .OP_NOP8 | .OP_NOP9 | .OP_NOP10 =>
    if hasFlag e.flags Flag.DISCOURAGE_UPGRADABLE_NOPS then fail .DISCOURAGE_UPGRADABLE_NOPS
    else sizeCheck e
  | .OP_IF | .OP_NOTIF =>
    if fExec then do
      if st.length < 1 then fail .UNBALANCED_CONDITIONAL
      let vch ← top st 1
      if e.sigversion == .TAPSCRIPT then
        if vch.length > 1 || (vch.length == 1 && byteAt vch 0 != 1) then fail .TAPSCRIPT_MINIMALIF
      if e.sigversion == .WITNESS_V0 && hasFlag e.flags Flag.MINIMALIF then
        if vch.length > 1 then fail .MINIMALIF
        if vch.length == 1 && byteAt vch 0 != 1 then fail .MINIMALIF
      let fValue := castToBool vch
      let fValue := if op == .OP_NOTIF then !fValue else fValue
      let st ← pop st
      sizeCheck { e with stack := st, cond := e.cond.pushBack fValue }
    else sizeCheck { e with cond := e.cond.pushBack false }
  | .OP_ELSE =>
    if e.cond.empty then fail .UNBALANCED_CONDITIONAL
    else sizeCheck { e with cond := e.cond.toggleTop }
  | .OP_ENDIF =>
    if e.cond.empty then fail .UNBALANCED_CONDITIONAL
    else sizeCheck { e with cond := e.cond.popBack }
  | .OP_VERIFY =>
    if st.length < 1 then fail .INVALID_STACK_OPERATION
    let v ← top st 1
    if castToBool v then do
      let st ← pop st
      sizeCheck { e with stack := st }
    else fail .VERIFY
  | .OP_RETURN => fail .OP_RETURN
  | .OP_TOALTSTACK =>
    if st.length < 1 then fail .INVALID_STACK_OPERATION
    let v ← top st 1
    let st ← pop st
    sizeCheck { e with stack := st, altstack := e.altstack ++ [v] }
  | .OP_FROMALTSTACK =>
    if e.altstack.length < 1 then fail .INVALID_ALTSTACK_OPERATION
    let v ← top e.altstack 1
    let alt ← pop e.altstack
    sizeCheck { e with stack := st ++ [v], altstack := alt }
  | .OP_2DROP =>
    if st.length < 2 then fail .INVALID_STACK_OPERATION
    let st ← pop st; let st ← pop st
    sizeCheck { e with stack := st }
  | .OP_2DUP =>
    if st.length < 2 then fail .INVALID_STACK_OPERATION
    let v1 ← top st 2; let v2 ← top st 1
    sizeCheck { e with stack := st ++ [v1, v2] }
  | .OP_3DUP =>
    if st.length < 3 then fail .INVALID_STACK_OPERATION
    let v1 ← top st 3; let v2 ← top st 2; let v3 ← top st 1
    sizeCheck { e with stack := st ++ [v1, v2, v3] }
  | .OP_2OVER =>
    if st.length < 4 then fail .INVALID_STACK_OPERATION
    let v1 ← top st 4; let v2 ← top st 3
    sizeCheck { e with stack := st ++ [v1, v2] }
  | .OP_2ROT =>
    if st.length < 6 then fail .INVALID_STACK_OPERATION
    let v1 ← top st 6; let v2 ← top st 5
    -- stack.erase(stack.end()-6, stack.end()-4)
    let st := st.take (st.length - 6) ++ st.drop (st.length - 4)
    sizeCheck { e with stack := st ++ [v1, v2] }
  | .OP_2SWAP =>
    if st.length < 4 then fail .INVALID_STACK_OPERATION
    let a ← top st 4; let b ← top st 3; let c ← top st 2; let d ← top st 1
    sizeCheck { e with stack := st.take (st.length - 4) ++ [c, d, a, b] }
  | .OP_IFDUP =>
    if st.length < 1 then fail .INVALID_STACK_OPERATION
    let v ← top st 1
    sizeCheck { e with stack := if castToBool v then st ++ [v] else st }
  | .OP_DEPTH => sizeCheck { e with stack := st ++ [serialize (st.length : Int)] }
  | .OP_DROP =>
    if st.length < 1 then fail .INVALID_STACK_OPERATION
    let st ← pop st
    sizeCheck { e with stack := st }
  | .OP_DUP =>
    if st.length < 1 then fail .INVALID_STACK_OPERATION
    let v ← top st 1
    sizeCheck { e with stack := st ++ [v] }
  | .OP_NIP =>
    if st.length < 2 then fail .INVALID_STACK_OPERATION
    sizeCheck { e with stack := eraseFromEnd st 2 }
  | .OP_OVER =>
    if st.length < 2 then fail .INVALID_STACK_OPERATION
    let v ← top st 2
    sizeCheck { e with stack := st ++ [v] }
  | .OP_PICK | .OP_ROLL =>
    if st.length < 2 then fail .INVALID_STACK_OPERATION
    let v ← top st 1
    let n := getint (← num v e.requireMinimal)
    let st ← pop st
    if n < 0 || n ≥ (st.length : Int) then fail .INVALID_STACK_OPERATION
    let vch ← top st (n.toNat + 1)
    let st := if op == .OP_ROLL then eraseFromEnd st (n.toNat + 1) else st
    sizeCheck { e with stack := st ++ [vch] }
  | .OP_ROT =>
    if st.length < 3 then fail .INVALID_STACK_OPERATION
    let a ← top st 3; let b ← top st 2; let c ← top st 1
    sizeCheck { e with stack := st.take (st.length - 3) ++ [b, c, a] }
  | .OP_SWAP =>
    if st.length < 2 then fail .INVALID_STACK_OPERATION
    let a ← top st 2; let b ← top st 1
    sizeCheck { e with stack := st.take (st.length - 2) ++ [b, a] }
  | .OP_TUCK =>
    if st.length < 2 then fail .INVALID_STACK_OPERATION
    let v ← top st 1
    -- stack.insert(stack.end()-2, vch)
    sizeCheck { e with stack := st.take (st.length - 2) ++ [v] ++ st.drop (st.length - 2) }
  | .OP_SIZE =>
    if st.length < 1 then fail .INVALID_STACK_OPERATION
    let v ← top st 1
    sizeCheck { e with stack := st ++ [serialize (v.length : Int)] }
  | .OP_EQUAL | .OP_EQUALVERIFY =>
    if st.length < 2 then fail .INVALID_STACK_OPERATION
    let v1 ← top st 2; let v2 ← top st 1
    let fEqual := v1 == v2
    let st ← pop st; let st ← pop st
    if op == .OP_EQUALVERIFY then
      if fEqual then sizeCheck { e with stack := st } else fail .EQUALVERIFY
    else sizeCheck { e with stack := st ++ [if fEqual then vchTrue else vchFalse] }
  | .OP_1ADD | .OP_1SUB | .OP_NEGATE | .OP_ABS | .OP_NOT | .OP_0NOTEQUAL =>
    if st.length < 1 then fail .INVALID_STACK_OPERATION
    let v ← top st 1
    let bn ← num v e.requireMinimal
    let st ← pop st
    sizeCheck { e with stack := st ++ [serialize (unaryNum op bn)] }
  | .OP_ADD | .OP_SUB | .OP_BOOLAND | .OP_BOOLOR | .OP_NUMEQUAL | .OP_NUMEQUALVERIFY | .OP_NUMNOTEQUAL
  | .OP_LESSTHAN | .OP_GREATERTHAN | .OP_LESSTHANOREQUAL | .OP_GREATERTHANOREQUAL | .OP_MIN | .OP_MAX =>
    if st.length < 2 then fail .INVALID_STACK_OPERATION
    let v1 ← top st 2; let v2 ← top st 1
    let bn1 ← num v1 e.requireMinimal
    let bn2 ← num v2 e.requireMinimal
    let r := serialize (binaryNum op bn1 bn2)
    let st ← pop st; let st ← pop st
    if op == .OP_NUMEQUALVERIFY then
      if castToBool r then sizeCheck { e with stack := st } else fail .NUMEQUALVERIFY
    else sizeCheck { e with stack := st ++ [r] }
  | .OP_WITHIN =>
    if st.length < 3 then fail .INVALID_STACK_OPERATION
    let v1 ← top st 3; let v2 ← top st 2; let v3 ← top st 1
    let bn1 ← num v1 e.requireMinimal
    let bn2 ← num v2 e.requireMinimal
    let bn3 ← num v3 e.requireMinimal
    let fValue := decide (bn2 ≤ bn1) && decide (bn1 < bn3)
    let st ← pop st; let st ← pop st; let st ← pop st
    sizeCheck { e with stack := st ++ [if fValue then vchTrue else vchFalse] }
  | .OP_RIPEMD160 | .OP_SHA1 | .OP_SHA256 | .OP_HASH160 | .OP_HASH256 =>
    if st.length < 1 then fail .INVALID_STACK_OPERATION
    let v ← top st 1
    let h := match op with
      | .OP_RIPEMD160 => cx.ripemd160 v
      | .OP_SHA1 => cx.sha1 v
      | .OP_SHA256 => cx.sha256 v
      | .OP_HASH160 => cx.ripemd160 (cx.sha256 v)
      | _ => cx.sha256 (cx.sha256 v)
    let st ← pop st
    sizeCheck { e with stack := st ++ [h] }
  | .OP_CODESEPARATOR =>
    sizeCheck { e with pbegincodehash := pc, execdata := { e.execdata with codesepPos := e.opcodePos } }
  | .OP_CHECKSIG | .OP_CHECKSIGVERIFY =>
    if st.length < 2 then fail .INVALID_STACK_OPERATION
    let sig ← top st 2; let key ← top st 1
    let (ok, ed) ← evalChecksig cx e sig key
    let st ← pop st; let st ← pop st
    if op == .OP_CHECKSIGVERIFY then
      if ok then sizeCheck { e with stack := st, execdata := ed } else fail .CHECKSIGVERIFY
    else sizeCheck { e with stack := st ++ [if ok then vchTrue else vchFalse], execdata := ed }
  | .OP_CHECKSIGADD =>
    if e.sigversion == .BASE || e.sigversion == .WITNESS_V0 then fail .BAD_OPCODE
    if st.length < 3 then fail .INVALID_STACK_OPERATION
    let sig ← top st 3
    let n ← num (← top st 2) e.requireMinimal
    let key ← top st 1
    let (ok, ed) ← evalChecksig cx e sig key
    let st ← pop st; let st ← pop st; let st ← pop st
    sizeCheck { e with stack := st ++ [serialize (n + boolNum ok)], execdata := ed }
  | .OP_CHECKMULTISIG | .OP_CHECKMULTISIGVERIFY =>
    if e.sigversion == .TAPSCRIPT then fail .TAPSCRIPT_CHECKMULTISIG
    if st.length < 1 then fail .INVALID_STACK_OPERATION
    let nKeys := getint (← num (← top st 1) e.requireMinimal)
    if nKeys < 0 || nKeys > (Gen.MAX_PUBKEYS_PER_MULTISIG : Int) then fail .PUBKEY_COUNT
    let nKeys := nKeys.toNat
    let nOpCount := e.nOpCount + nKeys
    if nOpCount > Gen.MAX_OPS_PER_SCRIPT then fail .OP_COUNT
    let ikey := 2
    let i := 2 + nKeys
    if st.length < i then fail .INVALID_STACK_OPERATION
    let nSigs := getint (← num (← top st i) e.requireMinimal)
    if nSigs < 0 || nSigs > (nKeys : Int) then fail .SIG_COUNT
    let nSigs := nSigs.toNat
    let isig := i + 1
    let i := i + 1 + nSigs
    if st.length < i then fail .INVALID_STACK_OPERATION
    -- scriptCode with every signature deleted (pre-segwit only)
    let mut scriptCode := e.pbegincodehash
    for k in [0:nSigs] do
      let sig ← top st (isig + k)
      if e.sigversion == .BASE then
        let (sc, found) := findAndDelete scriptCode (pushData sig)
        scriptCode := sc
        if found > 0 && hasFlag e.flags Flag.CONST_SCRIPTCODE then fail .SIG_FINDANDDELETE
    let fSuccess ← multisigLoop cx e scriptCode st nSigs nKeys isig ikey
    -- clean up: pops `i - 1` items; the last `nSigs` of them are the signatures
    let sigs := (st.take (st.length - (2 + nKeys))).drop (st.length - (i - 1))
    if !fSuccess && hasFlag e.flags Flag.NULLFAIL && sigs.any (fun s => s.length != 0) then fail .SIG_NULLFAIL
    let st := st.take (st.length - (i - 1))
    if st.length < 1 then fail .INVALID_STACK_OPERATION
    let dummy ← top st 1
    if hasFlag e.flags Flag.NULLDUMMY && dummy.length != 0 then fail .SIG_NULLDUMMY
    let st ← pop st
    if op == .OP_CHECKMULTISIGVERIFY then
      if fSuccess then sizeCheck { e with stack := st, nOpCount := nOpCount } else fail .CHECKMULTISIGVERIFY
    else sizeCheck { e with stack := st ++ [if fSuccess then vchTrue else vchFalse], nOpCount := nOpCount }
  | _ => fail .BAD_OPCODE

/-- the operation-count rule at the head of `StepScript`: `if (opcode > OP_16 && ++nOpCount > MAX_OPS_PER_SCRIPT)` for BASE / WITNESS_V0 -/
def countOp (e : SEE) (opcode : Nat) : M SEE :=
  if e.sigversion == .BASE || e.sigversion == .WITNESS_V0 then
    if opcode > Op.OP_16 then
      if e.nOpCount + 1 > Gen.MAX_OPS_PER_SCRIPT then fail .OP_COUNT
      else pure { e with nOpCount := e.nOpCount + 1 }
    else pure e
  else pure e

/-- `StepScript(env, pc, local_script)`: one operation; returns the new environment and position.
    (Written with explicit conditionals in the order of the C++ checks.) -/
def step (cx : Ctx) (e : SEE) (pc : Bytes) : M (SEE × Bytes) :=
  let fExec := e.cond.allTrue
  -- Read instruction
  match getOp pc with
  | none => fail .BAD_OPCODE
  | some g =>
    if g.data.length > Gen.MAX_SCRIPT_ELEMENT_SIZE then fail .PUSH_SIZE
    else
      countOp e g.opcode >>= fun e =>
      let op := Opcode.ofNat g.opcode
      if !e.allowDisabled && isDisabledOpcode op then fail .DISABLED_OPCODE
      else if op == .OP_CODESEPARATOR && e.sigversion == .BASE && hasFlag e.flags Flag.CONST_SCRIPTCODE then fail .OP_CODESEPARATOR
      else if fExec && g.opcode ≤ Op.OP_PUSHDATA4 then
        if e.requireMinimal && !checkMinimalPush g.data g.opcode then fail .MINIMALDATA
        else sizeCheck { e with stack := e.stack ++ [g.data] } >>= fun e' => pure (e', g.rest)
      else if fExec || (Op.OP_IF ≤ g.opcode && g.opcode ≤ Op.OP_ENDIF) then
        execOpcode cx e op fExec g.rest >>= fun e' => pure (e', g.rest)
      else
        sizeCheck e >>= fun e' => pure (e', g.rest)

end Btcdeb.Model
