/-
  Model of the `tap` tool (tap.cpp): the script tree it builds from the leaf scripts given on the command line
  (`TapLeaf`, `TapBranch`, the pairing of consecutive leaves, the leftover leaf baked into the right-most pair,
  the merge passes), `TapBranch::Prove` (control block path of the leaf that is spent), the tweak of the
  internal key, the parity bit in the control byte, the bech32m address, the witness stack it inserts into the
  spending transaction, and the order of its argument checks.

  The C++ links nodes with raw pointers (`m_l`, `m_r`, `m_parent`); the model keeps the tree as a value.  After
  the construction every node hangs under the single root, so the chain of `m_parent` pointers that `Prove`
  follows from the spent leaf is the reversed root-to-leaf walk; `Node.prove` searches the leaf by its
  `m_index` (the position of the script on the command line, which is unique) and returns the sibling hashes in
  the order `Prove` appends them (leaf level first).

  With `--tx`/`--txin`: the check of the spent scriptPubKey, the witness written into the spending transaction (`setWitness`,
  `txWitness`) and the reported signature hash (`calcSighash` = `configure_tx_txin` + `Instance::calc_sighash`), `runTx`.

  Hashing and curve arithmetic are parameters (`Tap.Ctx`); `Tap.glueCtx` is the concrete instance.
-/
import Btcdeb.Model.Session
import Btcdeb.Model.GetOp
import Btcdeb.Model.Value
import Btcdeb.Model.Glue
import Btcdeb.Model.Spend
import Btcdeb.Model.Sighash
import Btcdeb.Model.Encodings
import Btcdeb.Spec.TapTree
namespace Btcdeb.Model.Tap
open Btcdeb Btcdeb.Model

/-- what tap.cpp calls into -/
structure Ctx where
  /-- `TaggedHash(tag)` followed by the raw bytes written to the hasher -/
  taggedHash : String → Bytes → Bytes
  /-- `secp256k1_xonly_pubkey_parse` succeeds (tap.cpp:350) -/
  xonlyParse : Bytes → Bool
  /-- `secp256k1_xonly_pubkey_tweak_add` + `secp256k1_ec_pubkey_serialize(COMPRESSED)` (tap.cpp:355-366):
      the 32 bytes after the header byte, and whether the header byte is not 0x02 (odd y); `none` if the call fails -/
  tweakAdd : (p32 t32 : Bytes) → Option (Bytes × Bool)

/-- `TapNode` / `TapLeaf` / `TapBranch` (tap.cpp:55-108) with the hash computed by the constructor -/
inductive Node where
  | leaf (index : Nat) (hash : Bytes)
  | branch (l r : Node) (hash : Bytes)
deriving Repr, DecidableEq, Inhabited

namespace Node

/-- `m_hash` -/
def hash : Node → Bytes
  | leaf _ h => h
  | branch _ _ h => h

/-- `m_index` (a branch takes the index of its left child, tap.cpp:76) -/
def index : Node → Nat
  | leaf i _ => i
  | branch l _ _ => l.index

/-- `m_index` of the leaves, left to right -/
def indices : Node → List Nat
  | leaf i _ => [i]
  | branch l r _ => l.indices ++ r.indices

def height : Node → Nat
  | leaf _ _ => 0
  | branch l r _ => max l.height r.height + 1

/-- `ToString()` (tap.cpp:61,75) -/
def toString : Node → String
  | leaf i _ => s!"#{i}"
  | branch l r _ => s!"({l.toString}, {r.toString})"

end Node

/-- the BIP341 script tree this node stands for, given the scripts of the command line: leaf `i` is
    `(0xc0, scripts[i])` -/
def Node.toTree (scripts : List Bytes) : Node → Spec.TapTree
  | .leaf i _ => .leaf 0xc0 (scripts.getD i [])
  | .branch l r _ => .branch (l.toTree scripts) (r.toTree scripts)

/-- `TapLeaf(index, script)`: `HasherTapLeaf << uint8_t(0xc0) << script` (a `CScript` is serialised with its
    compact size) (tap.cpp:103-107) -/
def leafHash (cx : Ctx) (script : Bytes) : Bytes :=
  cx.taggedHash "TapLeaf" (0xc0 :: (compactSize script.length ++ script))

def mkLeaf (cx : Ctx) (index : Nat) (script : Bytes) : Node := .leaf index (leafHash cx script)

/-- the hash of `TapBranch(l, r)`: the two child hashes, swapped when `h_r < h_l` lexicographically (tap.cpp:80-87) -/
def branchHash (cx : Ctx) (hl hr : Bytes) : Bytes :=
  if lexLt hr hl then cx.taggedHash "TapBranch" (hr ++ hl) else cx.taggedHash "TapBranch" (hl ++ hr)

/-- `new TapBranch(l, r)`.  (The two "has a parent already" aborts cannot fire: every node is used as a child once.) -/
def mkBranch (cx : Ctx) (l r : Node) : Node := .branch l r (branchHash cx l.hash r.hash)

/-- the loop over the scripts (tap.cpp:287-299): `i` is the index of the next script, `branches` the vector
    built so far, `pending` the leaf waiting for its partner -/
def leafLoop (cx : Ctx) : Nat → List Bytes → List Node → Option Node → List Node × Option Node
  | _, [], branches, pending => (branches, pending)
  | i, s :: rest, branches, pending =>
    let leaf := mkLeaf cx i s
    match pending with
    | some p => leafLoop cx (i + 1) rest (branches ++ [mkBranch cx p leaf]) none
    | none => leafLoop cx (i + 1) rest branches (some leaf)

/-- the leftover leaf (tap.cpp:300-312): alone it is the tree; otherwise the right-most pair `[c,d]` becomes `[[c,d],e]` -/
def bakeLeftover (cx : Ctx) (branches : List Node) (pending : Option Node) : List Node :=
  match pending with
  | none => branches
  | some p =>
    match branches.getLast? with
    | none => [p]
    | some rightmost => branches.dropLast ++ [mkBranch cx rightmost p]

/-- one `for (size_t i = 0; i < branches.size() - 1; ++i)` pass (tap.cpp:316-322), literally: at position `i` the
    elements `i` and `i+1` are replaced by their `TapBranch` (`erase` then overwrite), so the vector shrinks while
    `i` advances; an element left without a partner stays where it is.  `branches.size() ≥ 1` throughout (the
    `while` guard gives `≥ 2` on entry and a step is taken only when `i + 1 < size`), so the unsigned
    `size() - 1` does not wrap.  `fuel` bounds the number of iterations (`branches.length` suffices). -/
def mergeFor (cx : Ctx) : Nat → Nat → List Node → List Node
  | 0, _, branches => branches
  | fuel + 1, i, branches =>
    if i + 1 < branches.length then
      match branches[i]?, branches[i + 1]? with
      | some l, some r => mergeFor cx fuel (i + 1) ((branches.eraseIdx i).set i (mkBranch cx l r))
      | _, _ => branches
    else branches

/-- the same pass as a recursion over the list: consecutive elements are paired, an odd one out is carried -/
def mergePass (cx : Ctx) : List Node → List Node
  | l :: r :: rest => mkBranch cx l r :: mergePass cx rest
  | rest => rest

/-- `while (branches.size() > 1)` (tap.cpp:314-323); `fuel` bounds the number of passes (`branches.length` suffices) -/
def mergeLoop (cx : Ctx) : Nat → List Node → List Node
  | 0, branches => branches
  | fuel + 1, branches =>
    if branches.length > 1 then mergeLoop cx fuel (mergeFor cx branches.length 0 branches) else branches

/-- tap.cpp:283-327: the tree for the given scripts; `none` = "Unable to generate tapscript commitment tree" -/
def buildTree (cx : Ctx) (scripts : List Bytes) : Option Node :=
  let (branches, pending) := leafLoop cx 0 scripts [] none
  let branches := bakeLeftover cx branches pending
  match mergeLoop cx branches.length branches with
  | [root] => some root
  | _ => none

/-- `spending_leaf->m_parent->Prove(spending_leaf, ctl)` (tap.cpp:89-98, 336-338) seen from the root: the sibling
    hashes from the leaf with `m_index = i` up to this node, `none` if the leaf is not below this node -/
def Node.prove : Node → Nat → Option (List Bytes)
  | .leaf j _, i => if j = i then some [] else none
  | .branch l r _, i =>
    match l.prove i with
    | some p => some (p ++ [r.hash])
    | none =>
      match r.prove i with
      | some p => some (p ++ [l.hash])
      | none => none

inductive Err where
  | keyLength            -- "invalid internal pubkey ...: length ... invalid (must be 32 bytes)"   tap.cpp:213
  | scriptCount          -- "invalid script count"                                                  tap.cpp:220
  | scriptIndex          -- "invalid script index"                                                  tap.cpp:244
  | invalidScript (i : Nat) -- "invalid script #i" (`!script.HasValidOps()`)                          tap.cpp:268
  | tree                 -- "Unable to generate tapscript commitment tree"                          tap.cpp:325
  | spendingLeaf         -- "Internal error: Spending leaf was not derived"                         tap.cpp:333
  | keyParse             -- "invalid input: pubkey invalid (parse failed)"                          tap.cpp:350
  | tweak                -- "failure: secp256k1_xonly_pubkey_tweak_add call failed"                 tap.cpp:355
  | pubkeyMismatch       -- "pubkey mismatch: input transaction's vout[..].scriptPubKey ..."        tap.cpp:372,376
  | addressAssert        -- `bech32::Encode` dies on `assert(c < 'A' || c > 'Z')` (upper-case prefix) tap.cpp:383, bech32.cpp:361
deriving Repr, DecidableEq, Inhabited

/-- what a successful run computes -/
structure Output where
  /-- `root->m_hash` -/
  root : Bytes
  /-- `tweak` -/
  tweak : Bytes
  /-- `serialized_pk` after the header byte is erased: the x-only output key = the witness program -/
  outputKey : Bytes
  /-- `!is_even` -/
  odd : Bool
  /-- "Resulting Bech32m address" -/
  address : String
  /-- `spending_script` (tapscript mode only) -/
  script : Option Bytes
  /-- "Final control object" (tapscript mode only) -/
  control : Option Bytes
  /-- the spend arguments followed by script and control block (tapscript mode only; empty otherwise) -/
  witness : List Bytes
deriving Repr, DecidableEq, Inhabited

/-- index of the first script that fails `HasValidOps` -/
def firstInvalid : Nat → List Bytes → Option Nat
  | _, [] => none
  | i, s :: rest => if hasValidOps s then firstInvalid (i + 1) rest else some i

/-- `spending_index >= script_count` (tap.cpp:243-246); without spend arguments there is no index -/
def indexOutOfRange (sel : Option (Nat × List Bytes)) (count : Nat) : Bool :=
  match sel with
  | some (i, _) => decide (i ≥ count)
  | none => false

/-- the control block without its first byte (tap.cpp:330-340): the internal key, in tapscript mode followed by
    the proof of the spent leaf -/
def controlTail (internal : Bytes) (root : Node) (sel : Option (Nat × List Bytes)) : Except Err Bytes :=
  match sel with
  | none => .ok internal
  | some (i, _) =>
    match root.prove i with
    | none => .error .spendingLeaf
    | some path => .ok (internal ++ path.flatten)

/-- the control byte: leaf version 0xc0 with the parity of the output key in the lowest bit (tap.cpp:410) -/
def controlByte (odd : Bool) : UInt8 := if odd then 0xc1 else 0xc0

/-- the pubkey check against the input transaction (tap.cpp:370-380): the scriptPubKey of the spent output must
    end with the output key -/
def spkMatches (spk outputKey : Bytes) : Bool :=
  !(spk.length < outputKey.length) && spk.drop (spk.length - outputKey.length) == outputKey

/-- `have_txs` and the scriptPubKey does not end with the output key -/
def spkMismatch (spk : Option Bytes) (q : Bytes) : Bool :=
  match spk with
  | some s => !spkMatches s q
  | none => false

/-- tap.cpp:385-413 and the witness items of 425-435 -/
def finish (address : String) (scripts : List Bytes) (rootHash tweak q : Bytes)
    (odd : Bool) (ctl : Bytes) (sel : Option (Nat × List Bytes)) : Output :=
  match sel with
  | none =>
    { root := rootHash, tweak := tweak, outputKey := q, odd := odd, address := address,
      script := none, control := none, witness := [] }
  | some (i, args) =>
    let script := scripts.getD i []
    let control := controlByte odd :: ctl
    { root := rootHash, tweak := tweak, outputKey := q, odd := odd, address := address,
      script := some script, control := some control, witness := args ++ [script, control] }

/-- `main` after option parsing, on decoded arguments: internal key bytes, the scripts (`script_count` = their
    number), and the spend selection (`spending_index`, spend arguments) if at least one spend argument is
    present.  `spk` is the scriptPubKey of the output being spent when `--tx` and `--txin` are given (`have_txs`).
    `bech32m hrp witver program` is `bech32::Encode(BECH32M, hrp, witver ‖ ConvertBits<8,5>(program))`
    (`Value::do_bech32menc`, which fixes the witness version to 1); `none` = the encoder's assertion fails. -/
def run (cx : Ctx) (bech32m : String → Nat → Bytes → Option String) (hrp : String) (spk : Option Bytes)
    (internal : Bytes) (scripts : List Bytes) (sel : Option (Nat × List Bytes)) : Except Err Output :=
  if internal.length ≠ 32 then .error .keyLength
  else if scripts.length < 1 || scripts.length > 1024 then .error .scriptCount
  else if indexOutOfRange sel scripts.length then .error .scriptIndex
  else
    match firstInvalid 0 scripts with
    | some k => .error (.invalidScript k)
    | none =>
      match buildTree cx scripts with
      | none => .error .tree
      | some root =>
        match controlTail internal root sel with
        | .error e => .error e
        | .ok ctl =>
          let tweak := cx.taggedHash "TapTweak" (internal ++ root.hash)
          if !cx.xonlyParse internal then .error .keyParse
          else
            match cx.tweakAdd internal tweak with
            | none => .error .tweak
            | some (q, odd) =>
              if spkMismatch spk q then .error .pubkeyMismatch
              else
                match bech32m hrp 1 q with
                | none => .error .addressAssert
                | some address => .ok (finish address scripts root.hash tweak q odd ctl sel)

/-- `PLACEHOLDER_SIGNATURE` (tap.cpp:44) -/
def placeholderSignature : Bytes :=
  (List.range 64).map (fun i => UInt8.ofNat (i % 16))

/-- the witness stack written into `vin[txin_index]` when `--tx` and `--txin` are given and no private key is
    (tap.cpp:416-447, 486): the `--sig` signature or else the placeholder first, then (tapscript mode) the
    spend arguments, the script and the control block -/
def txWitness (premadeSig : Bytes) (o : Output) : List Bytes :=
  (if premadeSig.length ≠ 0 then premadeSig else placeholderSignature) :: o.witness

/-! ## Argument level -/

/-- `atol` on a decimal argument: optional sign, digits, stops at the first other character; as `size_t` -/
def atolSize (s : Bytes) : Nat :=
  let s := s.dropWhile (fun c => c == 32 || (9 ≤ c.toNat && c.toNat ≤ 13))
  let (neg, ds) : Bool × Bytes :=
    match s with
    | 45 :: r => (true, r)
    | 43 :: r => (false, r)
    | r => (false, r)
  let digits := ds.takeWhile (fun c => 48 ≤ c.toNat && c.toNat ≤ 57)
  let v := digits.foldl (fun acc c => acc * 10 + (c.toNat - 48)) 0
  -- `long` saturates at LONG_MAX / LONG_MIN; then converted to `size_t`
  if neg then (2 ^ 64 - min v (2 ^ 63)) % 2 ^ 64 else min v (2 ^ 63 - 1)

/-- the check on `--addrprefix` (BIP173: 1..83 characters in 33..126, no upper case — the encoder asserts on those) -/
def hrpOk (hrp : String) : Bool :=
  let b := hrp.toUTF8.toList
  1 ≤ b.length && b.length ≤ 83 && b.all (fun c => 33 ≤ c.toNat && c.toNat ≤ 126 && !(65 ≤ c.toNat && c.toNat ≤ 90))

inductive ArgErr where
  | usage                -- fewer than 3 positional arguments: the syntax text, exit 0
  | prefix               -- "invalid address prefix ..." (tap.cpp, right after `bech32_hrp = ...`)
  | keyHex               -- "invalid internal pubkey ...: not parsable hex value"
  | missingScripts       -- "missing scripts"
  | value (e : VErr)     -- `Value(...)` exits or dies while reading a script or a spend argument
  | tap (e : Err)
deriving Repr, DecidableEq, Inhabited

/-- `TryHex` on the internal key argument: an even number of hex digits, no prefix -/
def tryHexArg (s : Bytes) : Option Bytes := tryHex s

def mapMExcept {α β ε} (f : α → Except ε β) : List α → Except ε (List β)
  | [] => .ok []
  | a :: as => match f a with
    | .error e => .error e
    | .ok b => match mapMExcept f as with
      | .error e => .error e
      | .ok bs => .ok (b :: bs)

/-- `main` on the positional arguments `ca.l` (C strings as bytes), tap.cpp:134-281 then `run`.
    The spend arguments are read (tap.cpp:247-260) before the scripts (tap.cpp:265-275). -/
def mainArgs (cx : Ctx) (vcx : VCtx) (bech32m : String → Nat → Bytes → Option String) (hrp : String)
    (l : List Bytes) : Except ArgErr Output :=
  if l.length < 3 then .error .usage
  else if !hrpOk hrp then .error .prefix
  else
    match tryHexArg (l.getD 0 []) with
    | none => .error .keyHex
    | some internal =>
      if internal.length ≠ 32 then .error (.tap .keyLength)
      else
        let count := atolSize (l.getD 1 [])
        if count < 1 || count > 1024 then .error (.tap .scriptCount)
        else if l.length < 2 + count then .error .missingScripts
        else
          let scriptArgs := (l.drop 2).take count
          let spendArgs := l.drop (2 + count)
          let sel : Except ArgErr (Option (Nat × List Bytes)) :=
            match spendArgs with
            | [] => .ok none
            | idx :: args =>
              let i := atolSize idx
              if i ≥ count then .error (.tap .scriptIndex)
              else
                match mapMExcept (fun a => if a == "%SIG%".toUTF8.toList then .ok placeholderSignature
                                           else valueData vcx a) args with
                | .error e => .error (.value e)
                | .ok vs => .ok (some (i, vs))
          match sel with
          | .error e => .error e
          | .ok sel =>
            -- scripts are read and checked one by one: the first failure (Value or HasValidOps) wins
            let rec readScripts : Nat → List Bytes → Except ArgErr (List Bytes)
              | _, [] => .ok []
              | i, a :: rest =>
                match valueData vcx a with
                | .error e => .error (.value e)
                | .ok s =>
                  if !hasValidOps s then .error (.tap (.invalidScript i))
                  else match readScripts (i + 1) rest with
                    | .error e => .error e
                    | .ok ss => .ok (s :: ss)
            match readScripts 0 scriptArgs with
            | .error e => .error e
            | .ok scripts =>
              match run cx bech32m hrp none internal scripts sel with
              | .error e => .error (.tap e)
              | .ok o => .ok o

/-! ## With `--tx` and `--txin`: the witness written into the transaction and the reported signature hash -/

/-- `mtx.vin[txin_index].scriptWitness.stack = taproot_input_stack` and, if that is empty, one empty item
    (tap.cpp:441-447) -/
def setWitness (tx : Tx) (idx : Nat) (w : List Bytes) : Tx :=
  { tx with vin := tx.vin.modify idx (fun i => { i with witness := if w.isEmpty then [[]] else w }) }

inductive SighashErr where
  | configure            -- `instance.configure_tx_txin()` returned false; tap ignores that and goes on with a half-set
                         --   `Instance` (not modelled further)
  | inputCount           -- "cannot compute the taproot signature hash of a transaction with N inputs: ..." exit(1)
                         --   (instance.cpp:680-684: `tx->vin.size() != 1`)
  | step (e : StepErr)   -- an assertion inside `PrecomputedTransactionData::Init` / `SignatureHashSchnorr`
  | failed               -- "Failed to generate schnorr signature hash!" exit(1)
deriving Repr, DecidableEq, Inhabited

/-- tap.cpp:449-453 with `Instance::calc_sighash` (instance.cpp:678-696): `configure_tx_txin()`, the code separator
    position forced to 0xffffffff, then the refusal of a transaction that does not have exactly one input (the digest
    commits to the outputs spent by all inputs and only one is known), then
    `txdata = PrecomputedTransactionData(); txdata.Init(tx, {txin->vout[txin_vout_index]},
    has_preamble); if (sigver == BASE) sigver = TAPROOT; SignatureHashSchnorr(hash, execdata, tx, txin_index, 0x00, sigver,
    txdata, FAIL)`.  `tx` is the spending transaction with the witness already replaced. -/
def calcSighash (h : HashCtx) (tc : TapCtx) (cr : SigCrypto) (tx txin : Tx) (idx vout : Nat) : Except SighashErr Bytes :=
  match configureTxTxin h tc tx txin idx vout (if hasWitness tx then .WITNESS_V0 else .BASE) with
  | none => .error .configure
  | some c =>
    let ed : ExecData := { c.execdata with codesepPos := 0xFFFFFFFF, codesepPosInit := true }
    if tx.vin.length ≠ 1 then .error .inputCount
    else
    match calcSighashTxData cr tx (txin.vout.getD vout default) c.hasPreamble with
    | .error e => .error (.step e)
    | .ok txdata =>
      let sv := if c.sigver == .BASE then SigVersion.TAPROOT else c.sigver
      match schnorrSighashM cr ed tx idx 0x00 sv txdata .fail with
      | .error e => .error (.step e)
      | .ok (none, _) => .error .failed
      | .ok (some hash, _) => .ok hash

inductive TxErr where
  | tap (e : Err)
  | sighash (e : SighashErr)
deriving Repr, DecidableEq, Inhabited

/-- what tap prints with `--tx`/`--txin` and no private key: the run, "sighash (little endian) = ..", "Resulting transaction" -/
structure TxOutput where
  out : Output
  sighash : Bytes
  tx : Tx
deriving Repr, DecidableEq

/-- `main` with `--tx` and `--txin` already decoded and matched (`txin_index`, `txin_vout_index` from
    `parse_input_transaction`), `premadeSig` = the `--sig` argument or empty (tap.cpp:370-380, 415-491) -/
def runTx (cx : Ctx) (h : HashCtx) (tc : TapCtx) (cr : SigCrypto) (bech32m : String → Nat → Bytes → Option String) (hrp : String)
    (tx txin : Tx) (idx vout : Nat) (premadeSig : Bytes)
    (internal : Bytes) (scripts : List Bytes) (sel : Option (Nat × List Bytes)) : Except TxErr TxOutput :=
  match run cx bech32m hrp (some (txin.vout.getD vout default).scriptPubKey) internal scripts sel with
  | .error e => .error (.tap e)
  | .ok out =>
    let tx' := setWitness tx idx (txWitness premadeSig out)
    match calcSighash h tc cr tx' txin idx vout with
    | .error e => .error (.sighash e)
    | .ok sh => .ok { out := out, sighash := sh, tx := tx' }

/-! ## Concrete instance -/

/-- libsecp256k1 and SHA-256 as tap.cpp uses them -/
def glueCtx : Ctx where
  taggedHash := fun tag msg => Crypto.taggedHash (Crypto.strBytes tag) msg
  xonlyParse := fun p => (Crypto.parseXOnly p).isSome
  tweakAdd := fun p t => (Crypto.xonlyTweakAdd p t).map (fun q => (Crypto.xonlyBytes q, q.hasOddY))

/-- `Value::do_bech32menc` with `bech32_hrp = hrp` (value.h:464-470): `bech32::Encode(BECH32M, hrp, witver ‖ ConvertBits<8,5,true>(program))` -/
def bech32mAddress (hrp : String) (witver : Nat) (program : Bytes) : Option String :=
  let tmp := UInt8.ofNat witver :: ((convertBits 8 5 true (program.map UInt8.toNat)).1.map UInt8.ofNat)
  (bech32Encode .BECH32M hrp.toUTF8.toList tmp).map strOfBytes

/-- the hash functions `configure_tx_txin` uses -/
def glueHashCtx : HashCtx where
  sha256 := Crypto.sha256
  hash160 := Crypto.hash160
  hash256 := Crypto.hash256

/-- `TaprootCommitmentEnv`: construct and call `Iterate()` until it stops answering `Processing`
    (what the debugger does while stepping through the commitment phase); `fuel` bounds the number of calls -/
def tceRun (tc : TapCtx) : Nat → Tce → TceState
  | 0, _ => .processing
  | fuel + 1, t =>
    match t.iterate tc with
    | (.processing, t') => tceRun tc fuel t'
    | (s, _) => s

end Btcdeb.Model.Tap
