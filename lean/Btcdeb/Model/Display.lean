/-
  Model of the state display commands of an interactive btcdeb session: `stack`, `altstack`, `vfexec`
  (btcdeb.cpp:402-404 register `fn_stack`, `fn_altstack`, `fn_vfexec`, functions.cpp:224-234), which print through
  `print_stack(std::vector<valtype>&, bool raw)` (functions.cpp:197-210) and
  `print_bool_stack(const ConditionStack&)` (functions.cpp:212-222).  `print_stack(env->stack, true)` is also what a
  piped (non-interactive) run prints after a successful script (btcdeb.cpp:393).

  What the functions write to stdout is modelled as ONE text (`List Char`, every line closed by `'\n'`); all of it is
  ASCII (one character = one byte).

  Mirrored as they are:
  * `print_stack`, numbered mode: `- empty stack -` when the vector is empty; then `j` runs from `size()-1` down to 0
    and `i` counts 1, 2, …: `printf("<%02d>\t%s%s\n", i, HexStr(stack[j]), i == 1 ? "\t(top)" : "")` — the TOP of the
    stack is line `<01>`, `%02d` pads to two digits and widens (never truncates) from 100 on; an empty item has an
    empty hex string (the line is `<NN>` TAB and nothing — unlike the two-column display, which shows `0x`);
  * `print_stack`, raw mode: one line `HexStr(item)` per item in VECTOR order (bottom of the stack first), nothing at
    all for an empty stack;
  * `print_bool_stack`: the same numbering, `printf("<%02d>\t%02x\n", i, (unsigned int) stack.at(j))` where
    `ConditionStack::at(j)` is `m_first_false_pos > j` (debugger/see.h:36): the condition stack is stored compressed
    (size, position of the first false entry), so every level from the first false one inwards is shown `00`, every
    level outside it `01`; no `(top)` marker.
  * `print_tce(TaprootCommitmentEnv*, bool)` is declared in functions.h:29 and defined NOWHERE in the tree (no caller
    either; a call would not link): there is nothing to model.  checks/c01display.py watches that this stays so.
    (functions.h:28 declares `print_bool_stack(std::vector<valtype>&)`, which is not defined either; the function
    `fn_vfexec` calls is the overload for `const ConditionStack&` defined just above it.)

  Assumed (not modelled): the vector / condition stack sizes fit the `int` loop variables (`int j = size() - 1`),
  i.e. are below 2^31 — a script is at most 10,000 bytes outside tapscript, the main + alt stack of an executed
  script at most 1,000 items, and an initial stack arrives on the command line.
-/
import Btcdeb.Model.Session
namespace Btcdeb.Model
open Btcdeb

/-- `HexStr(std::vector<uint8_t>(it.begin(), it.end()))` -/
def hexStr (b : Bytes) : List Char := b.flatMap hexOfByte

/-- printf `%02d` of a non-negative `int`: the decimal digits, padded on the left with `0` to a width of 2 -/
def dec02 (n : Nat) : List Char :=
  let d := Nat.toDigits 10 n
  List.replicate (2 - d.length) '0' ++ d

/-- printf `%02x` of `(unsigned int) b` for a `bool` -/
def hex02Bool (b : Bool) : List Char := if b then ['0', '1'] else ['0', '0']

def emptyStackLine : List Char := ['-', ' ', 'e', 'm', 'p', 't', 'y', ' ', 's', 't', 'a', 'c', 'k', ' ', '-']
def topMark : List Char := ['\t', '(', 't', 'o', 'p', ')']

/-- everything printed: each line followed by `\n` -/
def unlines (ls : List (List Char)) : List Char := ls.flatMap (· ++ ['\n'])

/-- `printf("<%02d>\t%s%s\n", i, HexStr(it), i == 1 ? "\t(top)" : "")` without the newline (functions.cpp:206) -/
def stackLine (i : Nat) (it : Bytes) : List Char :=
  ['<'] ++ dec02 i ++ ['>', '\t'] ++ hexStr it ++ (if i == 1 then topMark else [])

/-- the loop `for (int j = stack.size() - 1; j >= 0; j--) { auto& it = stack[j]; i++; printf(…); }`
    (functions.cpp:203-207): first argument `j + 1`, second the value of `i` before the iteration -/
def stackLoop (stack : List Bytes) : Nat → Nat → List (List Char)
  | 0, _ => []
  | j + 1, i => stackLine (i + 1) (stack.getD j []) :: stackLoop stack j (i + 1)

/-- `print_stack(stack, raw)` (functions.cpp:197-210): what is written to stdout (the return value is always 0).
    The vector is bottom first (`stack.back()` is the top), as everywhere in the model. -/
def printStack (stack : List Bytes) (raw : Bool) : List Char :=
  if raw then unlines (stack.map hexStr)
  else unlines ((if stack.length == 0 then [emptyStackLine] else []) ++ stackLoop stack stack.length 0)

/-- `printf("<%02d>\t%02x\n", i, (unsigned int) stack.at(j))` without the newline (functions.cpp:218) -/
def boolLine (i : Nat) (b : Bool) : List Char := ['<'] ++ dec02 i ++ ['>', '\t'] ++ hex02Bool b

/-- the loop of `print_bool_stack` (functions.cpp:216-219): `j` from `size()-1` down to 0, `++i`, `stack.at(j)` -/
def boolLoop (c : CondStack) : Nat → Nat → List (List Char)
  | 0, _ => []
  | j + 1, i => boolLine (i + 1) (c.atIdx j) :: boolLoop c j (i + 1)

/-- `print_bool_stack(const ConditionStack&)` (functions.cpp:212-222) -/
def printBoolStack (c : CondStack) : List Char :=
  unlines ((if c.size == 0 then [emptyStackLine] else []) ++ boolLoop c c.size 0)

/-- `fn_stack`: `print_stack(env->stack)` (functions.cpp:224) -/
def fnStack (e : IEnv) : List Char := printStack e.see.stack false
/-- `fn_altstack`: `print_stack(env->altstack)` (functions.cpp:228) -/
def fnAltstack (e : IEnv) : List Char := printStack e.see.altstack false
/-- `fn_vfexec`: `print_bool_stack(env->vfExec)` (functions.cpp:232) -/
def fnVfexec (e : IEnv) : List Char := printBoolStack e.see.cond
/-- the last thing a successful piped run prints: `print_stack(env->stack, true)` (btcdeb.cpp:393) -/
def pipeResult (e : IEnv) : List Char := printStack e.see.stack true

/-- the three displays of a state: what `stack`, `altstack`, `vfexec` print -/
def shown (e : IEnv) : List Char × List Char × List Char := (fnStack e, fnAltstack e, fnVfexec e)

-- ---------------------------------------------------------------------------------------------------------------
-- reading a display back (used to state that the display determines the state; no C++ counterpart)

def splitLinesAux : List Char → List Char → List (List Char)
  | [], _ => []                      -- (text after the last newline: there is none in what is printed)
  | c :: rest, cur => if c == '\n' then cur.reverse :: splitLinesAux rest [] else splitLinesAux rest (c :: cur)

/-- the lines of a text in which every line is closed by `\n` -/
def splitLines (t : List Char) : List (List Char) := splitLinesAux t []

/-- the item a numbered line shows: the hex digits between the first TAB and the next TAB / the end of the line -/
def readItem (line : List Char) : Option Bytes :=
  ofHexChars (((line.dropWhile (· != '\t')).drop 1).takeWhile (· != '\t'))

/-- the number a numbered line carries: the decimal digits between `<` and `>` -/
def readNumber (line : List Char) : Nat :=
  Nat.ofDigitChars 10 ((line.drop 1).takeWhile (· != '>')) 0

/-- the stack a numbered display shows (vector order: bottom first) -/
def readStack (t : List Char) : Option (List Bytes) :=
  let ls := splitLines t
  if ls == [emptyStackLine] then some []
  else (ls.mapM readItem).map List.reverse

/-- the stack a raw display shows -/
def readRaw (t : List Char) : Option (List Bytes) := (splitLines t).mapM ofHexChars

/-- the entry a line of the `vfexec` display shows -/
def readBool (line : List Char) : Option Bool :=
  let v := (line.dropWhile (· != '\t')).drop 1
  if v == ['0', '1'] then some true else if v == ['0', '0'] then some false else none

/-- the condition stack a `vfexec` display shows: as many levels as lines; the first false position is the level
    (counted from the outermost = the LAST line) of the outermost line showing `00` -/
def readCond (t : List Char) : Option CondStack :=
  let ls := splitLines t
  if ls == [emptyStackLine] then some {}
  else (ls.mapM readBool).map (fun bs =>
    { size := bs.length, firstFalse := bs.reverse.findIdx? (fun b => !b) })

end Btcdeb.Model
