/-
  Model of the two-column display of the interactive debugger: `print_dualstack` (functions.cpp:82-195) and
  `svprintscripts` (functions.cpp:35-80).  btcdeb prints it before the first prompt (btcdeb.cpp:412), after every
  performed `step` / `rewind` (functions.cpp:18, 28) and after a failed run in pipe mode (btcdeb.cpp:384, 389).

  Left column: what is still to be executed, read from the session state at the moment of the call — the current
  script from `env->pc`, the scriptPubKey (`env->successor_script`) and the P2SH redeem script under their
  headers, preceded by the commitment steps still to be taken while `env->tce` is set.  Right column: the stack,
  top first (or the state of the commitment).  The column widths are kept in two function-local `static int`s
  (`glmax`, `grmax`, both 7 at process start): they only grow, so the layout of a display depends on every display
  printed before it.  They are explicit here: `DualState`, threaded through the calls.

  Quirks that are mirrored:
  * an instruction is rendered through `char buf[1024]` with `snprintf(.., 1024, ..)`: at most 1023 characters
    (`Line.shown`); what is printed is cut to the column width anyway (`fit`);
  * the header `<<< committed script >>>` does not take part in the width computation;
  * the title of the right column is always `stack ` (`right_name` is computed and never used);
  * `GetOp` takes the iterator by reference: after a failing call it stands behind the bytes read so far
    (`failPos`), and the next script is only started afresh (header, `it = begin()`) when something has been
    listed or the iterator reached the end; otherwise the C++ goes on reading the NEXT script through an iterator
    of the previous one — undefined behaviour, flagged `stale` here (unreachable in a session:
    `BtcdebProofs/Properties/C12Dual.lean`, `C12_dual_not_stale`).
  (Two defects found with this model were repaired in the implementation, 9bb9088: `Description()` was listed in
  full whatever `m_i`, and the redeem script announced for a P2SH scriptPubKey was the push data of the last
  scriptSig instruction — empty for `OP_1NEGATE`, `OP_1 … OP_16` — instead of what it leaves on the stack.)
  No ANSI colour sequence is emitted by these functions (ansi-colors.h is included by functions.cpp, the only
  user was the miniscript tree, which is commented out).

  Strings that are laid out are `List Char` (all of them ASCII: one character = one byte = one column).
-/
import Btcdeb.Model.Listing
namespace Btcdeb.Model
open Btcdeb

/-- `static int glmax = 7; static int grmax = 7;` (functions.cpp:86-87) -/
structure DualState where
  glmax : Nat := 7
  grmax : Nat := 7
deriving Repr, DecidableEq

/-- where a FAILING `GetScriptOp(pc, end, ..)` leaves `pc` (script/script.cpp:283-333): behind the opcode byte
    and, for `OP_PUSHDATA1/2/4`, behind the length field when that was complete -/
def failPos (pc : Bytes) : Bytes :=
  match pc with
  | [] => []
  | b :: pc1 =>
    let opcode := b.toNat
    if opcode < Op.OP_PUSHDATA1 then pc1
    else if opcode = Op.OP_PUSHDATA1 then (if pc1.length < 1 then pc1 else pc1.drop 1)
    else if opcode = Op.OP_PUSHDATA2 then (if pc1.length < 2 then pc1 else pc1.drop 2)
    else if opcode = Op.OP_PUSHDATA4 then (if pc1.length < 4 then pc1 else pc1.drop 4)
    else pc1        -- (an opcode above OP_PUSHDATA4 does not fail)

/-- what ends up in the vector `l` for a line: an instruction goes through `snprintf(buf, 1024, "%s", …)`
    (functions.cpp:68-73), headers and description lines are pushed as they are -/
def Line.shown (l : Line) : List Char :=
  match l.kind with
  | .op => l.text.toList.take 1023
  | _ => l.text.toList

/-- the local state of `svprintscripts`: the vector `l`, `lmax`, `begun`; `stale`: see the file header -/
structure Sv where
  l : List Line := []
  lmax : Nat := 0
  begun : Bool := false
  stale : Bool := false
deriving Repr, DecidableEq

/-- `if (s.length() > lmax) lmax = s.length(); l.push_back(s);` -/
def Sv.add (s : Sv) (ln : Line) : Sv := { s with l := s.l ++ [ln], lmax := max s.lmax ln.shown.length }
/-- `l.push_back(header);` without the width update (functions.cpp:51-52) -/
def Sv.addQuiet (s : Sv) (ln : Line) : Sv := { s with l := s.l ++ [ln] }

/-- the instructions of the bytes `it`, the tail of a script of `total` bytes -/
def opLinesFrom (sect : Sect) (total : Nat) (it : Bytes) : List Line :=
  (decodeFrom it).map (fun p => { sect := sect, kind := .op, offset := total - p.1, text := opText p.2 })

/-- the loop `while (script->GetOp(it, opcode, vchPushValue)) { begun = true; … }` (functions.cpp:65-76);
    second component: where `it` stands afterwards -/
def svOps (sect : Sect) (total : Nat) (it : Bytes) (s : Sv) : Sv × Bytes :=
  match h : getOp it with
  | none => (s, failPos it)
  | some g =>
    svOps sect total g.rest
      { s.add { sect := sect, kind := .op, offset := total - it.length, text := opText g } with begun := true }
termination_by it.length
decreasing_by exact getOp_rest_lt h

/-- the loop over `scripts` (functions.cpp:54-79); `first`: `siter == 0` -/
def svScripts : List (Sect × Bytes × String) → Bool → Bytes → Sv → Sv
  | [], _, _, s => s
  | (sect, script, header) :: rest, first, it, s =>
    if !s.begun && !first then { s with stale := true }
    else
      let s1 := if s.begun then (if header != "" then s.add (headerLine sect header) else s) else s
      let it1 := if s.begun then script else it
      let r := svOps sect script.length it1 s1
      let s3 := if r.2.isEmpty then { r.1 with begun := true } else r.1
      svScripts rest false r.2 s3

def tapHeader : Line := headerLine .commitment "<<< taproot commitment >>>"
def committedHeader : Line := headerLine .commitment "<<< committed script >>>"

/-- `svprintscripts(l, lmax, scripts, headers, it, tce)`; of `Description()` the lines from `m_i` on are listed: the
    commitment steps still to be taken (functions.cpp:40-53) -/
def svPrintScripts (scripts : List (Sect × Bytes × String)) (it : Bytes) (tce : Option Tce) : Sv :=
  let s0 : Sv := match tce with
    | some t => ((t.description.drop t.i).foldl Sv.add (({} : Sv).add tapHeader)).addQuiet committedHeader
    | none => {}
  svScripts scripts true it s0

/-- `p2sh_script` (functions.cpp:94-119): the top of the saved stack, or — scriptPubKey branch, the later
    assignment — what the last instruction of the current script leaves on the stack (`lastPayload`, as btcdeb.cpp main) -/
def dualRedeem (e : IEnv) : Bytes :=
  if viaSucc e then lastPayload e.see.script
  else if viaStack e then e.p2shStack.getLast?.getD []
  else []

/-- `scripts` / `headers` (functions.cpp:90-121) -/
def dualScripts (e : IEnv) : List (Sect × Bytes × String) :=
  [(Sect.main, e.see.script, "")] ++
  (if !e.successor.isEmpty then [(Sect.scriptPubKey, e.successor, "<<< scriptPubKey >>>")] else []) ++
  (if viaStack e || viaSucc e then [(Sect.p2sh, dualRedeem e, "<<< P2SH script >>>")] else [])

/-- the call `svprintscripts(l, lmax, scripts, headers, it, env->tce)` with `it = env->pc` -/
def dualSv (e : IEnv) : Sv := svPrintScripts (dualScripts e) e.pc e.tce

/-- the vector `l` -/
def dualLeft (e : IEnv) : List Line := (dualSv e).l

/-- the display is undefined (see the file header) -/
def dualStale (e : IEnv) : Bool := (dualSv e).stale

/-- one stack item: `it.begin() == it.end() ? "0x" : HexStr(it)` (functions.cpp:137) -/
def stackCell (it : Bytes) : List Char := if it.isEmpty then ['0', 'x'] else it.flatMap hexOfByte

/-- the vector `r` (functions.cpp:124-141): the commitment state `i: <m_i>`, `k: <HexStr(m_k)>` while `env->tce`
    is set, otherwise the stack from the top down -/
def dualRight (e : IEnv) : List (List Char) :=
  match e.tce with
  | some t => [['i', ':', ' '] ++ Nat.toDigits 10 t.i, ['k', ':', ' '] ++ t.k.flatMap hexOfByte]
  | none => e.see.stack.reverse.map stackCell

def maxLen : List (List Char) → Nat
  | [] => 0
  | s :: rest => max s.length (maxLen rest)

/-- `if (s.length() > cap) s = s.substr(0, cap-3) + "...";` (functions.cpp:175, 185) -/
def fit (cap : Nat) (s : List Char) : List Char :=
  if s.length > cap then s.take (cap - 3) ++ ['.', '.', '.'] else s

/-- `printf("%-<n>s", s)` -/
def padRight (n : Nat) (s : List Char) : List Char := s ++ List.replicate (n - s.length) ' '
/-- `printf("%<n>s", s)` -/
def padLeft (n : Nat) (s : List Char) : List Char := List.replicate (n - s.length) ' ' ++ s

/-- one row of the loop at functions.cpp:172-194: `none` = that column has run out -/
def dualRow (lcap rcap : Nat) (l r : Option (List Char)) : List Char :=
  padRight (lcap + 1) (match l with | some s => fit lcap s | none => []) ++ ['|', ' '] ++
    (match r with | some s => padLeft rcap (fit rcap s) | none => [])

/-- `while (li < l.size() || ri < r.size())`: `li` and `ri` advance together, one row per iteration, until the longer
    column is exhausted; row `i` pairs `l[i]` with `r[i]` as far as they exist -/
def dualRows (lcap rcap : Nat) (l r : List (List Char)) : List (List Char) :=
  (List.range (max l.length r.length)).map (fun i => dualRow lcap rcap l[i]? r[i]?)

/-- the two title rows (functions.cpp:163-170) -/
def dualTitle (lcap rcap : Nat) : List (List Char) :=
  [ padRight (lcap + 1) ['s', 'c', 'r', 'i', 'p', 't'] ++ ['|', ' '] ++ padLeft rcap ['s', 't', 'a', 'c', 'k', ' '],
    List.replicate lcap '-' ++ ['-', '+', '-'] ++ List.replicate rcap '-' ]

/-- the widths after the call (functions.cpp:155-156) -/
def dualWidths (st : DualState) (lmax rmax : Nat) : DualState :=
  { glmax := if st.glmax < lmax then lmax else st.glmax, grmax := if st.grmax < rmax then rmax else st.grmax }

/-- `lcap`, `rcap` (functions.cpp:157-159) -/
def capOf (g : Nat) : Nat := if g > 66 then 66 else g

/-- the layout part of print_dualstack (functions.cpp:155-194) for given column contents -/
def dualLayout (st : DualState) (l : List (List Char)) (lmax : Nat) (r : List (List Char)) : List (List Char) × DualState :=
  let st' := dualWidths st lmax (maxLen r)
  (dualTitle (capOf st'.glmax) (capOf st'.grmax) ++ dualRows (capOf st'.glmax) (capOf st'.grmax) l r, st')

/-- `print_dualstack()`: the lines printed and the widths kept for the next call -/
def printDualstack (st : DualState) (e : IEnv) : List (List Char) × DualState :=
  let sv := dualSv e
  dualLayout st (sv.l.map Line.shown) sv.lmax (dualRight e)

/-- the commands of a session that reach the display -/
inductive DualCmd where
  /-- `fn_step` -/
  | step
  /-- `fn_rewind` -/
  | rewind
  /-- a direct call (start-up, pipe-mode failure) -/
  | show
deriving Repr, DecidableEq

/-- `fn_step` / `fn_rewind` (functions.cpp:15-33): the display is printed when the command was performed; a
    refused or failed command prints nothing and leaves session and widths as they were -/
def dualCmd (cx : Ctx) (tc : TapCtx) (st : DualState) (e : IEnv) : DualCmd → IEnv × Option (List (List Char)) × DualState
  | .step =>
    let r := fnStep cx tc e
    if r.2 then let d := printDualstack st r.1; (r.1, some d.1, d.2) else (e, none, st)
  | .rewind =>
    match instRewind e with
    | some e' => let d := printDualstack st e'; (e', some d.1, d.2)
    | none => (e, none, st)
  | .show => let d := printDualstack st e; (e, some d.1, d.2)

/-- everything a session displays: the start-up display, then one entry per command -/
def dualSession (cx : Ctx) (tc : TapCtx) : List DualCmd → DualState → IEnv → List (Option (List (List Char)))
  | [], _, _ => []
  | c :: cs, st, e =>
    let r := dualCmd cx tc st e c
    r.2.1 :: dualSession cx tc cs r.2.2 r.1

end Btcdeb.Model
