/-
  SHA-1 (FIPS 180-4), executable specification.  Core Lean only.
-/
import Btcdeb.Basic.Bytes
import Btcdeb.Crypto.Sha256

namespace Btcdeb.Crypto

namespace Sha1

/-- §5.3.1: initial hash value -/
def H0 : Array UInt32 := #[0x67452301, 0xefcdab89, 0x98badcfe, 0x10325476, 0xc3d2e1f0]

/-- §4.2.1: round constants -/
def K (t : Nat) : UInt32 :=
  if t < 20 then 0x5a827999
  else if t < 40 then 0x6ed9eba1
  else if t < 60 then 0x8f1bbcdc
  else 0xca62c1d6

/-- §4.1.1: round functions -/
def f (t : Nat) (x y z : UInt32) : UInt32 :=
  if t < 20 then (x &&& y) ^^^ (~~~x &&& z)                  -- Ch
  else if t < 40 then x ^^^ y ^^^ z                          -- Parity
  else if t < 60 then (x &&& y) ^^^ (x &&& z) ^^^ (y &&& z)  -- Maj
  else x ^^^ y ^^^ z                                         -- Parity

/-- §6.1.2 step 1: the message schedule `W_0 .. W_79` of the block `M[off .. off+16)` -/
def schedule (M : Array UInt32) (off : Nat) : Array UInt32 := Id.run do
  let mut W : Array UInt32 := Array.mkEmpty 80
  for t in [0:16] do
    W := W.push M[off + t]!
  for t in [16:80] do
    W := W.push (rotl32 (W[t - 3]! ^^^ W[t - 8]! ^^^ W[t - 14]! ^^^ W[t - 16]!) 1)
  return W

/-- §6.1.2 steps 1–4: process one 512-bit block -/
def compress (H : Array UInt32) (M : Array UInt32) (off : Nat) : Array UInt32 := Id.run do
  let W := schedule M off
  let mut a := H[0]!
  let mut b := H[1]!
  let mut c := H[2]!
  let mut d := H[3]!
  let mut e := H[4]!
  for t in [0:80] do
    let T := rotl32 a 5 + f t b c d + e + K t + W[t]!
    e := d
    d := c
    c := rotl32 b 30
    b := a
    a := T
  return #[a + H[0]!, b + H[1]!, c + H[2]!, d + H[3]!, e + H[4]!]

end Sha1

/-- SHA-1 of a byte string (20 bytes) -/
def sha1 (msg : Bytes) : Bytes :=
  let padded := mdPad (beFixed 8) msg
  let M := wordsOfBytes be32 padded (Array.mkEmpty (padded.length / 4))
  let H := mdIterate Sha1.compress Sha1.H0 M
  H.toList.flatMap bytesOfWordBE

end Btcdeb.Crypto
