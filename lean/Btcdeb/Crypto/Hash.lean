/-
  Bitcoin's composite hashes on top of SHA-256 / RIPEMD-160.  Core Lean only.
-/
import Btcdeb.Basic.Bytes
import Btcdeb.Crypto.Sha256
import Btcdeb.Crypto.Sha1
import Btcdeb.Crypto.Ripemd160

namespace Btcdeb.Crypto

/-- the UTF-8 (ASCII) bytes of a string literal, e.g. a BIP340 tag -/
def strBytes (s : String) : Bytes := s.toUTF8.toList

/-- double SHA-256 (`CHash256`, `OP_HASH256`) -/
def hash256 (msg : Bytes) : Bytes := sha256 (sha256 msg)

/-- RIPEMD-160 of SHA-256 (`CHash160`, `OP_HASH160`) -/
def hash160 (msg : Bytes) : Bytes := ripemd160 (sha256 msg)

/-- BIP340 tagged hash; the tag is given as its ASCII bytes -/
def taggedHash (tag : Bytes) (msg : Bytes) : Bytes :=
  sha256 (sha256 tag ++ sha256 tag ++ msg)

end Btcdeb.Crypto
