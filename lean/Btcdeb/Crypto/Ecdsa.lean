/-
  ECDSA over secp256k1 as used by `CPubKey::Verify` / `CPubKey::CheckLowS` (pubkey.cpp):
  the lax DER signature parser, low-S normalisation, SEC1 verification, and a deterministic
  signer with explicit nonce plus a strict DER encoder for generating test signatures.
-/
import Btcdeb.Crypto.Secp256k1

namespace Btcdeb.Crypto
open Btcdeb

/-! ## Lax DER parsing (`ecdsa_signature_parse_der_lax`) -/

/-- `input[pos]` (0 outside the buffer; the parser never reads outside) -/
@[inline] def laxByteAt (inp : Bytes) (pos : Nat) : UInt8 := inp.getD pos 0

/-- `input[pos .. pos+len)` -/
def laxSlice (inp : Bytes) (pos len : Nat) : Bytes := (inp.drop pos).take len

/-- `while (len > 0 && input[pos] == 0) { pos++; len--; }`, returns the final `(pos, len)` -/
def laxSkipZeros (inp : Bytes) : (pos len : Nat) → Nat × Nat
  | pos, 0 => (pos, 0)
  | pos, len+1 => if laxByteAt inp pos = 0 then laxSkipZeros inp (pos + 1) len else (pos, len + 1)

/-- The "Integer length for R/S" block: reads a DER length at `pos`.
    Short form: the byte itself.  Long form `0x80+k`: `k` length bytes must be available; leading
    zero length bytes are skipped and at most 3 significant ones may remain.
    Returns `(position after the length bytes, length)`. -/
def laxIntegerLength (inp : Bytes) (pos : Nat) : Option (Nat × Nat) :=
  let inputlen := inp.length
  if pos = inputlen then none
  else
    let lenbyte := (laxByteAt inp pos).toNat
    let pos := pos + 1
    if lenbyte ≥ 0x80 then
      let lenbyte := lenbyte - 0x80
      if lenbyte > inputlen - pos then none
      else
        let (pos, lenbyte) := laxSkipZeros inp pos lenbyte
        if lenbyte ≥ 4 then none
        else some (pos + lenbyte, bytesToNatBE (laxSlice inp pos lenbyte))
    else some (pos, lenbyte)

/-- Exact transcription of `ecdsa_signature_parse_der_lax` in pubkey.cpp; the input is the signature
    without the trailing sighash-type byte.

    `none` where the C function returns 0.  Otherwise `some (r, s)` with the scalars stored in the
    `secp256k1_ecdsa_signature`; as in the C code, if either integer has more than 32 significant
    bytes or is `≥ N` the stored signature is the all-zero one, `(0, 0)`.

    Tolerated violations: the sequence length is read but never checked (a long-form sequence length
    only has to fit in the buffer), long-form and zero-padded integer lengths, negative integers,
    arbitrary zero padding of the integers, and trailing garbage after S. -/
def parseDerLax (sig : Bytes) : Option (Nat × Nat) := do
  let inputlen := sig.length
  let pos := 0
  -- Sequence tag byte
  guard (pos ≠ inputlen ∧ laxByteAt sig pos = 0x30)
  let pos := pos + 1
  -- Sequence length bytes
  guard (pos ≠ inputlen)
  let lenbyte := (laxByteAt sig pos).toNat
  let pos := pos + 1
  let pos ←
    if lenbyte ≥ 0x80 then
      let lenbyte := lenbyte - 0x80
      if lenbyte > inputlen - pos then none else some (pos + lenbyte)
    else some pos
  -- Integer tag byte for R
  guard (pos ≠ inputlen ∧ laxByteAt sig pos = 0x02)
  let pos := pos + 1
  -- Integer length for R
  let (pos, rlen) ← laxIntegerLength sig pos
  guard (rlen ≤ inputlen - pos)
  let rpos := pos
  let pos := pos + rlen
  -- Integer tag byte for S
  guard (pos ≠ inputlen ∧ laxByteAt sig pos = 0x02)
  let pos := pos + 1
  -- Integer length for S
  let (pos, slen) ← laxIntegerLength sig pos
  guard (slen ≤ inputlen - pos)
  let spos := pos
  -- Ignore leading zeroes in R and S
  let (rpos, rlen) := laxSkipZeros sig rpos rlen
  let (spos, slen) := laxSkipZeros sig spos slen
  -- Copy R and S values; more than 32 bytes, or a value ≥ N rejected by
  -- `secp256k1_ecdsa_signature_parse_compact`, is an overflow → all-zero signature
  let r := bytesToNatBE (laxSlice sig rpos rlen)
  let s := bytesToNatBE (laxSlice sig spos slen)
  if rlen > 32 || slen > 32 || r ≥ N || s ≥ N then
    return (0, 0)
  else
    return (r, s)

/-! ## Low-S -/

/-- `secp256k1_scalar_is_high`: `s > N/2` -/
def isHighS (s : Nat) : Bool := decide (s > N / 2)

/-- `secp256k1_ecdsa_signature_normalize`: replace a high `s` by `N - s` -/
def normalizeS (s : Nat) : Nat := if isHighS s then N - s else s

/-- `CPubKey::CheckLowS`: parse lax; false if parsing fails; true iff `s ≤ N/2`.
    (An overflowing signature parses to `(0, 0)` and therefore passes.) -/
def checkLowS (sig : Bytes) : Bool :=
  match parseDerLax sig with
  | none => false
  | some (_, s) => !isHighS s

/-! ## Verification -/

/-- SEC1 ECDSA verification of `(r, s)` for public key `q` and message scalar `z`:
    `1 ≤ r, s < N`,  `R = (z/s)·G + (r/s)·q ≠ ∞`,  `R.x mod N = r`. -/
def ecdsaVerifyRS (q : Point) (r s z : Nat) : Bool :=
  if r = 0 || s = 0 || r ≥ N || s ≥ N then false
  else
    let w := ninv s
    let u1 := (z * w) % N
    let u2 := (r * w) % N
    match pointMulAdd2 u1 G u2 q with
    | .infinity => false
    | .affine x _ => x % N = r

/-- `CPubKey::Verify`: parse the key (`parsePubKey`, which subsumes `CPubKey::IsValid`), parse the
    signature with `parseDerLax`, normalise `s` to low-S, then `secp256k1_ecdsa_verify` with the
    32-byte hash interpreted big-endian (reduced mod `N`).  `r = 0` or `s = 0` → false. -/
def ecdsaVerify (pubkey : Bytes) (sigDer : Bytes) (msg32 : Bytes) : Bool :=
  if msg32.length ≠ 32 then false
  else
    match parsePubKey pubkey, parseDerLax sigDer with
    | some q, some (r, s) => ecdsaVerifyRS q r (normalizeS s) (bytesToNatBE msg32 % N)
    | _, _ => false

/-! ## Signing (test generation) -/

/-- public key of a secret scalar -/
def pubKeyOfSecret (sk : Nat) : Point := pointMul sk G

/-- Deterministic signing for test generation: secret key `sk` (1 ≤ sk < N) and nonce `k`
    (1 ≤ k < N) are given explicitly.  `r = (k·G).x mod N`, `s = (z + r·sk)/k mod N`;
    `s` is normalised to low-S when `lowS = true`, and to the complementary high-S otherwise.
    (With negligible probability `r` or `s` is 0 and the pair is not a valid signature.) -/
def ecdsaSignRS (sk k : Nat) (msg32 : Bytes) (lowS : Bool := true) : Nat × Nat :=
  let z := bytesToNatBE msg32 % N
  let r := match pointMul k G with
    | .infinity => 0
    | .affine x _ => x % N
  let s := (ninv k * ((z + r * sk) % N)) % N
  let s' := (N - s) % N
  (r, if lowS then min s s' else max s s')

/-- minimal big-endian bytes of `n` (no leading zero byte; empty for 0) -/
def natToBytesBEMin (n : Nat) : Bytes := (leBytes n).reverse

/-- DER definite length: short form below 128, otherwise minimal long form -/
def derLength (len : Nat) : Bytes :=
  if len < 0x80 then [UInt8.ofNat len]
  else
    let lb := natToBytesBEMin len
    UInt8.ofNat (0x80 + lb.length) :: lb

/-- DER INTEGER of a non-negative number: minimal two's complement, i.e. minimal big-endian bytes
    with one `00` prepended if the top bit is set; zero is `02 01 00`. -/
def derInteger (n : Nat) : Bytes :=
  let body := natToBytesBEMin n
  let body := match body with
    | [] => [0]
    | b :: _ => if b ≥ 0x80 then 0 :: body else body
  0x02 :: (derLength body.length ++ body)

/-- strict DER encoding (BIP66) of `(r, s)`, without sighash byte: `30 len 02 lr r 02 ls s` -/
def derEncode (r s : Nat) : Bytes :=
  let body := derInteger r ++ derInteger s
  0x30 :: (derLength body.length ++ body)

end Btcdeb.Crypto
