/-
  RIPEMD-160 (Dobbertin, Bosselaers, Preneel 1996), executable specification.
  Core Lean only.  Same Merkle–Damgård frame as SHA-1/SHA-256 but every integer
  (message words, bit length, digest words) is little-endian.
-/
import Btcdeb.Basic.Bytes
import Btcdeb.Crypto.Sha256

namespace Btcdeb.Crypto

namespace Ripemd160

/-- initial value -/
def H0 : Array UInt32 := #[0x67452301, 0xefcdab89, 0x98badcfe, 0x10325476, 0xc3d2e1f0]

/-- nonlinear functions at bit level, `0 ≤ j < 80` -/
def f (j : Nat) (x y z : UInt32) : UInt32 :=
  if j < 16 then x ^^^ y ^^^ z
  else if j < 32 then (x &&& y) ||| (~~~x &&& z)
  else if j < 48 then (x ||| ~~~y) ^^^ z
  else if j < 64 then (x &&& z) ||| (y &&& ~~~z)
  else x ^^^ (y ||| ~~~z)

/-- added constants, left line -/
def K (j : Nat) : UInt32 :=
  if j < 16 then 0x00000000
  else if j < 32 then 0x5a827999
  else if j < 48 then 0x6ed9eba1
  else if j < 64 then 0x8f1bbcdc
  else 0xa953fd4e

/-- added constants, right line -/
def K' (j : Nat) : UInt32 :=
  if j < 16 then 0x50a28be6
  else if j < 32 then 0x5c4dd124
  else if j < 48 then 0x6d703ef3
  else if j < 64 then 0x7a6d76e9
  else 0x00000000

/-- selection of message word, left line -/
def r : Array Nat := #[
  0, 1, 2, 3, 4, 5, 6, 7, 8, 9, 10, 11, 12, 13, 14, 15,
  7, 4, 13, 1, 10, 6, 15, 3, 12, 0, 9, 5, 2, 14, 11, 8,
  3, 10, 14, 4, 9, 15, 8, 1, 2, 7, 0, 6, 13, 11, 5, 12,
  1, 9, 11, 10, 0, 8, 12, 4, 13, 3, 7, 15, 14, 5, 6, 2,
  4, 0, 5, 9, 7, 12, 2, 10, 14, 1, 3, 8, 11, 6, 15, 13]

/-- selection of message word, right line -/
def r' : Array Nat := #[
  5, 14, 7, 0, 9, 2, 11, 4, 13, 6, 15, 8, 1, 10, 3, 12,
  6, 11, 3, 7, 0, 13, 5, 10, 14, 15, 8, 12, 4, 9, 1, 2,
  15, 5, 1, 3, 7, 14, 6, 9, 11, 8, 12, 2, 10, 0, 4, 13,
  8, 6, 4, 1, 3, 11, 15, 0, 5, 12, 2, 13, 9, 7, 10, 14,
  12, 15, 10, 4, 1, 5, 8, 7, 6, 2, 13, 14, 0, 3, 9, 11]

/-- amount for rotate left, left line -/
def s : Array UInt32 := #[
  11, 14, 15, 12, 5, 8, 7, 9, 11, 13, 14, 15, 6, 7, 9, 8,
  7, 6, 8, 13, 11, 9, 7, 15, 7, 12, 15, 9, 11, 7, 13, 12,
  11, 13, 6, 7, 14, 9, 13, 15, 14, 8, 13, 6, 5, 12, 7, 5,
  11, 12, 14, 15, 14, 15, 9, 8, 9, 14, 5, 6, 8, 6, 5, 12,
  9, 15, 5, 11, 6, 8, 13, 12, 5, 12, 13, 14, 11, 8, 5, 6]

/-- amount for rotate left, right line -/
def s' : Array UInt32 := #[
  8, 9, 9, 11, 13, 15, 15, 5, 7, 7, 8, 11, 14, 14, 12, 6,
  9, 13, 15, 7, 12, 8, 9, 11, 7, 7, 12, 7, 6, 15, 13, 11,
  9, 7, 15, 11, 8, 6, 6, 14, 12, 13, 5, 14, 13, 13, 7, 5,
  15, 5, 8, 11, 14, 14, 6, 14, 6, 9, 12, 9, 12, 5, 15, 8,
  8, 5, 12, 9, 12, 5, 14, 6, 8, 13, 6, 5, 15, 13, 11, 11]

/-- process one 16-word block `X = M[off .. off+16)`: two parallel lines of 80 steps,
    then the combining feed-forward -/
def compress (H : Array UInt32) (M : Array UInt32) (off : Nat) : Array UInt32 := Id.run do
  let h0 := H[0]!
  let h1 := H[1]!
  let h2 := H[2]!
  let h3 := H[3]!
  let h4 := H[4]!
  -- left line
  let mut A := h0
  let mut B := h1
  let mut C := h2
  let mut D := h3
  let mut E := h4
  for j in [0:80] do
    let T := rotl32 (A + f j B C D + M[off + r[j]!]! + K j) s[j]! + E
    A := E
    E := D
    D := rotl32 C 10
    C := B
    B := T
  -- right line
  let mut A' := h0
  let mut B' := h1
  let mut C' := h2
  let mut D' := h3
  let mut E' := h4
  for j in [0:80] do
    let T := rotl32 (A' + f (79 - j) B' C' D' + M[off + r'[j]!]! + K' j) s'[j]! + E'
    A' := E'
    E' := D'
    D' := rotl32 C' 10
    C' := B'
    B' := T
  return #[h1 + C + D', h2 + D + E', h3 + E + A', h4 + A + B', h0 + B + C']

end Ripemd160

/-- RIPEMD-160 of a byte string (20 bytes) -/
def ripemd160 (msg : Bytes) : Bytes :=
  let padded := mdPad (leFixed 8) msg
  let M := wordsOfBytes le32 padded (Array.mkEmpty (padded.length / 4))
  let H := mdIterate Ripemd160.compress Ripemd160.H0 M
  H.toList.flatMap bytesOfWordLE

end Btcdeb.Crypto
