/-
  secp256k1: field, group law, scalar multiplication, public-key parsing.

  Executable specification in core Lean (no Mathlib): every definition is total and
  computable.  `Nat` is arbitrary precision, so field arithmetic is written literally
  as `(a * b) % P`.  The interface uses affine points (`Point`); scalar multiplication
  works in Jacobian coordinates internally and converts back once at the end.

  Curve:  y² = x³ + 7  over  F_P,  group of prime order N, cofactor 1.
-/
import Btcdeb.Basic.Bytes

namespace Btcdeb.Crypto
open Btcdeb

/-! ## Parameters -/

/-- field prime `2^256 - 2^32 - 977` -/
def P : Nat := 0xFFFFFFFFFFFFFFFFFFFFFFFFFFFFFFFFFFFFFFFFFFFFFFFFFFFFFFFEFFFFFC2F

/-- group order -/
def N : Nat := 0xFFFFFFFFFFFFFFFFFFFFFFFFFFFFFFFEBAAEDCE6AF48A03BBFD25E8CD0364141

example : P = 2^256 - 2^32 - 977 := by decide

/-- generator coordinates -/
def Gx : Nat := 0x79BE667EF9DCBBAC55A06295CE870B07029BFCDB2DCE28D959F2815B16F81798
def Gy : Nat := 0x483ADA7726A3C4655DA4FBFC0E1108A8FD17B448A68554199C47D08FFB10D4B8

/-! ## Modular arithmetic -/

/-- `b^e mod m`, left-to-right square-and-multiply over the bits `i-1 … 0` of `e`. -/
def powModLoop (b e m : Nat) : Nat → Nat → Nat
  | 0, acc => acc
  | i+1, acc =>
    let sq := (acc * acc) % m
    powModLoop b e m i (if e.testBit i then (sq * b) % m else sq)

/-- modular exponentiation `b^e mod m` -/
def powMod (b e m : Nat) : Nat :=
  powModLoop b e m (e.log2 + 1) (1 % m)

/-- field operations; arguments are expected to be reduced (`< P`), results are reduced -/
@[inline] def fadd (a b : Nat) : Nat := (a + b) % P
@[inline] def fsub (a b : Nat) : Nat := (a + (P - b % P)) % P
@[inline] def fneg (a : Nat) : Nat := (P - a % P) % P
@[inline] def fmul (a b : Nat) : Nat := (a * b) % P
@[inline] def fsq (a : Nat) : Nat := (a * a) % P
/-- inverse in F_P by Fermat's little theorem (`finv 0 = 0`) -/
def finv (a : Nat) : Nat := powMod a (P - 2) P
/-- square root in F_P (P ≡ 3 mod 4): the candidate `a^((P+1)/4)` is a root iff `a` is a square -/
def fsqrt (a : Nat) : Option Nat :=
  let r := powMod a ((P + 1) / 4) P
  if fsq r = a % P then some r else none

/-- inverse modulo the group order (`N` is prime; `ninv 0 = 0`) -/
def ninv (a : Nat) : Nat := powMod a (N - 2) N

/-! ## Points -/

/-- affine representation for the interface -/
inductive Point
  | infinity
  | affine (x y : Nat)
deriving DecidableEq, Repr, Inhabited

def G : Point := .affine Gx Gy

/-- right-hand side of the curve equation, `x³ + 7` -/
def curveRhs (x : Nat) : Nat := fadd (fmul (fsq x) x) 7

/-- `secp256k1_ge_is_valid_var` on reduced coordinates -/
def isOnCurve (x y : Nat) : Bool :=
  decide (x < P) && decide (y < P) && (fsq y == curveRhs x)

def Point.isInfinity : Point → Bool
  | .infinity => true
  | .affine _ _ => false

/-- `-p` -/
def pointNeg : Point → Point
  | .infinity => .infinity
  | .affine x y => .affine x (fneg y)

/-! ### Jacobian coordinates

  `(X, Y, Z)` with `Z ≠ 0` denotes the affine point `(X / Z², Y / Z³)`; `Z = 0` denotes infinity. -/

structure JPoint where
  x : Nat
  y : Nat
  z : Nat
deriving Repr, Inhabited

def JPoint.infinity : JPoint := ⟨1, 1, 0⟩

def JPoint.ofAffine : Point → JPoint
  | .infinity => .infinity
  | .affine x y => ⟨x % P, y % P, 1⟩

def JPoint.toAffine (p : JPoint) : Point :=
  if p.z = 0 then .infinity
  else
    let zi := finv p.z
    let zi2 := fsq zi
    .affine (fmul p.x zi2) (fmul p.y (fmul zi2 zi))

/-- point doubling for a curve with `a = 0` -/
def jDouble (p : JPoint) : JPoint :=
  if p.z = 0 || p.y = 0 then .infinity
  else
    let yy := fsq p.y                         -- Y²
    let s := fmul 4 (fmul p.x yy)             -- S = 4·X·Y²
    let m := fmul 3 (fsq p.x)                 -- M = 3·X²
    let x3 := fsub (fsq m) (fmul 2 s)         -- X' = M² − 2S
    let y3 := fsub (fmul m (fsub s x3)) (fmul 8 (fsq yy))  -- Y' = M(S − X') − 8·Y⁴
    let z3 := fmul 2 (fmul p.y p.z)           -- Z' = 2·Y·Z
    ⟨x3, y3, z3⟩

/-- general point addition (handles infinity, doubling and inverse points) -/
def jAdd (p q : JPoint) : JPoint :=
  if p.z = 0 then q
  else if q.z = 0 then p
  else
    let z1z1 := fsq p.z
    let z2z2 := fsq q.z
    let u1 := fmul p.x z2z2
    let u2 := fmul q.x z1z1
    let s1 := fmul p.y (fmul z2z2 q.z)
    let s2 := fmul q.y (fmul z1z1 p.z)
    if u1 = u2 then
      if s1 = s2 then jDouble p else .infinity
    else
      let h := fsub u2 u1
      let r := fsub s2 s1
      let hh := fsq h
      let hhh := fmul hh h
      let v := fmul u1 hh
      let x3 := fsub (fsub (fsq r) hhh) (fmul 2 v)       -- R² − H³ − 2·U1·H²
      let y3 := fsub (fmul r (fsub v x3)) (fmul s1 hhh)  -- R(U1·H² − X') − S1·H³
      let z3 := fmul h (fmul p.z q.z)
      ⟨x3, y3, z3⟩

/-- double-and-add over bits `i-1 … 0` of `k` (most significant first) -/
def jMulLoop (k : Nat) (p : JPoint) : Nat → JPoint → JPoint
  | 0, acc => acc
  | i+1, acc =>
    let d := jDouble acc
    jMulLoop k p i (if k.testBit i then jAdd d p else d)

/-- `k·p` -/
def jMul (k : Nat) (p : JPoint) : JPoint :=
  jMulLoop k p (k.log2 + 1) .infinity

/-- Straus/Shamir loop for `a·p + b·q`, with `pq = p + q` precomputed -/
def jMulAdd2Loop (a : Nat) (p : JPoint) (b : Nat) (q pq : JPoint) : Nat → JPoint → JPoint
  | 0, acc => acc
  | i+1, acc =>
    let d := jDouble acc
    let acc' :=
      match a.testBit i, b.testBit i with
      | false, false => d
      | true, false => jAdd d p
      | false, true => jAdd d q
      | true, true => jAdd d pq
    jMulAdd2Loop a p b q pq i acc'

/-- `a·p + b·q` with a single doubling chain -/
def jMulAdd2 (a : Nat) (p : JPoint) (b : Nat) (q : JPoint) : JPoint :=
  jMulAdd2Loop a p b q (jAdd p q) (max a.log2 b.log2 + 1) .infinity

/-! ### Affine interface -/

def pointAdd (a b : Point) : Point :=
  (jAdd (.ofAffine a) (.ofAffine b)).toAffine

/-- scalar multiplication `k·p` -/
def pointMul (k : Nat) (p : Point) : Point :=
  (jMul k (.ofAffine p)).toAffine

/-- `a·p + b·q` -/
def pointMulAdd2 (a : Nat) (p : Point) (b : Nat) (q : Point) : Point :=
  (jMulAdd2 a (.ofAffine p) b (.ofAffine q)).toAffine

/-- BIP340 `lift_x`: the curve point with abscissa `x` and even `y`;
    `none` if `x ≥ P` or `x³ + 7` is not a square. -/
def liftX (x : Nat) : Option Point :=
  if x ≥ P then none
  else
    match fsqrt (curveRhs x) with
    | none => none
    | some y => some (.affine x (if y % 2 = 0 then y else P - y))

/-- the curve point with abscissa `x` and the requested parity of `y` (`secp256k1_ge_set_xo_var`) -/
def liftXParity (x : Nat) (odd : Bool) : Option Point :=
  match liftX x with
  | some (.affine x y) => some (.affine x (if odd then P - y else y))
  | _ => none

/-! ## Byte conversions -/

/-- big-endian value of a byte string -/
def bytesToNatBE (b : Bytes) : Nat :=
  b.foldl (fun acc x => acc * 256 + x.toNat) 0

def natToBytesBELoop : Nat → Nat → Bytes → Bytes
  | 0, _, acc => acc
  | len+1, n, acc => natToBytesBELoop len (n / 256) (UInt8.ofNat (n % 256) :: acc)

/-- `len`-byte big-endian encoding of `n` (of `n mod 256^len` if `n` is too large) -/
def natToBytesBE (len : Nat) (n : Nat) : Bytes :=
  natToBytesBELoop len n []

/-! ## Public keys -/

/-- secp256k1_ec_pubkey_parse (`secp256k1_eckey_pubkey_parse`):
    33 bytes 02/03 compressed; 65 bytes 04 uncompressed; 65 bytes 06/07 hybrid (must have
    matching parity); coordinates `< P` and on the curve.

    `CPubKey` (pubkey.h) derives the expected length from the header byte and invalidates the key on
    a mismatch; that check (`CPubKey::IsValid`) accepts exactly the (header, length) combinations
    accepted here, so it needs no separate treatment. -/
def parsePubKey (b : Bytes) : Option Point :=
  match b with
  | [] => none
  | hdr :: rest =>
    if b.length = 33 && (hdr = 2 || hdr = 3) then
      liftXParity (bytesToNatBE rest) (hdr = 3)
    else if b.length = 65 && (hdr = 4 || hdr = 6 || hdr = 7) then
      let x := bytesToNatBE (rest.take 32)
      let y := bytesToNatBE (rest.drop 32)
      if x ≥ P || y ≥ P then none
      else if (hdr = 6 || hdr = 7) && (y % 2 = 1) != (hdr = 7) then none
      else if isOnCurve x y then some (.affine x y) else none
    else none

/-- 33-byte compressed encoding (the empty string for the point at infinity, which has none) -/
def serializeCompressed : Point → Bytes
  | .infinity => []
  | .affine x y => (if y % 2 = 1 then 3 else 2) :: natToBytesBE 32 x

/-- 65-byte uncompressed encoding (the empty string for the point at infinity) -/
def serializeUncompressed : Point → Bytes
  | .infinity => []
  | .affine x y => 4 :: (natToBytesBE 32 x ++ natToBytesBE 32 y)

/-- 65-byte hybrid encoding 06/07 (accepted by the parser, never produced by the library) -/
def serializeHybrid : Point → Bytes
  | .infinity => []
  | .affine x y => (if y % 2 = 1 then 7 else 6) :: (natToBytesBE 32 x ++ natToBytesBE 32 y)

/-- 32-byte x coordinate (the empty string for the point at infinity) -/
def xonlyBytes : Point → Bytes
  | .infinity => []
  | .affine x _ => natToBytesBE 32 x

/-- `y` is odd -/
def Point.hasOddY : Point → Bool
  | .infinity => false
  | .affine _ y => y % 2 = 1

end Btcdeb.Crypto
