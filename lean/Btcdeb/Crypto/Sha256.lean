/-
  SHA-256 (FIPS 180-4), executable specification.
  Core Lean only.  Also hosts the helpers shared by the three Merkle–Damgård
  hashes of this directory (padding, byte <-> 32-bit word conversion, rotations).
-/
import Btcdeb.Basic.Bytes

namespace Btcdeb.Crypto

/-! ## Shared helpers -/

/-- rotate left, `0 < n < 32` (FIPS 180-4 §3.2 ROTL) -/
@[inline] def rotl32 (x : UInt32) (n : UInt32) : UInt32 :=
  (x <<< n) ||| (x >>> (32 - n))

/-- rotate right, `0 < n < 32` (FIPS 180-4 §3.2 ROTR) -/
@[inline] def rotr32 (x : UInt32) (n : UInt32) : UInt32 :=
  (x >>> n) ||| (x <<< (32 - n))

/-- fixed-width big-endian bytes of a natural number (reduced mod `256^k`) -/
def beFixed (k : Nat) (n : Nat) : Bytes := (leFixed k n).reverse

/-- Merkle–Damgård strengthening with 64-byte blocks (FIPS 180-4 §5.1.1):
    append the bit `1` (byte `0x80`), then the least number `k` of zero bytes such
    that the length becomes `56 mod 64`, then the message length *in bits* as an
    8-byte integer, whose byte order is given by `lenBytes`
    (big-endian for SHA, little-endian for RIPEMD-160). -/
def mdPad (lenBytes : Nat → Bytes) (msg : Bytes) : Bytes :=
  let l := msg.length
  let k := (119 - l % 64) % 64
  msg ++ (0x80 :: (List.replicate k 0 ++ lenBytes (8 * l)))

/-- big-endian 32-bit word of four bytes -/
@[inline] def be32 (a b c d : UInt8) : UInt32 :=
  (a.toUInt32 <<< 24) ||| (b.toUInt32 <<< 16) ||| (c.toUInt32 <<< 8) ||| d.toUInt32

/-- little-endian 32-bit word of four bytes -/
@[inline] def le32 (a b c d : UInt8) : UInt32 :=
  (d.toUInt32 <<< 24) ||| (c.toUInt32 <<< 16) ||| (b.toUInt32 <<< 8) ||| a.toUInt32

/-- parse a byte string (length a multiple of 4) into 32-bit words, four bytes at a
    time, combined with `w`; trailing bytes (fewer than four) are dropped -/
def wordsOfBytes (w : UInt8 → UInt8 → UInt8 → UInt8 → UInt32) :
    Bytes → Array UInt32 → Array UInt32
  | a :: b :: c :: d :: rest, acc => wordsOfBytes w rest (acc.push (w a b c d))
  | _, acc => acc

/-- the four bytes of a word, most significant first -/
def bytesOfWordBE (x : UInt32) : Bytes :=
  [(x >>> 24).toUInt8, (x >>> 16).toUInt8, (x >>> 8).toUInt8, x.toUInt8]

/-- the four bytes of a word, least significant first -/
def bytesOfWordLE (x : UInt32) : Bytes :=
  [x.toUInt8, (x >>> 8).toUInt8, (x >>> 16).toUInt8, (x >>> 24).toUInt8]

/-- Iterate a compression function over the 16-word blocks of `words`.
    `compress H words off` must read the block `words[off .. off+16)`. -/
def mdIterate (compress : Array UInt32 → Array UInt32 → Nat → Array UInt32)
    (iv : Array UInt32) (words : Array UInt32) : Array UInt32 :=
  (List.range (words.size / 16)).foldl (fun H i => compress H words (16 * i)) iv

/-! ## SHA-256 -/

namespace Sha256

/-- §4.2.2: first 32 bits of the fractional parts of the cube roots of the first 64 primes -/
def K : Array UInt32 := #[
  0x428a2f98, 0x71374491, 0xb5c0fbcf, 0xe9b5dba5, 0x3956c25b, 0x59f111f1, 0x923f82a4, 0xab1c5ed5,
  0xd807aa98, 0x12835b01, 0x243185be, 0x550c7dc3, 0x72be5d74, 0x80deb1fe, 0x9bdc06a7, 0xc19bf174,
  0xe49b69c1, 0xefbe4786, 0x0fc19dc6, 0x240ca1cc, 0x2de92c6f, 0x4a7484aa, 0x5cb0a9dc, 0x76f988da,
  0x983e5152, 0xa831c66d, 0xb00327c8, 0xbf597fc7, 0xc6e00bf3, 0xd5a79147, 0x06ca6351, 0x14292967,
  0x27b70a85, 0x2e1b2138, 0x4d2c6dfc, 0x53380d13, 0x650a7354, 0x766a0abb, 0x81c2c92e, 0x92722c85,
  0xa2bfe8a1, 0xa81a664b, 0xc24b8b70, 0xc76c51a3, 0xd192e819, 0xd6990624, 0xf40e3585, 0x106aa070,
  0x19a4c116, 0x1e376c08, 0x2748774c, 0x34b0bcb5, 0x391c0cb3, 0x4ed8aa4a, 0x5b9cca4f, 0x682e6ff3,
  0x748f82ee, 0x78a5636f, 0x84c87814, 0x8cc70208, 0x90befffa, 0xa4506ceb, 0xbef9a3f7, 0xc67178f2]

/-- §5.3.3: initial hash value -/
def H0 : Array UInt32 := #[
  0x6a09e667, 0xbb67ae85, 0x3c6ef372, 0xa54ff53a, 0x510e527f, 0x9b05688c, 0x1f83d9ab, 0x5be0cd19]

/-! §4.1.2 functions -/
@[inline] def ch (x y z : UInt32) : UInt32 := (x &&& y) ^^^ (~~~x &&& z)
@[inline] def maj (x y z : UInt32) : UInt32 := (x &&& y) ^^^ (x &&& z) ^^^ (y &&& z)
@[inline] def bsig0 (x : UInt32) : UInt32 := rotr32 x 2 ^^^ rotr32 x 13 ^^^ rotr32 x 22
@[inline] def bsig1 (x : UInt32) : UInt32 := rotr32 x 6 ^^^ rotr32 x 11 ^^^ rotr32 x 25
@[inline] def ssig0 (x : UInt32) : UInt32 := rotr32 x 7 ^^^ rotr32 x 18 ^^^ (x >>> 3)
@[inline] def ssig1 (x : UInt32) : UInt32 := rotr32 x 17 ^^^ rotr32 x 19 ^^^ (x >>> 10)

/-- §6.2.2 step 1: the message schedule `W_0 .. W_63` of the block `M[off .. off+16)` -/
def schedule (M : Array UInt32) (off : Nat) : Array UInt32 := Id.run do
  let mut W : Array UInt32 := Array.mkEmpty 64
  for t in [0:16] do
    W := W.push M[off + t]!
  for t in [16:64] do
    W := W.push (ssig1 W[t - 2]! + W[t - 7]! + ssig0 W[t - 15]! + W[t - 16]!)
  return W

/-- §6.2.2 steps 1–4: process one 512-bit block -/
def compress (H : Array UInt32) (M : Array UInt32) (off : Nat) : Array UInt32 := Id.run do
  let W := schedule M off
  let mut a := H[0]!
  let mut b := H[1]!
  let mut c := H[2]!
  let mut d := H[3]!
  let mut e := H[4]!
  let mut f := H[5]!
  let mut g := H[6]!
  let mut h := H[7]!
  for t in [0:64] do
    let T1 := h + bsig1 e + ch e f g + K[t]! + W[t]!
    let T2 := bsig0 a + maj a b c
    h := g
    g := f
    f := e
    e := d + T1
    d := c
    c := b
    b := a
    a := T1 + T2
  return #[a + H[0]!, b + H[1]!, c + H[2]!, d + H[3]!, e + H[4]!, f + H[5]!, g + H[6]!, h + H[7]!]

end Sha256

/-- SHA-256 of a byte string (32 bytes) -/
def sha256 (msg : Bytes) : Bytes :=
  let padded := mdPad (beFixed 8) msg
  let M := wordsOfBytes be32 padded (Array.mkEmpty (padded.length / 4))
  let H := mdIterate Sha256.compress Sha256.H0 M
  H.toList.flatMap bytesOfWordBE

end Btcdeb.Crypto
