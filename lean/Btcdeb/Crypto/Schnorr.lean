/-
  BIP340 Schnorr signatures over secp256k1 and the BIP341 x-only key tweak
  (`XOnlyPubKey::VerifySchnorr`, `CheckTapTweak`, `CreateTapTweak` in pubkey.cpp).
-/
import Btcdeb.Crypto.Secp256k1
import Btcdeb.Crypto.Hash

namespace Btcdeb.Crypto
open Btcdeb

/-! ## BIP340 -/

/-- `secp256k1_xonly_pubkey_parse`: 32 bytes, `x < P`, lifted to the point with even `y` -/
def parseXOnly (pk32 : Bytes) : Option Point :=
  if pk32.length ≠ 32 then none else liftX (bytesToNatBE pk32)

/-- `int(hash_{BIP0340/challenge}(bytes(R) ‖ bytes(P) ‖ m)) mod n` -/
def schnorrChallenge (r32 pk32 msg : Bytes) : Nat :=
  bytesToNatBE (taggedHash (strBytes "BIP0340/challenge") (r32 ++ pk32 ++ msg)) % N

/-- BIP340 `Verify(pk, m, sig)`; `pk32` must be 32 bytes and `sig64` 64 bytes, else false.
    - `P = lift_x(int(pk))`; fail if that fails
    - `r = int(sig[0:32])`; fail if `r ≥ p`;  `s = int(sig[32:64])`; fail if `s ≥ n`
    - `e = int(hash_{BIP0340/challenge}(bytes(r) ‖ bytes(P) ‖ m)) mod n`
    - `R = s·G − e·P`; fail if `R` is infinite, has odd `y`, or `x(R) ≠ r`. -/
def schnorrVerify (pk32 : Bytes) (msg : Bytes) (sig64 : Bytes) : Bool :=
  if sig64.length ≠ 64 then false
  else
    match parseXOnly pk32 with
    | none => false
    | some pk =>
      let r := bytesToNatBE (sig64.take 32)
      let s := bytesToNatBE (sig64.drop 32)
      if r ≥ P || s ≥ N then false
      else
        let e := schnorrChallenge (sig64.take 32) pk32 msg
        match pointMulAdd2 s G (N - e) pk with
        | .infinity => false
        | .affine x y => y % 2 = 0 && x = r

/-- byte-wise xor of two equally long strings -/
def xorBytes (a b : Bytes) : Bytes := List.zipWith (· ^^^ ·) a b

/-- BIP340 default signing `Sign(sk, m)` with auxiliary randomness `aux32`; 64 bytes.
    Returns the empty string where the algorithm fails (`sk = 0`, `sk ≥ n`, or nonce `k' = 0`). -/
def schnorrSign (sk : Nat) (msg : Bytes) (aux32 : Bytes) : Bytes :=
  if sk = 0 || sk ≥ N then []
  else
    match pointMul sk G with
    | .infinity => []
    | .affine px py =>
      let d := if py % 2 = 0 then sk else N - sk
      let pk32 := natToBytesBE 32 px
      let t := xorBytes (natToBytesBE 32 d) (taggedHash (strBytes "BIP0340/aux") aux32)
      let rand := taggedHash (strBytes "BIP0340/nonce") (t ++ pk32 ++ msg)
      let k' := bytesToNatBE rand % N
      if k' = 0 then []
      else
        match pointMul k' G with
        | .infinity => []
        | .affine rx ry =>
          let k := if ry % 2 = 0 then k' else N - k'
          let r32 := natToBytesBE 32 rx
          let e := schnorrChallenge r32 pk32 msg
          r32 ++ natToBytesBE 32 ((k + e * d) % N)

/-! ## Taproot tweak -/

/-- `secp256k1_ec_pubkey_tweak_add_helper` on an x-only key: `lift_x(p) + t·G`;
    `none` if the key is invalid, `t ≥ N`, or the sum is the point at infinity. -/
def xonlyTweakAdd (p32 t32 : Bytes) : Option Point :=
  match parseXOnly p32 with
  | none => none
  | some p =>
    let t := bytesToNatBE t32
    if t32.length ≠ 32 || t ≥ N then none
    else
      match pointMulAdd2 1 p t G with
      | .infinity => none
      | q => some q

/-- `secp256k1_xonly_pubkey_tweak_add_check` as used by `XOnlyPubKey::CheckTapTweak`: internal key
    `p32` (x-only, lifted with even y; invalid → false), tweak `t32` (big-endian scalar; `t ≥ N` →
    false); checks that `p + t·G` is not infinity, has `x = q32` and `y` parity `= parity`. -/
def xonlyTweakAddCheck (q32 : Bytes) (parity : Bool) (p32 : Bytes) (t32 : Bytes) : Bool :=
  match xonlyTweakAdd p32 t32 with
  | none => false
  | some q => xonlyBytes q == q32 && q.hasOddY == parity

/-- `XOnlyPubKey::ComputeTapTweakHash`: `hash_{TapTweak}(p ‖ merkle_root)`, or `hash_{TapTweak}(p)`
    when there is no script tree -/
def tapTweakHash (p32 : Bytes) (merkleRoot32 : Option Bytes) : Bytes :=
  taggedHash (strBytes "TapTweak") (p32 ++ merkleRoot32.getD [])

/-- `XOnlyPubKey::CheckTapTweak`: tweak = `taggedHash "TapTweak" (p32 ++ merkleRoot32)` -/
def checkTapTweak (q32 p32 merkleRoot32 : Bytes) (parity : Bool) : Bool :=
  xonlyTweakAddCheck q32 parity p32 (tapTweakHash p32 (some merkleRoot32))

/-- `XOnlyPubKey::CreateTapTweak`: tweak an internal x-only key; returns the output key (x-only,
    32 bytes) and the parity of its `y`, or `none` if the key is invalid or the tweak fails. -/
def createTapTweak (p32 : Bytes) (merkleRoot32 : Option Bytes) : Option (Bytes × Bool) :=
  match xonlyTweakAdd p32 (tapTweakHash p32 merkleRoot32) with
  | none => none
  | some q => some (xonlyBytes q, q.hasOddY)

end Btcdeb.Crypto
