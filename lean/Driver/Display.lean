/-
  DISPLAY <sigver> <flags> <z> <weight|-> <script hex> <stack items> <successor hex|-> <ops>
  (the arguments of SESSION, Driver/Session.lean)   <ops>: string over
     s step   r rewind   S `stack`   A `altstack`   V `vfexec`   R `print_stack(env->stack, true)`

  Answer: one token per op, separated by blanks (`-` for no op at all): `s+` `s-` `s!` `r+` `r-`, and for a display op
  `S=` / `A=` / `V=` / `R=` followed by the text, escaped as harness/cmd_display.inc does.

  model voice: the session of Btcdeb/Model/Session.lean (`fnStep`, `instRewind`), the texts of Btcdeb/Model/Display.lean.
  spec  voice: NO model state.  The specification's evaluation of the script (`Spec.evalScript`: the state after every
               operation and the outcome) is computed once; a session is a position in that trace — a step moves
               forward when the rules have a next state (one more for the end of the script, when it ended well and
               balanced), a rewind moves back — and a display op renders the SPECIFICATION's state at the position with
               Btcdeb/Spec/Display.lean.  A scriptPubKey that follows (successor) is evaluated on the stack the first
               script left, with a fresh alt stack and nesting, when the first one has ended; rewinding does not go
               back across the hand-over.  Sessions whose script has the pay-to-script-hash shape under the P2SH flag
               are not C01's (one script); the spec voice answers `N/A` for them.
-/
import Btcdeb
import Driver.Session
open Btcdeb
namespace Driver

def hex2 (n : Nat) : String := String.ofList [hexDigit (n / 16), hexDigit (n % 16)]

def escChar (c : Char) : String :=
  if c == '\\' then "\\\\"
  else if c == '\n' then "\\n"
  else if c == '\t' then "\\t"
  else if c == ' ' then "\\s"
  else if c.toNat < 0x21 || c.toNat > 0x7e then "\\x" ++ hex2 (c.toNat % 256)
  else String.singleton c

def escText (t : List Char) : String := String.join (t.map escChar)

def joinToks (acc : List String) : String := if acc.isEmpty then "-" else " ".intercalate acc.reverse

-- model voice -----------------------------------------------------------------------------------------------------

def displayModel : List Char → Model.IEnv → List String → String
  | [], _, acc => joinToks acc
  | c :: cs, e, acc =>
    if c == 's' then
      if e.done then displayModel cs e ("s-" :: acc)
      else
        let r := Model.fnStep baseCtx baseTap e
        if r.2 then displayModel cs r.1 ("s+" :: acc) else displayModel cs e ("s!" :: acc)
    else if c == 'r' then
      match Model.instRewind e with
      | some e' => displayModel cs e' ("r+" :: acc)
      | none => displayModel cs e ("r-" :: acc)
    else if c == 'S' then displayModel cs e (("S=" ++ escText (Model.fnStack e)) :: acc)
    else if c == 'A' then displayModel cs e (("A=" ++ escText (Model.fnAltstack e)) :: acc)
    else if c == 'V' then displayModel cs e (("V=" ++ escText (Model.fnVfexec e)) :: acc)
    else if c == 'R' then displayModel cs e (("R=" ++ escText (Model.pipeResult e)) :: acc)
    else displayModel cs e acc

-- spec voice ------------------------------------------------------------------------------------------------------

/-- a session as the specification sees it: the states the rules prescribe for the current script (initial state
    first), whether the script ends well, where the session stands -/
structure SpecSess where
  states : Array Spec.St
  ok : Bool
  pos : Nat := 0
  done : Bool := false
  next : Option Bytes := none

def specSess (cfg : Spec.Cfg) (script : Bytes) (st0 : Spec.St) (next : Option Bytes) : SpecSess :=
  let t := Spec.evalScript cfg script st0
  { states := ({ st0 with codeFrom := script } :: t.states).toArray,
    ok := match t.result with | .ok _ => true | .error _ => false,
    done := script.isEmpty && next.isNone, next := next }

def SpecSess.cur (s : SpecSess) : Spec.St := s.states.getD s.pos {}

def displaySpec (cfg : Spec.Cfg) : List Char → SpecSess → List String → String
  | [], _, acc => joinToks acc
  | c :: cs, s, acc =>
    if c == 's' then
      if s.done then displaySpec cfg cs s ("s-" :: acc)
      else if s.pos + 1 < s.states.size then displaySpec cfg cs { s with pos := s.pos + 1 } ("s+" :: acc)
      else if !s.ok then displaySpec cfg cs s ("s!" :: acc)
      else match s.next with
        | none => displaySpec cfg cs { s with done := true } ("s+" :: acc)
        | some sc =>
          -- the scriptPubKey starts on the stack that is there, with a fresh alt stack and nesting
          let st0 : Spec.St := { s.cur with alt := [], cond := [], opCount := 0 }
          match (Spec.evalScript cfg sc st0).result with
          | .error .SCRIPT_SIZE => displaySpec cfg cs s ("s!" :: acc)
          | _ => displaySpec cfg cs (specSess cfg sc st0 none) ("s+" :: acc)
    else if c == 'r' then
      if s.pos == 0 then displaySpec cfg cs s ("r-" :: acc)
      else if s.done then displaySpec cfg cs { s with done := false } ("r+" :: acc)
      else displaySpec cfg cs { s with pos := s.pos - 1 } ("r+" :: acc)
    else if c == 'S' then displaySpec cfg cs s (("S=" ++ escText (Spec.showStack s.cur.stack)) :: acc)
    else if c == 'A' then displaySpec cfg cs s (("A=" ++ escText (Spec.showStack s.cur.alt)) :: acc)
    else if c == 'V' then displaySpec cfg cs s (("V=" ++ escText (Spec.showCond s.cur.cond)) :: acc)
    else if c == 'R' then displaySpec cfg cs s (("R=" ++ escText (Spec.showRaw s.cur.stack)) :: acc)
    else displaySpec cfg cs s acc

def p2shShape (c : RunCfg) (s : Bytes) : Bool :=
  c.sigver == .BASE && c.flags % 2 == 1 && Model.isPayToScriptHash s

def cmdDisplay (spec : Bool) (a : List String) : String :=
  match parseSession a with
  | none => "bad-op"
  | some (c, succ, ops) =>
    let cs := if ops == "-" then [] else ops.toList
    if spec then
      if p2shShape c c.script || p2shShape c succ then "N/A"
      else if !Spec.inDomain 0xba c.script then "REFUSED:invalid-script"
      else if c.sigver == .TAPSCRIPT && Spec.hasOpSuccess c.z c.script then "REFUSED:op-success"
      else if !succ.isEmpty && hasFlag c.flags Flag.SIGPUSHONLY && !Model.isPushOnly c.script then "REFUSED:sig-pushonly"
      else
        let cfg := specCfg c
        match (Spec.evalScript cfg c.script (specInit c)).result with
        | .error .SCRIPT_SIZE => "REFUSED:script-size"
        | _ => displaySpec cfg cs (specSess cfg c.script (specInit c) (if succ.isEmpty then none else some succ)) []
    else
      match setupModelS c succ with
      | .error r => r
      | .ok e0 => displayModel cs e0 []

end Driver
