/-
  Driver side of the RUN protocol: executes a script on the model (stepping, run-to-completion) and on
  the specification, printing the same canonical line as harness/harness.cpp.
-/
import Btcdeb
open Btcdeb

namespace Driver

def hex16 (u : UInt64) : String :=
  let n := u.toNat
  String.ofList ((List.range 16).map (fun i => hexDigit ((n / 16 ^ (15 - i)) % 16)))

def joinItems (st : List Bytes) : String := ",".intercalate (st.map toHex)

/-- conditional nesting: depth and position of the first false level, outermost level = 0 -/
def condBits (bs : List Bool) : String :=
  let ff := bs.findIdx? (fun b => !b)
  s!"{bs.length}:" ++ (match ff with | some i => toString i | none => "-")

/-- canonical observable state: stack bottom→top | alt stack bottom→top | condition levels outermost→innermost -/
def obsModel (e : Model.IEnv) : String :=
  joinItems e.see.stack ++ "|" ++ joinItems e.see.altstack ++ "|" ++ condBits e.see.cond.toList ++
    s!"|{e.see.nOpCount}:{e.see.execdata.codesepPos}:" ++ (if e.see.execdata.weightInit then toString e.see.execdata.weightLeft else "-")

def obsSpec (st : Spec.St) : String :=
  joinItems st.stack.reverse ++ "|" ++ joinItems st.alt.reverse ++ "|" ++ condBits st.cond.reverse ++
    s!"|{st.opCount}:{st.codesepPos}:" ++ (if st.weightInit then toString st.weightLeft else "-")

def hashChain (obs : List String) : String :=
  hex16 (obs.foldl (fun h o => fnvStr h (hex16 (fnvStr fnvInit o))) fnvInit)

def glueCheckLowS (sig : Bytes) : Bool := Crypto.checkLowS sig
def glueCheckTapTweak (q p k : Bytes) (parity : Bool) : Bool := Crypto.checkTapTweak q p k parity

/-- `BaseSignatureChecker` + real hash functions: the instance the theorems are about (`C01_trace_base`) -/
def baseCtx : Model.Ctx := Glue.baseCtx

def baseTap : Model.TapCtx := Glue.tapCtx

/-- the specification's oracle for plain scripts -/
def baseOracle : Spec.SigOracle := Glue.baseOracle

structure RunCfg where
  sigver : SigVersion
  flags : Nat
  z : Bool
  weight : Option Int
  script : Bytes
  stack : List Bytes

def parseItems (s : String) : Option (List Bytes) :=
  if s == "-" then some []
  else (s.splitOn ",").mapM (fun p => if p.isEmpty || p == "_" then some [] else ofHex p)

def parseIntD (s : String) : Option Int :=
  if s.startsWith "-" then (s.drop 1).toNat?.map (fun n => -(n : Int)) else s.toNat?.map (fun n => (n : Int))

def parseRun (a : List String) : Option RunCfg :=
  match a with
  | sv :: fl :: z :: w :: sc :: rest =>
    match sv.toNat?.bind SigVersion.ofNat?, fl.toNat?, ofHex sc, parseItems (rest.headD "-") with
    | some sv, some fl, some sc, some items =>
      some { sigver := sv, flags := fl, z := z == "1", weight := if w == "-" then none else parseIntD w,
             script := sc, stack := items }
    | _, _, _, _ => none
  | _ => none

def errStr : Model.StepErr → String
  | .script e => s!"ERR:{e.code}"
  | .exc _ => "EXC"
  | .abnormal k => s!"ABNORMAL:{k}"

/-- `Instance::parse_script` + `setup_environment` -/
def setupModel (c : RunCfg) : Except String Model.IEnv :=
  if !Model.hasValidOps c.script then .error "REFUSED:invalid-script"
  else
    let ed : Model.ExecData := match c.weight with
      | some w => { weightLeft := w, weightInit := true, annexInit := true, tapleafHashInit := true }
      | none => {}
    match Model.setupEnvironment c.stack c.script c.flags c.sigver [] c.z ed none [] [] with
    | .error e => .error s!"REFUSED:{e.code}"
    | .ok e => .ok e

def stepLoop : Nat → Model.IEnv → List String → List String × Model.IEnv × Option Model.StepErr
  | 0, e, acc => (acc.reverse, e, none)
  | fuel + 1, e, acc =>
    if e.done then (acc.reverse, e, none)
    else match Model.instStep baseCtx baseTap e with
      | .ok e' => stepLoop fuel e' (obsModel e' :: acc)
      | .error err => (acc.reverse, e, some err)

def specCfg (c : RunCfg) : Spec.Cfg :=
  { flags := c.flags, sigversion := c.sigver, allowDisabled := c.z, oracle := baseOracle }

def specInit (c : RunCfg) : Spec.St :=
  { stack := c.stack.reverse, weightLeft := c.weight.getD 0, weightInit := c.weight.isSome }

def specResultStr (t : Spec.Trace) : String :=
  match t.result with
  | .ok _ => "OK"
  | .error e => s!"ERR:{e.code}"

def specEvalField (c : RunCfg) : String :=
  let t := Spec.evalScript (specCfg c) c.script (specInit c)
  match t.result with
  | .ok st => "OK/" ++ joinItems st.stack.reverse
  | .error e => s!"ERR:{e.code}/-"

def traceField (verbose : Bool) (obs : List String) : String :=
  if verbose then " trace=" ++ String.join (obs.map (fun o => " {" ++ o ++ "}")) else ""

def cmdRun (spec : Bool) (verbose : Bool) (a : List String) : String :=
  match parseRun a with
  | none => "bad-op"
  | some c =>
    let evalF := ""
    if spec then
      -- what Bitcoin's rules prescribe, in the same line format
      if !Spec.inDomain 0xba c.script then "REFUSED:invalid-script"
      -- BIP342: a tapscript containing an OP_SUCCESSx opcode is not executed at all; a debugger must refuse it
      else if c.sigver == .TAPSCRIPT && Spec.hasOpSuccess c.z c.script then "REFUSED:op-success"
      else
        let t := Spec.evalScript (specCfg c) c.script (specInit c)
        match t.result with
        | .error .SCRIPT_SIZE => s!"REFUSED:{ScriptError.SCRIPT_SIZE.code}"
        | _ =>
          -- the debugger's end-of-script step (it only exists for a non-empty script) shows the final state once more
          let obs := t.states.map obsSpec ++ (match t.result with
            | .ok st => if c.script.isEmpty then [] else [obsSpec st]
            | .error _ => [])
          let fin := match t.result with
            | .ok st => obsSpec st
            | .error _ => "-"
          let r := specResultStr t
          let done := match t.result with | .ok _ => "1" | .error _ => "0"
          s!"steps={obs.length} hs={hashChain obs} end={r} final={fin} done={done}" ++ traceField verbose obs ++
            s!" cont={r}/{fin}" ++ evalF
    else
      match setupModel c with
      | .error r => r
      | .ok e0 =>
        let (obs, eEnd, err) := stepLoop (Model.continueFuel e0) e0 []
        let endS := match err with | none => "OK" | some x => errStr x
        let fin := match err with | none => obsModel eEnd | some _ => "-"
        let done := match err with | none => "1" | some _ => "0"
        let contS := match Model.continueScript baseCtx baseTap (Model.continueFuel e0) e0 with
          | .ok e' => "OK/" ++ obsModel e'
          | .error x => errStr x ++ "/-"
        s!"steps={obs.length} hs={hashChain obs} end={endS} final={fin} done={done}" ++ traceField verbose obs ++
          s!" cont={contS}" ++ evalF

end Driver
