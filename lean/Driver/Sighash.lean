/-
  SIGHASH / PRECOMP / CHECKSIGTX / CHECKLOCK / INSTTXDATA: the transaction signature digests and the transaction
  signature checker, printed like harness/cmd_sighash.inc.

  model mode: `Btcdeb/Model/Sighash.lean` (a mirror of the C++).
  spec mode:  `Btcdeb/Spec/Sighash.lean` (the digests as the original algorithm / BIP143 / BIP341+342 define them).  The
              specification has no caches, readiness flags or assertions; where the hypotheses of the theorems in
              `BtcdebProofs/Properties/Sighash.lean` do not hold (input index out of range, data not ready, execution data
              not initialised, script code that does not decode) the spec mode answers `N/A`.
-/
import Btcdeb
import Btcdeb.Model.Sighash
import Btcdeb.Spec.Sighash
import Driver.Run
open Btcdeb
namespace Driver

def sghTx (hex : String) : Option Model.Tx :=
  (Model.parseTxHex hex.toUTF8.toList).map (·.1)

def sghSpent (s : String) : Option (List Model.TxOut) :=
  if s == "-" then some []
  else (s.splitOn ",").mapM (fun item =>
    match item.splitOn ":" with
    | [v, h] =>
      match parseIntD v, (if h.isEmpty then some [] else ofHex h) with
      | some v, some spk => some ({ value := v, scriptPubKey := spk } : Model.TxOut)
      | _, _ => none
    | _ => none)

def sghCr : Model.SigCrypto := Model.stdCrypto

/-- `N` = `PrecomputedTransactionData()`, `I0` / `I1` = `Init(tx, spent, false / true)` -/
def sghTxData (tx : Model.Tx) (spent : List Model.TxOut) (init : String) : Option (Model.M Model.PrecomputedTxData) :=
  if init == "N" then some (.ok {})
  else if init == "I0" then some (Model.precomputeInit sghCr tx spent false)
  else if init == "I1" then some (Model.precomputeInit sghCr tx spent true)
  else none

def sghExecData (annex : Bytes) (annexGiven : Bool) (codesep : Nat) (leaf : Option Bytes) (edflags : Nat) : Model.ExecData :=
  { annexInit := edflags % 2 == 1
    annexPresent := annexGiven
    annexHash := if annexGiven then Crypto.sha256 (Model.serVarBytes annex) else []
    codesepPosInit := edflags / 2 % 2 == 1
    codesepPos := codesep
    tapleafHashInit := leaf.isSome
    tapleafHash := leaf.getD [] }

def sghErr : Model.StepErr → String
  | .script e => s!"ERR:{e.code}"
  | .exc w => s!"EXC:{w}"
  | .abnormal _ => "ABORT"

def sghOh (o : Option Bytes) : String := match o with | some h => toHex h | none => "-"

/-- closed form of "Init makes the BIP341 data and the spent outputs ready" (theorem `precomputeInit_ready`) -/
def sghTapReady (tx : Model.Tx) (spent : List Model.TxOut) (init : String) : Bool :=
  init != "N" && !spent.isEmpty && spent.length == tx.vin.length &&
    (init == "I1" || (tx.vin.zip spent).any (fun p => !p.1.witness.isEmpty && Model.looksTaproot p.2))

def sghExt (sv : SigVersion) (leaf : Option Bytes) (codesep : Nat) : Option (Option Spec.TapExt) :=
  match sv, leaf with
  | .TAPROOT, _ => some none
  | .TAPSCRIPT, some l => some (some { leafHash := l, codesepPos := codesep })
  | _, _ => none

structure SghArgs where
  tx : Model.Tx
  nIn : Nat
  amount : Int
  spent : List Model.TxOut
  init : String
  annex : Option Bytes
  codesep : Nat
  leaf : Option Bytes
  edflags : Nat
  sv : SigVersion

def sghOptHex (s : String) : Option (Option Bytes) :=
  if s == "-" then some none else (ofHex s).map some

def cmdSighash (spec : Bool) (a : List String) : String :=
  match a with
  | [kind, txh, nIn, ht, amount, sc, spent, init, annex, codesep, leaf, edflags, sv] =>
    match sghTx txh with
    | none => "bad-tx"
    | some tx =>
      match nIn.toNat?, ht.toNat?, parseIntD amount, ofHex sc, sghSpent spent, sghOptHex annex, codesep.toNat?,
            sghOptHex leaf, edflags.toNat?, sv.toNat?.bind SigVersion.ofNat? with
      | some nIn, some ht, some amount, some sc, some spent, some annex, some codesep, some leaf, some edflags, some sv =>
        match sghTxData tx spent init with
        | none => "bad-op"
        | some (.error e) => sghErr e
        | some (.ok txdata) =>
          if kind == "legacy" || kind == "v0" then
            if spec then
              if nIn ≥ tx.vin.length then "N/A"
              else if sv == .WITNESS_V0 then toHex (Spec.bip143Digest Crypto.sha256 sc tx nIn ht amount)
              else if (Spec.decode sc).isNone then "N/A"
              else toHex (Spec.legacyDigest Crypto.sha256 sc tx nIn ht)
            else
              match Model.signatureHash sghCr sc tx nIn ht amount sv txdata with
              | .ok h => toHex h
              | .error e => sghErr e
          else if kind == "tap" then
            let ht := ht % 256
            if spec then
              match sghExt sv leaf codesep with
              | none => "N/A"
              | some ext =>
                if nIn ≥ tx.vin.length || !sghTapReady tx spent init || edflags != 3 then "N/A"
                else if decide (Spec.bip341Defined tx nIn ht) then
                  toHex (Spec.bip341Digest Crypto.sha256 tx nIn ht spent annex ext) ++ " oh=" ++
                    (if ht % 4 == 3 then sghOh ((tx.vout[nIn]?).map (fun o => Crypto.sha256 (Spec.encodeOut o))) else "-")
                else "FAIL oh=-"
            else
              let ed := sghExecData (annex.getD []) annex.isSome codesep leaf edflags
              match Model.schnorrSighashM sghCr ed tx nIn ht sv txdata .fail with
              | .ok (some h, oh) => toHex h ++ " oh=" ++ sghOh oh
              | .ok (none, oh) => "FAIL oh=" ++ sghOh oh
              | .error e => sghErr e
          else "bad-op"
      | _, _, _, _, _, _, _, _, _, _ => "bad-op"
  | _ => "bad-op"

def sghTxDataLine (d : Model.PrecomputedTxData) : String :=
  let b := fun (x : Bool) => if x then "1" else "0"
  s!"r143={b d.bip143SegwitReady} r341={b d.bip341TaprootReady} rspent={b d.spentOutputsReady} nspent={d.spentOutputs.length}"

def cmdPrecomp (spec : Bool) (a : List String) : String :=
  match a with
  | [txh, spent, force] =>
    match sghTx txh, sghSpent spent with
    | some tx, some spent =>
      let force := force == "1"
      if spec then
        -- the statement of `precomputeInit_ready` / `precomputeInit_coherent`, evaluated
        if !spent.isEmpty && spent.length != tx.vin.length then "N/A"
        else
          let sha := Crypto.sha256
          let rspent := !spent.isEmpty
          let wit := fun (p : Model.TxIn × Option Model.TxOut) => !p.1.witness.isEmpty
          let tap := fun (p : Model.TxIn × Option Model.TxOut) => rspent && (match p.2 with | some o => Model.looksTaproot o | none => false)
          let pairs := tx.vin.zipIdx.map (fun p => (p.1, spent[p.2]?))
          let r143 := force || pairs.any (fun p => wit p && !tap p)
          let r341 := force || pairs.any (fun p => wit p && tap p)
          let z := toHex Spec.zeros32
          let s1 := if r143 || r341 then [toHex (sha (tx.vin.map (fun i => Spec.encodeOutPoint i.prevout)).flatten),
                                          toHex (sha (tx.vin.map (fun i => leFixed 4 i.sequence)).flatten),
                                          toHex (sha (tx.vout.map Spec.encodeOut).flatten)] else [z, z, z]
          let s2 := if r341 then [toHex (sha (spent.map (fun o => leFixed 8 (Spec.twos 64 o.value))).flatten),
                                  toHex (sha (spent.map (fun o => Spec.encodeBytes o.scriptPubKey)).flatten)] else [z, z]
          let d := if r143 then [toHex (sha (sha (tx.vin.map (fun i => Spec.encodeOutPoint i.prevout)).flatten)),
                                 toHex (sha (sha (tx.vin.map (fun i => leFixed 4 i.sequence)).flatten)),
                                 toHex (sha (sha (tx.vout.map Spec.encodeOut).flatten))] else [z, z, z]
          let b := fun (x : Bool) => if x then "1" else "0"
          s!"r143={b r143} r341={b r341} rspent={b rspent} nspent={spent.length} single={",".intercalate (s1 ++ s2)} double={",".intercalate d}"
      else
        match Model.precomputeInit sghCr tx spent force with
        | .error e => sghErr e
        | .ok d =>
          sghTxDataLine d ++ " single=" ++ ",".intercalate ([d.prevoutsSingleHash, d.sequencesSingleHash, d.outputsSingleHash,
              d.spentAmountsSingleHash, d.spentScriptsSingleHash].map toHex)
            ++ " double=" ++ ",".intercalate ([d.hashPrevouts, d.hashSequence, d.hashOutputs].map toHex)
    | _, _ => "bad-op"
  | _ => "bad-op"

def cmdChecksigTx (spec : Bool) (a : List String) : String :=
  match a with
  | [which, txh, nIn, amount, spent, init, sv, sig, key, sc, annex, codesep, leaf, edflags] =>
    match sghTx txh with
    | none => "bad-tx"
    | some tx =>
      match nIn.toNat?, parseIntD amount, sghSpent spent, sv.toNat?.bind SigVersion.ofNat?, ofHex sig, ofHex key, ofHex sc,
            sghOptHex annex, codesep.toNat?, sghOptHex leaf, edflags.toNat? with
      | some nIn, some amount, some spent, some sv, some sig, some key, some sc, some annex, some codesep, some leaf, some edflags =>
        match sghTxData tx spent init with
        | none => "bad-op"
        | some (.error e) => sghErr e
        | some (.ok txdata) =>
          if which == "E" then
            if spec then
              if nIn ≥ tx.vin.length then "N/A"
              else if sv != .WITNESS_V0 && (Spec.decode sc).isNone then "N/A"
              else if Spec.ecdsaSigValid Crypto.sha256 Crypto.ecdsaVerify tx nIn amount sig key sc sv then "1" else "0"
            else
              match Model.checkECDSASignatureM sghCr tx nIn amount txdata .fail sig key sc sv with
              | .ok true => "1"
              | .ok false => "0"
              | .error e => sghErr e
          else if which == "S" then
            if spec then
              match sghExt sv leaf codesep with
              | none => "N/A"
              | some ext =>
                if nIn ≥ tx.vin.length || !sghTapReady tx spent init || edflags != 3 || key.length != 32 then "N/A"
                else match Spec.schnorrSigValid Crypto.sha256 Crypto.schnorrVerify tx nIn spent annex ext sig key with
                  | .ok () => "1"
                  | .error e => s!"ERR:{e.code}"
            else
              let ed := sghExecData (annex.getD []) annex.isSome codesep leaf edflags
              match Model.checkSchnorrSignatureM sghCr tx nIn txdata .fail sig key sv ed with
              | .ok () => "1"
              | .error e => sghErr e
          else "bad-op"
      | _, _, _, _, _, _, _, _, _, _, _ => "bad-op"
  | _ => "bad-op"

def cmdChecklock (spec : Bool) (a : List String) : String :=
  match a with
  | [which, txh, nIn, v] =>
    match sghTx txh, nIn.toNat?, parseIntD v with
    | some tx, some nIn, some v =>
      if nIn ≥ tx.vin.length then "PRECONDITION"
      else
        let b := fun (x : Bool) => if x then "1" else "0"
        if which == "L" then b (if spec then Spec.bip65Satisfied tx nIn v else Model.checkLockTimeTx tx nIn v)
        else if which == "S" then
          if spec then (if v < 0 then "N/A" else b (Spec.bip112Satisfied tx nIn v.toNat))
          else b (Model.checkSequenceTx tx nIn v)
        else "bad-op"
    | _, _, _ => "bad-op"
  | _ => "bad-op"

/-- The part of `Instance::parse_input_transaction` / `configure_tx_txin` that `txdata` depends on, for the output types the
    check generates (native P2WPKH, P2WSH, P2TR key path and script path, anything else legacy): the selected input, the
    spent output and `has_preamble`.  (The full model of that function belongs to the session subsystem.) -/
def cmdInstTxData (spec : Bool) (a : List String) : String :=
  match a with
  | [txh, txinh] =>
    match sghTx txh, sghTx txinh with
    | some tx, some txin =>
      let txid := Model.txHash Crypto.hash256 txin
      match tx.vin.findIdx? (fun i => i.prevout.hash == txid) with
      | none => "ERR parse_input_transaction"
      | some idx =>
        let inp := tx.vin.getD idx default
        match txin.vout[inp.prevout.n]? with
        | none => "ERR parse_input_transaction"
        | some o =>
          let spk := o.scriptPubKey
          let w := inp.witness
          let isTap := spk.length == 34 && Model.byteAt spk 0 == 0x51 && Model.byteAt spk 1 == 32
          let isWpkh := spk.length == 22 && Model.byteAt spk 0 == 0 && Model.byteAt spk 1 == 20
          let hasAnnex := w.length ≥ 2 && (match w.getLast? with | some (t :: _) => t.toNat == Gen.ANNEX_TAG | _ => false)
          let keyPath := isTap && (if hasAnnex then w.length - 1 else w.length) == 1
          let preamble := isWpkh || keyPath
          if spec then
            -- what BIP341 needs to be known to validate this input: every spent output.  One funding transaction supplies
            -- the spent output of one input, so the data is complete exactly for a single-input transaction.
            "N/A"
          else
            match Model.instanceTxData sghCr tx o preamble with
            | .error e => sghErr e
            | .ok d => s!"idx={idx} nvin={tx.vin.length} preamble={if preamble then 1 else 0} {sghTxDataLine d}"
    | _, _ => "ERR parse_transaction"
  | _ => "bad-op"

/-- `Instance::calc_sighash()` after `configure_tx_txin` as the `tap` tool calls it (hash type 0x00, code separator position
    0xffffffff), for the output types the check generates; the selected input / spent output / annex / leaf hash part of
    `configure_tx_txin` is re-stated here (its full model belongs to the session subsystem). -/
def cmdCalcSighash (spec : Bool) (a : List String) : String :=
  match a with
  | [txh, txinh] =>
    match sghTx txh, sghTx txinh with
    | some tx, some txin =>
      let txid := Model.txHash Crypto.hash256 txin
      match tx.vin.findIdx? (fun i => i.prevout.hash == txid) with
      | none => "ERR parse_input_transaction"
      | some idx =>
        let inp := tx.vin.getD idx default
        match txin.vout[inp.prevout.n]? with
        | none => "ERR parse_input_transaction"
        | some o =>
          let spk := o.scriptPubKey
          let w := inp.witness
          let isTap := spk.length == 34 && Model.byteAt spk 0 == 0x51 && Model.byteAt spk 1 == 32
          let isWpkh := spk.length == 22 && Model.byteAt spk 0 == 0 && Model.byteAt spk 1 == 20
          let hasAnnex := isTap && w.length ≥ 2 && (match w.getLast? with | some (t :: _) => t.toNat == Gen.ANNEX_TAG | _ => false)
          let annex : Option Bytes := if hasAnnex then w.getLast? else none
          let st := if hasAnnex then w.dropLast else w
          let keyPath := isTap && st.length == 1
          let preamble := isWpkh || keyPath
          -- script path: [.., script, control]
          let control := st.getLast?.getD []
          let script := st.dropLast.getLast?.getD []
          let leaf : Option Bytes :=
            if isTap && !keyPath then some (Model.Tce.init Glue.tapCtx control (spk.drop 2) script).leaf else none
          let sv : SigVersion := if isWpkh then .WITNESS_V0 else if isTap && !keyPath then .TAPSCRIPT else .TAPROOT
          if spec then
            if tx.vin.length != 1 || isWpkh then "N/A"
            else
              let ext : Option Spec.TapExt := leaf.map (fun l => { leafHash := l, codesepPos := 0xffffffff })
              toHex (Spec.bip341Digest Crypto.sha256 tx idx 0 [o] annex ext)
          else if tx.vin.length != 1 then "EXIT1"      -- Instance::calc_sighash refuses other input counts (diagnostic, exit 1)
          else
            match Model.calcSighashTxData sghCr tx o preamble with
            | .error e => sghErr e
            | .ok d =>
              let ed : Model.ExecData :=
                { annexInit := isTap, annexPresent := annex.isSome,
                  annexHash := (annex.map (fun x => Crypto.sha256 (Model.serVarBytes x))).getD [],
                  codesepPosInit := true, codesepPos := 0xffffffff, tapleafHashInit := leaf.isSome, tapleafHash := leaf.getD [] }
              match Model.schnorrSighashM sghCr ed tx idx 0 sv d .fail with
              | .ok (some h, _) => toHex h
              | .ok (none, _) => "EXIT1"
              | .error e => sghErr e
    | _, _ => "ERR parse_transaction"
  | _ => "bad-op"

end Driver
