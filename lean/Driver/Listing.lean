/-
  LISTING P <cmds> <flags> <z> <script hex> <stack items>                                 plain script session
  LISTING S <cmds> <--tx text hex> <--txin text hex> <select> <flags> <z> <--pretend-valid text hex|->   spend
  <cmds>: string over {s, r} (step, rewind); `-` for none; failed steps do not end the history (a leading `c`,
  once needed to ask for that, is accepted and ignored).

  Answer: `count=<n> list=<line;line;…> trace=<point> <point> …`, one point for the fresh session and one
  after every command: `<cmd><result><seq>/<pc offset>/<script length>/<done>=<marked line>=<echoed line>`
  (result: `+` performed, `-` refused, `!` failed; spaces inside lines shown as `~`; `-` = no line).

  model voice: `buildListing`, `markedLine`, `echoLine`, `fnStep`, `instRewind` (what the debugger does);
  spec  voice: `Spec.idealListing` (the execution-order decoding; the redeem script of a P2SH scriptPubKey
               is the one the session actually hands over to) and `Spec.pending` (the operation the next
               step performs), numbered by the number of plan lines already executed; a failed step
               leaves the session where it was.  After a scriptSig that is not push-only the hand-over to the
               redeem script cannot happen (BIP16); the section announced for it is then not constrained.
-/
import Btcdeb
import Driver.Run
import Driver.Spend
open Btcdeb
namespace Driver

def encLine (s : String) : String := String.ofList (s.toList.map (fun c => if c == ' ' then '~' else c))

structure LSession where
  env : Model.IEnv
  cx : Model.Ctx

def listingSession (a : List String) : Except String (LSession × String) :=
  match a with
  | "P" :: cmds :: fl :: z :: sc :: rest =>
    match fl.toNat?, ofHex sc, parseItems (rest.headD "-") with
    | some fl, some sc, some items =>
      if !Model.hasValidOps sc then .error "REFUSED"
      else match Model.setupEnvironment items sc fl .BASE [] (z == "1") {} none [] [] with
        | .error _ => .error "REFUSED"
        | .ok e => .ok ({ env := e, cx := Glue.baseCtx }, cmds)
    | _, _, _ => .error "bad-op"
  | "S" :: cmds :: rest =>
    match spendArgs rest with
    | none => .error "bad-op"
    | some args =>
      match Model.spendSetup hashCtx Glue.tapCtx vcx checkerBuilder args with
      | .error _ => .error "REFUSED"
      | .ok (.error _) => .error "REFUSED"
      | .ok (.ok s) => .ok ({ env := s.env, cx := s.cx }, cmds)
  | _ => .error "bad-op"

def stateStr (e : Model.IEnv) (seq : Int) : String :=
  s!"{seq}/{e.see.script.length - e.pc.length}/{e.see.script.length}/{if e.done then 1 else 0}"

-- ---------------------------------------------------------------------------------------------
-- model voice

def modelPoint (L : List Model.Line) (tag : String) (echo : Bool) (e : Model.IEnv) : String :=
  let marked := match Model.markedLine L e with
    | some l => encLine (l.render e.currOpSeq.toNat)
    | none => "-"
  let ech := if echo then (match Model.echoLine L e with | some s => encLine s | none => "-") else "-"
  s!"{tag}{stateStr e e.currOpSeq}={marked}={ech}"

def modelTrace (cx : Model.Ctx) (L : List Model.Line) (cont : Bool) : List Char → Model.IEnv → List String → List String
  | [], _, acc => acc.reverse
  | c :: cs, e, acc =>
    if c == 's' then
      if e.done then modelTrace cx L cont cs e (modelPoint L "s-" false e :: acc)
      else
        let (e', ok) := Model.fnStep cx Glue.tapCtx e
        modelTrace cx L cont cs e' (modelPoint L (if ok then "s+" else "s!") ok e' :: acc)
    else
      match Model.instRewind e with
      | some e' => modelTrace cx L cont cs e' (modelPoint L "r+" true e' :: acc)
      | none => modelTrace cx L cont cs e (modelPoint L "r-" false e :: acc)

def renderListing (L : List Model.Line) : String :=
  ";".intercalate ((List.range L.length).zip L |>.map (fun p => encLine (p.2.render p.1)))

-- ---------------------------------------------------------------------------------------------
-- spec voice

/-- the redeem script the session hands over to after a P2SH scriptPubKey, found by running it; when the
    session never gets there, the last data push of the scriptSig (BIP16) -/
def actualRedeem (cx : Model.Ctx) : Nat → Model.IEnv → Option Bytes
  | 0, _ => none
  | fuel + 1, e =>
    if e.done then none
    else if e.tce.isNone && e.pc.isEmpty && !e.isP2sh && !e.successor.isEmpty then
      (if Model.p2shPattern e.see.flags e.successor && Model.isPushOnly e.see.script then some (e.see.stack.getLast?.getD []) else none)
    else match Model.stepSession cx Glue.tapCtx e with
      | .ok e' => actualRedeem cx fuel e'
      | .error _ => none

def renderPlan (i : Nat) (l : Spec.PlanLine) : String :=
  if l.header then l.text else String.ofList (Model.numberPrefix i) ++ l.text

/-- what remains to be executed from state `e` -/
def remainingPlan (r : Bytes) (e : Model.IEnv) : List Spec.PlanLine :=
  if e.done then []
  else Spec.commitFuture e.tce ++ Spec.planFrom e.see.script.length e.pc.length e.pc ++
    -- after a scriptSig that was not push-only the hand-over to the redeem script cannot happen: the announced
    -- section stays listed and is never entered
    (if e.isP2sh && e.sigscriptExecuted && !e.sigscriptPushonly then Spec.handOverP2sh :: Spec.planOf r
     else Spec.tailFuture r e)

def specPoint (r : Bytes) (total : Nat) (tag : String) (echo : Bool) (e : Model.IEnv) : String :=
  let idx := total - (remainingPlan r e).length
  let marked := match Spec.pending e with
    | some l => encLine (renderPlan idx l)
    | none => "-"
  s!"{tag}{stateStr e idx}={marked}={if echo then marked else "-"}"

def specTrace (cx : Model.Ctx) (r : Bytes) (total : Nat) (cont : Bool) : List Char → Model.IEnv → List String → List String
  | [], _, acc => acc.reverse
  | c :: cs, e, acc =>
    if c == 's' then
      if e.done then specTrace cx r total cont cs e (specPoint r total "s-" false e :: acc)
      else match Model.stepSession cx Glue.tapCtx e with
        | .ok e' => specTrace cx r total cont cs e' (specPoint r total "s+" true e' :: acc)
        | .error _ =>
          -- nothing has been executed: the session is where it was
          specTrace cx r total cont cs e (specPoint r total "s!" false e :: acc)
    else
      match Model.instRewind e with
      | some e' => specTrace cx r total cont cs e' (specPoint r total "r+" true e' :: acc)
      | none => specTrace cx r total cont cs e (specPoint r total "r-" false e :: acc)

def cmdListing (spec : Bool) (a : List String) : String :=
  match listingSession a with
  | .error r => r
  | .ok (s, cmds) =>
    let cs0 := if cmds == "-" then [] else cmds.toList
    let cont := cs0.head? == some 'c'
    let cs := if cont then cs0.drop 1 else cs0
    let e0 := s.env
    if spec then
      let r := (actualRedeem s.cx (Model.continueFuel e0 + 8) e0).getD (Model.lastPayload e0.see.script)
      let L := Spec.idealListing r e0
      let lst := ";".intercalate ((List.range L.length).zip L |>.map (fun p => encLine (renderPlan p.1 p.2)))
      let tr := specTrace s.cx r L.length cont cs e0 [specPoint r L.length "i" true e0]
      s!"count={L.length} list={lst} trace=" ++ " ".intercalate tr
    else
      let L := Model.buildListing e0
      let tr := modelTrace s.cx L cont cs e0 [modelPoint L "i" true e0]
      s!"count={L.length} list={renderListing L} trace=" ++ " ".intercalate tr

end Driver
