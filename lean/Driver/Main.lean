import Btcdeb
import Driver.Run
import Driver.Gen
import Driver.Session
import Driver.Exec
import Driver.Value
import Driver.Extra
open Btcdeb

namespace Driver

def parseInt (s : String) : Option Int :=
  if s.startsWith "-" then (s.drop 1).toNat?.map (fun n => -(n : Int)) else s.toNat?.map (fun n => (n : Int))

/-- spec side of SN: Bitcoin's value of the string; minimal = "is the encoding of its value" -/
def specScriptNum (v : Bytes) (rm : Bool) (m : Nat) : Except Model.NumErr Int :=
  if v.length > m then .error .overflow
  else if rm && Model.serialize (Spec.numValue v) != v then .error .nonMinimal
  else .ok (Spec.numValue v)

def cmdSN (spec : Bool) (a : List String) : String :=
  match a with
  | [h, rm, mx] =>
    match ofHex h, mx.toNat? with
    | some v, some m =>
      match (if spec then specScriptNum v (rm == "1") m else Model.scriptNum v (rm == "1") m) with
      | .ok n => s!"ok {n} {Model.getint n} {toHex (Model.serialize n)}"
      | .error .overflow => "err overflow"
      | .error .nonMinimal => "err nonminimal"
    | _, _ => "bad-op"
  | _ => "bad-op"

def cmdSNENC (a : List String) : String :=
  match a with
  | [n] =>
    match parseInt n with
    | some v =>
      let e := Model.serialize v
      let back := if e.length ≤ 4 then
          match Model.scriptNum e false 4 with
          | .ok k => toString k
          | .error _ => "throw"
        else "-"
      s!"{toHex e} {toHex e} {toHex e} {back}"
    | none => "bad-op"
  | _ => "bad-op"

def u64OfInt (i : Int) : UInt64 := UInt64.ofInt i

def cmdSNSWEEP (a : List String) : String :=
  match a.map String.toNat? with
  | [some len, some lo, some hi] => Id.run do
    let mut h : UInt64 := fnvInit
    for k in [lo:hi] do
      let v := leFixed len k
      let (val, re) : Int × Bytes :=
        match Model.scriptNum v false 8 with
        | .ok n => (n, Model.serialize n)
        | .error _ => (-999, [])
      let minimal : UInt64 := match Model.scriptNum v true 8 with
        | .ok _ => 1
        | .error _ => 0
      h := (h ^^^ u64OfInt val) * 1099511628211
      h := (h ^^^ minimal) * 1099511628211
      h := (h ^^^ (if re == v then 1 else 0)) * 1099511628211
    return toString h.toNat
  | _ => "bad-op"

def dispatch (spec : Bool) (line : String) : String :=
  match line.trimAscii.toString.splitOn " " with
  | "SN" :: a => cmdSN spec a
  | "SNENC" :: a => cmdSNENC a
  | "SNSWEEP" :: a => cmdSNSWEEP a
  | "RUN" :: a => cmdRun spec false a
  | "RUNV" :: a => cmdRun spec true a
  | "EXEC" :: a => cmdExec spec a
  | "EXECF" :: a => cmdExecG true spec a
  | "SESSIONX" :: a => cmdSessionX a
  | ["TXPARSE", h] =>
    match ofHex h with
    | none => "bad-op"
    | some t =>
      if spec then
        -- specification: the text is the hex (white space allowed between bytes) of exactly one well-formed transaction encoding
        match Model.tryHex (Model.cstr t) with
        | none => "ERR"
        | some b =>
          match Model.parseTx b with
          | some (tx, []) => if decide (Spec.WellFormed tx) && Spec.encodeTx tx true == b then Model.txLine Crypto.hash256 (some (tx, 0)) else "ERR"
          | _ => "ERR"
      else Model.txLine Crypto.hash256 (Model.parseTxHex t)
  | ["AMOUNT", h] =>
    match ofHex h with
    | none => "bad-op"
    | some t =>
      let r := if spec then (match Spec.amountOf t with | some v => some v | none => Model.parseFixedPoint t 8) else Model.parseFixedPoint t 8
      match r with
      | some v => s!"OK {v}"
      | none => "ERR"
  | ["TXARG", h] =>
    match ofHex h with
    | none => "bad-op"
    | some t =>
      match Model.parseTransactionArg t with
      | none => "ERR"
      | some (amts, tx, n) => "OK amounts=" ++ ",".intercalate (amts.map toString) ++ " " ++ Model.txLine Crypto.hash256 (some (tx, n))
  | "BTCC" :: a => cmdBtcc spec a
  | "VALUE" :: a => cmdValue a
  | ["FLAGS", h] =>
    match ofHex h with
    | none => "bad-op"
    | some m =>
      let r := if spec then Spec.modifyFlags Gen.STANDARD_SCRIPT_VERIFY_FLAGS m else Model.parseFlags Gen.STANDARD_SCRIPT_VERIFY_FLAGS m
      match r with
      | none => "REJECT"
      | some f =>
        let names := if spec then (Flag.table.filter (fun p => f.testBit p.2)).map (fun p => (p.1.drop 14).toString)
                     else (Model.svfString f).getD ["?"]
        s!"OK {f} " ++ (if names.isEmpty then "(none)" else ",".intercalate names)
  | ["ERRSTR", n] => Gen.scriptErrString.getD n.toNat! "?"
  | "SESSION" :: a => cmdSession spec false a
  | "SESSIONF" :: a => cmdSessionG true spec false a
  | "SESSIONV" :: a => cmdSession spec true a
  | [""] => ""
  | w :: a =>
    match extraCmds.find? (fun p => p.1 == w) with
    | some (_, f) => f spec a
    | none => "bad-op"
  | _ => "bad-op"

partial def loop (spec : Bool) (h : IO.FS.Stream) (out : IO.FS.Stream) : IO Unit := do
  let line ← h.getLine
  if line.isEmpty then return ()
  out.putStrLn (dispatch spec line)
  loop spec h out

end Driver

def main (args : List String) : IO Unit := do
  let i ← IO.getStdin
  let o ← IO.getStdout
  match args with
  | ["gen", "run", seed, n, maxOps, z] =>
    for l in Driver.genRun seed.toNat! n.toNat! maxOps.toNat! (z == "1") do o.putStrLn l
  | ["spec"] => Driver.loop true i o
  | _ => Driver.loop false i o
  o.flush
