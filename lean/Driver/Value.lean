/-
  Driver side of BTCC / VALUE.
-/
import Btcdeb
import Driver.Run
open Btcdeb

namespace Driver

def vcx : Model.VCtx := { sha256 := Crypto.sha256, ripemd160 := Crypto.ripemd160 }

def wordsOf (a : List String) : Option (List Bytes) := a.mapM (fun w => if w.isEmpty then some [] else ofHex w)

def vmStr : Model.VErr → String
  | .exit1 m => if m.startsWith "UNMODELLED" then m else "EXIT1"
  | .abnormal k => s!"ABNORMAL:{k}"
  | .exc _ => "EXIT1"        -- every tool's main catches std::exception, prints it and returns 1

/-- the harness command VALUE constructs the value itself: an exception is reported as such -/
def vmStrRaw : Model.VErr → String
  | .exc w => s!"UNCAUGHT {w}"
  | e => vmStr e

def cmdBtcc (spec : Bool) (a : List String) : String :=
  match wordsOf a with
  | none => "bad-op"
  | some ws =>
    if spec then
      match Spec.readProgram ws with
      | none => "OUT-OF-GRAMMAR"
      | some toks => "OK " ++ toHex (Spec.compileToks toks)
    else
      match Model.btcc vcx ws with
      | .ok s => "OK " ++ toHex s
      | .error e => vmStr e

def typeName : Model.VType → String
  | .T_STRING => "str" | .T_INT => "int" | .T_DATA => "data" | .T_OPCODE => "op"

def cmdValue (a : List String) : String :=
  match wordsOf a with
  | some [text] | some (text :: _) =>
    match Model.valueOf vcx Model.valueDepthLimit text text.length with
    | .error e => vmStrRaw e
    | .ok v =>
      let base := s!"OK {typeName v.type} data={toHex v.dataValue} hex={Model.strOfBytes v.hexStr}"
      if v.type == .T_STRING then base
      else match v.intValue with
        | .ok i => base ++ s!" int={i}"
        | .error e => vmStrRaw e
  | some [] =>
    match Model.valueOf vcx Model.valueDepthLimit [] 0 with
    | .error e => vmStrRaw e
    | .ok v => s!"OK {typeName v.type} data={toHex v.dataValue} hex={Model.strOfBytes v.hexStr}" ++
        (if v.type == .T_STRING then "" else match v.intValue with | .ok i => s!" int={i}" | .error e => " " ++ vmStrRaw e)
  | none => "bad-op"

end Driver
