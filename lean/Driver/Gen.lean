/-
  Generators (driver gen <stream> <seed> <n> ...).  Every random choice derives from one splitmix64
  state.  The deep-execution stream uses the *specification's own step function* to keep generated
  scripts well-typed: with high probability it picks an instruction whose precondition holds in the
  current spec state.
-/
import Btcdeb
import Driver.Run
open Btcdeb

namespace Driver

def interestingNums : List Int :=
  [0, 1, -1, 2, 3, 5, 16, 17, 127, 128, -127, -128, 255, 256, -255, -256, 32767, 32768, 65535, 65536,
   2147483647, -2147483647, 2147483648, -2147483648, 4294967295, 549755813887, 1000, 500000000]

def rawInteresting : List Bytes :=
  [[], [0x80], [0x00], [0x01, 0x00], [0xff, 0x00], [0xff, 0x80], [0x00, 0x80], [0x81], [0x01], [0x10], [0x11],
   [0x00, 0x00, 0x00, 0x80], [0xff, 0xff, 0xff, 0x7f], [0xff, 0xff, 0xff, 0xff], [1, 2, 3, 4, 5], [0x00, 0x01]]

def randBytes (r : Rng) (n : Nat) : Bytes × Rng := Id.run do
  let mut r := r
  let mut out : Bytes := []
  for _ in [0:n] do
    let (v, r') := r.below 256
    r := r'
    out := UInt8.ofNat v :: out
  return (out, r)

def randValue (r : Rng) : Bytes × Rng :=
  let (k, r) := r.below 10
  if k < 5 then
    let (i, r) := r.below interestingNums.length
    (Model.serialize (interestingNums.getD i 0), r)
  else if k < 7 then
    let (i, r) := r.below rawInteresting.length
    (rawInteresting.getD i [], r)
  else if k < 9 then
    let (n, r) := r.below 6
    randBytes r n
  else
    let (n, r) := r.below 90
    randBytes r n

/-- encode a push of `d`; `form` 0 = the form btcdeb's own assembler would choose, other values force
    a (possibly non-minimal) PUSHDATA form -/
def encodePush (d : Bytes) (form : Nat) : Bytes :=
  if form == 1 && d.length ≤ 255 then 0x4c :: UInt8.ofNat d.length :: d
  else if form == 2 && d.length ≤ 65535 then 0x4d :: (leFixed 2 d.length ++ d)
  else if form == 3 then 0x4e :: (leFixed 4 d.length ++ d)
  else
    match d with
    | [] => [0x00]
    | [b] => if 1 ≤ b.toNat && b.toNat ≤ 16 && form == 0 then [UInt8.ofNat (0x50 + b.toNat)]
             else if b.toNat == 0x81 && form == 0 then [0x4f] else Model.pushData d
    | _ => Model.pushData d

/-- a candidate instruction, as script bytes -/
def randInstr (z : Bool) (r : Rng) : Bytes × Rng :=
  let (k, r) := r.below 100
  if k < 30 then
    let (v, r) := randValue r
    let (f, r) := r.below 12
    (encodePush v (if f < 9 then 0 else f - 8), r)
  else if k < 97 then
    let (o, r) := r.below (0xba - 0x4f + 1)
    let (o2, r) := r.below (0xba - 0x4f + 1)
    -- without --allow-disabled-opcodes a disabled opcode ends the script: draw again most of the time
    let o := if !z && Spec.disabled (Opcode.ofNat (0x4f + o)) then o2 else o
    ([UInt8.ofNat (0x4f + o)], r)
  else if k < 99 then
    let (o, r) := r.below 256
    ([UInt8.ofNat o], r)
  else
    let (n, r) := r.below 3
    let (d, r) := randBytes r (519 + n)
    (Model.pushData d, r)

/-- opcodes worth steering towards (they need specific shapes) -/
def controlBias : List Nat := [0x63, 0x64, 0x67, 0x68, 0x68, 0x6b, 0x6c, 0x76, 0x7c, 0x93, 0x94, 0x87, 0x9a, 0x79, 0x7a, 0x74, 0x82, 0xa8]

def specStepBytes (cfg : Spec.Cfg) (st : Spec.St) (instr : Bytes) (pos : Nat) : Option Spec.St :=
  match Spec.decodeWithRest instr with
  | some [(i, _)] =>
    match Spec.execInstr cfg i [] pos st with
    | .ok st' => some st'
    | .error _ => none
  | _ => none

/-- try up to `tries` candidates, return the first that executes successfully on the spec state -/
def pickValid (z : Bool) (cfg : Spec.Cfg) (st : Spec.St) (pos : Nat) : Nat → Rng → Option (Bytes × Spec.St) × Rng
  | 0, r => (none, r)
  | tries + 1, r =>
    let (b, r) := r.below 5
    let (instr, r) :=
      if b == 0 then
        let (i, r) := r.below controlBias.length
        ([UInt8.ofNat (controlBias.getD i 0x61)], r)
      else randInstr z r
    match specStepBytes cfg st instr pos with
    | some st' => (some (instr, st'), r)
    | none => pickValid z cfg st pos tries r

def genFlags (r : Rng) : Nat × Rng :=
  let (k, r) := r.below 10
  if k < 4 then (Gen.STANDARD_SCRIPT_VERIFY_FLAGS, r)
  else if k < 5 then (0, r)
  else if k < 7 then
    -- standard with one bit toggled
    let (b, r) := r.below 21
    (Gen.STANDARD_SCRIPT_VERIFY_FLAGS ^^^ (1 <<< b), r)
  else
    let (v, r) := r.next
    (v.toNat % (1 <<< 21), r)

def genSigver (r : Rng) : SigVersion × Rng :=
  let (k, r) := r.below 3
  ((match k with | 0 => .BASE | 1 => .WITNESS_V0 | _ => .TAPSCRIPT), r)

def itemsStr (st : List Bytes) : String :=
  if st.isEmpty then "-" else ",".intercalate (st.map (fun b => if b.isEmpty then "_" else toHex b))

/-- one deep-execution case -/
def genRunCase (r : Rng) (maxOps : Nat) (z : Bool) : String × Rng := Id.run do
  let (sv, r) := genSigver r
  let (flags, r) := genFlags r
  let (nst, r) := r.below 5
  let mut r := r
  let mut stack : List Bytes := []
  for _ in [0:nst] do
    let (v, r') := randValue r
    r := r'
    stack := stack ++ [v]
  let cfg : Spec.Cfg := { flags := flags, sigversion := sv, allowDisabled := z, oracle := baseOracle }
  let weight : Option Int := if sv == .TAPSCRIPT then some 1000 else none
  let mut st : Spec.St := { stack := stack.reverse, weightLeft := 1000, weightInit := sv == .TAPSCRIPT }
  let mut script : Bytes := []
  let (nops, r2) := r.below (maxOps + 1)
  r := r2
  let mut pos := 0
  let mut alive := true
  for _ in [0:nops] do
    let (p, r') := r.below 100
    r := r'
    if alive && p < 88 then
      let (res, r') := pickValid z cfg st pos 6 r
      r := r'
      match res with
      | some (instr, st') =>
        script := script ++ instr
        st := st'
        pos := pos + 1
      | none =>
        let (instr, r') := randInstr z r
        r := r'
        script := script ++ instr
        alive := (specStepBytes cfg st instr pos).isSome
        pos := pos + 1
    else
      let (instr, r') := randInstr z r
      r := r'
      script := script ++ instr
      match specStepBytes cfg st instr pos with
      | some st' => st := st'
      | none => alive := false
      pos := pos + 1
  -- close open conditionals most of the time
  let (cl, r3) := r.below 10
  r := r3
  if alive && cl < 8 then
    for _ in [0:st.cond.length] do
      script := script ++ [0x68]
  let w := match weight with | some w => toString w | none => "-"
  let sc := if script.isEmpty then "-" else toHex script
  return (s!"RUN {sv.code} {flags} {if z then 1 else 0} {w} {sc} {itemsStr stack}", r)

def genRun (seed n maxOps : Nat) (z : Bool) : List String := Id.run do
  let mut r : Rng := ⟨UInt64.ofNat seed⟩
  let mut out : List String := []
  for _ in [0:n] do
    let (l, r') := genRunCase r maxOps z
    r := r'
    out := l :: out
  return out.reverse

end Driver
