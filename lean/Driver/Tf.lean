/-
  TF <name hex> <arg hex>... : the `tf` command (model: `Model.tfCommand`; spec: `Spec.tfSpec`)
  INLINE <text hex>          : `Value v(text); v.println()` (model: `Model.inlineEval`)
  printed like harness/cmd_tf.inc.
-/
import Btcdeb
import Driver.Run
import Driver.Value
open Btcdeb
namespace Driver

def hexOrDash (b : Bytes) : String := if b.isEmpty then "-" else toHex b

def verrStr : Model.VErr → String
  | .exit1 _ => "EXIT1"
  | .abnormal k => s!"ABNORMAL:{k}"
  | .exc w => s!"UNCAUGHT {w}"

def specHashFns : Spec.HashFns := { sha256 := Crypto.sha256, ripemd160 := Crypto.ripemd160 }

/-- how the command shows a result -/
def renderRes (name : String) : Spec.Res → Option Bytes
  | .int n => some (Model.intDecimal n ++ [10])
  | .bytes d => some (Model.hexBytes d ++ [10])
  | .str s => some (if name == "hex" then s ++ [10] else [34] ++ s ++ [34, 10])
  | .op c => some (Model.asc (Gen.opName.getD c "OP_UNKNOWN") ++ Model.asc " (" ++ Model.hexBytes [UInt8.ofNat c] ++ Model.asc ")\n")
  | .witness variant hrp prog =>
    some (Model.asc "(bech32" ++ (if variant == .bech32m then Model.asc "m" else []) ++ Model.asc " HRP = " ++ hrp ++ Model.asc ")\n" ++
      Model.hexBytes prog ++ [10])
  | .reject => none
  | .unspecified => none

def cmdTfSpec (ws : List Bytes) : String :=
  match ws with
  | [] | [_] => "NOSPEC"
  | name :: args =>
    let nm := Model.strOfBytes name
    let args := (Spec.groupWords args [] 0 []).map Spec.readArg
    match Spec.tfSpec specHashFns nm args with
    | none => "NOSPEC"
    | some .unspecified => "NOSPEC"
    | some r =>
      match renderRes nm r with
      | none => "REJECT"
      | some o => s!"out={hexOrDash o} err=- rv=0"

def cmdTf (spec : Bool) (a : List String) : String :=
  match wordsOf a with
  | none => "bad-op"
  | some ws =>
    if ws.any (fun w => w.isEmpty || w.any (· == 0)) then "bad-op"
    else if spec then cmdTfSpec ws
    else
      let r := Model.tfCommand vcx ws
      match r.exit with
      | some e => verrStr e
      | none => s!"out={hexOrDash r.out} err={hexOrDash r.err} rv={r.rv}"

def cmdInline (_spec : Bool) (a : List String) : String :=
  match wordsOf a with
  | none => "bad-op"
  | some ws =>
    let text := ws.headD []
    if text.any (· == 0) then "bad-op"
    else match Model.inlineEval vcx text with
      | .error e =>
        match e.excWhat with
        | some w => s!"UNCAUGHT {w}"
        | none => verrStr e
      | .ok (v, l) =>
        let ser := match v.appendTo [] with
          | .ok s => toHex s
          | .error _ => "?"
        s!"out={hexOrDash l.out} err={hexOrDash l.err} rv=0 type={typeName v.type} ser={ser}"

end Driver
