/-
  DUAL P <ops> <flags> <z> <script hex> <stack items>                                    plain script session
  DUAL S <ops> <--tx text hex> <--txin text hex> <select> <flags> <z> <--pretend-valid text hex|->   spend
  (the arguments of LISTING, Driver/Listing.lean)   <ops>: string over {s, r, p}: step, rewind, display again.

  Answer: one point for the start-up display and one per op, separated by blanks: `<tag>=<row>;<row>;…`
  (tags i, s+ s! s-, r+ r-, p; a command that was not performed displays nothing: `<tag>=`), rows exactly as
  printed with blanks shown as `~`.  ONE pair of column widths is threaded through the whole answer, as the two
  `static int`s of print_dualstack live as long as the process.

  model voice: `Model.printDualstack` (Btcdeb/Model/Dual.lean);
  spec  voice: left column `Spec.leftColumn` (what remains to be executed, by the specification's own decoder), right
               column `Spec.stackColumn`, laid out by the same layout function with its own widths.  Two situations
               are not constrained by the specification and follow the model: the commitment state shown in the
               right column during the commitment phase, and a P2SH hand-over that is pending with an EMPTY saved
               stack (it cannot be performed: no section is expected for it).
-/
import Btcdeb
import Driver.Listing
open Btcdeb
namespace Driver

def encRows (rows : List (List Char)) : String :=
  ";".intercalate (rows.map (fun r => encLine (String.ofList r)))

/-- the specification's display of a state -/
def specDisplay (r : Bytes) (st : Model.DualState) (e : Model.IEnv) : List (List Char) × Model.DualState :=
  let e' := if e.isP2sh && e.p2shStack.isEmpty then { e with isP2sh := false } else e
  let left := (Spec.leftColumn r e').map String.toList
  let right := match e.tce with
    | some _ => Model.dualRight e
    | none => (Spec.stackColumn e.see.stack).map String.toList
  Model.dualLayout st left (Model.maxLen left) right

def displayOf (spec : Bool) (r : Bytes) (st : Model.DualState) (e : Model.IEnv) : String × Model.DualState :=
  if spec then
    let d := specDisplay r st e
    (encRows d.1, d.2)
  else if Model.dualStale e then ("STALE", st)
  else
    let d := Model.printDualstack st e
    (encRows d.1, d.2)

def dualTrace (spec : Bool) (cx : Model.Ctx) (r : Bytes) : List Char → Model.DualState → Model.IEnv → List String → List String
  | [], _, _, acc => acc.reverse
  | c :: cs, st, e, acc =>
    if c == 's' then
      if e.done then dualTrace spec cx r cs st e ("s-=" :: acc)
      else
        let (e', ok) := Model.fnStep cx Glue.tapCtx e
        if ok then
          let d := displayOf spec r st e'
          dualTrace spec cx r cs d.2 e' (("s+=" ++ d.1) :: acc)
        else dualTrace spec cx r cs st e ("s!=" :: acc)
    else if c == 'r' then
      match Model.instRewind e with
      | some e' =>
        let d := displayOf spec r st e'
        dualTrace spec cx r cs d.2 e' (("r+=" ++ d.1) :: acc)
      | none => dualTrace spec cx r cs st e ("r-=" :: acc)
    else if c == 'p' then
      let d := displayOf spec r st e
      dualTrace spec cx r cs d.2 e (("p=" ++ d.1) :: acc)
    else dualTrace spec cx r cs st e acc

def cmdDual (spec : Bool) (a : List String) : String :=
  match listingSession a with
  | .error r => r
  | .ok (s, ops) =>
    let cs := if ops == "-" then [] else ops.toList
    let e0 := s.env
    let r := (actualRedeem s.cx (Model.continueFuel e0 + 8) e0).getD (Model.lastPayload e0.see.script)
    let d0 := displayOf spec r {} e0
    " ".intercalate (dualTrace spec s.cx r cs d0.2 e0 ["i=" ++ d0.1])

end Driver
