/-
  TAP <internal key hex> <script hex>,<script hex>,... <index|-> [<arg hex>,<arg hex>,...|-] [<hex of the address prefix|-> [ignored words]]
      the `tap` tool on decoded arguments (model: Btcdeb/Model/Tap.lean; spec: BIP341 on the tree of the same shape).
      Answer: key=<output key> parity=<0|1> addr_program=<witness program> address=<bech32m text> control=<hex|-> script=<hex|->
              witness=<items|-> txwitness=<items> root=<merkle root> tweak=<hex>      or  ERR <reason> / ABORT bech32-assert
      (`txwitness` = what goes into the spending transaction when --tx and --txin are given without --sig: the placeholder
      signature first.)  The model's address is `bech32::Encode` as modelled in Btcdeb/Model/Encodings.lean
      (`Model.Tap.bech32mAddress`); the spec's is BIP350's `bech32_encode` (Btcdeb/Spec/Encodings.lean) and requires a valid
      human readable part (BIP173: 1..83 characters in 33..126, here also lower case as an encoder must emit).
  TAPARGS <hex of positional argument 1> <hex of positional argument 2> ...
      the `tap` tool on its positional command line arguments (model only; the spec voice repeats the model)
  TAPSIGHASH <spending tx hex, witness as tap wrote it> <input tx hex>
      the signature hash tap reports (model: `Tap.calcSighash` = configure_tx_txin + Instance::calc_sighash;
      spec: the BIP341/342 digest for hash type 0x00 with the one spent output)
  An empty script / argument inside a comma list is written `_`, an empty list `-`.
-/
import Btcdeb
import Btcdeb.Model.Tap
import Driver.Run
import Driver.Value
import Driver.Sighash
open Btcdeb
namespace Driver

def tapItems (s : String) : Option (List Bytes) :=
  if s == "-" then some []
  else (s.splitOn ",").mapM (fun w => if w == "_" then some [] else ofHex w)

def tapItem (b : Bytes) : String := if b.isEmpty then "_" else toHex b

def tapErrStr : Model.Tap.Err → String
  | .keyLength => "ERR key-length"
  | .scriptCount => "ERR script-count"
  | .scriptIndex => "ERR script-index"
  | .invalidScript i => s!"ERR invalid-script {i}"
  | .tree => "ERR tree"
  | .spendingLeaf => "ERR spending-leaf"
  | .keyParse => "ERR key-parse"
  | .tweak => "ERR tweak"
  | .pubkeyMismatch => "ERR pubkey-mismatch"
  | .addressAssert => "ABORT bech32-assert"

def tapList (l : List Bytes) : String := if l.isEmpty then "-" else ",".intercalate (l.map tapItem)

def tapOutStr (o : Model.Tap.Output) : String :=
  let opt := fun (x : Option Bytes) => match x with | some b => tapItem b | none => "-"
  s!"key={toHex o.outputKey} parity={if o.odd then 1 else 0} addr_program={toHex o.outputKey} address={if o.address.isEmpty then "-" else o.address} control={opt o.control} script={opt o.script} witness={tapList o.witness} txwitness={tapList (Model.Tap.txWitness [] o)} root={toHex o.root} tweak={toHex o.tweak}"

/-- BIP173: the human readable part is 1..83 US-ASCII characters in 33..126; an encoder emits lower case -/
def hrpValid (hrp : String) : Bool :=
  let b := hrp.toUTF8.toList
  1 ≤ b.length && b.length ≤ 83 && b.all (fun c => 33 ≤ c.toNat && c.toNat ≤ 126 && !(65 ≤ c.toNat && c.toNat ≤ 90))

/-- BIP350 address: `bech32_encode(hrp, [version] + convertbits(program, 8, 5), bech32m)` -/
def specAddress (hrp : String) (ver : Nat) (prog : Bytes) : String :=
  Model.strOfBytes (Spec.bech32Encode .bech32m hrp.toUTF8.toList (ver :: Spec.regroupPad 8 5 (prog.map UInt8.toNat)))

/-- BIP341 on the tree of the shape tap builds: root, output key, control block from the spec's own functions;
    the result is shown only if `bip341Valid` accepts it -/
def tapSpec (hrp : String) (internal : Bytes) (scripts : List Bytes) (sel : Option (Nat × List Bytes)) : String :=
  let o := Glue.tapOracle
  if internal.length ≠ 32 then "ERR key-length"
  else if scripts.length < 1 || scripts.length > 1024 then "ERR script-count"
  else if (match sel with | some (i, _) => decide (i ≥ scripts.length) | none => false) then "ERR script-index"
  else match Model.Tap.firstInvalid 0 scripts with
  | some k => s!"ERR invalid-script {k}"
  | none =>
    match Model.Tap.buildTree Model.Tap.glueCtx scripts with
    | none => "ERR tree"
    | some node =>
      let tree := node.toTree scripts
      let root := tree.root o
      if (Crypto.parseXOnly internal).isNone then "ERR key-parse"
      else match Crypto.createTapTweak internal (some root) with
      | none => "ERR tweak"
      | some (q, odd) =>
        if !Spec.isOutputKey o internal root q odd then "SPEC-INVALID output key"
        else if !hrpValid hrp then "ERR invalid-hrp"
        else
          let head := s!"key={toHex q} parity={if odd then 1 else 0} addr_program={toHex q} address={specAddress hrp 1 q}"
          let tail := s!"root={toHex root} tweak={toHex (o.taggedHash "TapTweak" (internal ++ root))}"
          match sel with
          | none => head ++ s!" control=- script=- witness=- txwitness={tapList [Model.Tap.placeholderSignature]} " ++ tail
          | some (i, args) =>
            match (tree.paths o)[i]? with
            | none => "ERR spending-leaf"
            | some (v, script, path) =>
              let control := Spec.controlBlock v odd internal path
              if !Spec.bip341Valid o control script q then "SPEC-INVALID control block"
              else
                let wit := args ++ [script, control]
                head ++ s!" control={tapItem control} script={tapItem script} witness={tapList wit} txwitness={tapList (Model.Tap.placeholderSignature :: wit)} " ++ tail

def cmdTap (spec : Bool) (a : List String) : String :=
  let go := fun (k sc ix ar hrp : String) =>
    match ofHex k, tapItems sc, tapItems ar with
    | some internal, some scripts, some args =>
      let sel : Option (Option (Nat × List Bytes)) :=
        if ix == "-" then some none else ix.toNat?.map (fun i => some (i, args))
      match sel with
      | none => "bad-op"
      | some sel =>
        if spec then tapSpec hrp internal scripts sel
        else if !Model.Tap.hrpOk hrp then "ERR invalid-hrp"          -- main() refuses the prefix before anything else
        else match Model.Tap.run Model.Tap.glueCtx Model.Tap.bech32mAddress hrp none internal scripts sel with
          | .error e => tapErrStr e
          | .ok o => tapOutStr o
    | _, _, _ => "bad-op"
  match a with
  | [k, sc, ix] => go k sc ix "-" "bcrt"
  | [k, sc, ix, ar] => go k sc ix ar "bcrt"
  | k :: sc :: ix :: ar :: hrp :: _ =>      -- further words (how the check funded the input) are not for the driver
    if hrp == "-" then go k sc ix ar ""
    else match ofHex hrp with
      | some b => go k sc ix ar (Model.strOfBytes b)
      | none => "bad-op"
  | _ => "bad-op"

def cmdTapArgs (_spec : Bool) (a : List String) : String :=
  match wordsOf a with
  | none => "bad-op"
  | some ws =>
    match Model.Tap.mainArgs Model.Tap.glueCtx vcx Model.Tap.bech32mAddress "bcrt" ws with
    | .ok o => tapOutStr o
    | .error .usage => "USAGE"
    | .error .prefix => "ERR invalid-hrp"
    | .error .keyHex => "ERR key-hex"
    | .error .missingScripts => "ERR missing-scripts"
    | .error (.value e) => "VALUE " ++ vmStr e
    | .error (.tap e) => tapErrStr e

/-- TAPSIGHASH <tx> <txin> -/
def cmdTapSighash (spec : Bool) (a : List String) : String :=
  match a with
  | [txh, txinh] =>
    match sghTx txh, sghTx txinh with
    | some tx, some txin =>
      match Model.parseInputTransaction Model.Tap.glueHashCtx tx txin (-1) with
      | none => "ERR parse_input_transaction"
      | some (idx, vout) =>
        if spec then
          match tx.vin[idx]?, txin.vout[vout]? with
          | some inp, some o =>
            if tx.vin.length != 1 then "N/A"
            else
              let w := inp.witness
              let hasAnnex := w.length ≥ 2 && (match w.getLast? with | some (t :: _) => t.toNat == 0x50 | _ => false)
              let annex : Option Bytes := if hasAnnex then w.getLast? else none
              let st := if hasAnnex then w.dropLast else w
              let ext : Option Spec.TapExt :=
                if st.length ≤ 1 then none
                else
                  let control := st.getLast?.getD []
                  let script := st.dropLast.getLast?.getD []
                  let c0 := (control.headD 0).toNat
                  some { leafHash := Spec.tapLeafHash Glue.tapOracle (c0 - c0 % 2) script, codesepPos := 0xffffffff }
              toHex (Spec.bip341Digest Crypto.sha256 tx idx 0 [o] annex ext)
          | _, _ => "ERR parse_input_transaction"
        else
          match Model.Tap.calcSighash Model.Tap.glueHashCtx Glue.tapCtx Model.stdCrypto tx txin idx vout with
          | .ok h => toHex h
          | .error .configure => "ERR configure_tx_txin"
          | .error .failed => "ERR failed"
          | .error .inputCount => "ERR input-count"
          | .error (.step e) => sghErr e
    | _, _ => "bad-op"
  | _ => "bad-op"

/-- `TAPBRANCH <left> <right>`: the hash of a branch over two nodes given by their hashes -/
def cmdTapBranch (spec : Bool) (a : List String) : String :=
  match a with
  | l :: r :: _ =>
    match ofHex l, ofHex r with
    | some hl, some hr =>
      if hl.length != 32 || hr.length != 32 then "bad-op"
      else if spec then toHex (Spec.tapBranchHash Glue.tapOracle hl hr)
      else toHex (Model.Tap.branchHash Model.Tap.glueCtx hl hr)
    | _, _ => "bad-op"
  | _ => "bad-op"

end Driver
