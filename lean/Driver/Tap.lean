/-
  TAP <internal key hex> <script hex>,<script hex>,... <index|-> [<arg hex>,<arg hex>,...|-] [<hrp>]
      the `tap` tool on decoded arguments (model: Btcdeb/Model/Tap.lean; spec: BIP341 on the tree of the same shape).
      Answer: key=<output key> parity=<0|1> addr_program=<witness program of the address> control=<hex|-> script=<hex|->
              witness=<items|-> txwitness=<items> root=<merkle root> tweak=<hex>      or  ERR <reason>
      (`txwitness` = what goes into the spending transaction when --tx and --txin are given without --sig: the placeholder
      signature first.)  TODO(integration): the address text itself is `bech32m hrp 1 addr_program`; bech32m is a parameter of
      `Model.Tap.run` (Btcdeb/Model/Encodings.lean is written elsewhere), so the driver prints the program and the check
      encodes/decodes the address.
  TAPARGS <hex of positional argument 1> <hex of positional argument 2> ...
      the `tap` tool on its positional command line arguments (model only; the spec voice repeats the model)
  An empty script / argument inside a comma list is written `_`, an empty list `-`.
-/
import Btcdeb
import Btcdeb.Model.Tap
import Driver.Run
import Driver.Value
open Btcdeb
namespace Driver

def tapItems (s : String) : Option (List Bytes) :=
  if s == "-" then some []
  else (s.splitOn ",").mapM (fun w => if w == "_" then some [] else ofHex w)

def tapItem (b : Bytes) : String := if b.isEmpty then "_" else toHex b

def tapErrStr : Model.Tap.Err → String
  | .keyLength => "ERR key-length"
  | .scriptCount => "ERR script-count"
  | .scriptIndex => "ERR script-index"
  | .invalidScript i => s!"ERR invalid-script {i}"
  | .tree => "ERR tree"
  | .spendingLeaf => "ERR spending-leaf"
  | .keyParse => "ERR key-parse"
  | .tweak => "ERR tweak"

def tapList (l : List Bytes) : String := if l.isEmpty then "-" else ",".intercalate (l.map tapItem)

def tapOutStr (o : Model.Tap.Output) : String :=
  let opt := fun (x : Option Bytes) => match x with | some b => tapItem b | none => "-"
  s!"key={toHex o.outputKey} parity={if o.odd then 1 else 0} addr_program={toHex o.outputKey} control={opt o.control} script={opt o.script} witness={tapList o.witness} txwitness={tapList (Model.Tap.txWitness [] o)} root={toHex o.root} tweak={toHex o.tweak}"

/-- the address itself is rendered by the check (bech32m lives in another module): the driver prints the program -/
def noBech (_ : String) (_ : Nat) (_ : Bytes) : String := ""

/-- BIP341 on the tree of the shape tap builds: root, output key, control block from the spec's own functions;
    the result is shown only if `bip341Valid` accepts it -/
def tapSpec (internal : Bytes) (scripts : List Bytes) (sel : Option (Nat × List Bytes)) : String :=
  let o := Glue.tapOracle
  if internal.length ≠ 32 then "ERR key-length"
  else if scripts.length < 1 || scripts.length > 1024 then "ERR script-count"
  else if (match sel with | some (i, _) => decide (i ≥ scripts.length) | none => false) then "ERR script-index"
  else match Model.Tap.firstInvalid 0 scripts with
  | some k => s!"ERR invalid-script {k}"
  | none =>
    match Model.Tap.buildTree Model.Tap.glueCtx scripts with
    | none => "ERR tree"
    | some node =>
      let tree := node.toTree scripts
      let root := tree.root o
      if (Crypto.parseXOnly internal).isNone then "ERR key-parse"
      else match Crypto.createTapTweak internal (some root) with
      | none => "ERR tweak"
      | some (q, odd) =>
        if !Spec.isOutputKey o internal root q odd then "SPEC-INVALID output key"
        else
          let head := s!"key={toHex q} parity={if odd then 1 else 0} addr_program={toHex q}"
          let tail := s!"root={toHex root} tweak={toHex (o.taggedHash "TapTweak" (internal ++ root))}"
          match sel with
          | none => head ++ s!" control=- script=- witness=- txwitness={tapList [Model.Tap.placeholderSignature]} " ++ tail
          | some (i, args) =>
            match (tree.paths o)[i]? with
            | none => "ERR spending-leaf"
            | some (v, script, path) =>
              let control := Spec.controlBlock v odd internal path
              if !Spec.bip341Valid o control script q then "SPEC-INVALID control block"
              else
                let wit := args ++ [script, control]
                head ++ s!" control={tapItem control} script={tapItem script} witness={tapList wit} txwitness={tapList (Model.Tap.placeholderSignature :: wit)} " ++ tail

def cmdTap (spec : Bool) (a : List String) : String :=
  let go := fun (k sc ix ar : String) =>
    match ofHex k, tapItems sc, tapItems ar with
    | some internal, some scripts, some args =>
      let sel : Option (Option (Nat × List Bytes)) :=
        if ix == "-" then some none else ix.toNat?.map (fun i => some (i, args))
      match sel with
      | none => "bad-op"
      | some sel =>
        if spec then tapSpec internal scripts sel
        else match Model.Tap.run Model.Tap.glueCtx noBech "" internal scripts sel with
          | .error e => tapErrStr e
          | .ok o => tapOutStr o
    | _, _, _ => "bad-op"
  match a with
  | [k, sc, ix] => go k sc ix "-"
  | [k, sc, ix, ar] => go k sc ix ar
  | [k, sc, ix, ar, _hrp] => go k sc ix ar
  | _ => "bad-op"

def cmdTapArgs (_spec : Bool) (a : List String) : String :=
  match wordsOf a with
  | none => "bad-op"
  | some ws =>
    match Model.Tap.mainArgs Model.Tap.glueCtx vcx noBech "" ws with
    | .ok o => tapOutStr o
    | .error .usage => "USAGE"
    | .error .keyHex => "ERR key-hex"
    | .error .missingScripts => "ERR missing-scripts"
    | .error (.value e) => "VALUE " ++ vmStr e
    | .error (.tap e) => tapErrStr e

end Driver
