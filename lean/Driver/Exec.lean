/-
  Driver side of the EXEC protocol (`exec a b c` in a session).
  model mode: `Model.instEval`;  spec mode: the tokens, read as instructions, are executed by the
  specification on the abstraction of the pre-state, as if they were the next operations of the script.
-/
import Btcdeb
import Driver.Run
import Driver.Session
open Btcdeb

namespace Driver

def tokBytes (s : String) : Bytes := s.toUTF8.toList

/-- specification of an `exec` token: canonical non-zero decimal (int range) → minimal push of the number;
    an even number of hex digits → push of those bytes; an opcode name (with or without OP_) → that opcode -/
def specToken (t : String) : Option Bytes :=
  let b := tokBytes t
  let isDec := match b with
    | 45 :: d :: ds => (49 ≤ d.toNat && d.toNat ≤ 57) && ds.all Model.isDigit
    | d :: ds => (49 ≤ d.toNat && d.toNat ≤ 57) && ds.all Model.isDigit
    | [] => false
  let decVal : Int := match b with
    | 45 :: ds => -(Model.digitsValue ds 0 : Int)
    | ds => (Model.digitsValue ds 0 : Int)
  if t.isEmpty then some []
  else if isDec && -9223372036854775808 ≤ decVal && decVal ≤ 9223372036854775807 then some (Model.pushInt64 decVal)
  else if (let h := if b.length > 2 && b.getD 0 0 == 48 && b.getD 1 0 == 120 then b.drop 2 else b
           h.length % 2 == 0 && h.all (fun c => (Model.hexDigitVal c).isSome)) then
    (Model.tryHex (if b.length > 2 && b.getD 0 0 == 48 && b.getD 1 0 == 120 then b.drop 2 else b)).map Spec.pushOf
  else
    let name := if t.startsWith "OP_" then t else "OP_" ++ t
    match (Op.table ++ Op.aliases).find? (fun p => p.1 == name && p.1 != "OP_INVALIDOPCODE") with
    | some p => some [UInt8.ofNat p.2]
    | none =>
      -- OP_xNN escapes
      match (if t.startsWith "OP_" then (t.drop 3).toString else t).toList with
      | ['x', a, c] => match hexVal a, hexVal c with
        | some h, some l => some [UInt8.ofNat (h * 16 + l)]
        | _, _ => none
      | _ => none

def specState (e : Model.IEnv) (st : Spec.St) : String :=
  let w := if st.weightInit then toString st.weightLeft else "-"
  obsSpec st ++ s!"|cs={e.see.script.length - st.codeFrom.length}|cp={st.codesepPos}|w={w}" ++
    s!"|ops={st.opCount}|pc={e.see.script.length - e.pc.length}|len={e.see.script.length}|seq={e.currOpSeq}|done={if e.done then 1 else 0}"

def absState (e : Model.IEnv) : Spec.St :=
  { stack := e.see.stack.reverse, alt := e.see.altstack.reverse, cond := e.see.cond.toList.reverse,
    opCount := e.see.nOpCount, codeFrom := e.see.pbegincodehash, codesepPos := e.see.execdata.codesepPos,
    weightLeft := e.see.execdata.weightLeft, weightInit := e.see.execdata.weightInit }

def specExecInstrs (cfg : Spec.Cfg) (mainRest : Bytes) (pos : Nat) : List (Spec.Instr × Bytes) → Spec.St → Spec.R Spec.St
  | [], st => .ok st
  | (i, _) :: rest, st => do
    let st' ← Spec.execInstr cfg i mainRest pos st
    specExecInstrs cfg mainRest pos rest st'

def cmdExecG (lenient : Bool) (spec : Bool) (a : List String) : String :=
  match a with
  | sv :: fl :: z :: w :: sc :: stk :: succ :: nsteps :: rest =>
    match parseSession [sv, fl, z, w, sc, stk, succ], nsteps.toNat? with
    | some (c, su, _), some n =>
      match setupModelS c su with
      | .error r => r
      | .ok e0 =>
        match (if lenient then some (advanceLenient n e0) else advance n e0) with
        | none => "PREFIX-FAILED"
        | some e =>
          let toks := match rest with
            | [] => []
            | t :: _ => if t == "-" then [] else t.splitOn ","
          let before := fullState e
          if spec then
            if toks.isEmpty then s!"before={before} result=FAIL:REFUSED after=- script_same=1"
            else match toks.mapM specToken with
            | none => s!"before={before} result=FAIL:REFUSED after=- script_same=1"
            | some parts =>
              let script := parts.foldl (· ++ ·) []
              match Spec.decodeWithRest script with
              | none => s!"before={before} result=FAIL:15 after=- script_same=1"
              | some is =>
                let cfg : Spec.Cfg := { flags := c.flags, sigversion := c.sigver, allowDisabled := c.z, oracle := baseOracle }
                match specExecInstrs cfg e.pc e.see.opcodePos is (absState e) with
                | .ok st => s!"before={before} result=OK after={specState e st} script_same=1"
                | .error err => s!"before={before} result=FAIL:{err.code} after=- script_same=1"
          else
            match Model.instEval baseCtx e (toks.map tokBytes) with
            | none => s!"before={before} result=FAIL:REFUSED after=- script_same=1 afterfail={before}"
            | some (e', none) => s!"before={before} result=OK after={fullState e'} script_same=1"
            -- a failing operation ends the list: what the operations before it did stays, the failing one leaves nothing behind
            | some (e', some (.script err)) => s!"before={before} result=FAIL:{err.code} after=- script_same=1 afterfail={fullState e'}"
            | some (e', some (.exc _)) => s!"before={before} result=FAIL:EXC after=- script_same=1 afterfail={fullState e'}"
            | some (_, some (.abnormal k)) => s!"before={before} result=ABNORMAL:{k} after=- script_same=1"
    | _, _ => "bad-op"
  | _ => "bad-op"

def cmdExec (spec : Bool) (a : List String) : String := cmdExecG false spec a

/-- `SESSIONX <cfg: 7 fields> <cmds over s r x> <tok1,tok2,…>`: a walk in which `x` is `exec tok1 tok2 …` (valid tokens only) -/
def cmdSessionX (a : List String) : String :=
  match a with
  | sv :: fl :: z :: w :: sc :: stk :: succ :: cmds :: toksS :: _ =>
    match parseSession [sv, fl, z, w, sc, stk, succ] with
    | some (c, su, _) =>
      match setupModelS c su with
      | .error r => r
      | .ok e0 => Id.run do
        let toks := if toksS == "-" then [] else toksS.splitOn ","
        let mut e := e0
        let mut marks := ""
        let mut hh : UInt64 := fnvInit
        for ch in cmds.toList do
          let mut m := '-'
          if ch == 's' then
            if e.done then m := '-'
            else match Model.instStep baseCtx baseTap e with
              | .ok e' => e := e'; m := '+'
              | .error _ => m := '!'
          else if ch == 'r' then
            match Model.instRewind e with
            | some e' => e := e'; m := '+'
            | none => m := '-'
          else
            match Model.instEval baseCtx e (toks.map tokBytes) with
            | none => m := '-'
            | some (e', none) => e := e'; m := '+'
            | some (e', some _) => e := e'; m := '!'
          marks := marks.push m
          hh := fnvStr hh (hex16 (fnvStr fnvInit (fullState e)))
        return s!"marks={marks} hs={hex16 hh} state={fullState e}"
    | none => "bad-op"
  | _ => "bad-op"

end Driver
