/-
  Driver side of the kerl protocol (harness/cmd_kerl.inc has the grammar of the commands and answers).

  model voice: Btcdeb/Model/Kerl.lean — the answer fields are exactly those of the harness; an `.abnormal` outcome of the
               model is the answer `ABNORMAL <what>` (the implementation is then expected to be stopped by a sanitizer).
  spec  voice: Btcdeb/Spec/Kerl.lean — the fields the rule speaks about (words, dispatch, stripped line, escape text);
               `left=` and the other bookkeeping fields are absent.
-/
import Btcdeb
open Btcdeb
open Btcdeb.Model.Kerl
namespace Driver

def kHex (b : Bytes) : String := if b.isEmpty then "-" else toHex b

def kArgs (a : List String) : Option (List Bytes) := a.mapM ofHex

def kByte (s : String) : Option UInt8 := (ofHex s).map (fun b => b.headD 0)

def kAbn : KErr → String
  | .abnormal k => "ABNORMAL " ++ k.replace " " "_"

def kPrompts (p : List Char) : String := if p.isEmpty then "-" else String.ofList p

def kMfText (m : MoreFinal) : String :=
  match m.mem with
  | none => "-"
  | some mem => match cstr mem with
    | .ok t => kHex t
    | .error _ => "UNTERMINATED"

def kTail (rest : List Bytes) (prompts : List Char) (m : MoreFinal) : String :=
  s!" left={rest.length} prompts={kPrompts prompts} mf={kMfText m} mfl={m.lines}"

/-- the model sees what a C function sees of its argument: the bytes before the first NUL -/
def cut0 (b : Bytes) : Bytes := b.takeWhile (· != 0)

def cmdKargvG (_collapse : Bool) (spec : Bool) (a : List String) : String :=
  match a with
  | rl :: e :: rest =>
    match kByte e, kArgs rest with
    | some esc, some (line :: more) =>
      let line := cut0 line
      let more := more.map cut0
      if spec then
        let r := if rl == "1" then Spec.Kerl.wordsMulti line more else some (Spec.Kerl.words line, more)
        match r with
        | none => "ABORT"
        | some (ws, _) =>
          let ws := ws.map (Spec.Kerl.protect esc)
          s!"OK {ws.length}" ++ String.join (ws.map (fun w => " " ++ kHex w))
      else
        match makeArgcvEscape (rl == "1") esc {} line more with
        | .error err => kAbn err
        | .ok o =>
          (match o.res with
           | .abort => "ABORT"
           | .ok ws => s!"OK {ws.length}" ++ String.join (ws.map (fun w => " " ++ kHex w))) ++ kTail o.rest o.prompts o.mf
    | _, _ => "bad-op"
  | _ => "bad-op"

def cmdKcite (_spec : Bool) (a : List String) : String :=
  match a with
  | rl :: rest =>
    match kArgs rest with
    | some (line :: more) =>
      match processCitation (rl == "1") {} (cut0 line) (more.map cut0) with
      | .error err => kAbn err
      | .ok o =>
        (match o.res with
         | .abort => "ABORT"
         | .ok n t => s!"OK {n} {kHex t}") ++ kTail o.rest o.prompts o.mf
    | _ => "bad-op"
  | _ => "bad-op"

def cmdKmore (_spec : Bool) (a : List String) : String :=
  match a with
  | rl :: cap :: pos :: fill :: term :: init :: lines =>
    match cap.toNat?, pos.toNat?, kByte fill, kByte term, ofHex init, kArgs lines with
    | some cap, some pos, some fill, some term, some init, some lines =>
      let buf := (init.take cap) ++ List.replicate (cap - init.length) fill
      match kerlMore (rl == "1") {} cap pos buf term (lines.map cut0) with
      | .error err => kAbn err
      | .ok o =>
        (match o.res with
         | .abort => "ABORT"
         | .ok c p t => s!"OK {c} {p} {kHex t}") ++ kTail o.rest o.prompts o.mf
    | _, _, _, _, _, _ => "bad-op"
  | _ => "bad-op"

def cmdKesc (spec : Bool) (a : List String) : String :=
  match kArgs a with
  | some [s] =>
    let s := cut0 s
    if spec then
      if s.any Spec.Kerl.special then "S " ++ kHex (Spec.Kerl.escape s) else "NULL"
    else match escape s with
      | .error err => kAbn err
      | .ok none => "NULL"
      | .ok (some r) => "S " ++ kHex r
  | _ => "bad-op"

def cmdKunesc (spec : Bool) (a : List String) : String :=
  match a with
  | [reuse, h] =>
    match ofHex h with
    | some s =>
      let s := cut0 s
      if spec then
        if reuse != "1" && !s.contains 92 then "NULL" else "S " ++ kHex (Spec.Kerl.unescape s)
      else match unescape (ofStr s) (reuse == "1") with
        | .error err => kAbn err
        | .ok (none, _) => "NULL"
        | .ok (some r, _) => "S " ++ kHex r
    | none => "bad-op"
  | _ => "bad-op"

def cmdKstrip (spec : Bool) (a : List String) : String :=
  match kArgs a with
  | some [s] =>
    let s := cut0 s
    if spec then
      let lead := (s.takeWhile Spec.Kerl.isBlank).length
      s!"{lead} {kHex (Spec.Kerl.trim s)}"
    else match (do let (off, mem) ← stripwhite (ofStr s); let r ← cstrAt mem off; pure (off, r)) with
      | .error err => kAbn err
      | .ok (off, r) => s!"{off} {kHex r}"
  | _ => "bad-op"

def cmdKdupcmd (spec : Bool) (a : List String) : String :=
  match kArgs a with
  | some [s] =>
    let s := cut0 s
    if spec then kHex (s.takeWhile (· != 32))
    else match strdupCommand (ofStr s) with
      | .error err => kAbn err
      | .ok r => kHex r
  | _ => "bad-op"

def kEvent : Event → String
  | .call n a => s!"C:{Model.strOfBytes n}:{kHex a}"
  | .argv ws => s!"A:{ws.length}:" ++ ",".intercalate (ws.map kHex)
  | .argvAbort => "A:ABORT"
  | .fallback l => "F:" ++ kHex l
  | .prompt c => s!"P:{c}"
  | .addHistory l => "H:" ++ kHex l

def kEvents (evs : List Event) : String := if evs.isEmpty then "-" else ";".intercalate (evs.map kEvent)

def kConfig (rl : Bool) (flags : String) : Config :=
  let has (c : Char) : Bool := flags.toList.contains c
  { commands := (btcdebConfig rl).commands, hasFallback := has 'f', repeatEmpty := has 'r',
    commentChar := if has 'c' then 35 else 0, maySkipHistory := has 's' || has 'w', wsSkipHistory := has 'w',
    historyFile := has 'h' || has 'H', historyOpenFails := has 'H', rl := rl }

def kNames (cfg : Config) : List Bytes := cfg.commands.map (·.1)

/-- the spec's voice on one effective line: the events a correct kerl produces for it -/
def kSpecLine (collapse : Bool) (cfg : Config) (line : Bytes) (more : List Bytes) : List Event × List Bytes :=
  match Spec.Kerl.interpret (kNames cfg) cfg.hasFallback line with
  | .unknown _ => ([], more)
  | .fallback l => ([.fallback l], more)
  | .run name arg =>
    match cfg.commands.find? (fun c => c.1 == name) with
    | some (_, .silent) => ([], more)
    | some (_, .splitting) =>
      let r := if cfg.rl then Spec.Kerl.wordsMulti arg more else some (Spec.Kerl.words arg, more)
      (match r with
       | none => ([.call name arg, .argvAbort], [])
       | some (ws, rest) => ([.call name arg, .argv ws], rest))
    | _ => ([.call name arg], more)

def kSpecRun (collapse : Bool) (cfg : Config) : Nat → Option Bytes → List Bytes → List Event → List Event
  | 0, _, _, acc => acc
  | _, _, [], acc => acc
  | fuel + 1, prev, typed :: more, acc =>
    let nonEmpty := !(Spec.Kerl.trim (Spec.Kerl.cutComment cfg.commentChar typed)).isEmpty
    match Spec.Kerl.effective cfg.commentChar cfg.repeatEmpty prev typed with
    | none => kSpecRun collapse cfg fuel prev more acc
    | some l =>
      let (evs, more) := kSpecLine collapse cfg l more
      kSpecRun collapse cfg fuel (if nonEmpty then some l else prev) more (acc ++ evs)

def cmdKexecG (collapse : Bool) (spec : Bool) (a : List String) : String :=
  match a with
  | rl :: fb :: h :: moreHex =>
    match ofHex h, kArgs moreHex with
    | some l, some more =>
      let more := more.map cut0
      let l := cut0 l
      let cfg : Config := { (btcdebConfig (rl == "1")) with hasFallback := fb == "1" }
      if spec then
        let (evs, _) := kSpecLine collapse cfg l more
        let rc := match Spec.Kerl.interpret (kNames cfg) cfg.hasFallback l with
          | .unknown _ => "-1"
          | .fallback _ => "7"
          | .run name _ =>
            if ((cfg.commands.find? (fun (c : Bytes × CmdKind) => c.1 == name)).map (fun (c : Bytes × CmdKind) => c.2)) == some CmdKind.silent then "?"
            else if evs.contains Event.argvAbort then "-1" else "0"
        s!"rc={rc} ev={kEvents evs}"
      else
        match (do
          let (d, mem) ← executeLine cfg (ofStr l)
          let (st, _) ← runExecute cfg {} (ofStr l) more
          pure (d, mem, st)) with
        | .error err => kAbn err
        | .ok (d, mem, st) =>
          let rc := match d with
            | .noSuch _ => "-1"
            | .fallback _ => "7"
            | .call _ .silent _ => "?"
            | .call _ _ _ => if st.events.head? == some Event.argvAbort then "-1" else "0"
          s!"rc={rc} ev={kEvents st.events.reverse} buf={kHex mem}"
    | _, _ => "bad-op"
  | _ => "bad-op"

def cmdKrunG (collapse : Bool) (spec : Bool) (a : List String) : String :=
  match a with
  | rl :: flags :: rest =>
    match kArgs rest with
    | some bs =>
      let isRl := rl == "1"
      let cfg := kConfig isRl flags
      let lines := if isRl then bs.map cut0 else fallbackLines (bs.headD [])
      if spec then s!"ev={kEvents (kSpecRun collapse cfg (lines.length + 1) none lines [])}"
      else match kerlRun cfg lines with
        | .error err => kAbn err
        | .ok st => s!"ev={kEvents st.events.reverse} hist={kHex st.hist}"
    | none => "bad-op"
  | _ => "bad-op"

def cmdKargv := cmdKargvG false
def cmdKexec := cmdKexecG false
def cmdKrun := cmdKrunG false

/-- `KCOLLAPSE <a KARGV / KEXEC / KRUN line>`: formerly the spec voice with the line-break rule of the unrepaired kerl.c (a run
    of empty lines inside a quoted stretch counted once; repaired in /repo 17d18b5).  The rule has one reading now; the command
    word is kept (it is registered in Driver/Extra.lean) and answers like the spec voice. -/
def cmdKcollapse (_spec : Bool) (a : List String) : String :=
  match a with
  | "KARGV" :: r => cmdKargvG true true r
  | "KEXEC" :: r => cmdKexecG true true r
  | "KRUN" :: r => cmdKrunG true true r
  | _ => "bad-op"

def cmdKhist (_spec : Bool) (a : List String) : String :=
  match kArgs a with
  | some [file] =>
    match historyLoad file [] with
    | .error err => kAbn err
    | .ok ls => s!"ev={kEvents (ls.map Event.addHistory)}"
  | _ => "bad-op"

end Driver
