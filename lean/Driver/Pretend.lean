/-
  PRUN <--pretend-valid text hex> <sigver> <flags> <z> <weight|-> <script hex> <stack items>
-/
import Btcdeb
import Driver.Run
import Driver.Value
open Btcdeb
namespace Driver

def bytesLe (a b : Bytes) : Bool := !Spec.bytesLt b a

def sortBytes (l : List Bytes) : List Bytes := (l.toArray.qsort (fun a b => Spec.bytesLt a b)).toList
def dedup (l : List Bytes) : List Bytes := l.foldl (fun acc x => if acc.contains x then acc else acc ++ [x]) []

def pairLt (a b : Bytes × Bytes) : Bool := Spec.bytesLt a.1 b.1 || (a.1 == b.1 && Spec.bytesLt a.2 b.2)

/-- the tables as the harness prints them by iterating the containers: `pretend_valid_map` is a
    `std::set<std::pair<valtype,valtype>>`, so the pairs come out without duplicates, ordered by (signature, key) with
    `std::vector::operator<` on each component (lexicographic on bytes, a proper prefix first) -/
def showTables (pairs : List (Bytes × Bytes)) (keys : List Bytes) : String :=
  let pairs := pairs.foldl (fun acc p => if acc.contains p then acc else acc ++ [p]) []
  let ps := (pairs.toArray.qsort pairLt).toList
  "map=" ++ ",".intercalate (ps.map (fun p => toHex p.1 ++ ":" ++ toHex p.2)) ++ " keys=" ++ ",".intercalate ((sortBytes (dedup keys)).map toHex)

def specEval (text : Bytes) : Option Bytes :=
  match Model.valueData vcx text with
  | .ok d => some d
  | .error _ => none

def cmdPrun (spec : Bool) (a : List String) : String :=
  match a with
  | pv :: rest =>
    match (if pv == "-" then some [] else ofHex pv), parseRun rest with
    | some text, some c =>
      if spec then
        match Spec.pretendPairs specEval text with
        | none => "REFUSED:pretend"
        | some pairs =>
          let head := showTables pairs (pairs.map (·.2))
          if !Spec.inDomain 0xba c.script then head ++ " REFUSED:invalid-script"
          else if c.sigver == .TAPSCRIPT && Spec.hasOpSuccess c.z c.script then head ++ " REFUSED:op-success"
          else
            let t := Spec.evalScript { specCfg c with pretend := pairs } c.script (specInit c)
            match t.result with
            | .error .SCRIPT_SIZE => head ++ s!" REFUSED:{ScriptError.SCRIPT_SIZE.code}"
            | _ =>
              let obs := t.states.map obsSpec ++ (match t.result with
                | .ok st => if c.script.isEmpty then [] else [obsSpec st]
                | .error _ => [])
              let fin := match t.result with | .ok st => obsSpec st | .error _ => "-"
              head ++ s!" steps={obs.length} hs={hashChain obs} end={specResultStr t} final={fin}"
      else
        match Model.parsePretendValidExpr vcx text with
        | .error e => vmStr e
        | .ok none => "REFUSED:pretend"
        | .ok (some (pm, pk)) =>
          let head := showTables pm pk
          if !Model.hasValidOps c.script then head ++ " REFUSED:invalid-script"
          else
            let ed : Model.ExecData := match c.weight with
              | some w => { weightLeft := w, weightInit := true, annexInit := true, tapleafHashInit := true }
              | none => {}
            match Model.setupEnvironment c.stack c.script c.flags c.sigver [] c.z ed none pm pk with
            | .error e => head ++ s!" REFUSED:{e.code}"
            | .ok e0 =>
              let (obs, eEnd, err) := stepLoop (Model.continueFuel e0) e0 []
              let endS := match err with | none => "OK" | some x => errStr x
              let fin := match err with | none => obsModel eEnd | some _ => "-"
              head ++ s!" steps={obs.length} hs={hashChain obs} end={endS} final={fin}"
    | _, _ => "bad-op"
  | _ => "bad-op"

end Driver
