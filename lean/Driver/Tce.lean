/-
  TCE <control> <program> <script>: the stepwise taproot commitment check (model) / BIP341 (spec),
  printed like harness.cpp's cmd_tce.
-/
import Btcdeb
import Driver.Run
open Btcdeb
namespace Driver

def tceLoop (t : Model.Tce) : Nat → List Bytes → Nat → (List Bytes × Nat × String)
  | 0, ks, steps => (ks.reverse, steps, "?")
  | fuel + 1, ks, steps =>
    match t.iterate Glue.tapCtx with
    | (.processing, t') => tceLoopAux t' fuel (t'.k :: ks) (steps + 1)
    | (.done, _) => (ks.reverse, steps + 1, "DONE")
    | (.failed, _) => (ks.reverse, steps + 1, "FAILED")
where tceLoopAux (t : Model.Tce) (fuel : Nat) (ks : List Bytes) (steps : Nat) : (List Bytes × Nat × String) :=
  match fuel with
  | 0 => (ks.reverse, steps, "?")
  | f + 1 =>
    match t.iterate Glue.tapCtx with
    | (.processing, t') => tceLoopAux t' f (t'.k :: ks) (steps + 1)
    | (.done, _) => (ks.reverse, steps + 1, "DONE")
    | (.failed, _) => (ks.reverse, steps + 1, "FAILED")

def cmdTce (spec : Bool) (a : List String) : String :=
  match a with
  | [c, p, s] =>
    match ofHex c, ofHex p, (if s == "-" then some [] else ofHex s) with
    | some control, some program, some script =>
      if control.length < 33 || program.length != 32 then "PRECONDITION"
      else if spec then
        let o := Glue.tapOracle
        let c0 := (control.headD 0).toNat
        let leaf := Spec.tapLeafHash o (c0 - c0 % 2) script
        let nodes := Spec.pathNodes ((control.length - 33) / 32) (control.drop 33)
        let ks := Spec.merkleChain o leaf nodes
        let res := if Spec.bip341Valid o control script program then "DONE" else "FAILED"
        s!"leaf={toHex leaf} ks={",".intercalate (ks.map toHex)} steps={nodes.length + 1} result={res} lines={nodes.length + 1}"
      else
        let t := Model.Tce.init Glue.tapCtx control program script
        let (ks, steps, res) := tceLoop t 200 [t.k] 0
        s!"leaf={toHex t.leaf} ks={",".intercalate (ks.map toHex)} steps={steps} result={res} lines={t.descriptionCount}"
    | _, _, _ => "bad-op"
  | _ => "bad-op"

end Driver
