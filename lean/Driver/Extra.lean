/-
  Commands contributed by subsystem drivers (one file Driver/<Name>.lean each).  An entry maps the command
  word to a function of (spec mode?, arguments after the command word).
-/
import Btcdeb
import Driver.Tce
open Btcdeb
namespace Driver

def extraCmds : List (String × (Bool → List String → String)) :=
  [ ("TCE", cmdTce) ]

end Driver
