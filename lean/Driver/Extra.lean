/-
  Commands contributed by subsystem drivers (one file Driver/<Name>.lean each).  An entry maps the command
  word to a function of (spec mode?, arguments after the command word).
-/
import Btcdeb
import Driver.Tce
import Driver.Spend
import Driver.Pretend
open Btcdeb
namespace Driver

def extraCmds : List (String × (Bool → List String → String)) :=
  [ ("TCE", cmdTce), ("PRUN", cmdPrun),
    ("SPEND", fun spec a => if spec then cmdSpendSpec a else cmdSpendModel a) ]

end Driver
