/-
  Commands contributed by subsystem drivers (one file Driver/<Name>.lean each).  An entry maps the command
  word to a function of (spec mode?, arguments after the command word).
-/
import Btcdeb
import Driver.Tce
import Driver.Tap
import Driver.Sighash
import Driver.Spend
import Driver.Pretend
import Driver.Listing
import Driver.Tf
import Driver.Dual
import Driver.Display
import Driver.Kerl
open Btcdeb
namespace Driver

def extraCmds : List (String × (Bool → List String → String)) :=
  [ ("TCE", cmdTce), ("TAP", cmdTap), ("TAPBRANCH", cmdTapBranch), ("TAPARGS", cmdTapArgs), ("TAPSIGHASH", cmdTapSighash),
    ("SIGHASH", cmdSighash), ("PRECOMP", cmdPrecomp), ("CHECKSIGTX", cmdChecksigTx), ("CHECKLOCK", cmdChecklock),
    ("INSTTXDATA", cmdInstTxData), ("CALCSIGHASH", cmdCalcSighash), ("PRUN", cmdPrun),
    ("SPEND", fun spec a => if spec then cmdSpendSpec a else cmdSpendModel a),
    ("SPENDR", fun spec a => if spec then cmdSpendSpec a else cmdSpendModelR true a),
    ("LISTING", cmdListing), ("DUAL", cmdDual),
    ("TF", cmdTf), ("INLINE", cmdInline),
    ("DISPLAY", cmdDisplay),
    ("KARGV", cmdKargv), ("KCOLLAPSE", cmdKcollapse), ("KCITE", cmdKcite), ("KMORE", cmdKmore), ("KESC", cmdKesc), ("KUNESC", cmdKunesc),
    ("KSTRIP", cmdKstrip), ("KDUPCMD", cmdKdupcmd), ("KEXEC", cmdKexec), ("KRUN", cmdKrun), ("KHIST", cmdKhist) ]

end Driver
