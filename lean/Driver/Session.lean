/-
  Driver side of the SESSION protocol: histories over {step, rewind}.
  model mode: the model's `instStep` / `instRewind`;
  spec mode : by definition of the property — the state after a history is that of a fresh session
              advanced by the net number of accepted steps.
-/
import Btcdeb
import Driver.Run
open Btcdeb

namespace Driver

def fullState (e : Model.IEnv) : String :=
  let w := if e.see.execdata.weightInit then toString e.see.execdata.weightLeft else "-"
  obsModel e ++ s!"|cs={e.see.script.length - e.see.pbegincodehash.length}|cp={e.see.execdata.codesepPos}|w={w}" ++
    s!"|ops={e.see.nOpCount}|pc={e.see.script.length - e.pc.length}|len={e.see.script.length}|seq={e.currOpSeq}|done={if e.done then 1 else 0}"

def parseSession (a : List String) : Option (RunCfg × Bytes × String) :=
  match a with
  | sv :: fl :: z :: w :: sc :: st :: succ :: rest =>
    match parseRun [sv, fl, z, w, sc, st], ofHex succ with
    | some c, some su => some (c, su, rest.headD "")
    | _, _ => none
  | _ => none

def setupModelS (c : RunCfg) (succ : Bytes) : Except String Model.IEnv :=
  if !Model.hasValidOps c.script then .error "REFUSED:invalid-script"
  else
    let ed : Model.ExecData := match c.weight with
      | some w => { weightLeft := w, weightInit := true, annexInit := true, tapleafHashInit := true }
      | none => {}
    match Model.setupEnvironment c.stack c.script c.flags c.sigver succ c.z ed none [] [] with
    | .error e => .error s!"REFUSED:{e.code}"
    | .ok e => .ok e

def contField (e : Model.IEnv) : String :=
  match Model.continueScript baseCtx baseTap (Model.continueFuel e) e with
  | .ok e' => " cont=OK/" ++ obsModel e'
  | .error x => " cont=" ++ errStr x ++ "/-"

/-- fresh session advanced by `n` steps (all of which succeed by construction of the caller) -/
def advance : Nat → Model.IEnv → Option Model.IEnv
  | 0, e => some e
  | n + 1, e => match Model.instStep baseCtx baseTap e with
    | .ok e' => advance n e'
    | .error _ => none

/-- as `advance`, but a step that fails (or a finished session) ends the prefix where it stands: a failed step leaves the
    session as it was -/
def advanceLenient : Nat → Model.IEnv → Model.IEnv
  | 0, e => e
  | n + 1, e => match Model.instStep baseCtx baseTap e with
    | .ok e' => advanceLenient n e'
    | .error _ => e

def cmdSessionG (lenient : Bool) (spec : Bool) (verbose : Bool) (a : List String) : String :=
  match parseSession a with
  | none => "bad-op"
  | some (c, succ, cmds) =>
    match setupModelS c succ with
    | .error r => r
    | .ok e0 => Id.run do
      let mut e := e0
      let mut net : Nat := 0
      let mut marks := ""
      let mut hh : UInt64 := fnvInit
      let mut vt := ""
      let mut failed := false
      for ch in cmds.toList do
        if failed then continue
        let mut ok := false
        if ch == 's' then
          if e.done then ok := false
          else
            match Model.instStep baseCtx baseTap e with
            | .ok e' =>
              ok := true
              net := net + 1
              e := if spec then (advance net e0).getD e' else e'
            | .error _ =>
              marks := marks.push '!'
              if lenient then
                -- SESSIONF: the failed step leaves the session as it was; the walk goes on
                let fs := fullState e
                hh := fnvStr hh (hex16 (fnvStr fnvInit fs))
                if verbose then vt := vt ++ " {" ++ fs ++ "}"
              else
                failed := true
              continue
        else
          if spec then
            -- accepted exactly when an operation of the current script phase has been executed and not yet undone
            if Model.atStart e || net == 0 then ok := false
            else
              ok := true
              net := net - 1
              e := (advance net e0).getD e
          else
            match Model.instRewind e with
            | some e' => ok := true; e := e'
            | none => ok := false
        marks := marks.push (if ok then '+' else '-')
        let fs := fullState e
        hh := fnvStr hh (hex16 (fnvStr fnvInit fs))
        if verbose then vt := vt ++ " {" ++ fs ++ "}"
      let st := if failed then "-" else fullState e
      let cont := if failed then "" else contField e
      return s!"marks={marks} hs={hex16 hh} state={st}" ++ cont ++ (if verbose then " trace=" ++ vt else "")

def cmdSession (spec : Bool) (verbose : Bool) (a : List String) : String := cmdSessionG false spec verbose a

end Driver
