/-
  SPEND <--tx text hex> <--txin text hex|-> <select> <flags> <z> <--pretend-valid text hex|-> <verbose>
  model voice: the start-up sequence + the session stepped to its end, printed like harness/cmd_spend.inc,
               followed by the verdict the session amounts to;
  spec voice : Bitcoin's validation of that input (Spec.verifyScript).
-/
import Btcdeb
import Driver.Run
import Driver.Value
open Btcdeb
namespace Driver

def hashCtx : Model.HashCtx := { sha256 := Crypto.sha256, hash160 := Crypto.hash160, hash256 := Crypto.hash256 }

/-- checker construction: filled in by Driver/Checker.lean -/
def checkerBuilder : Model.CheckerBuilder := Glue.checkerBuilder

def textOf (h : String) : Option Bytes := if h == "-" then some [] else ofHex h

def spendArgs (a : List String) : Option Model.SpendArgs :=
  match a with
  | tx :: txin :: sel :: fl :: z :: pv :: _ =>
    match textOf tx, textOf txin, parseIntD sel, fl.toNat? with
    | some tx, some txinT, some sel, some fl =>
      some { txText := tx, txinText := if txin == "-" then none else some txinT, select := sel, flags := fl,
             allowDisabled := z == "1", pretend := if pv == "-" then none else textOf pv }
    | _, _, _, _ => none
  | _ => none

def spendObs (before after : Model.IEnv) : String :=
  match before.tce, after.tce with
  | some _, some t => "T:" ++ toHex t.k
  | some _, none => "TDONE:" ++ toHex after.see.execdata.tapleafHash ++ ":" ++ obsModel after
  | none, _ => obsModel after ++ s!"|{after.pc.length}"

def spendLoop (cx : Model.Ctx) : Nat → Model.IEnv → UInt64 → Nat → String → (Model.IEnv × UInt64 × Nat × String × Option Model.StepErr)
  | 0, e, hh, n, vt => (e, hh, n, vt, none)
  | fuel + 1, e, hh, n, vt =>
    if e.done then (e, hh, n, vt, none)
    else match Model.instStep cx Glue.tapCtx e with
      | .error x => (e, hh, n, vt, some x)
      | .ok e' =>
        let ob := spendObs e e'
        spendLoop cx fuel e' (fnvStr hh (hex16 (fnvStr fnvInit ob))) (n + 1) (vt ++ " {" ++ ob ++ "}")

/-- what a finished session amounts to as a validation verdict -/
def sessionVerdict (flags : Nat) (sv : SigVersion) (err : Option Model.StepErr) (stack : List Bytes) : String :=
  match err with
  | some x => "INVALID:" ++ errStr x
  | none =>
    match stack.getLast? with
    | none => "INVALID:empty-stack"
    | some t =>
      if !Model.castToBool t then "INVALID:false-top"
      else if (sv != .BASE || hasFlag flags Flag.CLEANSTACK) && stack.length != 1 then "INVALID:cleanstack"
      else "VALID"

def refusalStr : Model.SpendRefusal → String
  | .tx => "REFUSED:tx" | .txin => "REFUSED:txin" | .pretend => "REFUSED:pretend" | .script => "REFUSED:script"
  | .configure => "REFUSED:configure" | .env e => s!"REFUSED:env:{e.code}"

def cmdSpendModel (a : List String) : String :=
  match spendArgs a with
  | none => "bad-op"
  | some args =>
    let verbose := a.getD 6 "0" == "1"
    match Model.spendSetup hashCtx Glue.tapCtx vcx checkerBuilder args with
    | .error e => vmStr e
    | .ok (.error r) => refusalStr r
    | .ok (.ok s) =>
      let e := s.env
      let ed := e.see.execdata
      let annex := if ed.annexInit then (if ed.annexPresent then toHex ed.annexHash else "0") else "-"
      let head := s!"sigver={s.conf.sigver.code} idx={s.txinIndex} vout={s.voutIndex} amount={if s.txinIndex ≥ 0 then s.conf.amount else 0}" ++
        s!" script={toHex e.see.script} succ={toHex e.successor} stack={joinItems e.see.stack} preamble={if s.conf.hasPreamble then 1 else 0}" ++
        s!" tce={match e.tce with | some t => toString t.pathLen | none => "-"} annex={annex} obs0={obsModel e}"
      let (eEnd, hh, n, vt, err) := spendLoop s.cx (Model.continueFuel e + 8) e fnvInit 0 ""
      let endS := match err with | none => "OK" | some x => errStr x
      let fin := match err with | none => joinItems eEnd.see.stack | some _ => "-"
      head ++ s!" steps={n} hs={hex16 hh} end={endS} final={fin}" ++ (if verbose then " trace=" ++ vt else "") ++
        " verdict=" ++ sessionVerdict args.flags s.conf.sigver err eEnd.see.stack

end Driver

namespace Driver
/-- spec voice: placeholder until the signature oracle exists -/
def cmdSpendSpec (_a : List String) : String := "verdict=?"
end Driver
