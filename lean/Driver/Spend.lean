/-
  SPEND <--tx text hex> <--txin text hex|-> <select> <flags> <z> <--pretend-valid text hex|-> <verbose>
  model voice: the start-up sequence + the session stepped to its end, printed like harness/cmd_spend.inc,
               followed by the verdict the session amounts to;
  spec voice : Bitcoin's validation of that input (Spec.verifyScript).
-/
import Btcdeb
import Driver.Run
import Driver.Value
open Btcdeb
namespace Driver

def hashCtx : Model.HashCtx := { sha256 := Crypto.sha256, hash160 := Crypto.hash160, hash256 := Crypto.hash256 }

/-- checker construction: filled in by Driver/Checker.lean -/
def checkerBuilder : Model.CheckerBuilder := Glue.checkerBuilder

def textOf (h : String) : Option Bytes := if h == "-" then some [] else ofHex h

def spendArgs (a : List String) : Option Model.SpendArgs :=
  match a with
  | tx :: txin :: sel :: fl :: z :: pv :: rest =>
    let scriptF := rest.getD 1 "-"
    let stackF := rest.getD 2 "-"
    match textOf tx, textOf txin, parseIntD sel, fl.toNat?, parseItems stackF with
    | some tx, some txinT, some sel, some fl, some items =>
      some { txText := tx, txinText := if txin == "-" then none else some txinT, select := sel, flags := fl,
             allowDisabled := z == "1", pretend := if pv == "-" then none else textOf pv,
             script := if scriptF == "-" then none else (if scriptF == "_" then some [] else ofHex scriptF),
             stackArgs := items }
    | _, _, _, _, _ => none
  | _ => none

def spendObs (before after : Model.IEnv) : String :=
  match before.tce, after.tce with
  | some _, some t => "T:" ++ toHex t.k
  | some _, none => "TDONE:" ++ toHex after.see.execdata.tapleafHash ++ ":" ++ obsModel after
  | none, _ => obsModel after ++ s!"|{after.pc.length}"

def spendLoop (cx : Model.Ctx) : Nat → Model.IEnv → UInt64 → Nat → String → (Model.IEnv × UInt64 × Nat × String × Option Model.StepErr)
  | 0, e, hh, n, vt => (e, hh, n, vt, none)
  | fuel + 1, e, hh, n, vt =>
    if e.done then (e, hh, n, vt, none)
    else match Model.instStep cx Glue.tapCtx e with
      | .error x => (e, hh, n, vt, some x)
      | .ok e' =>
        let ob := spendObs e e'
        spendLoop cx fuel e' (fnvStr hh (hex16 (fnvStr fnvInit ob))) (n + 1) (vt ++ " {" ++ ob ++ "}")

/-- what a finished session amounts to as a validation verdict -/
def sessionVerdict (flags : Nat) (sv : SigVersion) (err : Option Model.StepErr) (stack : List Bytes) : String :=
  match err with
  | some x => "INVALID:" ++ errStr x
  | none =>
    match stack.getLast? with
    | none => "INVALID:empty-stack"
    | some t =>
      if !Model.castToBool t then "INVALID:false-top"
      else if (sv != .BASE || hasFlag flags Flag.CLEANSTACK) && stack.length != 1 then "INVALID:cleanstack"
      else "VALID"

def refusalStr : Model.SpendRefusal → String
  | .tx => "REFUSED:tx" | .txin => "REFUSED:txin" | .pretend => "REFUSED:pretend" | .script => "REFUSED:script"
  | .configure => "REFUSED:configure" | .env e => s!"REFUSED:env:{e.code}"

def cmdSpendModelR (retry : Bool) (a : List String) : String :=
  match spendArgs a with
  | none => "bad-op"
  | some args =>
    let verbose := a.getD 6 "0" == "1"
    match Model.spendSetup hashCtx Glue.tapCtx vcx checkerBuilder args with
    | .error e => vmStr e
    | .ok (.error r) => refusalStr r
    | .ok (.ok s) =>
      let e := s.env
      let ed := e.see.execdata
      let annex := if ed.annexInit then (if ed.annexPresent then toHex ed.annexHash else "0") else "-"
      let head := s!"sigver={s.conf.sigver.code} idx={s.txinIndex} vout={s.voutIndex} amount={if s.txinIndex ≥ 0 then s.conf.amount else 0}" ++
        s!" script={toHex e.see.script} succ={toHex e.successor} stack={joinItems e.see.stack} preamble={if s.conf.hasPreamble then 1 else 0}" ++
        s!" tce={match e.tce with | some t => toString t.pathLen | none => "-"} annex={annex} obs0={obsModel e}"
      let (eEnd, hh, n, vt, err) := spendLoop s.cx (Model.continueFuel e + 8) e fnvInit 0 ""
      let endS := match err with | none => "OK" | some x => errStr x
      let fin := match err with | none => joinItems eEnd.see.stack | some _ => "-"
      -- SPENDR: the failed step asked for again, twice.  A failed step leaves the session as it was (`spendLoop` hands
      -- back the state it failed in), so it fails the same way.
      let retryS := match retry, err with
        | true, some _ =>
          let again := fun (_ : Unit) => match Model.instStep s.cx Glue.tapCtx eEnd with | .error x => errStr x | .ok _ => "OK"
          " retry=" ++ again () ++ "," ++ again ()
        | _, _ => ""
      head ++ s!" steps={n} hs={hex16 hh} end={endS} final={fin}" ++ (if verbose then " trace=" ++ vt else "") ++ retryS ++
        " verdict=" ++ sessionVerdict args.flags s.conf.sigver err eEnd.see.stack

def cmdSpendModel (a : List String) : String := cmdSpendModelR false a

end Driver

namespace Driver

def specPrims : Spec.Prims where
  sha256 := Crypto.sha256
  ripemd160 := Crypto.ripemd160
  sha1 := Crypto.sha1
  ecdsaVerify := Crypto.ecdsaVerify
  schnorrVerify := Crypto.schnorrVerify
  checkLowS := fun s => Crypto.checkLowS s
  tap := Glue.tapOracle

/-- spec voice: Bitcoin's verdict on the input that the session is about; with an explicit script, Bitcoin's
    evaluation of that script in the context of the transaction -/
def cmdSpendSpec (a : List String) : String :=
  match spendArgs a with
  | none => "bad-op"
  | some args =>
    match Model.parseTransactionArg args.txText with
    | none => "verdict=REFUSED"
    | some (amts, tx, _) =>
      let txin? := args.txinText.bind Model.parseTxHex
      match args.script with
      | some script =>
        -- explicit script: evaluated as input `nIn` of `tx` (the input spending --txin if given, else input 0)
        let sel : Option Nat := if args.select > -1 then some args.select.toNat else none
        let found := txin?.bind (fun t => Spec.spendingInput (Model.txHash Crypto.hash256) tx t.1 sel)
        if args.txinText.isSome && found.isNone then "REFUSED:txin"
        else
          let nIn := match found with | some (k, _) => k | none => 0
          let amount := (Model.padAmounts amts tx.vin.length).getD nIn 0
          let spent : List Model.TxOut := match found, txin? with
            | some (_, n), some (t, _) => if tx.vin.length == 1 then (t.vout[n]?).toList else []
            | _, _ => []
          let sv : SigVersion := if Model.hasWitness tx then .WITNESS_V0 else .BASE
          if !Spec.inDomain 0xba script then "REFUSED:script"
          else
            let cfg : Spec.Cfg := { flags := args.flags, sigversion := sv, allowDisabled := args.allowDisabled,
                                    oracle := Spec.txOracle specPrims tx nIn amount spent sv none none }
            let t := Spec.evalScript cfg script { stack := args.stackArgs.reverse }
            match t.result with
            | .error .SCRIPT_SIZE => s!"REFUSED:env:{ScriptError.SCRIPT_SIZE.code}"
            | .ok st => s!"steps={t.states.length + (if script.isEmpty then 0 else 1)} end=OK final={joinItems st.stack.reverse}"
            | .error e => s!"steps={t.states.length} end=ERR:{e.code} final=-"
      | none =>
        match txin? with
        | some (txin, _) =>
          let sel : Option (Option Nat) := if args.select > -1 then some (some args.select.toNat) else some none
          match sel.bind (fun s => Spec.verifyInput specPrims (Model.txHash Crypto.hash256) args.flags tx txin s) with
          | none => "verdict=REFUSED"
          | some (.ok ()) => "verdict=VALID"
          | some (.error e) => s!"verdict=INVALID:{e.code}"
        | none => "verdict=REFUSED"

end Driver
