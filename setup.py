#!/usr/bin/env python3
"""setup_cmd: build the implementation side once, regenerate the tables, build the Lean project."""
import os
import subprocess
import sys
VERIF = os.path.dirname(os.path.abspath(__file__))
sys.path.insert(0, os.path.join(VERIF, "harness"))
import build as hbuild

b = hbuild.build("plain")
out = subprocess.run([os.path.join(b, "dumper")], stdout=subprocess.PIPE, text=True, check=True).stdout
tp = os.path.join(VERIF, "lean/Btcdeb/Generated/Tables.lean")
if not os.path.exists(tp) or open(tp).read() != out:
    open(tp, "w").write(out)
r = subprocess.run(["lake", "build"], cwd=os.path.join(VERIF, "lean"))
sys.exit(r.returncode)
