"""C06 — tap: printed address and witnesses verify, whatever leaf is spent.

Voices compared on every case:
  impl    the real `tap` binary, run with pseudo-terminals as stdin/stdout (its control block, tweak and sighash are
          only logged then), with --tx/--txin so that the witness it inserts is observable in "Resulting transaction"
  model   `driver model`  TAP ...   (Btcdeb/Model/Tap.lean: the tree builder, Prove, tweak, control byte, witness)
  spec    `driver spec`   TAP ...   (BIP341 functions of Btcdeb/Spec on the tree of that shape, gated by bip341Valid)
  python  an independent BIP341 implementation below (hashlib, own secp256k1 arithmetic, own bech32m, own BIP341
          signature message) — computes the expected output from scratch and verifies what tap printed
  tce     the debugger's own commitment check on what tap printed: harness `TCE`, vs model, vs spec; must say DONE

Streams: exhaustive (n, index) for n = 1..64 (+ "no leaf selected" for every n), random n up to 1024 (thorough tier),
argument-level stream (TAPARGS: malformed keys / counts / indices / scripts and Value forms), address prefixes.
"""
import functools
import hashlib
import os
import pty
import random
import re
import select
import signal
import subprocess
import sys
import time
from concurrent.futures import ThreadPoolExecutor

sys.path.insert(0, os.path.join(os.path.dirname(os.path.dirname(os.path.abspath(__file__))), "harness"))
import ptyrun  # noqa: E402

# --------------------------------------------------------------------------------------------------
# independent reference: secp256k1, BIP340 tagged hashes, BIP341 commitment, bech32m, BIP341 signature message

P = 2 ** 256 - 2 ** 32 - 977
N = 0xFFFFFFFFFFFFFFFFFFFFFFFFFFFFFFFEBAAEDCE6AF48A03BBFD25E8CD0364141
G = (0x79BE667EF9DCBBAC55A06295CE870B07029BFCDB2DCE28D959F2815B16F81798,
     0x483ADA7726A3C4655DA4FBFC0E1108A8FD17B448A68554199C47D08FFB10D4B8)


def padd(a, b):
    if a is None:
        return b
    if b is None:
        return a
    if a[0] == b[0]:
        if (a[1] + b[1]) % P == 0:
            return None
        lam = 3 * a[0] * a[0] * pow(2 * a[1], -1, P) % P
    else:
        lam = (b[1] - a[1]) * pow(b[0] - a[0], -1, P) % P
    x = (lam * lam - a[0] - b[0]) % P
    return (x, (lam * (a[0] - x) - a[1]) % P)


def pmul(k, pt):
    r = None
    while k:
        if k & 1:
            r = padd(r, pt)
        pt = padd(pt, pt)
        k >>= 1
    return r


def lift_x(x):
    if x >= P:
        return None
    c = (pow(x, 3, P) + 7) % P
    y = pow(c, (P + 1) // 4, P)
    if y * y % P != c:
        return None
    return (x, y if y % 2 == 0 else P - y)


def sha(b):
    return hashlib.sha256(b).digest()


def tagged(tag, msg):
    t = sha(tag.encode())
    return sha(t + t + msg)


def cs(n):
    if n < 253:
        return bytes([n])
    if n <= 0xffff:
        return b"\xfd" + n.to_bytes(2, "little")
    if n <= 0xffffffff:
        return b"\xfe" + n.to_bytes(4, "little")
    return b"\xff" + n.to_bytes(8, "little")


def leaf_hash(script, ver=0xc0):
    return tagged("TapLeaf", bytes([ver]) + cs(len(script)) + script)


def branch(a, b):
    return tagged("TapBranch", min(a, b) + max(a, b))


@functools.lru_cache(maxsize=4096)
def tweak_key(internal, root):
    """BIP341 taproot_tweak_pubkey -> (x-only output key, parity) or a reason"""
    if len(internal) != 32:
        return "key-length"
    pt = lift_x(int.from_bytes(internal, "big"))
    if pt is None:
        return "key-parse"
    t = int.from_bytes(tagged("TapTweak", internal + root), "big")
    if t >= N:
        return "tweak"
    q = padd(pt, pmul(t, G))
    if q is None:
        return "tweak"
    return (q[0].to_bytes(32, "big"), q[1] & 1)


def verify_control(control, script, q32):
    """BIP341 script path rule (the commitment part)"""
    if len(control) < 33 or len(control) > 33 + 32 * 128 or (len(control) - 33) % 32:
        return False
    p = control[1:33]
    k = leaf_hash(script, control[0] & 0xfe)
    for j in range((len(control) - 33) // 32):
        e = control[33 + 32 * j: 65 + 32 * j]
        k = branch(k, e)
    r = tweak_key(p, k)
    return isinstance(r, tuple) and r[0] == q32 and r[1] == (control[0] & 1)


def py_tree(hs):
    """tap's tree, described level-wise: neighbours are paired, a leftover leaf joins the last pair, then levels are
    paired with the odd one carried.  Returns (root, {leaf index: path})"""
    paths = {i: [] for i in range(len(hs))}

    def join(a, b):
        for i in a[1]:
            paths[i].append(b[0])
        for i in b[1]:
            paths[i].append(a[0])
        return (branch(a[0], b[0]), a[1] + b[1])
    nodes = [(h, [i]) for i, h in enumerate(hs)]
    level = [join(nodes[i], nodes[i + 1]) for i in range(0, len(nodes) - 1, 2)]
    if len(nodes) % 2:
        if level:
            level[-1] = join(level[-1], nodes[-1])
        else:
            level = [nodes[-1]]
    while len(level) > 1:
        nxt = [join(level[i], level[i + 1]) for i in range(0, len(level) - 1, 2)]
        if len(level) % 2:
            nxt.append(level[-1])
        level = nxt
    return level[0][0], paths


B32 = "qpzry9x8gf2tvdw0s3jn54khce6mua7l"
BECH32M_CONST = 0x2bc830a3


def _polymod(values):
    gen = [0x3b6a57b2, 0x26508e6d, 0x1ea119fa, 0x3d4233dd, 0x2a1462b3]
    chk = 1
    for v in values:
        b = chk >> 25
        chk = (chk & 0x1ffffff) << 5 ^ v
        for i in range(5):
            chk ^= gen[i] if ((b >> i) & 1) else 0
    return chk


def _hrp_expand(hrp):
    return [ord(x) >> 5 for x in hrp] + [0] + [ord(x) & 31 for x in hrp]


def _convertbits(data, frm, to, pad):
    acc = bits = 0
    ret = []
    for v in data:
        acc = (acc << frm) | v
        bits += frm
        while bits >= to:
            bits -= to
            ret.append((acc >> bits) & ((1 << to) - 1))
    if pad and bits:
        ret.append((acc << (to - bits)) & ((1 << to) - 1))
    elif not pad and (bits >= frm or ((acc << (to - bits)) & ((1 << to) - 1))):
        return None
    return ret


def bech32m_encode(hrp, witver, prog):
    data = [witver] + _convertbits(prog, 8, 5, True)
    pm = _polymod(_hrp_expand(hrp) + data + [0] * 6) ^ BECH32M_CONST
    return hrp + "1" + "".join(B32[d] for d in data + [(pm >> 5 * (5 - i)) & 31 for i in range(6)])


def bech32m_decode(addr):
    if addr.lower() != addr or "1" not in addr:
        return None
    pos = addr.rfind("1")
    hrp, rest = addr[:pos], addr[pos + 1:]
    if not hrp or len(rest) < 7 or any(c not in B32 for c in rest):
        return None
    data = [B32.index(c) for c in rest]
    if _polymod(_hrp_expand(hrp) + data) != BECH32M_CONST:
        return None
    prog = _convertbits(data[1:-6], 5, 8, False)
    if prog is None:
        return None
    return hrp, data[0], bytes(prog)


def ser_tx(ver, vin, vout, lock, witness=True):
    """vin: (prevhash, n, scriptSig, sequence, [witness items]); vout: (amount, spk)"""
    has_w = witness and any(i[4] for i in vin)
    out = ver.to_bytes(4, "little")
    if has_w:
        out += b"\x00\x01"
    out += cs(len(vin))
    for h, n, ss, seq, _ in vin:
        out += h + n.to_bytes(4, "little") + cs(len(ss)) + ss + seq.to_bytes(4, "little")
    out += cs(len(vout))
    for v, spk in vout:
        out += v.to_bytes(8, "little") + cs(len(spk)) + spk
    if has_w:
        for i in vin:
            out += cs(len(i[4]))
            for it in i[4]:
                out += cs(len(it)) + it
    return out + lock.to_bytes(4, "little")


def parse_tx(raw):
    pos = 0

    def take(k):
        nonlocal pos
        if pos + k > len(raw):
            raise ValueError("short")
        b = raw[pos:pos + k]
        pos += k
        return b

    def rcs():
        b = take(1)[0]
        if b < 253:
            return b
        return int.from_bytes(take({253: 2, 254: 4, 255: 8}[b]), "little")
    ver = int.from_bytes(take(4), "little")
    has_w = raw[pos:pos + 2] == b"\x00\x01"
    if has_w:
        take(2)
    vin = []
    for _ in range(rcs()):
        h = take(32)
        n = int.from_bytes(take(4), "little")
        ss = take(rcs())
        vin.append([h, n, ss, int.from_bytes(take(4), "little"), []])
    vout = []
    for _ in range(rcs()):
        v = int.from_bytes(take(8), "little")
        vout.append((v, take(rcs())))
    if has_w:
        for i in vin:
            i[4] = [take(rcs()) for _ in range(rcs())]
    lock = int.from_bytes(take(4), "little")
    if pos != len(raw):
        raise ValueError("trailing")
    return ver, vin, vout, lock


def sighash341(tx, spent, idx, tapleaf=None, hash_type=0, codesep=0xffffffff, annex=None):
    """BIP341 (key path) / BIP342 (script path) signature message digest for SIGHASH_DEFAULT / ALL"""
    ver, vin, vout, lock = tx
    m = b"\x00" + bytes([hash_type]) + ver.to_bytes(4, "little") + lock.to_bytes(4, "little")
    m += sha(b"".join(i[0] + i[1].to_bytes(4, "little") for i in vin))
    m += sha(b"".join(a.to_bytes(8, "little") for a, _ in spent))
    m += sha(b"".join(cs(len(s)) + s for _, s in spent))
    m += sha(b"".join(i[3].to_bytes(4, "little") for i in vin))
    m += sha(b"".join(v.to_bytes(8, "little") + cs(len(s)) + s for v, s in vout))
    ext = 1 if tapleaf is not None else 0
    m += bytes([ext * 2 + (1 if annex is not None else 0)]) + idx.to_bytes(4, "little")
    if annex is not None:
        m += sha(cs(len(annex)) + annex)
    if ext:
        m += tapleaf + b"\x00" + codesep.to_bytes(4, "little")
    return tagged("TapSighash", m)


PLACEHOLDER = bytes(i % 16 for i in range(64))

# --------------------------------------------------------------------------------------------------
# case generation

NONPUSH = [0x00] + list(range(0x4f, 0xbb))


def rand_script(rnd, big=False):
    """a script that passes HasValidOps (opcodes <= 0xba, complete pushes of at most 520 bytes)"""
    out = bytearray()
    for _ in range(rnd.choice((0, 1, 1, 2, 3, 5, 8, 12)) if not big else rnd.choice((3, 6))):
        k = rnd.random()
        if k < 0.45:
            out.append(rnd.choice(NONPUSH))
        elif k < 0.8:
            n = rnd.choice((1, 2, 20, 32, 33, 75))
            out.append(n)
            out += bytes(rnd.randrange(256) for _ in range(n))
        elif k < 0.9 or not big:
            n = rnd.choice((0, 1, 76, 80, 255))
            out += bytes([0x4c, n]) + bytes(rnd.randrange(256) for _ in range(n))
        else:
            n = rnd.choice((0, 256, 300, 520))
            out += bytes([0x4d]) + n.to_bytes(2, "little") + bytes(rnd.randrange(256) for _ in range(n))
    return bytes(out)


def rand_scripts(rnd, n):
    """n leaf scripts: random contents, some equal to each other, an empty one, lengths around the compact size boundary"""
    pool = [rand_script(rnd) for _ in range(max(1, n // 2))]
    out = []
    for k in range(n):
        r = rnd.random()
        if r < 0.25 and out:
            out.append(rnd.choice(out))                       # equal scripts
        elif r < 0.30:
            out.append(b"")
        elif r < 0.36:
            out.append(rand_script(rnd, big=True))
        elif r < 0.40:
            ln = rnd.choice((252, 253, 254))                    # one push-free script of exactly that length
            out.append(bytes(rnd.choice(NONPUSH[1:]) for _ in range(ln)))
        elif r < 0.6:
            out.append(rnd.choice(pool))
        else:
            out.append(rand_script(rnd))
    return out


def rand_key(rnd, kind="valid"):
    if kind == "valid":
        k = rnd.randrange(1, N)
        return pmul(k, G)[0].to_bytes(32, "big")
    if kind == "notoncurve":
        while True:
            x = rnd.randrange(1, P)
            if lift_x(x) is None:
                return x.to_bytes(32, "big")
    if kind == "geP":
        return rnd.randrange(P, 2 ** 256).to_bytes(32, "big")
    raise ValueError(kind)


def item(b):
    return b.hex() if b else "_"


def items(bs):
    return ",".join(item(b) for b in bs) if bs else "-"


def tap_line(key, scripts, sel, hrp, vout=0, seed=0, extra=0):
    """the case as a protocol line; the last word (which output of the funding transaction is spent, the seed of the two
    transactions, further inputs) is only for the implementation side and for replay"""
    idx, args = ("-", []) if sel is None else (str(sel[0]), sel[1])
    return f"TAP {key.hex()} {items(scripts)} {idx} {items(args)} {hrp.encode('latin1').hex() or '-'} tx={vout}:{seed}:{extra}"


def parse_tap_line(line):
    w = line.split(" ")
    un = lambda s: [] if s == "-" else [b"" if x == "_" else bytes.fromhex(x) for x in s.split(",")]  # noqa: E731
    key = bytes.fromhex(w[1])
    scripts = un(w[2])
    sel = None if w[3] == "-" else (int(w[3]), un(w[4]) if len(w) > 4 else [])
    hrp = ("" if w[5] == "-" else bytes.fromhex(w[5]).decode("latin1")) if len(w) > 5 else "bcrt"
    return key, scripts, sel, hrp


def parse_tx_word(line):
    m = re.search(r" tx=(\d+):(\d+):(\d+)$", line)
    return tuple(int(x) for x in m.groups()) if m else (0, 0, 0)


# --------------------------------------------------------------------------------------------------
# the implementation voice: the tap binary

ERRS = [("invalid address prefix", "ERR invalid-hrp"), ("cannot compute the taproot signature hash of a transaction with", "ERR input-count"), ("not parsable hex value", "ERR key-hex"), ("must be 32 bytes", "ERR key-length"),
        ("invalid script count", "ERR script-count"), ("missing scripts", "ERR missing-scripts"),
        ("invalid script index", "ERR script-index"), ("Unable to generate tapscript commitment tree", "ERR tree"),
        ("Spending leaf was not derived", "ERR spending-leaf"), ("pubkey invalid (parse failed)", "ERR key-parse"),
        ("secp256k1_xonly_pubkey_tweak_add call failed", "ERR tweak"), ("pubkey mismatch", "ERR pubkey-mismatch")]


def funding_txs(rnd_seed, key32, vout_index=0, extra_inputs=0):
    """an input transaction paying to OP_1 <key> at vout_index, and a transaction spending that output
    (`extra_inputs` further, unrelated inputs after it)"""
    r = random.Random(rnd_seed)
    spk = b"\x51\x20" + key32
    outs = [(r.randrange(1000, 10 ** 9), bytes([0x00, 0x14]) + bytes(r.randrange(256) for _ in range(20))) for _ in range(vout_index)]
    outs.append((r.randrange(1000, 10 ** 9), spk))
    txin = (2, [[bytes(r.randrange(256) for _ in range(32)), r.randrange(4), b"", 0xfffffffd, []]], outs, 0)
    txid = sha(sha(ser_tx(*txin, witness=False)))
    tx = (r.choice((1, 2)), [[txid, vout_index, b"", r.choice((0, 0xffffffff, 0xfffffffe)), []]],
          [(r.randrange(500, 900), b"\x51\x20" + bytes(r.randrange(256) for _ in range(32)))], r.choice((0, 0, 700000)))
    for _ in range(extra_inputs):
        tx[1].append([bytes(r.randrange(256) for _ in range(32)), r.randrange(3), b"", 0xffffffff, []])
    return txin, tx


def run_tap(tapbin, argv, tty=True, timeout=120):
    """tap with pseudo-terminals as stdin and stdout (it then logs the control block, tweak and sighash on stderr),
    or with pipes.  harness/ptyrun.py reads stderr only after the exit, which blocks once the log exceeds the pipe
    buffer (large script counts), so terminal mode is done here with one select loop over stdout and stderr."""
    if not tty:
        return ptyrun.run([tapbin] + argv, "pipe", "pipe", timeout=timeout)
    env = dict(os.environ)
    env["TERM"] = "dumb"
    m_in, s_in = pty.openpty()
    m_out, s_out = pty.openpty()
    p = subprocess.Popen([tapbin] + argv, stdin=s_in, stdout=s_out, stderr=subprocess.PIPE, env=env, close_fds=True,
                         start_new_session=True)
    os.close(s_in)
    os.close(s_out)
    efd = p.stderr.fileno()
    bufs = {m_out: b"", efd: b""}
    live = {m_out, efd}
    t0 = time.time()
    try:
        while live:
            r, _, _ = select.select(list(live), [], [], 0.05)
            for fd in r:
                try:
                    d = os.read(fd, 65536)
                except OSError:
                    d = b""
                if d:
                    bufs[fd] += d
                else:
                    live.discard(fd)
            if not r and p.poll() is not None:
                # the slave side of the terminal stays open in no one: drain what is left and stop
                for fd in list(live):
                    try:
                        while True:
                            rr, _, _ = select.select([fd], [], [], 0.02)
                            if not rr:
                                break
                            d = os.read(fd, 65536)
                            if not d:
                                break
                            bufs[fd] += d
                    except OSError:
                        pass
                break
            if time.time() - t0 > timeout:
                os.killpg(p.pid, signal.SIGKILL)
                break
        p.wait()
    finally:
        p.stderr.close()
        for fd in (m_in, m_out):
            try:
                os.close(fd)
            except OSError:
                pass
    return p.returncode, bufs[m_out].replace(b"\r\n", b"\n").decode("latin1"), bufs[efd].decode("latin1")


def observe(rc, out, err, want_tx):
    """canonical answer line of one tap run (pseudo-terminal mode) + side observations"""
    side = {}
    if rc is not None and rc < 0:
        if "Assertion `c < 'A' || c > 'Z'' failed" in err:
            return "ABORT bech32-assert", side
        if "m_spent_outputs.size() == txTo.vin.size()" in err:
            side["sighash_abort"] = True
            return "ABORT spent-outputs-assert", side
        return f"DIED sig={-rc}", side
    if "Syntax: " in err and rc == 0:
        return "USAGE", side
    if rc != 0:
        m = re.search(r"invalid script #(\d+):", err)
        if m:
            return f"ERR invalid-script {m.group(1)}", side
        for pat, word in ERRS:
            if pat in err:
                return word, side
        return f"EXIT {rc} " + err.strip().split("\n")[-1][:80], side
    m = re.search(r"Resulting Bech32m address: ([^\n]*)", out)
    mk = re.search(r"Tweaked pubkey = ([0-9a-f]{64}) \((not )?even\)", err)
    mt = re.search(r"Tweak value = TapTweak\(([0-9a-f]{64}) \|\| ([0-9a-f]{64})\) = ([0-9a-f]{64})", err)
    if not (m and mk and mt):
        return "UNPARSED " + (out + err)[-120:].replace("\n", "|"), side
    side["address"] = m.group(1)
    dec = bech32m_decode(m.group(1))
    side["addr"] = dec
    # (an address that does not decode — possible only with an invalid prefix — still shows the key it was made from)
    prog = dec[2].hex() if dec else mk.group(1)
    mc = re.search(r"Final control object = ([0-9a-f]+)", err)
    control = mc.group(1) if mc else "-"
    line = f"key={mk.group(1)} parity={1 if mk.group(2) else 0} addr_program={prog} address={m.group(1) or '-'} control={control}"
    if want_tx:
        mx = re.search(r"Resulting transaction: ([0-9a-f]+)", out)
        ms = re.search(r"sighash \(little endian\) = ([0-9a-f]{64})", err)
        if not mx:
            return "UNPARSED-TX " + out[-120:].replace("\n", "|"), side
        try:
            tx = parse_tx(bytes.fromhex(mx.group(1)))
        except ValueError as e:
            return f"UNPARSED-TX {e}", side
        side["tx"] = tx
        side["sighash"] = ms.group(1) if ms else None
        wit = tx[1][0][4]
        side["txwitness"] = wit
        if control != "-" and len(wit) >= 3:
            line += f" script={item(wit[-2])} witness={items(wit[1:])}"
        else:
            line += " script=- witness=-"
        line += f" txwitness={items(wit)}"
    line += f" root={mt.group(2)} tweak={mt.group(3)}"
    return line, side


def strip_tx_fields(line):
    """the observable when tap ran without transactions: script / witness are not printed"""
    return re.sub(r" (script|witness|txwitness)=\S+", "", line)


def has_valid_ops(s):
    """every operation decodes, no opcode above OP_NOP10 (0xba), no push above 520 bytes"""
    i = 0
    while i < len(s):
        op = s[i]
        i += 1
        if op <= 0x4e:
            if op < 0x4c:
                n = op
            else:
                w = {0x4c: 1, 0x4d: 2, 0x4e: 4}[op]
                if i + w > len(s):
                    return False
                n = int.from_bytes(s[i:i + w], "little")
                i += w
            if i + n > len(s) or n > 520:
                return False
            i += n
        elif op > 0xba:
            return False
    return True


_REF = {}


def hrp_valid(hrp):
    """BIP173 human readable part, as an encoder emits it: 1..83 characters in 33..126, no upper case"""
    return 1 <= len(hrp) <= 83 and all(33 <= ord(c) <= 126 and not c.isupper() for c in hrp)


def python_line(key, scripts, sel, hrp="bcrt"):
    """the reference's answer from scratch (None if out of its domain)"""
    if not hrp_valid(hrp):
        return None
    if len(key) != 32 or not (1 <= len(scripts) <= 1024) or (sel and sel[0] >= len(scripts)):
        return None
    for k, sc in enumerate(scripts):
        if not has_valid_ops(sc):
            return f"ERR invalid-script {k}"
    ck = (key, tuple(scripts))
    if ck not in _REF:
        if len(_REF) > 256:
            _REF.clear()
        root, paths = py_tree([leaf_hash(s) for s in scripts])
        _REF[ck] = (root, paths, tweak_key(key, root))
    root, paths, r = _REF[ck]
    if not isinstance(r, tuple):
        return "ERR " + r
    q, par = r
    tw = tagged("TapTweak", key + root).hex()
    if sel is None:
        return (f"key={q.hex()} parity={par} addr_program={q.hex()} address={bech32m_encode(hrp, 1, q)} control=- script=- witness=- "
                f"txwitness={items([PLACEHOLDER])} root={root.hex()} tweak={tw}")
    i, args = sel
    control = bytes([0xc0 | par]) + key + b"".join(paths[i])
    wit = list(args) + [scripts[i], control]
    return (f"key={q.hex()} parity={par} addr_program={q.hex()} address={bech32m_encode(hrp, 1, q)} control={control.hex()} script={item(scripts[i])} "
            f"witness={items(wit)} txwitness={items([PLACEHOLDER] + wit)} root={root.hex()} tweak={tw}")


class Case:
    __slots__ = ("key", "scripts", "sel", "hrp", "line", "vout", "seed", "impl", "side", "extra")

    def __init__(self, key, scripts, sel, hrp, vout=0, seed=0, extra=0):
        self.key, self.scripts, self.sel, self.hrp, self.vout, self.seed = key, scripts, sel, hrp, vout, seed
        self.extra = extra
        self.line = tap_line(key, scripts, sel, hrp, vout, seed, extra)
        self.impl = None
        self.side = None


def tap_argv(c, txs):
    av = ["--addrprefix=" + c.hrp] if c.hrp != "bcrt" else []
    if txs:
        av += ["--tx=" + ser_tx(*txs[1]).hex(), "--txin=" + ser_tx(*txs[0]).hex()]
    av += [c.key.hex(), str(len(c.scripts))] + ["0x" + s.hex() for s in c.scripts]
    if c.sel is not None:
        av += [str(c.sel[0])] + ["0x" + a.hex() for a in c.sel[1]]
    return av


def exec_case(tapbin, c, outkey):
    """run tap on one case; with transactions when the output key is known (needed to fund the input)"""
    txs = funding_txs(c.seed, outkey, c.vout, c.extra) if outkey else None
    rc, out, err = run_tap(tapbin, tap_argv(c, txs))
    c.impl, c.side = observe(rc, out, err, bool(txs))
    c.side["txs"] = txs
    return c


def run_cases(ctx, stream, cases, tapbin, with_tx=True, workers=12):
    """all voices on a list of cases; returns the number of disagreements"""
    written = [0]

    def violation(case, detail, suffix=""):
        # every disagreement is counted, the first few per stream are written out as replay files
        written[0] += 1
        if written[0] <= 4:
            ctx.violation(case, detail, suffix=suffix)
    # the output key of each distinct (key, scripts) — from the reference; tap itself refuses the run if it disagrees
    # ("pubkey mismatch"), which is part of the property (the key must not depend on the selection)
    keycache = {}
    for c in cases:
        k = (c.key, tuple(c.scripts))
        if with_tx and k not in keycache:
            pl = python_line(c.key, c.scripts, None)
            m = re.match(r"key=([0-9a-f]{64}) ", pl or "")
            keycache[k] = bytes.fromhex(m.group(1)) if m else None
    with ThreadPoolExecutor(max_workers=workers) as ex:
        list(ex.map(lambda c: exec_case(tapbin, c, keycache.get((c.key, tuple(c.scripts))) if with_tx else None), cases))
    # the transaction tap prints is the transaction it was given — version, inputs, sequences, outputs, lock time — with the witness of the
    # spent input filled in
    for c in cases:
        t_out, txs = (c.side or {}).get("tx"), (c.side or {}).get("txs")
        if t_out and txs:
            strip = lambda t: (t[0], [(bytes(i[0]), i[1], bytes(i[2]), i[3]) for i in t[1]], [(o[0], bytes(o[1])) for o in t[2]], t[3])
            if strip(t_out) != strip(txs[1]):
                violation(c.line, {"stream": stream + "-tx-preserved", "given": repr(strip(txs[1]))[:400], "printed": repr(strip(t_out))[:400],
                                   "why": "the transaction tap prints differs from the one it was given in more than the witness"})
    lines = [c.line for c in cases]
    impl = [c.impl for c in cases]
    model = ctx.driver_sharded(lines, "model")
    spec = ctx.driver_sharded(lines, "spec")
    has_tx = {c.line: bool(c.side.get("txs")) for c in cases}

    def obs_for(idx):
        return (lambda x: x) if has_tx[lines[idx]] else strip_tx_fields
    # compare() takes one observable; split by mode
    a = [i for i in range(len(cases)) if has_tx[lines[i]]]
    b = [i for i in range(len(cases)) if not has_tx[lines[i]]]
    bad = 0

    def region(case, im, mo, sp):
        # tap does not validate --addrprefix: implementation and model agree, BIP173 has no such address
        return FINDING_HRP if not hrp_valid(parse_tap_line(case)[3]) else None
    for idxs, ob, name in ((a, None, stream), (b, strip_tx_fields, stream + "-notx")):
        if idxs:
            bad += ctx.compare(name, [lines[i] for i in idxs], [impl[i] for i in idxs], [model[i] for i in idxs],
                               [spec[i] for i in idxs], observable=ob, region=region, nontrivial=lambda c_, i_: i_.startswith("key="))
    # ---- python reference voice and the cross-run facts
    npy = 0
    for c in cases:
        want = python_line(c.key, c.scripts, c.sel, c.hrp)
        if want is None:
            continue
        npy += 1
        got = c.impl
        if not c.side.get("txs"):
            want, got = strip_tx_fields(want), strip_tx_fields(got)
        differs = got != want
        if differs and not (c.impl.startswith("key=") and want.startswith("key=")):
            violation(c.line, {"stream": stream, "why": "tap's output differs from the independent BIP341 reference", "impl": c.impl, "python": want})
            bad += 1
            continue
        bad0 = bad
        if not c.impl.startswith("key="):
            continue
        f = dict(x.split("=", 1) for x in c.impl.split(" "))
        q = bytes.fromhex(f["key"])
        addr = c.side.get("address")
        if addr != bech32m_encode(c.hrp, 1, q) or c.side.get("addr") != (c.hrp, 1, q):
            violation(c.line, {"stream": stream, "why": "printed address is not bech32m(hrp, 1, output key)", "address": addr,
                                   "expected": bech32m_encode(c.hrp, 1, q)})
            bad += 1
        if c.sel is not None and c.side.get("txs"):
            control = bytes.fromhex(f["control"])
            script = b"" if f["script"] == "_" else bytes.fromhex(f["script"])
            if script != c.scripts[c.sel[0]] or not verify_control(control, script, q):
                violation(c.line, {"stream": stream, "why": "emitted (control block, script) does not verify under BIP341 against the printed key",
                                       "impl": c.impl})
                bad += 1
        if c.side.get("txs") and c.side.get("sighash"):
            txin, _ = c.side["txs"]
            spent = [txin[2][c.vout]]
            tl = leaf_hash(c.scripts[c.sel[0]]) if c.sel is not None else None
            want_sh = sighash341(c.side["tx"], spent, 0, tl).hex()
            if want_sh != c.side["sighash"]:
                violation(c.line, {"stream": stream, "why": "reported sighash is not the BIP341/342 digest of the transaction tap outputs",
                                       "impl_sighash": c.side["sighash"], "python": want_sh, "tx": ser_tx(*c.side["tx"]).hex(),
                                       "txin": ser_tx(*txin).hex()})
                bad += 1
        if differs and bad == bad0:
            # what tap printed is consistent under BIP341 (address, control block, sighash) but is not what the reference
            # computes from scratch: the tree has another shape than the one described by the model and the reference
            violation(c.line, {"stream": stream, "why": "correspondence: tap's output verifies under BIP341 but differs from the reference "
                                   "(another tree shape / tweak than modelled)", "impl": c.impl, "python": want}, suffix="no-failing-input-found")
            bad += 1
    ctx.count(stream + "-python", npy)
    # ---- the address is the same whatever is selected
    groups = {}
    for c in cases:
        if c.impl.startswith("key="):
            groups.setdefault((c.key, tuple(c.scripts), c.hrp), set()).add(c.side.get("address"))
    for k, v in groups.items():
        if len(v) != 1:
            violation(tap_line(k[0], list(k[1]), None, k[2]), {"stream": stream, "why": "address depends on the selected leaf", "addresses": sorted(map(str, v))})
            bad += 1
    # ---- the debugger's own commitment check on what tap printed
    tce_lines = []
    for c in cases:
        if c.sel is not None and c.impl.startswith("key=") and c.side.get("txs"):
            f = dict(x.split("=", 1) for x in c.impl.split(" "))
            tce_lines.append(f"TCE {f['control']} {f['addr_program']} {'-' if f['script'] == '_' else f['script']}")
    if tce_lines:
        ti = ctx.harness_sharded(tce_lines)
        tm = ctx.driver_sharded(tce_lines, "model")
        ts = ctx.driver_sharded(tce_lines, "spec")
        bad += ctx.compare(stream + "-tce", tce_lines, ti, tm, ts, nontrivial=lambda c_, i_: "result=" in i_)
        for l, r in zip(tce_lines, ti):
            if "result=DONE" not in r:
                violation(l, {"stream": stream + "-tce", "why": "the debugger's commitment check rejects what tap printed", "impl": r})
                bad += 1
    # ---- the reported signature hash: tap's log line vs the model of configure_tx_txin + calc_sighash vs the BIP341/342 digest
    sh = [(f"TAPSIGHASH {ser_tx(*c.side['tx']).hex()} {ser_tx(*c.side['txs'][0]).hex()}", c.side["sighash"])
          for c in cases if c.side.get("txs") and c.side.get("sighash") and c.side.get("tx")]
    if sh:
        sl = [x[0] for x in sh]
        bad += ctx.compare(stream + "-sighash", sl, [x[1] for x in sh], ctx.driver_sharded(sl, "model"), ctx.driver_sharded(sl, "spec"),
                           nontrivial=lambda c_, i_: len(i_) == 64)
    return bad


def run_multi_input(ctx, cases, tapbin):
    """with more than one input in the spending transaction `Instance::calc_sighash` refuses ("cannot compute the taproot
    signature hash of a transaction with N inputs", exit 1; before the fix it died on an assertion of
    `PrecomputedTransactionData::Init`).  Implementation vs model; the specification has a digest, tap reports none."""
    for c in cases:
        pl = python_line(c.key, c.scripts, None)
        m = re.match(r"key=([0-9a-f]{64}) ", pl or "")
        exec_case(tapbin, c, bytes.fromhex(m.group(1)))
    lines, impl = [], []
    for c in cases:
        txin, tx = c.side["txs"]
        want = python_line(c.key, c.scripts, c.sel)
        wit = [PLACEHOLDER] + ([] if c.sel is None else list(c.sel[1]) + [c.scripts[c.sel[0]], bytes.fromhex(re.search(r"control=([0-9a-f]+)", want).group(1))])
        tx[1][0][4] = wit
        lines.append(f"TAPSIGHASH {ser_tx(*tx).hex()} {ser_tx(*txin).hex()}")
        impl.append(c.impl)
    model = ctx.driver(lines, "model")
    ctx.compare("sighash-multi-input", lines, impl, model, None, nontrivial=lambda c_, i_: i_ == "ERR input-count")
    for l, i in zip(lines, impl):
        if i != "ERR input-count":
            ctx.violation(l, {"stream": "sighash-multi-input", "why": "a spending transaction with several inputs is not refused with the "
                              "input-count diagnostic (an abort here is the assertion in PrecomputedTransactionData::Init)", "impl": i})


# --------------------------------------------------------------------------------------------------
# argument-level stream

def args_line(argv):
    return "TAPARGS " + " ".join(a.encode("latin1").hex() or "-" for a in argv)


def run_args(ctx, stream, argvs, tapbin, workers=12):
    def one(av):
        # "--" ends option parsing: cliargs uses getopt_long, which would take "-1" for an option
        rc, out, err = run_tap(tapbin, ["--"] + av)
        return observe(rc, out, err, False)[0]
    with ThreadPoolExecutor(max_workers=workers) as ex:
        impl = list(ex.map(one, argvs))
    lines = [args_line(a) for a in argvs]
    model = ctx.driver_sharded(lines, "model")
    return ctx.compare(stream, lines, impl, model, None, observable=strip_tx_fields,
                       nontrivial=lambda c_, i_: i_.startswith("key=") or i_.startswith("ERR"))


def expression_pairs(rnd):
    """(argv with a value expression, the same argv with the bytes the expression denotes): tap must answer both alike —
    evaluating an expression must not disturb anything else (the address prefix is a global the bech32 functions also use)"""
    k = rand_key(rnd).hex()
    p20, p32 = bytes(range(20)), bytes(range(32))
    out = []
    for hrp in ("bc", "tb", "x"):
        a20 = bech32m_encode(hrp, 1, p20); a32 = bech32m_encode(hrp, 1, p32)
        out.append(([k, "1", "[OP_HASH160 bech32dec(%s) OP_EQUAL]" % a20, "0"], [k, "1", "[OP_HASH160 0x%s OP_EQUAL]" % p20.hex(), "0"]))
        out.append(([k, "2", "0x51", "0x52", "1", "bech32dec(%s)" % a32], [k, "2", "0x51", "0x52", "1", "0x" + p32.hex()]))
        out.append(([k, "1", "[OP_1]", "0", "bech32dec(%s)" % a20, "0x01"], [k, "1", "[OP_1]", "0", "0x" + p20.hex(), "0x01"]))
        out.append(([k, "2", "[bech32dec(%s) OP_DROP OP_1]" % a32, "0x51"], [k, "2", "[0x%s OP_DROP OP_1]" % p32.hex(), "0x51"]))
    return out


def run_expression_pairs(ctx, rnd, tapbin):
    pairs = expression_pairs(rnd)
    def one(av):
        rc, out, err = run_tap(tapbin, ["--"] + av)
        return observe(rc, out, err, False)[0]
    with ThreadPoolExecutor(max_workers=12) as ex:
        a = list(ex.map(one, [p[0] for p in pairs])); b = list(ex.map(one, [p[1] for p in pairs]))
    for (av, bv), x, y in zip(pairs, a, b):
        if x != y:
            ctx.violation(args_line(av), {"stream": "argument-expressions", "with_expression": x, "with_literal": y, "literal_argv": bv,
                                          "why": "tap answers differently when an argument is written as a value expression denoting the same bytes"})
    ctx.count("argument-expressions", len(pairs), distinct_keys=["expr%d" % i for i in range(len(pairs))])


def arg_stream(rnd, quick):
    k = rand_key(rnd).hex()
    s = ["0x5152", "0x51", "0xac"]
    out = [
        [k, "1", "0x51"], [k, "1", "0x51", "0"], [k, "3"] + s + ["2"], [k, "3"] + s + ["3"], [k, "3"] + s + ["-1"],
        [k, "3"] + s + ["1x"], [k, "3"] + s + [" 2"], [k, "3"] + s + ["abc"], [k, "3"] + s + ["1", "0x01", "%SIG%", "0x"],
        [k, "0", "0x51"], [k, "-1", "0x51"], [k, "1025"] + ["0x51"] * 4, [k, "4"] + s, [k, "2"] + s, [k, "2x"] + s,
        [k, " 3"] + s, [k, "+3"] + s, [k, "03"] + s, [k, "3.9"] + s, [k, "99999999999999999999"] + s, [k, "", "0x51"],
        [k, "1"], [k], [], [k[:-2], "1", "0x51"], [k + "00", "1", "0x51"], [k[:-1], "1", "0x51"], ["zz" + k[2:], "1", "0x51"],
        [k.upper(), "1", "0x51"], ["0x" + k, "1", "0x51"], [k[:32] + " " + k[32:], "1", "0x51"],
        [rand_key(rnd, "notoncurve").hex(), "1", "0x51"], [rand_key(rnd, "geP").hex(), "2", "0x51", "0x52", "1"],
        ["00" * 32, "1", "0x51"], ["ff" * 32, "1", "0x51"],
        # script forms read by Value
        [k, "3", "OP_1", "[OP_1 OP_2]", "0x"], [k, "2", "0", "16", "1"], [k, "1", "5"], [k, "1", "abc", "0"], [k, "2", "51", "0x51", "1"],
        [k, "1", "[OP_DUP OP_HASH160 0x0102030405060708091011121314151617181920 OP_EQUALVERIFY OP_CHECKSIG]", "0", "0x" + "11" * 64, "0x" + "22" * 33],
        [k, "1", "[0x" + "ab" * 520 + "]", "0"], [k, "1", "[0x" + "ab" * 521 + "]", "0"],
        # value expressions with inline functions in scripts and spend arguments (they must not disturb anything else:
        # e.g. the address prefix is a global that bech32 functions also use)
        [k, "2", "0x51", "[OP_SHA256 sha256(0x01) OP_EQUAL]", "1"],
        [k, "1", "[hash160(0x02aa) OP_DROP OP_1]"], [k, "2", "[reverse(0x0102) OP_DROP OP_1]", "0x51", "0"],
        # invalid scripts: undefined opcode, truncated push
        [k, "3", "0x51", "0xbb", "0x52"], [k, "2", "0x51", "0xff", "0"], [k, "2", "0x02ab", "0x51"], [k, "1", "0x4c"], [k, "1", "0x4d0100"],
        [k, "2", "0xba", "0xbb", "1"], [k, "1", "0x4e00000000"], [k, "1", "0x4d0902" + "00" * 521],
    ]
    for _ in range(10 if quick else 150):
        n = rnd.choice((1, 2, 3, 4, 5, 7, 8, 9))
        sc = ["0x" + x.hex() for x in rand_scripts(rnd, n)]
        cnt = rnd.choice((str(n), str(n), str(n), str(n - 1), str(n + 1), str(n) + "q", "-" + str(n)))
        tail = rnd.choice(([], [], [str(rnd.randrange(0, n + 2))], [str(rnd.randrange(0, n)), "0x" + bytes(rnd.randrange(256) for _ in range(rnd.choice((0, 1, 32, 64)))).hex()]))
        out.append([rnd.choice((k, k, k, rand_key(rnd).hex(), rand_key(rnd, "notoncurve").hex())), cnt] + sc + tail)
    return out


# --------------------------------------------------------------------------------------------------

# (every character class tap's prefix validation lets through: the six between 'Z' and 'a' / '@' have no lower-case twin)
HRPS = ["bcrt", "tb", "bc", "x", "tapro0t", "a" * 20, "my_net", "a@b", "[x]", "^", "\\", "`{|}~", "-.+*", "0_9"]
# prefixes BIP173 does not allow (or an encoder must not emit): tap takes them as they are
BAD_HRPS = ["TB", "Bcrt", "", "a b", "t\x7fb", "z" * 84, " tb"]
FINDING_HRP = "F-C06-hrp-unchecked"


def sig_roundtrip(ctx, rnd, tapbin, quick):
    """the --sig round trip on the real tool: take the sighash tap reports for a script-path spend (with and without spend arguments),
    sign it with an independent BIP340 signer, hand the signature back with --sig: the emitted transaction is the placeholder
    transaction with the placeholder replaced ([sig, args…, script, control]) and validates (debugger session and specification)"""
    from . import pyref as PR
    from . import spendgen as SG
    from . import runlib as R
    from . import c03
    N = PR.N
    lines, metas = [], []
    for rep in range(5 if quick else 60):
        isk = rnd.randrange(1, N); key = PR.xonly(isk)
        lsk = rnd.randrange(1, N); lpk = PR.xonly(lsk)
        pre = bytes(rnd.randrange(256) for _ in range(rnd.choice((1, 5, 32))))
        a1 = bytes(rnd.randrange(1, 256) for _ in range(rnd.choice((1, 2, 33))))
        variants = [(PR.push(lpk) + b"\xac", []),
                    (b"\xa8" + PR.push(PR.sha256(pre)) + b"\x88" + PR.push(lpk) + b"\xac", [pre]),
                    (b"\x6d" + PR.push(lpk) + b"\xac", [a1, pre]),
                    (b"\x75" * 3 + PR.push(lpk) + b"\xac", [pre, a1, b"\x01"])]
        for leaf, args in variants:
            others = rand_scripts(rnd, rnd.choice((0, 1, 3)))
            i = rnd.randrange(len(others) + 1)
            scripts = others[:i] + [leaf] + others[i:]
            c = Case(key, scripts, (i, args), "bcrt", rnd.choice((0, 1)), seed=rnd.randrange(1 << 30))
            pl = python_line(key, scripts, None)
            m = re.match(r"key=([0-9a-f]{64}) ", pl or "")
            if not m: continue
            exec_case(tapbin, c, bytes.fromhex(m.group(1)))
            ctx.count("sig-roundtrip", 1)
            sh = (c.side or {}).get("sighash")
            if not sh:
                ctx.violation(c.line, {"stream": "sig-roundtrip", "impl": c.impl, "why": "no sighash reported for a script-path spend"}); continue
            sig = PR.schnorr_sign(lsk, bytes.fromhex(sh), bytes(rnd.randrange(256) for _ in range(32)))
            rc, out, err = run_tap(tapbin, ["--sig=" + sig.hex()] + tap_argv(c, c.side["txs"]))
            impl2, side2 = observe(rc, out, err, True)
            wit = side2.get("txwitness")
            ctx.nontrivial.add("sigrt:%d:%d" % (len(args), len(scripts)))
            if not wit or list(wit[:-2]) != [sig] + args or wit[-2] != leaf:
                ctx.violation(c.line + " ## --sig=" + sig.hex(), {"stream": "sig-roundtrip", "impl": impl2, "witness": [w.hex() for w in (wit or [])], "expected_prefix": [sig.hex()] + [a.hex() for a in args],
                                                                  "why": "with --sig the witness is not [signature, spend arguments…, script, control block]"})
                continue
            txin, _ = c.side["txs"]; tx = side2["tx"]
            conv = lambda t: (t[0], [(i_[0], i_[1], i_[2], list(i_[4]), i_[3]) for i_ in t[1]], list(t[2]), t[3])
            lines.append(SG.spend_line(conv(tx), conv(txin), R.STD)); metas.append(c.line)
    impl = ctx.harness_sharded(lines); spec = ctx.driver_sharded(lines, "spec")
    for l, cl, im, sp in zip(lines, metas, impl, spec):
        vi = c03.verdict_of_impl(im, R.STD)
        if vi != "VALID" or not sp.startswith("verdict=VALID"):
            ctx.violation(l, {"stream": "sig-roundtrip", "tap_case": cl, "session": im[-300:], "spec": sp, "why": "the transaction tap emits for a valid signature over the sighash it reported does not validate"})


def run(ctx):
    rnd = random.Random(ctx.seed * 1000003 + 6)
    quick = ctx.tier == "quick"
    tapbin = os.path.join(ctx.bin, "tap")
    # ---- exhaustive over (n, index), n = 1..64; one script list and key per n (two per n in the thorough tier)
    cases = []
    for rep in range(1 if quick else 2):
        for n in range(1, 65):
            key = rand_key(rnd)
            scripts = rand_scripts(rnd, n)
            hrp = HRPS[(n + rep) % len(HRPS)] if n % 4 == 0 else "bcrt"
            vout = n % 3
            cases.append(Case(key, scripts, None, hrp, vout, seed=rnd.randrange(1 << 30)))
            for i in range(n):
                args = [bytes(rnd.randrange(256) for _ in range(rnd.choice((0, 1, 32, 64, 65)))) for _ in range(rnd.choice((0, 0, 1, 2)))]
                cases.append(Case(key, scripts, (i, args), hrp, vout, seed=rnd.randrange(1 << 30)))
    bad = run_cases(ctx, "exhaustive-n-index", cases, tapbin)
    ctx.exhaustive = bad == 0
    par = {"0": 0, "1": 0}
    depth = {}
    for c in cases:
        m = re.search(r"parity=(\d)", c.impl or "")
        if m:
            par[m.group(1)] += 1
        m = re.search(r"control=([0-9a-f]+)", c.impl or "")
        if m:
            d = (len(m.group(1)) // 2 - 33) // 32
            depth[d] = depth.get(d, 0) + 1
    ctx.notes.append({"exhaustive": {"cases": len(cases), "parity": par, "path_lengths": dict(sorted(depth.items()))}})
    # ---- which child goes first is decided on all 256 bits: the real TapBranch class on pairs of hashes that agree on a prefix of
    #      every length (such leaves cannot be produced from scripts without a search), against model, spec and hashlib
    bl, exp = [], []
    for k in list(range(0, 32)) + [31, 31]:
        for rep in range(2 if quick else 12):
            pre = bytes(rnd.randrange(256) for _ in range(k))
            x, y = rnd.randrange(256), rnd.randrange(256)
            if x == y: y = (y + 1) % 256
            a = pre + bytes([x]) + bytes(rnd.randrange(256) for _ in range(31 - k))
            b = pre + bytes([y]) + bytes(rnd.randrange(256) for _ in range(31 - k))
            for (l, r) in ((a, b), (b, a)):
                bl.append("TAPBRANCH %s %s" % (l.hex(), r.hex()))
                lo, hi = (l, r) if l < r else (r, l)
                exp.append(tagged("TapBranch", lo + hi).hex())
    for (l, r) in ((bytes(32), bytes(32)), (b"\xff" * 32, b"\xff" * 32), (bytes(31) + b"\x01", bytes(32)), (b"\x80" + bytes(31), b"\x7f" + b"\xff" * 31)):
        bl.append("TAPBRANCH %s %s" % (l.hex(), r.hex()))
        lo, hi = (l, r) if l < r else (r, l)
        exp.append(tagged("TapBranch", lo + hi).hex())
    bi = ctx.harness(bl); bm = ctx.driver(bl, "model"); bs = ctx.driver(bl, "spec")
    ctx.compare("branch-order", bl, bi, bm, bs, nontrivial=lambda c, im: True)
    for l, im, e in zip(bl, bi, exp):
        if im != e:
            ctx.violation(l, {"stream": "branch-order", "impl": im, "expected": e, "why": "TapBranch over two hashes is not the BIP341 branch hash (smaller hash first, compared on all 32 bytes)"})
    sig_roundtrip(ctx, rnd, tapbin, quick)
    # ---- the same without transactions (address only) in pipe mode: what a user funding the address sees
    notx = []
    for c in cases:
        if c.sel is None or c.sel[0] in (0, len(c.scripts) - 1):
            notx.append(Case(c.key, c.scripts, c.sel, c.hrp))
    run_cases(ctx, "no-transaction", notx, tapbin, with_tx=False)
    with ThreadPoolExecutor(max_workers=12) as ex:
        piped = list(ex.map(lambda c: run_tap(tapbin, tap_argv(c, None), tty=False), notx))
    for c, (rc, out, err) in zip(notx, piped):
        m = re.search(r"Resulting Bech32m address: (\S+)", out)
        if rc != 0 or not m or m.group(1) != c.side.get("address"):
            ctx.violation(c.line, {"stream": "pipe-mode", "why": "address printed through pipes differs from the one printed on a terminal",
                                   "pipe": out[-200:], "tty": c.side.get("address")})
    ctx.count("pipe-mode", len(notx))
    # ---- larger trees
    big = []
    sizes = [65, 66, 96, 127, 128, 129] if quick else [65, 66, 96, 127, 128, 129, 255, 256, 257, 511, 512, 513, 1000, 1023, 1024] + \
        [rnd.randrange(65, 1025) for _ in range(25)]
    for n in sizes:
        key = rand_key(rnd)
        scripts = rand_scripts(rnd, n)
        hrp = rnd.choice(HRPS)
        idxs = {0, 1, n - 1, n - 2, n // 2, rnd.randrange(n), rnd.randrange(n)}
        big.append(Case(key, scripts, None, hrp, 0, seed=rnd.randrange(1 << 30)))
        for i in sorted(idxs):
            big.append(Case(key, scripts, (i, [b"\x01"] if i % 2 else []), hrp, i % 2, seed=rnd.randrange(1 << 30)))
    run_cases(ctx, "random-n-up-to-1024", big, tapbin)
    # ---- address prefixes: exotic valid ones, and ones BIP173 excludes (known finding: tap does not check the prefix)
    pre = []
    for hrp in ["1", "bc1", "~", "!" * 83, "q" * 40, "tb", "bcrt"] + BAD_HRPS:
        key = rand_key(rnd)
        scripts = rand_scripts(rnd, rnd.choice((1, 2, 3)))
        pre.append(Case(key, scripts, None, hrp))
        pre.append(Case(key, scripts, (len(scripts) - 1, []), hrp))
    run_cases(ctx, "address-prefix", pre, tapbin, with_tx=False)
    # ---- more than one input
    mi = []
    for n, sel, extra in ((1, None, 1), (1, (0, []), 1), (3, (2, [b"\x07"]), 2), (4, None, 3)):
        mi.append(Case(rand_key(rnd), rand_scripts(rnd, n), sel, "bcrt", 0, seed=rnd.randrange(1 << 30), extra=extra))
    run_multi_input(ctx, mi, tapbin)
    # ---- keys that are not valid, counts out of range (decoded-argument level: all voices)
    odd = []
    sc3 = rand_scripts(rnd, 3)
    for key in (rand_key(rnd, "notoncurve"), rand_key(rnd, "geP"), b"\x00" * 32, b"\xff" * 32):
        odd.append(Case(key, sc3, None, "bcrt"))
        odd.append(Case(key, sc3, (1, []), "bcrt"))
    odd.append(Case(rand_key(rnd), sc3, (3, []), "bcrt"))
    odd.append(Case(rand_key(rnd), sc3 + [b"\xbb"], (0, []), "bcrt"))
    odd.append(Case(rand_key(rnd), [b"\x51", b"\x02\x01"], None, "bcrt"))
    run_cases(ctx, "invalid-inputs", odd, tapbin, with_tx=False)
    # ---- argument level
    run_args(ctx, "arguments", arg_stream(rnd, quick), tapbin)
    run_expression_pairs(ctx, rnd, tapbin)


def replay(ctx, case):
    tapbin = os.path.join(ctx.bin, "tap")
    if case.startswith("TAPARGS"):
        argv = [bytes.fromhex(w).decode("latin1") if w != "-" else "" for w in case.split(" ")[1:]]
        rc, out, err = run_tap(tapbin, ["--"] + argv)
        print("argv :", argv)
        print("impl :", observe(rc, out, err, False)[0])
        print("model:", ctx.driver([case])[0])
        return
    if case.startswith("TAPSIGHASH"):
        print("model:", ctx.driver([case])[0])
        print("spec :", ctx.driver([case], "spec")[0])
        print("(impl: the 'sighash (little endian)' line of the tap run that produced this transaction; re-run the TAP case)")
        return
    if case.startswith("TCE"):
        print("impl :", ctx.harness([case])[0])
        print("model:", ctx.driver([case])[0])
        print("spec :", ctx.driver([case], "spec")[0])
        return
    key, scripts, sel, hrp = parse_tap_line(case)
    vout, seed, extra = parse_tx_word(case)
    c = Case(key, scripts, sel, hrp, vout, seed, extra)
    m = re.match(r"key=([0-9a-f]{64}) ", python_line(key, scripts, None) or "")
    exec_case(tapbin, c, bytes.fromhex(m.group(1)) if m else None)
    print("argv  :", " ".join(tap_argv(c, c.side.get("txs"))))
    print("impl  :", c.impl)
    print("model :", ctx.driver([case])[0])
    print("spec  :", ctx.driver([case], "spec")[0])
    print("python:", python_line(key, scripts, sel, hrp))
    if c.side.get("sighash"):
        print("sighash (tap):", c.side["sighash"])
        txin = c.side["txs"][0]
        tl = leaf_hash(scripts[sel[0]]) if sel is not None else None
        print("sighash (ref):", sighash341(c.side["tx"], [txin[2][vout]], 0, tl).hex())
        sl = [f"TAPSIGHASH {ser_tx(*c.side['tx']).hex()} {ser_tx(*txin).hex()}"]
        print("sighash (model):", ctx.driver(sl)[0], " (spec):", ctx.driver(sl, "spec")[0])
