"""C12, the two-column display — `print_dualstack` (functions.cpp:82-195) shows exactly what executes next.

One DUAL line = one btcdeb process: the display printed before the first prompt and the one printed after every command of a
history over {s: step, r: rewind, p: display again}.  The two column widths live in `static int`s of print_dualstack, so the
layout of every display depends on all displays before it: the whole history is played in ONE process.
Voices (same answer format, rows compared character by character, padding included):
  impl : harness/cmd_dual.inc — btcdeb.cpp main() run in-process, commands played through the real fn_step / fn_rewind /
         print_dualstack, what they print captured; a sample is replayed on the real `btcdeb` under a pseudo-terminal;
  model: Driver/Dual.lean over Btcdeb/Model/Dual.lean (printDualstack, svPrintScripts, DualState) — must equal impl;
  spec : Btcdeb/Spec/Dual.lean (left column = what remains to be executed, first line = operation of the next step, nothing when
         the session has ended; right column = the stack, top first) — must equal impl.
"""
import hashlib
import os
import random
from . import runlib as R
from . import pyref as P
from . import spendgen as S
from . import c12 as L

FB = R.FLAG_BITS

# Repaired since the first run of this check (9bb9088; the regression cases stay in the streams): during the commitment phase
# the left column listed the WHOLE Description() whatever m_i (steps already taken stayed listed); the '<<< P2SH script >>>' section
# was empty while the scriptSig was current when that ends in OP_1NEGATE (redeem script 0x81 = OP_RIGHT).


def dual(line):
    assert line.startswith("LISTING ")
    return "DUAL " + line[len("LISTING "):]


def pline(script, stack=(), ops="", flags=0, z=0):
    return dual(L.pline(script, stack, ops, flags, z))


def sline(tx, ftx, ops="", flags=R.STD, z=0, select=-1, pretend=None):
    return dual(L.sline(tx, ftx, ops, flags, z, select, pretend))


def canon(line):
    if line.startswith("REFUSED") or line.startswith("EXIT"):
        return "REFUSED"
    return line


def points(line):
    """[(tag, [(left cell, right cell)], [raw rows])] or None"""
    if line == "REFUSED" or line.startswith("DIED") or line.startswith("CRASH") or line == "bad-op":
        return None
    out = []
    for p in line.split(" "):
        if "=" not in p:
            return None
        tag, body = p.split("=", 1)
        rows = body.split(";") if body else []
        cells = []
        for r in rows[2:]:
            k = r.find("|")
            cells.append((r[:k].rstrip("~"), r[k + 2:].lstrip("~")) if k >= 0 else (r, ""))
        out.append((tag, cells, rows))
    return out


# ---------------------------------------------------------------------------------------------------------------
# histories

def walk(rnd, n, p_show=0.12):
    ops = []
    while len(ops) < n:
        x = rnd.random()
        if x < p_show:
            ops.append("p")
        elif x < 0.75:
            ops.extend("s" * rnd.randrange(1, 5))
        else:
            ops.extend("r" * rnd.randrange(1, 4))
    return "".join(ops[:n])


def histories(rnd, nops, quick):
    out = ["s" * (nops + 2), "p" + "sp" * (nops + 2)]
    for _ in range(1 if quick else 4):
        out.append(walk(rnd, min(3 * nops + 6, 160)))
    out.append("".join("ssr" for _ in range(nops + 2)))
    return out


# ---------------------------------------------------------------------------------------------------------------
# streams

def width_scripts():
    """column widths: pushes whose hex is just below / at / above the cap of 66 characters, in the script and on the stack;
    a wide item that appears and goes away again (the widths stay); buf[1024]"""
    out = []
    for n in (3, 4, 5, 31, 32, 33, 34, 35, 40, 75):
        d = bytes((0x10 + i) & 0xff for i in range(n))
        out.append((P.push(d) + b"\x75\x51", ()))                      # <d> OP_DROP OP_1
        out.append((b"\x51" + P.push(d) + b"\x82\x77\x52", ()))         # OP_1 <d> OP_SIZE OP_NIP OP_2
        out.append((b"\x75\x51\x52", (d,)))                             # wide item on the initial stack, dropped at once
    for n in (76, 255, 256, 510, 511, 512, 513, 520):
        out.append((P.push(b"\xab" * n) + b"\x75\x51", ()))
    # growing: 1, 2, 3, ... bytes pushed one after the other, then dropped
    out.append((b"".join(P.push(bytes([i]) * i) for i in range(1, 12)) + b"\x6d" * 5 + b"\x75", ()))
    out.append((b"".join(P.push(bytes([0xc0 + i]) * (30 + i)) for i in range(0, 6)) + b"\x6d\x6d\x6d", ()))
    # the empty item (`0x`), alone and among others
    out.append((b"\x00\x00\x51\x00", (b"",)))
    # opcode names of every length
    out.append((bytes.fromhex("61b1b2aeafba"), ()))
    return out


def nest_scripts():
    return [bytes.fromhex(h) for h in (
        "5163526753686a",                      # 1 IF 2 ELSE 3 ENDIF RETURN
        "006351675268",                        # 0 IF 1 ELSE 2 ENDIF
        "51635163526753686754685587",          # nested
        "0063006351675268675368",              # nested, outer not taken
        "516351636363686868",                  # unbalanced use of the stack inside
        "5163",                                # unbalanced at the end
        "68", "6751",                          # ENDIF / ELSE without IF
        "00645167006752686b6c",                # NOTIF, alt stack
    )]


def plain_stream(ctx, rnd, quick):
    cases = []
    for sc in L.all_opcode_scripts():
        cases.append(pline(sc, (), "p" + "s" * (len(sc) + 2), flags=0, z=rnd.randrange(2)))
    for sc, st in width_scripts():
        nops = len(list(P.script_ops(sc)))
        for ops in histories(rnd, nops, quick):
            cases.append(pline(sc, st, ops, flags=0))
    for sc in L.push_scripts():
        cases.append(pline(sc, (), "sprsrrssps", flags=0))
    for sc in nest_scripts():
        nops = len(list(P.script_ops(sc)))
        for ops in histories(rnd, nops, quick):
            cases.append(pline(sc, (), ops, flags=0))
        cases.append(pline(sc, (b"\x01", b""), "s" * (nops + 2), flags=R.STD))
    # the P2SH pattern as the session's own script, redeem script on the stack (with / without the flag; empty stack; empty redeem)
    redeem = bytes.fromhex("51635268")
    long_redeem = P.push(b"\x77" * 40) + b"\x75\x51"
    for sc, st, fl in ((b"\xa9\x14" + P.hash160(redeem) + b"\x87", (b"\x01", redeem), 1),
                       (b"\xa9\x14" + P.hash160(redeem) + b"\x87", (b"\x01", redeem), 0),
                       (b"\xa9\x14" + P.hash160(long_redeem) + b"\x87", (long_redeem,), 1),
                       (b"\xa9\x14" + P.hash160(b"") + b"\x87", (b"",), 1),
                       (b"\xa9\x14" + P.hash160(b"") + b"\x87", (), 1),
                       (b"", (), 0), (b"\x51", (b"\x07",), 0)):
        for ops in histories(rnd, 6, quick):
            cases.append(pline(sc, st, ops, flags=fl))
    # steps that fail (error return and C++ exception), then the display again
    for sc in (bytes.fromhex("0069555657"), bytes.fromhex("516a5152"), bytes.fromhex("7e5152"), bytes.fromhex("515052"),
               bytes.fromhex("5152885354"), bytes.fromhex("51525aae55"), bytes.fromhex("515a7952")):
        for ops in ("sssps", "spsrpss", "sssrrps"):
            cases.append(pline(sc, (), ops, 0))
    for ops in ("sp", "ssp", "spsr", "srp"):
        cases.append(pline(bytes.fromhex("8b51"), (bytes.fromhex("0102030405"),), ops, 0))
    # generated scripts, random walks
    base = ctx.driver_gen(["run", ctx.seed + 12100, 60 if quick else 1500, 40, 0])
    base += ctx.driver_gen(["run", ctx.seed + 12101, 20 if quick else 500, 40, 1])
    for l in base:
        p = l.split(" ")
        sc = bytes.fromhex(p[5]) if p[5] != "-" else b""
        nops = len(list(P.script_ops(sc)))
        st = p[6] if len(p) > 6 and p[5] != "-" else "-"
        cases.append(f"DUAL P {walk(rnd, min(2 * nops + 6, 120))} {p[2]} {p[3]} {p[5]} {st}")
    return [(c, {}) for c in cases]


def spend_stream(ctx, rnd, quick):
    cases = []
    reps = 1 if quick else 6
    for kind in S.KINDS:
        for rep in range(reps):
            # rep 0: the only input; rep 1: among other inputs of which one carries a witness (a legacy input in a segwit transaction)
            s = S.build(rnd, kind, {"n_in": 1} if rep == 0 else ({"n_in": 3, "other_witness": True} if rep == 1 and not kind.startswith("p2tr") else None))
            for ops in histories(rnd, 24, quick)[: (2 if quick else 5)]:
                cases.append((sline(s.tx, s.txin, ops, R.STD), {"kind": kind}))
    # taproot script path, path lengths 0..3 (and 4, 7 in the thorough tier)
    leaves = [(b"\x51", []), (bytes.fromhex("a8") + P.push(P.sha256(b"x")) + b"\x87", [b"x"]), (bytes.fromhex("935387"), [b"\x01", b"\x02"])]
    for m in [0, 1, 2, 3] + ([] if quick else [4, 7]):
        for leaf, args in leaves:
            s = S.build(rnd, "p2tr-script", {"path_len": m, "leaf_script": leaf, "leaf_args": args, "annex": False})
            for ops in histories(rnd, m + 6, quick):
                cases.append((sline(s.tx, s.txin, ops, R.STD), {"kind": "p2tr-script", "path_len": m}))
    s = S.build(rnd, "p2tr-script", {"path_len": 2, "annex": True})
    cases.append((sline(s.tx, s.txin, "sspsssrrrssssss", R.STD), {"kind": "p2tr-script", "path_len": 2}))

    def add(name, spk, ss=b"", wit=(), flags=R.STD, opsets=None, **kw):
        tx, ftx = S.custom(rnd, spk, ss, wit, **kw)
        for ops in (opsets or histories(rnd, 14, quick)):
            cases.append((sline(tx, ftx, ops, flags), {"kind": "custom", "label": name}))
    p2sh = lambda r: bytes([0xa9, 20]) + P.hash160(r) + bytes([0x87])
    red = bytes.fromhex("935387")
    add("bare", bytes.fromhex("935387"), bytes.fromhex("5152"))
    add("bare-empty-sig", b"\x51", b"")
    add("p2sh", p2sh(red), b"\x51\x52" + P.push(red))
    add("p2sh-data-pushes", p2sh(red), b"\x01\x01\x01\x02" + P.push(red))
    add("p2sh-empty-redeem", p2sh(b""), b"\x51\x00", flags=R.STD & ~(1 << FB["CLEANSTACK"]))
    add("p2sh-empty-scriptsig", p2sh(red), b"")
    long_red = P.push(b"\x77" * 515) + b"\x75\x51"
    add("p2sh-long-push-in-redeem", p2sh(long_red), P.push(long_red))
    add("spk-long-push", P.push(b"\x55" * 520) + b"\x75", b"\x51")
    add("sig-long-push", b"\x75\x51", P.push(b"\x66" * 516))
    add("p2sh-without-flag", p2sh(red), b"\x51\x52" + P.push(red), flags=0)
    # pay-to-script-hash is not recursive: a redeem script that is itself of the P2SH shape is an ordinary script (its preimage stays data)
    inner = bytes.fromhex("5152935387")
    red2 = p2sh(inner)
    add("p2sh-redeem-of-p2sh-shape", p2sh(red2), P.push(inner) + P.push(red2))
    add("p2sh-redeem-of-p2sh-shape-mismatch", p2sh(red2), P.push(b"\x51") + P.push(red2))
    # the redeem script pushed with every push encoding (the longer ones are non-minimal: allowed with MINIMALDATA off)
    NOMIN = R.STD & ~(1 << FB["MINIMALDATA"])
    for enc_name, enc in (("pushdata1", bytes([0x4c, len(red)])), ("pushdata2", bytes([0x4d]) + len(red).to_bytes(2, "little")), ("pushdata4", bytes([0x4e]) + len(red).to_bytes(4, "little"))):
        for fl in (NOMIN, R.STD):
            add("p2sh-redeem-" + enc_name, p2sh(red), b"\x51\x52" + enc + red, flags=fl)
    add("p2sh-redeem-long-pushdata4", p2sh(long_red), b"\x4e" + (len(P.push(b"\x77" * 515) + b"\x75\x51")).to_bytes(4, "little") + P.push(b"\x77" * 515) + b"\x75\x51", flags=NOMIN)
    ws = bytes.fromhex("935387")
    add("p2wsh", b"\x00\x20" + P.sha256(ws), b"", [b"\x01", b"\x02", ws])
    wl = P.push(b"\x88" * 515) + b"\x75\x51"
    add("p2wsh-long-push", b"\x00\x20" + P.sha256(wl), b"", [wl])
    pre = b"\x51"
    add("p2wsh-hashlock-pattern", b"\x00\x20" + P.sha256(p2sh(pre)), b"", [pre, p2sh(pre)])
    return cases


def malformed_stream(ctx, rnd, quick):
    cases = []
    NOPUSH = L.NOPUSH

    def add(name, spk, ss=b"", wit=(), flags=R.STD, opsets=("pssssssssp", "ssrsrssssp", "sspsrrsssss"), **kw):
        tx, ftx = S.custom(rnd, spk, ss, wit, **kw)
        for ops in opsets:
            cases.append((sline(tx, ftx, ops, flags), {"kind": "malformed", "label": name}))
    p2sh = lambda r: bytes([0xa9, 20]) + P.hash160(r) + bytes([0x87])
    add("undecodable-scriptsig", b"\x51", b"\x51\x05\x01\x02", flags=NOPUSH)
    add("undecodable-spk", b"\x51\x4c", b"\x51")
    add("undecodable-spk-partial-push", b"\x51\x03\xaa", b"\x51")
    add("undecodable-spk-from-start", b"\x02\xaa", b"\x51")
    bad = b"\x51\x02\x01"
    add("undecodable-redeem", p2sh(bad), P.push(bad))
    for last in (b"\x51", b"\x4f", b"\x60"):
        val = {0x51: b"\x01", 0x4f: b"\x81", 0x60: b"\x10"}[last[0]]
        add("p2sh-last-op-" + last.hex(), p2sh(val), b"\x51" + last, opsets=("pssssssssp", "ssrsrssssp", "sspsrrsssss", "p"))
    add("p2sh-nonpush-scriptsig", p2sh(b"\x51"), b"\x61" + P.push(b"\x51"), flags=NOPUSH)
    add("p2sh-dup-scriptsig", p2sh(b"\x51"), P.push(b"\x51") + b"\x76", flags=NOPUSH & ~(1 << FB["CLEANSTACK"]))
    add("p2sh-computed-redeem", p2sh(b"\x52"), b"\x51\x8b", flags=NOPUSH & ~(1 << FB["CLEANSTACK"]))
    for m in (0, 2):
        s = S.build(rnd, "p2tr-script", {"path_len": m, "leaf_script": b"", "leaf_args": [b"\x01"], "annex": False})
        cases.append((sline(s.tx, s.txin, "psssp", R.STD), {"kind": "malformed", "label": "tapscript-empty-leaf"}))
    for m in (0, 2):
        pre = b"\x51"
        s = S.build(rnd, "p2tr-script", {"path_len": m, "leaf_script": bytes([0xa9, 20]) + P.hash160(pre) + bytes([0x87]),
                                         "leaf_args": [pre], "annex": False})
        for ops in ("sssssssss", "ssrsssssrss"):
            cases.append((sline(s.tx, s.txin, ops, R.STD), {"kind": "malformed", "label": "tapscript-p2sh-pattern-leaf"}))
    s = S.build(rnd, "p2tr-script", {"path_len": 2, "leaf_script": b"\x51", "leaf_args": [], "annex": False})
    tx = s.tx
    w = list(tx[1][0][3]); w[-1] = w[-1][:40] + bytes([w[-1][40] ^ 1]) + w[-1][41:]
    vin = [tuple(list(tx[1][0][:3]) + [w] + [tx[1][0][4]])]
    cases.append((sline((tx[0], vin, tx[2], tx[3]), s.txin, "ssssp", R.STD), {"kind": "malformed", "label": "commitment-fails"}))
    return cases


def doc_stream():
    out = []
    for c in L.doc_cases():
        a = c.split(" ")
        a[2] = {"s" * 24: "s" * 24}.get(a[2], "sspsrssrrssspssssssss")
        out.append((dual(" ".join(a)), {"kind": "doc"}))
    return out


# ---------------------------------------------------------------------------------------------------------------

def repro_of(case):
    argv, ops = L.argv_of("LISTING " + case[len("DUAL "):])
    words = {"s": "step", "r": "rewind"}
    return "btcdeb " + " ".join("'" + a + "'" for a in argv) + "   # then: " + "; ".join(words[c] for c in ops[:40] if c in words)


def three_way(ctx, name, pairs):
    cases = [c for c, _ in pairs]
    impl = ctx.harness_sharded(cases)
    model = ctx.driver_sharded(cases, "model")
    spec = ctx.driver_sharded(cases, "spec")
    seen = {}
    for (case, meta), im, mo, sp in zip(pairs, impl, model, spec):
        im, mo, sp = canon(im), canon(mo), canon(sp)
        pi = points(im)
        if pi is not None and len(pi) > 1:
            ctx.nontrivial.add(hashlib.sha1(case.encode()).hexdigest()[:12])
        if len(ctx.samples) < 10 and name == "dual-spends":
            ctx.sample({"stream": name, "case": case[:200], "impl": im[:300]})
        if im.startswith("DIED") or im.startswith("CRASH"):
            seen["died"] = seen.get("died", 0) + 1
            if seen["died"] <= 2:
                ctx.violation(case, {"stream": name, "impl": im[:4000], "reproducer": repro_of(case),
                                     "why": "the debugger process died while displaying"})
            continue
        if im != sp:
            seen["spec"] = seen.get("spec", 0) + 1
            if seen["spec"] <= 2:
                ctx.violation(case, {"stream": name, "impl": im[:4000], "model": mo[:4000], "spec": sp[:4000], "reproducer": repro_of(case),
                                     "first_difference": first_difference(im, sp),
                                     "why": "two-column display differs from the specification (left column = what remains to be executed, "
                                            "first line = the operation of the next step; right column = the stack top first)"})
            continue
        if im != mo:
            seen["correspondence"] = seen.get("correspondence", 0) + 1
            if seen["correspondence"] <= 2:
                ctx.violation(case, {"stream": name, "impl": im[:4000], "model": mo[:4000], "spec": sp[:4000],
                                     "first_difference": first_difference(im, mo),
                                     "why": "correspondence:%s broken (two-column display: implementation and model differ); the "
                                            "implementation agrees with the specification on this case" % name},
                              suffix="no-failing-input-found")
    ctx.count(name, len(cases))
    ctx.traces += len(cases)
    ctx.notes.append({name: dict(seen)})
    return impl


def first_difference(a, b):
    pa, pb = a.split(" "), b.split(" ")
    for k, (x, y) in enumerate(zip(pa, pb)):
        if x != y:
            return {"point": k, "left": x[:1200], "right": y[:1200]}
    return {"point": min(len(pa), len(pb)), "left": "%d points" % len(pa), "right": "%d points" % len(pb)}


# ---------------------------------------------------------------------------------------------------------------
# independent oracle for the layout: a few lines of Python written from the printf formats, applied to the cell TEXTS of the
# implementation's own answer (checks padding, rules, alignment, and that the widths never shrink within a process)

def layout_oracle(ctx, pairs, impl):
    bad = 0
    for (case, _), im in zip(pairs, impl):
        pts = points(canon(im))
        if pts is None:
            continue
        pl = pr = 7
        ok = True
        for tag, cells, rows in pts:
            if not rows:
                continue
            head = rows[0]
            k = head.find("|")
            lcap, rcap = k - 1, len(head) - k - 2
            if not (pl <= lcap <= 66 and pr <= rcap <= 66):
                ok = False
            pl, pr = lcap, rcap
            if head != "script".ljust(lcap + 1, "~") + "|~" + "stack~".rjust(rcap, "~") or rows[1] != "-" * lcap + "-+-" + "-" * rcap:
                ok = False
            for (lt, rt), row in zip(cells, rows[2:]):
                want = lt.ljust(lcap + 1, "~") + "|~" + (rt.rjust(rcap, "~") if rt else "")
                if row != want or len(lt) > lcap or len(rt) > rcap:
                    ok = False
                if (lt.endswith("...") and len(lt) != lcap) or (rt.endswith("...") and len(rt) != rcap):
                    ok = False
        if not ok:
            bad += 1
            if bad <= 2:
                ctx.violation(case, {"stream": "layout-oracle", "impl": canon(im)[:4000],
                                     "why": "two-column display: a row is not `%-<lcap+1>s| %<rcap>s` of its cells, or a column width shrank"})
    ctx.count("layout-oracle", len(pairs))
    return bad


# ---------------------------------------------------------------------------------------------------------------
# the real binary under a pseudo-terminal

def pty_rows(text_lines):
    start = None
    for i in range(len(text_lines) - 1):
        if text_lines[i].startswith("script") and "| " in text_lines[i] and "-+-" in text_lines[i + 1]:
            start = i
    if start is None:
        return None
    rows = []
    for i in range(start, len(text_lines)):
        if i >= start + 2 and "|" not in text_lines[i]:
            break
        rows.append(text_lines[i].replace(" ", "~"))
    return rows


def pty_session(binary, argv, ops, timeout=20):
    import pty, select, signal, tempfile, termios, time
    env = dict(os.environ)
    env["TERM"] = "dumb"
    wd = tempfile.mkdtemp(prefix="c12dpty-")
    pid, fd = pty.fork()
    if pid == 0:
        try:
            os.chdir(wd)
            os.execve(binary, [binary] + argv, env)
        finally:
            os._exit(127)
    try:
        at = termios.tcgetattr(fd)
        at[3] &= ~termios.ECHO
        termios.tcsetattr(fd, termios.TCSANOW, at)
        # a wide terminal: the tty driver must not wrap / the line editor must not redraw
        import fcntl, struct
        fcntl.ioctl(fd, termios.TIOCSWINSZ, struct.pack("HHHH", 50, 400, 0, 0))
    except (termios.error, OSError):
        pass

    def read_prompt():
        buf = b""
        t0 = time.time()
        while time.time() - t0 < timeout:
            r, _, _ = select.select([fd], [], [], 0.05)
            if r:
                try:
                    d = os.read(fd, 65536)
                except OSError:
                    return buf, True
                if not d:
                    return buf, True
                buf += d
                if buf.endswith(b"btcdeb> "):
                    return buf[:-len(b"btcdeb> ")], False
        return buf, True

    def lines_of(b):
        return b.decode("latin1").replace("\r", "").split("\n")

    out = []
    try:
        start, eof = read_prompt()
        if eof:
            return "REFUSED"
        out.append(("i", pty_rows(lines_of(start))))
        for c in ops:
            if c not in "sr":
                continue
            os.write(fd, (("step" if c == "s" else "rewind") + "\n").encode())
            b, eof = read_prompt()
            tl = lines_of(b)
            rows = pty_rows(tl)
            if c == "s":
                tag = "s+" if rows is not None else ("s-" if any("at end of script" in l for l in tl) else "s!")
            else:
                tag = "r+" if rows is not None else "r-"
            out.append((tag, rows))
            if eof:
                out.append(("DIED", None))
                break
    finally:
        try:
            os.kill(pid, signal.SIGKILL)
        except OSError:
            pass
        try:
            os.waitpid(pid, 0)
        except OSError:
            pass
        os.close(fd)
        for f in os.listdir(wd):
            os.unlink(os.path.join(wd, f))
        os.rmdir(wd)
    return out


def pty_compare(ctx, pairs):
    """the in-process harness against the real binary: every display of the session, row by row"""
    cases = []
    for c, _ in pairs:
        a = c.split(" ")
        a[2] = a[2].replace("p", "") or "-"
        cases.append(" ".join(a))
    impl = [canon(x) for x in ctx.harness(cases)]
    binary = os.path.join(ctx.bin, "btcdeb")
    bad = 0
    for case, im in zip(cases, impl):
        argv, ops = L.argv_of("LISTING " + case[len("DUAL "):])
        got = pty_session(binary, argv, ops)
        pi = points(im)
        if pi is None:
            ok = got == "REFUSED"
        elif got == "REFUSED":
            ok = False
        else:
            ok = len(got) == len(pi) and all(g[0] == p[0] and (g[1] or []) == p[2] for g, p in zip(got, pi))
        if not ok:
            bad += 1
            if bad <= 2:
                ctx.violation(case, {"stream": "dual-pty-crosscheck", "harness": im[:3000], "binary": str(got)[:3000],
                                     "why": "correspondence: the in-process DUAL harness and the real btcdeb binary under a pseudo-terminal differ"},
                              suffix="no-failing-input-found")
    ctx.count("dual-pty-crosscheck", len(cases))
    ctx.traces += len(cases)
    return bad


# ---------------------------------------------------------------------------------------------------------------

def run(ctx):
    rnd = random.Random(ctx.seed * 7919 + 1212)
    quick = ctx.tier == "quick"
    plain = plain_stream(ctx, rnd, quick)
    spends = spend_stream(ctx, rnd, quick) + doc_stream()
    mal = malformed_stream(ctx, rnd, quick)
    impl_p = three_way(ctx, "dual-plain-scripts", plain)
    impl_s = three_way(ctx, "dual-spends", spends)
    impl_m = three_way(ctx, "dual-malformed-and-failing", mal)
    layout_oracle(ctx, plain + spends + mal, impl_p + impl_s + impl_m)
    n = 4 if quick else 25
    for stream in (plain, spends, mal):
        idx = [i for i in range(len(stream)) if len(stream[i][0].split(" ")[2]) <= 40]
        rnd.shuffle(idx)
        pty_compare(ctx, [stream[i] for i in idx[:n]])
    ctx.notes.append("two-column display (print_dualstack): plain scripts (every opcode, pushes around the 66-character cap and the 1024 byte "
                     "buffer, IF/ELSE nests, P2SH-pattern scripts, failing steps, generated scripts), spends (all kinds of spendgen, taproot "
                     "script paths of length 0..3%s, hand-built scriptPubKey/P2SH/P2WSH sections, doc/txs), malformed / failing sessions; "
                     "every history in one process (static widths); layout oracle on every display; pty cross-check of %d sessions per stream"
                     % ("" if quick else ",4,7", n))


def replay(ctx, case):
    print("impl :", ctx.harness([case])[0])
    print("model:", ctx.driver([case])[0])
    print("spec :", ctx.driver([case], "spec")[0])
    a = case.split(" ")
    a[2] = a[2].replace("p", "") or "-"
    argv, ops = L.argv_of("LISTING " + " ".join(a)[len("DUAL "):])
    print("real binary under a pseudo-terminal:")
    got = pty_session(os.path.join(ctx.bin, "btcdeb"), argv, ops)
    if got == "REFUSED":
        print("  REFUSED")
    else:
        for tag, rows in got:
            print("  " + tag)
            for r in rows or []:
                print("     " + r.replace("~", " "))
    print("reproduce:", repro_of(case))
