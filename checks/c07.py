"""C07 — btcc assembles every token sequence into the exact minimal encoding."""
import os
import random
import subprocess
from concurrent.futures import ThreadPoolExecutor
from . import runlib as R

OPNAMES = None


def opnames(ctx):
    global OPNAMES
    if OPNAMES is None:
        import re
        src = open(os.path.join(os.path.dirname(os.path.dirname(os.path.abspath(__file__))), "lean/Btcdeb/Spec/Opcode.lean")).read()
        OPNAMES = [m.group(1) for m in re.finditer(r'^abbrev (OP_\w+) : Nat', src, flags=re.M) if m.group(1) != "OP_INVALIDOPCODE"]
        OPNAMES += ["OP_FALSE", "OP_TRUE", "OP_NOP2", "OP_NOP3"]
    return OPNAMES


def int_boundaries():
    out = [0, 1, 2, 15, 16, 17, -1, -2, -16, -17, 75, 76, 127, 128, 129, 255, 256, -127, -128, -129, -255, -256]
    for k in range(1, 9):
        for d in (-2, -1, 0, 1):
            for s in (1, -1):
                v = s * ((1 << (8 * k - 1)) + d)
                if -(1 << 63) < v < (1 << 63):
                    out.append(v)
                v = s * ((1 << (8 * k)) + d)
                if -(1 << 63) < v < (1 << 63):
                    out.append(v)
    out += [(1 << 63) - 1, -(1 << 63) + 1, -(1 << 63)]
    return sorted(set(out))


def render_tok(rnd, depth, names):
    r = rnd.random()
    if depth < 8 and r < 0.12:
        n = rnd.choice((0, 1, 1, 2, 3, 5))
        inner = [render_tok(rnd, depth + 1, names) for _ in range(n)]
        sep = rnd.choice((" ", " ", "  ", "\t", "\n", "\r", "\r\n"))
        if rnd.random() < 0.15 and inner:
            # a comment in the middle of a body, ended by each of the line ends (LF, CR LF, a lone CR)
            k = rnd.randrange(len(inner))
            inner[k] = inner[k] + rnd.choice((" ", "  ", "\t")) + "#" + rnd.choice(("", " c", " one 0x00 OP_1", "x")) + rnd.choice(("\n", "\r", "\r\n", "\r\r", "\n\r"))
        body = sep.join(inner)
        if rnd.random() < 0.1 and body:
            # brackets inside a comment are only exercised directly inside an argv word (at deeper levels the
            # bracket matcher of the tool counts them, which is not part of the stated grammar)
            body = body + (" # a comment ] [ 0x00\n" if depth == 0 else " # a comment 0x00 OP_1\n")
        return "[" + rnd.choice(("", " ")) + body + rnd.choice(("", " ")) + "]"
    if r < 0.40:
        n = rnd.choice(names)
        return n if rnd.random() < 0.6 else n[3:]
    if r < 0.45:
        return rnd.choice(("OP_x", "x")) + "%02x" % rnd.randrange(256)
    if r < 0.70:
        return str(rnd.choice(int_boundaries()) if rnd.random() < 0.7 else rnd.randrange(-100000, 100000))
    ln = rnd.choice((0, 1, 1, 2, 2, 3, 4, 5, 8, 20, 32, 33, 75, 76, 77, 255, 256, 300, 520))
    h = bytes(rnd.randrange(256) for _ in range(ln)).hex()
    if rnd.random() < 0.3 and ln:
        h = rnd.choice(("00", "01", "10", "81", "80", "0100", "ff00", "0000", "7f", "11")) if ln <= 2 else h
    return ("0x" + h) if (rnd.random() < 0.7 or ln == 0) else h


INLINE = ("echo", "hex", "int", "reverse", "sha256", "ripemd160", "hash256", "hash160", "prefix_compact_size")


def render_word_forms(rnd, names):
    """bracket bodies with the word forms the tokenizer fix d463b4a is about: a group is part of the word it occurs in,
    the word ends at the next separator.  Glued words and inline calls are outside the grammar of the statement
    (compared implementation vs model); a comment directly behind a group is inside it."""
    def plain():
        return render_tok(rnd, 9, names)

    def group():
        inner = [render_tok(rnd, 7, names) for _ in range(rnd.choice((0, 1, 2, 3)))]
        return "[" + rnd.choice(("", " ")) + " ".join(inner) + rnd.choice(("", " ")) + "]"
    k = rnd.randrange(9)
    if k == 0:
        w = plain() + group()                                   # OP_1[OP_2]
    elif k == 1:
        w = group() + plain()                                   # [OP_2]OP_1, []5
    elif k == 2:
        w = group() + group()                                   # [a][b]
    elif k == 3:
        w = group() + "#" + rnd.choice(("", "c", " a comment ] [ 0x00", "[")) + "\n" + plain()     # comment glued to a group
    elif k == 4:
        w = group() + "#" + rnd.choice(("", "trailing comment"))                                   # ... to the end of the text
    elif k == 5:
        w = rnd.choice(INLINE) + "(" + group() + ")"           # sha256([1 2])
    elif k == 6:
        w = rnd.choice(INLINE) + "(" + rnd.choice(INLINE) + "(" + rnd.choice((group(), plain())) + "))"
    elif k == 7:
        w = rnd.choice(INLINE) + "(" + plain() + ")"
    else:
        w = plain() + group() + plain() + "#x\n" + group()
    sep = rnd.choice((" ", " ", "\t", "\n", "  "))
    before = [plain() for _ in range(rnd.choice((0, 1, 2)))]
    after = [plain() for _ in range(rnd.choice((0, 1, 2)))]
    body = sep.join(before + [w] + after)
    return "[" + rnd.choice(("", " ")) + body + rnd.choice(("", " ")) + "]"


def depth_lines():
    """the nesting limit of Value::DepthGuard (200 levels; a plain token is level 1): brackets and inline calls"""
    progs = []
    for n in (1, 2, 100, 198, 199, 200, 201, 202, 230):
        progs.append(["[" * n + "OP_1" + "]" * n])
        progs.append(["[" * n + "]" * n])
        progs.append(["[ " * n + "5 [OP_DUP] " + "] " * n])
        progs.append(["echo(" * n + "1" + ")" * n])
        progs.append(["[" + "reverse(" * n + "0x0102" + ")" * n + "]"])
        progs.append(["[" * (n // 2) + "echo(" * (n - n // 2) + "7" + ")" * (n - n // 2) + "]" * (n // 2)])
    return ["BTCC " + " ".join((w.encode("latin1").hex() or "-") for w in p) for p in progs]


def lines(ctx):
    rnd = random.Random(ctx.seed * 101 + 7)
    quick = ctx.tier == "quick"
    names = opnames(ctx)
    progs = []
    # every opcode name in both spellings, every OP_xNN
    for n in names:
        progs.append([n])
        progs.append([n[3:]])
    for i in range(256):
        progs.append(["OP_x%02x" % i])
        progs.append(["x%02X" % i])
    for w in ESCAPE_REGRESSION:
        progs.append([w])
    # integers at the boundaries of every encoded length
    for v in int_boundaries():
        progs.append([str(v)])
    # all 1- and 2-byte hex literals (exhaustive), both spellings
    for i in range(256):
        progs.append(["0x%02x" % i])
    for i in range(65536):
        if quick and i % 7 and i not in (0x0100, 0x8000, 0x0080, 0xff00, 0x00ff):
            continue
        progs.append(["0x%04x" % i])
    for i in range(0, 65536, 257):
        progs.append(["%04x" % i])
    # lengths 0..520 and the PUSHDATA boundaries
    for ln in list(range(0, 80)) + [252, 253, 254, 255, 256, 257, 519, 520, 521, 65535, 65536]:
        progs.append(["0x" + (b"\x5a" * ln).hex()])
    # ambiguous digit-only strings
    for s in ["00", "01", "10", "0010", "1234", "515293", "007", "-0", "-01", "+1", "9223372036854775807", "9223372036854775808",
              "-9223372036854775808", "-9223372036854775809", "99999999999999999999", "1e3", "0x", "0X10", "0xabc", "abc", "AB", "Ab"]:
        progs.append([s])
    # random programs, nesting depth 0..8, whitespace and comment variants
    for _ in range(4000 if quick else 150000):
        k = rnd.choice((1, 2, 3, 5, 8, 15))
        progs.append([render_tok(rnd, 0, names) for _ in range(k)])
    # bracketed sub-scripts split over several argv words
    for _ in range(600 if quick else 20000):
        k = rnd.choice((1, 2, 3, 4))
        inner = [render_tok(rnd, 1, names) for _ in range(k)]
        text = "[" + " ".join(inner) + "]"
        if "\n" in text or "\r" in text or "\t" in text or "#" in text or "  " in text or "[ " in text or " ]" in text:
            continue
        words = text.split(" ")
        progs.append([render_tok(rnd, 9, names)] + words + [render_tok(rnd, 9, names)])
    # words glued to groups, comments directly behind a group, inline calls with bracket arguments (inside bodies, and
    # the same text split over several argv words where it has no tab / newline)
    for s_ in ("[[OP_2] OP_1]", "[sha256([1 2]) OP_1]", "[[OP_2]#c\nOP_1]", "[[]5]", "[[OP_2]OP_1]", "[OP_1[OP_2]]", "[[OP_2][OP_3]]", "[5[]]",
               "[[]55]", "[[OP_1]#]", "[[OP_1]#", "[int(0x0102030405) OP_1]", "int(0x0102030405)", "[hash160([OP_1 [OP_2]]) [echo([])]]",
               "[OP_1 # one\rOP_2 # two\nOP_3]", "[OP_1 [OP_2 #x\r 0xaabb #y\r 17] # z\rOP_3]", "[OP_1 #a\r\nOP_2]", "[OP_1\rOP_2]", "[OP_1 #\rOP_2]",
               "[a]b", "[[a]b]", "[a][b]", "[[OP_1]]]", "[[OP_1] ]]", "[OP_1 ] OP_2]", "sha256([1 2])", "[reverse([1 2 3])#x\n]"):
        progs.append([s_])
    for _ in range(1500 if quick else 40000):
        text = render_word_forms(rnd, names)
        progs.append([text])
        if rnd.random() < 0.3 and "\n" not in text and "\t" not in text:
            progs.append([render_tok(rnd, 9, names)] + [w for w in text.split(" ")] + [render_tok(rnd, 9, names)])
    out = []
    for p in progs:
        out.append("BTCC " + " ".join((w.encode("latin1").hex() or "-") for w in p))
    return out, progs


def decode_script(b):
    """minimal independent decoder used to evaluate the property's last sentence on the implementation output"""
    i = 0
    ops = []
    while i < len(b):
        o = b[i]
        i += 1
        if o <= 0x4e:
            if o < 0x4c:
                n = o
            elif o == 0x4c:
                if i >= len(b):
                    return None
                n = b[i]; i += 1
            elif o == 0x4d:
                n = int.from_bytes(b[i:i + 2], "little"); i += 2
            else:
                n = int.from_bytes(b[i:i + 4], "little"); i += 4
            d = b[i:i + n]
            if len(d) != n:
                return None
            i += n
            ops.append((o, d))
        else:
            ops.append((o, b""))
    return ops


def minimal(o, d):
    if len(d) == 0:
        return o == 0
    if len(d) == 1 and 1 <= d[0] <= 16:
        return False
    if len(d) == 1 and d[0] == 0x81:
        return False
    if len(d) <= 75:
        return o == len(d)
    if len(d) <= 255:
        return o == 0x4c
    if len(d) <= 65535:
        return o == 0x4d
    return True


def min_push(d):
    """Bitcoin's minimal push of the bytes d, written here independently of the Lean specification and of the C++"""
    if len(d) == 0:
        return b"\x00"
    if len(d) == 1 and 1 <= d[0] <= 16:
        return bytes([0x50 + d[0]])
    if len(d) == 1 and d[0] == 0x81:
        return b"\x4f"
    if len(d) <= 75:
        return bytes([len(d)]) + d
    if len(d) <= 255:
        return b"\x4c" + bytes([len(d)]) + d
    if len(d) <= 65535:
        return b"\x4d" + len(d).to_bytes(2, "little") + d
    return b"\x4e" + len(d).to_bytes(4, "little") + d


# the texts of the repaired finding F-C07-opxff (/repo a4419d3: GetOpCode's "not an opcode" value 0xff hid the escape for byte ff)
ESCAPE_REGRESSION = ["OP_xff", "xff", "[OP_xff]", "OP_xfe", "OP_xFF", "OP_xf", "OP_xfff"]


def escape_cases():
    """The escape OP_xNN / xNN for EVERY byte NN (ff included), alone, inside brackets and between other tokens, with the
    expectation computed here from the grammar: a name token is its opcode byte, a bracket is the minimal push of its
    compiled body.  A malformed escape (one or three digits, a non-hex digit, a capital X, ...) is no token of the
    grammar: the assembler keeps such a word as a string and pushes its characters.
    -> [(argv words, expected output bytes, is a program of the grammar)]"""
    cases = []
    for i in range(256):
        b = bytes([i])
        for sp in ("OP_x%02x", "x%02x", "OP_x%02X", "x%02X"):
            w = sp % i
            cases.append(([w], b, True))
            cases.append((["[" + w + "]"], min_push(b), True))
            cases.append((["[ [" + w + "] " + w + " ]"], min_push(min_push(b) + b), True))
        cases.append((["[OP_x%02x x%02x]" % (i, 255 - i)], min_push(bytes([i, 255 - i])), True))
        cases.append((["OP_1", "OP_x%02x" % i, "[", "x%02x" % i, "]", "OP_x%02x" % i, "0x%02x" % i],
                      b"\x51" + b + min_push(b) + b + min_push(b), True))
    for w, v in (("OP_xfF", 0xff), ("xFf", 0xff), ("OP_xaB", 0xab), ("xAb", 0xab), ("OP_x0A", 0x0a), ("xa0", 0xa0)):
        cases.append(([w], bytes([v]), True))
    cases.append((["ff"], b"\x01\xff", True))          # a hex literal, not the escape: a push of the byte
    cases.append((["0xff"], b"\x01\xff", True))
    for w in ("OP_xf", "OP_xfff", "xf", "xfff", "xffff", "OP_xffff", "OP_x", "x", "OP_xfg", "OP_xgf", "xg0", "OP_Xff", "Xff", "op_xff",
              "OP_OP_xff", "OP_xff_", "_xff", "OP_x-1", "OP_x+f", "OP_x0xff", "INVALIDOPCODE", "OP_INVALIDOPCODE"):
        cases.append(([w], min_push(w.encode()), False))
        cases.append((["[" + w + "]"], min_push(min_push(w.encode())), False))
    for w in ESCAPE_REGRESSION:
        assert any(c[0] == [w] for c in cases), w
    return cases


def run_escape(ctx):
    cases = escape_cases()
    el = ["BTCC " + " ".join(w.encode("latin1").hex() for w in p) for p, _, _ in cases]
    want = ["OK " + e.hex() for _, e, _ in cases]
    eimpl = ctx.harness(el)
    emodel = ctx.driver(el, "model")
    espec = ctx.driver(el, "spec")
    # implementation / model / the expectation written in this file
    ctx.compare("btcc-escape", el, eimpl, emodel, want, nontrivial=lambda c, i: i.startswith("OK"))
    # ... and the Lean specification says the same on the programs of the grammar and rejects the malformed spellings
    for l, s, w, (_, _, tok) in zip(el, espec, want, cases):
        if s != (w if tok else "OUT-OF-GRAMMAR"):
            ctx.violation(l, {"stream": "btcc-escape", "why": "the specification's reading of an escape word differs from the grammar as written in checks/c07.py",
                              "spec": s, "expected": w if tok else "OUT-OF-GRAMMAR"})
            break
    # the named regression texts on the real btcc binary
    for w in ESCAPE_REGRESSION:
        exp = next(e for p, e, _ in cases if p == [w])
        r = subprocess.run([os.path.join(ctx.bin, "btcc"), w], stdout=subprocess.PIPE, stderr=subprocess.PIPE, timeout=20)
        got = ("OK " + r.stdout.decode("latin1").strip()) if r.returncode == 0 else "EXIT%d" % r.returncode
        if got != "OK " + exp.hex():
            ctx.violation("BTCC " + w.encode().hex(), {"stream": "btcc-escape-binary", "impl": got, "spec": "OK " + exp.hex(),
                                                       "why": "the btcc binary differs from the grammar on an escape word"})
    ctx.count("btcc-escape-binary", len(ESCAPE_REGRESSION))


def run(ctx):
    ls, progs = lines(ctx)
    impl = ctx.harness_sharded(ls)
    model = ctx.driver_sharded(ls, "model")
    spec = ctx.driver_sharded(ls, "spec")
    # programs outside the input grammar of the statement are compared impl vs model only
    spec2 = [m if s == "OUT-OF-GRAMMAR" else s for s, m in zip(spec, model)]
    ingram = sum(1 for s in spec if s != "OUT-OF-GRAMMAR")
    ctx.compare("btcc-inprocess", ls, impl, model, spec2, nontrivial=lambda c, i: i.startswith("OK"))
    ctx.notes.append({"programs_in_grammar": ingram, "programs_total": len(ls)})
    run_escape(ctx)
    # the nesting limit (value.h DepthGuard): the grammar of the statement has none, so this stream compares the
    # implementation with the model (theorems btcc_eq_compile / btcc_refuses_deep state both sides of the limit)
    dl = depth_lines()
    dimpl = ctx.harness(dl)
    dmodel = ctx.driver(dl, "model")
    ctx.compare("btcc-depth-limit", dl, dimpl, dmodel, dmodel, nontrivial=lambda c, i: i.startswith("OK") or i == "EXIT1")
    if not any(i == "EXIT1" for i in dimpl) or not any(i.startswith("OK") for i in dimpl):
        ctx.violation(dl[0], {"why": "the depth-limit stream must contain accepted and refused programs", "impl": dimpl[:6]})
    # every push the assembler emits (for in-grammar programs) satisfies the minimal-push rule
    bad = 0
    import re
    rawpush = re.compile(rb"(^|[\s\[])(op_)?(pushdata[124]|x(0[1-9a-f]|[1-3][0-9a-f]|4[0-9a-e]))($|[\s\]])")
    for l, i, s in zip(ls, impl, spec):
        if s == "OUT-OF-GRAMMAR" or not i.startswith("OK"):
            continue
        # a bare push opcode (OP_PUSHDATAn, OP_x01..OP_x4e) is a deliberately incomplete instruction: the decode
        # clause of the property is about programs made of complete operations
        if any(rawpush.search(bytes.fromhex(w).lower()) for w in l.split(" ")[1:] if w != "-"):
            continue
        ops = decode_script(bytes.fromhex(i[3:]))
        if ops is None or any(o <= 0x4e and not minimal(o, d) for o, d in ops):
            bad += 1
            if bad <= 2:
                ctx.violation(l, {"why": "assembled output does not decode or contains a non-minimal push", "impl": i})
    # the real btcc binary on a subsample
    rnd = random.Random(ctx.seed + 77)
    # (a single argv string is limited to 128 KiB by the kernel: the 65535/65536-byte literals are in-process only)
    cand = [k for k in range(len(progs)) if all(len(w) < 100000 for w in progs[k])]
    idx = rnd.sample(cand, min(len(cand), 500 if ctx.tier == "quick" else 5000))

    def one(k):
        p = [w for w in progs[k] if "\x00" not in w]
        try:
            r = subprocess.run([os.path.join(ctx.bin, "btcc")] + p, stdout=subprocess.PIPE, stderr=subprocess.PIPE, timeout=20)
        except Exception as e:  # noqa: BLE001
            return "ERR " + str(e)
        if r.returncode == 0:
            return "OK " + r.stdout.decode("latin1").strip()
        return ("EXIT%d" % r.returncode) if r.returncode > 0 else ("CRASH sig=%d" % -r.returncode)
    with ThreadPoolExecutor(max_workers=16) as ex:
        outs = list(ex.map(one, idx))
    sub = [ls[k] for k in idx]
    ctx.compare("btcc-binary", sub, outs, [model[k] for k in idx], [spec2[k] for k in idx], nontrivial=lambda c, i: i.startswith("OK"))


def replay(ctx, case):
    print("impl :", ctx.harness([case])[0])
    print("model:", ctx.driver([case])[0])
    print("spec :", ctx.driver([case], "spec")[0])
