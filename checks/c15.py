"""C15 — no input makes the tools crash or touch memory they do not own.
Every input stream of the other checks, plus structure-aware mutations of them, is executed on AddressSanitizer +
UndefinedBehaviorSanitizer builds of the tree (native harness and the three binaries); a sample runs under valgrind memcheck."""
import os
import random
import re
import subprocess
import sys
from concurrent.futures import ThreadPoolExecutor
from . import runlib as R
from . import pyref as P
from . import spendgen as S
sys.path.insert(0, os.path.join(os.path.dirname(os.path.dirname(os.path.abspath(__file__))), "harness"))
import ptyrun  # noqa: E402
import build as hbuild  # noqa: E402

SAN_ENV = {"ASAN_OPTIONS": "exitcode=99:detect_leaks=0:abort_on_error=0:allocator_may_return_null=1", "UBSAN_OPTIONS": "exitcode=98:print_stacktrace=1"}
BAD = re.compile(r"^(DIED|CRASH|EXIT9[89]|UNCAUGHT|HARNESS-EXC)")


def mutate_hex(rnd, h):
    """structure-aware mutations of a hex field"""
    if h in ("-", ""):
        return rnd.choice(("-", "00", "ff", "4c", "4d", "4e"))
    b = bytearray.fromhex(h) if re.fullmatch(r"([0-9a-fA-F]{2})+", h) else None
    if b is None:
        return h
    k = rnd.randrange(9)
    if k == 0: return bytes(b[: rnd.randrange(len(b) + 1)]).hex() or "-"                 # truncation
    if k == 1:
        i = rnd.randrange(len(b)); b[i] = rnd.choice((0, 0xff, 0x4c, 0x4d, 0x4e, 0xfd, 0xfe, 0x7f, 0x80)); return bytes(b).hex()   # length-field style corruption
    if k == 2: return (bytes(b) + bytes(rnd.randrange(256) for _ in range(rnd.choice((1, 3, 40))))).hex()
    if k == 3: return bytes(b[rnd.randrange(len(b)):]).hex() or "-"
    if k == 4:
        i = rnd.randrange(len(b)); b[i] ^= 1 << rnd.randrange(8); return bytes(b).hex()
    if k == 5: return (bytes(b) * 2).hex()
    if k == 6: return "4e" + "ffffffff" + bytes(b).hex()
    if k == 7: return "fdffff" + bytes(b).hex()
    return bytes(b).hex()


MUTABLE = {"RUN": (5, 6), "RUNV": (5, 6), "SESSION": (5, 6, 7), "SESSIONV": (5, 6, 7), "EXEC": (5, 6, 7, 9), "EXECF": (5, 6, 7, 9), "SESSIONX": (5, 6, 7), "SESSIONF": (5, 6, 7), "DUAL": (), "DISPLAY": (), "FLAGS": (1,), "SN": (1,),
           "TXPARSE": (1,), "AMOUNT": (1,), "TXARG": (1,), "SPEND": (1, 2, 6, 8, 9), "SPENDR": (1, 2, 6, 8, 9), "TCE": (1, 2, 3), "PRUN": (1, 6, 7),
           "KARGV": (), "KCITE": (), "KMORE": (), "KESC": (), "KUNESC": (), "KSTRIP": (), "KDUPCMD": (), "KEXEC": (), "KRUN": (), "KHIST": ()}


def mutate_line(rnd, l):
    """damage one of the payload fields of a protocol line (never the protocol's own numeric fields)"""
    p = l.split(" ")
    if len(p) < 2:
        return l
    if p[0] in ("BTCC", "VALUE", "TF", "INLINE"):
        cand = list(range(1, len(p)))
    else:
        cand = [i for i in MUTABLE.get(p[0], ()) if i < len(p)]
    if not cand:
        return l
    i = rnd.choice(cand)
    if "," in p[i]:
        parts = p[i].split(",")
        j = rnd.randrange(len(parts))
        parts[j] = mutate_hex(rnd, parts[j]) if parts[j] != "_" else rnd.choice(("_", "00"))
        parts = [x if x != "-" else "_" for x in parts]
        p[i] = ",".join(parts)
    else:
        p[i] = mutate_hex(rnd, p[i])
    return " ".join(p)


def text_mut(rnd, t):
    """mutations of a command-line text (tx hex, script text, option value)"""
    k = rnd.randrange(8)
    if k == 0: return t[: rnd.randrange(len(t) + 1)]
    if k == 1: return t + rnd.choice(("00", "zz", ",", ":", "[", "]", "(", ")", " "))
    if k == 2 and len(t) > 4:
        i = rnd.randrange(len(t) - 2); return t[:i] + rnd.choice(("ff", "fd", "fe", "00", "4e")) + t[i + 2:]
    if k == 3: return ""
    if k == 4: return t * 2
    if k == 5 and len(t) > 2:
        i = rnd.randrange(len(t)); return t[:i] + t[i + 1:]
    if k == 6: return rnd.choice(("[", "]", "[[", "]]", "(", "a(", "a()", "0x", "0x0", "-", "--", "1e400", "OP_", "OP_x", "OP_xZZ"))
    return t


def corpus(ctx, rnd, quick):
    """protocol lines of the other checks' generators"""
    from . import c01, c04, c07, c09, c10, c16, c17, c18, c05, c11
    out = {}
    def take(name, lines, n):
        lines = list(lines)
        rnd.shuffle(lines)
        out[name] = lines[: n]
    n = 1500 if quick else 30000
    ss = c01.streams(ctx)
    for k, v in ss.items():
        take("c01-" + k, v, n)
    take("c04", c04.lines(ctx) + c04.walks(ctx), n)
    take("c07", c07.lines(ctx)[0], n)
    take("c09", c09.flags_lines(ctx), n)
    take("c10", c10.lines(ctx), n)
    take("c16", c16.lines(ctx), n)
    take("c17", c17.lines(ctx), n)
    take("c18", [l for l in c18.gen_lines(ctx)] + c18.use_site_lines(ctx), n)
    # plain sessions on a script of the pay-to-script-hash shape: the hand-over replaces the script by the stack top (a buffer of
    # another size, possibly elsewhere), after which signature opcodes build the script code from the new script's start
    import hashlib as _hl
    def _h160(b): return _hl.new("ripemd160", _hl.sha256(b).digest()).digest()
    pl = []
    for n in (0, 5, 24, 28, 29, 35, 41, 56, 80, 300):
        for tail in (bytes([0xac]), bytes([0xad, 0x51]), bytes([0x51, 0xae]), bytes([0xab, 0xac]), bytes([0xac, 0xab, 0x51])):
            red = bytes([0x61]) * max(0, n - 34 - len(tail)) + R.push(b"\x02" + b"\x11" * 32) + tail
            spk = bytes([0xa9, 0x14]) + _h160(red) + bytes([0x87])
            for fl in (R.STD, R.STD & ~(1 << R.FLAG_BITS["CONST_SCRIPTCODE"]), 0):
                for sig in (b"", bytes.fromhex("3006020101020101" "01")):
                    pl.append(R.run_line(0, fl, spk, [sig, red]))
                    pl.append(R.run_line(0, fl, spk, [b"", sig, red]))
    out["p2sh-plain-sigops"] = pl
    # spends: valid ones and mutated ones, every output type
    sp = []
    for rep in range(30 if quick else 600):
        for kind in S.KINDS:
            s = S.build(rnd, kind)
            sp.append(S.spend_line(s.tx, s.txin, R.STD))
            tx2, ftx2, lab = S.mutate(rnd, s)
            sp.append(S.spend_line(tx2, ftx2, R.STD, select=rnd.choice((-1, -1, 0, 1, 5, -7))))
            # byte-level damage to the serialised transactions
            a = P.ser_tx(s.tx).hex(); b = P.ser_tx(s.txin).hex()
            sp.append("SPEND %s %s %d %d 0 - 0" % (text_mut(rnd, a).encode().hex() or "-", b.encode().hex(), rnd.choice((-1, 0, 3)), R.STD))
            sp.append("SPEND %s %s -1 %d 0 - 0" % (a.encode().hex(), text_mut(rnd, b).encode().hex() or "-", R.STD))
            sp.append("SPEND %s %s -1 %d 0 %s 0" % (a.encode().hex(), b.encode().hex(), R.STD, text_mut(rnd, "aa:bb,cc:dd").encode().hex() or "-"))
    # structure at its limits: no outputs at all (SIGHASH_SINGLE has nothing to point at), the spent input beyond the outputs
    for kind in S.KINDS:
        for ht in (1, 2, 3, 0x81, 0x82, 0x83) + ((0,) if kind.startswith("p2tr") else ()):
            for n_out in (0, 1):
                try: s = S.build(rnd, kind, {"hashtype": ht, "n_out": n_out, "n_in": 1 if n_out == 0 else 3, "idx": 0 if n_out == 0 else 2})
                except Exception: continue
                sp.append(S.spend_line(s.tx, s.txin, R.STD))
    # amount prefixes shorter / longer than the list of inputs, the spent input being beyond the amounts given
    for kind in S.KINDS:
        if kind.startswith("p2tr"): continue
        for (n_in, idx, am) in ((3, 2, ["0.5"]), (3, 1, ["0.5"]), (3, 2, ["1", "2"]), (3, 0, ["1"]), (2, 1, ["1", "2", "3", "4"]), (3, 2, [])):
            s = S.build(rnd, kind, {"n_in": n_in, "idx": idx})
            sp.append(S.spend_line(s.tx, s.txin, R.STD, amounts=am if am else None))
    out["spend"] = sp
    tx = []
    for rep in range(300 if quick else 5000):
        s = S.build(rnd, rnd.choice(S.KINDS))
        t = text_mut(rnd, P.ser_tx(s.tx).hex())
        tx.append("TXPARSE " + (t.encode().hex() or "-"))
        tx.append("TXARG " + ((rnd.choice(("", "1,", "0.5:", "1,2,3:", "x:", "1e400:", "-1:")) + t).encode().hex() or "-"))
    out["tx"] = tx
    return out


def run(ctx):
    rnd = random.Random(ctx.seed * 15 + 7)
    quick = ctx.tier == "quick"
    asan = hbuild.build("asan")
    streams = corpus(ctx, rnd, quick)
    total = 0
    reports = []
    for name, lines in streams.items():
        muts = [mutate_line(rnd, l) for l in lines]
        allv = lines + muts
        from check import sharded
        sinks = []
        def runpart(ls):
            sink = []
            r = ctx.harness(ls, variant_bin=asan, env=SAN_ENV, stderr_sink=sink)
            sinks.extend(sink)
            return r
        res = sharded(runpart, allv, 16)
        nbad = 0
        for l, r in zip(allv, res):
            if BAD.match(r) or re.search(r"(CRASH sig=|EXIT9[89]|DIED rc=)", r):
                nbad += 1
                if nbad <= 3:
                    # re-run the single line to capture the sanitizer report
                    sink = []
                    r2 = ctx.harness([l], variant_bin=asan, env=SAN_ENV, stderr_sink=sink)
                    rep = "\n".join(x[1] for x in sink)[-3000:]
                    ctx.violation(l, {"stream": "asan:" + name, "answer": r, "rerun": r2, "sanitizer": rep,
                                      "why": "the sanitizer build crashed / reported a memory or undefined-behaviour error / let an exception escape"})
        ctx.count("asan:" + name, len(allv))
        total += len(allv)
    import hashlib as _hl
    def _h160(b): return _hl.new("ripemd160", _hl.sha256(b).digest()).digest()
    # ---- the three binaries (sanitizer build) on command lines
    jobs = []
    def job(tool, argv, stdin_mode="pipe", stdout_mode="pipe", inp=""):
        jobs.append((tool, argv, stdin_mode, stdout_mode, inp))
    scripts = ["[OP_1 OP_2 OP_ADD]", "0x5152", "[", "]", "[[OP_1]", "OP_1]", "", "0x", "0x4c", "0x4effffffff", "[OP_IF]", "[0x0102030405 OP_1ADD]",
               "[OP_1 OP_0 OP_DIV]", "[6 OP_2DIV]", "add(1,2)", "sha256(", "bech32-decode()", "addr_to_spk()", "[OP_xff]", "1e99", "-9223372036854775808",
               "99999999999999999999", "[a(b(c(d]", "tagged-hash()", "jacobi()", "base58chk-decode(1)", "bech32-decode(bc1)", "addr_to_spk(1)"]
    for sc in scripts:
        for extra in ([], ["-z"], ["-f-MINIMALDATA"], ["-z", "-f-MINIMALDATA"], ["-f+X"], ["-f"], ["--select=9"], ["--tx=00"], ["--txin=00"], ["--pretend-valid=aa"]):
            job("btcdeb", extra + [sc] + ["0x01", "5"][: rnd.randrange(3)])
            job("btcdeb", extra, inp=sc + "\n")
        job("btcc", sc.strip("[]").split(" ") if sc else [])
        job("btcc", [sc])
        job("btcc", [], inp=sc + "\n")
    for rep in range(40 if quick else 800):
        s = S.build(rnd, rnd.choice(S.KINDS))
        a = P.ser_tx(s.tx).hex(); b = P.ser_tx(s.txin).hex()
        job("btcdeb", ["--tx=" + text_mut(rnd, a), "--txin=" + b] + rnd.choice(([], ["--select=0"], ["--select=7"], ["--select=-3"])), inp="\n")
        job("btcdeb", ["--tx=" + a, "--txin=" + text_mut(rnd, b)], inp="\n")
        job("btcdeb", ["--tx=" + rnd.choice(("", "1:", ",", "1,2:", ":")) + a], inp="[OP_1]\n")
        job("tap", rnd.choice(([], ["--tx=" + text_mut(rnd, a), "--txin=" + b])) + [text_mut(rnd, P.xonly(7).hex()), str(rnd.choice((0, 1, 2, 3))), "[OP_1]", "[OP_2]", str(rnd.choice((0, 1, 5)))])
    # regression cases of repaired defects (found by an independent reviewer of the tree, reproduced, fixed: KNOWN_FINDINGS.txt)
    KEYX = "f30544d6009c8d8d94f5d030b2e844b1a3ca036255161c479db1cca5b374dd1c"
    job("tap", ["--tx=02000000000101bee7e1540b689a1790a96351ec66fa8f1ad49a2ff9b95dd7baff73c3659fde2d0000000000ffffffff01905f010000000000015101010100000000",
                "--txin=020000000111111111111111111111111111111111111111111111111111111111111111110000000000ffffffff01a086010000000000222100d1c2a6bc2d267dccba6ef802872584ba3f3491f5efa4047a76f0b2a9747b9c1b00000000",
                KEYX, "1", "[OP_1]"])
    job("tap", ["--tx=0200000001198c20cfb96f2680a594537575a63b735df1ec26886a06043c9c7b5798581de500000000020151ffffffff01905f010000000000015100000000",
                "--txin=020000000111111111111111111111111111111111111111111111111111111111111111110000000000ffffffff01a086010000000000225120d1c2a6bc2d267dccba6ef802872584ba3f3491f5efa4047a76f0b2a9747b9c1b00000000",
                KEYX, "1", "[OP_1]"])
    for n in (100000, 12000000):
        job("btcdeb", [], inp="1" * n + "\n")
        job("btcdeb", [], inp="[" + "1" * n + "]\n")
        job("btcc", [], inp="7" * (n + 1) + "\n")
    job("btcdeb", ["-f-CONST_SCRIPTCODE", "[OP_CHECKSIG]"] + ["0x01"] * 1001, "tty", "tty", "exec OP_CODESEPARATOR\nstep\nstep\n\x04")
    job("btcdeb", ["-f-CONST_SCRIPTCODE", "[OP_1 OP_CHECKSIG]"] + ["0x01"] * 1000, "tty", "tty", "exec OP_CODESEPARATOR OP_1\nstep\nstep\n\x04")
    # the same from the command line, and with an exec'd OP_CODESEPARATOR before the hand-over
    for n in (35, 41, 56):
        red = bytes([0x61]) * (n - 35) + R.push(b"\x02" + b"\x11" * 32) + bytes([0xac])
        spk = bytes([0xa9, 0x14]) + _h160(red) + bytes([0x87])
        for extra in ([], ["-f-CONST_SCRIPTCODE"]):
            job("btcdeb", extra + ["0x" + spk.hex(), "0x3006020101020101" "01", "0x" + red.hex()], "tty", "pipe", "")
            job("btcdeb", extra + ["0x" + spk.hex(), "0x3006020101020101" "01", "0x" + red.hex()], "tty", "tty", "step\nstep\nstep\nexec OP_CODESEPARATOR\n" + "step\n" * (n - 30) + "\x04")
    # interactive command sequences
    cmds = ["step", "rewind", "stack", "altstack", "vfexec", "print", "exec", "exec OP_1", "exec OP_CODESEPARATOR OP_CHECKSIG", "exec 0x", "exec [", "tf", "tf -h",
            "tf add 1 2", "tf sha256", "tf sha256 abc", "tf bech32-decode x", "tf base58chk-decode x", "tf addr-to-scriptpubkey x", "tf jacobi-symbol 0", "tf nosuch 1",
            "tf int 0x0102030405060708090a", "tf hex -1", "tf reverse", "tf tagged-hash a", "help", "", "exec OP_IF", "exec OP_ENDIF", "tf scriptpubkey-to-addr 0x00"]
    for rep in range(25 if quick else 500):
        seq = "\n".join(rnd.choice(cmds) for _ in range(rnd.randrange(1, 12))) + "\n\x04"     # ^D ends the session
        job("btcdeb", [rnd.choice(scripts[:12])] + rnd.choice(([], ["0x01"], ["-z"])), "tty", "tty", seq)
    # complete command trees over {step, rewind, exec} on scripts with failing operations: the bookkeeping of failed steps
    import itertools
    for sc in ("[OP_1 OP_ADD]", "[OP_ADD OP_1]", "[OP_1 OP_0 OP_VERIFY OP_2]", "[OP_0 OP_IF OP_ELSE OP_RETURN OP_ENDIF OP_1]"):
        for d in range(1, 5 if quick else 7):
            for seq in itertools.product(("step", "rewind", "exec 1 2"), repeat=d):
                job("btcdeb", [sc], "tty", "tty", "\n".join(seq) + "\nprint\nstep\n\x04")
    def one(j):
        tool, argv, si, so, inp = j
        try:
            rc, out, err = ptyrun.run([os.path.join(asan, tool)] + argv, si, so, inp, SAN_ENV)
        except Exception as ex:  # noqa
            return (-999, "", "harness problem: %r" % ex)
        return (rc, out, err)
    with ThreadPoolExecutor(max_workers=16) as ex:
        res = list(ex.map(one, jobs))
    nbad = 0
    hist = {}
    for j, (rc, out, err) in zip(jobs, res):
        key = "%s rc=%s" % (j[0], rc)
        hist[key] = hist.get(key, 0) + 1
        if rc == -9 and j[2] == "tty":
            hist["(interactive session did not end at ^D: killed by the runner)"] = hist.get("(interactive session did not end at ^D: killed by the runner)", 0) + 1
            continue
        crashed = rc < 0 or rc in (98, 99) or rc >= 128 or "Sanitizer" in err or "runtime error:" in err or "Sanitizer" in out or "runtime error:" in out or "terminate called" in err
        if crashed:
            nbad += 1
            if nbad <= 5:
                ctx.violation("CLI %s %r stdin=%s stdout=%s input=%r" % j, {"stream": "cli", "rc": rc, "stderr": err[-3000:], "stdout": out[-500:],
                              "why": "a tool ended by a signal / sanitizer report / uncaught exception"})
    ctx.count("cli", len(jobs))
    ctx.notes.append("cli exit histogram: " + ", ".join(f"{k}:{v}" for k, v in sorted(hist.items())))
    for j in jobs[:3]:
        ctx.sample({"stream": "cli", "case": "%s %r" % (j[0], j[1])})
    ctx.nontrivial.update("cli%d" % i for i in range(len(jobs)))
    # ---- valgrind memcheck on the plain build: uninitialised reads
    vg = []
    sample = [l for name, ls in streams.items() for l in ls[:6]]
    rnd.shuffle(sample)
    sample = sample[: (60 if quick else 1500)]
    # always in the sample: signature hashing with hash types outside the defined ones (log lines are formatted whether or not they are shown)
    for kind in ("p2pk", "p2pkh", "multisig", "p2sh", "p2wpkh", "p2wsh"):
        for ht in (0, 4, 0x1c, 0x80):
            sv_ = S.build(rnd, kind, {"hashtype": ht})
            sample.append(S.spend_line(sv_.tx, sv_.txin, R.STD & ~(1 << R.FLAG_BITS["STRICTENC"])))
    p = subprocess.run(["valgrind", "-q", "--error-exitcode=97", "--track-origins=no", os.path.join(ctx.bin, "harness")],
                       input="\n".join(sample) + "\n", stdout=subprocess.PIPE, stderr=subprocess.PIPE, text=True, errors="replace")
    if p.returncode == 97 or "uninitialised" in p.stderr or "Invalid read" in p.stderr or "Invalid write" in p.stderr or "Mismatched" in p.stderr:
        ctx.violation("VALGRIND " + " ;; ".join(sample[:3]), {"stream": "valgrind", "stderr": p.stderr[-4000:], "lines": sample,
                      "why": "valgrind memcheck reported an error on the plain build"})
    ctx.count("valgrind", len(sample))
    from . import c15kerl; c15kerl.run(ctx)


def replay(ctx, case):
    from . import c15kerl
    if case.split(" ")[0] in c15kerl.WORDS + ("PTY", "PTY-HIST"): return c15kerl.replay(ctx, case)
    asan = hbuild.build("asan")
    if case.startswith("CLI ") or case.startswith("VALGRIND"):
        print(case)
        return
    sink = []
    print("asan :", ctx.harness([case], variant_bin=asan, env=SAN_ENV, stderr_sink=sink))
    for x in sink:
        print(x[1])
