"""Independent Python oracle for C14 (value transforms): reference code written from the standards
(FIPS 180-4 via hashlib, BIP173/BIP350 reference algorithms, Base58Check as described in the Bitcoin wiki,
BIP340 / SEC1 arithmetic on secp256k1 with Python integers).  Nothing here is derived from the C++ or the Lean model."""
import hashlib

# ----------------------------------------------------------------------------------------------- hashes


def sha256(b):
    return hashlib.sha256(b).digest()


def _ripemd160_py(msg):
    # pure Python RIPEMD-160 (used only when hashlib lacks it)
    def rol(x, n):
        return ((x << n) | (x >> (32 - n))) & 0xffffffff
    r1 = [0, 1, 2, 3, 4, 5, 6, 7, 8, 9, 10, 11, 12, 13, 14, 15, 7, 4, 13, 1, 10, 6, 15, 3, 12, 0, 9, 5, 2, 14, 11, 8,
          3, 10, 14, 4, 9, 15, 8, 1, 2, 7, 0, 6, 13, 11, 5, 12, 1, 9, 11, 10, 0, 8, 12, 4, 13, 3, 7, 15, 14, 5, 6, 2,
          4, 0, 5, 9, 7, 12, 2, 10, 14, 1, 3, 8, 11, 6, 15, 13]
    r2 = [5, 14, 7, 0, 9, 2, 11, 4, 13, 6, 15, 8, 1, 10, 3, 12, 6, 11, 3, 7, 0, 13, 5, 10, 14, 15, 8, 12, 4, 9, 1, 2,
          15, 5, 1, 3, 7, 14, 6, 9, 11, 8, 12, 2, 10, 0, 4, 13, 8, 6, 4, 1, 3, 11, 15, 0, 5, 12, 2, 13, 9, 7, 10, 14,
          12, 15, 10, 4, 1, 5, 8, 7, 6, 2, 13, 14, 0, 3, 9, 11]
    s1 = [11, 14, 15, 12, 5, 8, 7, 9, 11, 13, 14, 15, 6, 7, 9, 8, 7, 6, 8, 13, 11, 9, 7, 15, 7, 12, 15, 9, 11, 7, 13, 12,
          11, 13, 6, 7, 14, 9, 13, 15, 14, 8, 13, 6, 5, 12, 7, 5, 11, 12, 14, 15, 14, 15, 9, 8, 9, 14, 5, 6, 8, 6, 5, 12,
          9, 15, 5, 11, 6, 8, 13, 12, 5, 12, 13, 14, 11, 8, 5, 6]
    s2 = [8, 9, 9, 11, 13, 15, 15, 5, 7, 7, 8, 11, 14, 14, 12, 6, 9, 13, 15, 7, 12, 8, 9, 11, 7, 7, 12, 7, 6, 15, 13, 11,
          9, 7, 15, 11, 8, 6, 6, 14, 12, 13, 5, 14, 13, 13, 7, 5, 15, 5, 8, 11, 14, 14, 6, 14, 6, 9, 12, 9, 12, 5, 15, 8,
          8, 5, 12, 9, 12, 5, 14, 6, 8, 13, 6, 5, 15, 13, 11, 11]
    k1 = [0, 0x5a827999, 0x6ed9eba1, 0x8f1bbcdc, 0xa953fd4e]
    k2 = [0x50a28be6, 0x5c4dd124, 0x6d703ef3, 0x7a6d76e9, 0]

    def f(j, x, y, z):
        if j < 16:
            return x ^ y ^ z
        if j < 32:
            return (x & y) | (~x & z & 0xffffffff)
        if j < 48:
            return (x | (~y & 0xffffffff)) ^ z
        if j < 64:
            return (x & z) | (y & ~z & 0xffffffff)
        return x ^ (y | (~z & 0xffffffff))
    h = [0x67452301, 0xefcdab89, 0x98badcfe, 0x10325476, 0xc3d2e1f0]
    ml = len(msg) * 8
    msg = msg + b"\x80" + b"\x00" * ((55 - len(msg)) % 64) + ml.to_bytes(8, "little")
    for off in range(0, len(msg), 64):
        x = [int.from_bytes(msg[off + 4 * i:off + 4 * i + 4], "little") for i in range(16)]
        a, b, c, d, e = h
        a2, b2, c2, d2, e2 = h
        for j in range(80):
            t = (rol((a + f(j, b, c, d) + x[r1[j]] + k1[j // 16]) & 0xffffffff, s1[j]) + e) & 0xffffffff
            a, e, d, c, b = e, d, rol(c, 10), b, t
            t = (rol((a2 + f(79 - j, b2, c2, d2) + x[r2[j]] + k2[j // 16]) & 0xffffffff, s2[j]) + e2) & 0xffffffff
            a2, e2, d2, c2, b2 = e2, d2, rol(c2, 10), b2, t
        t = (h[1] + c + d2) & 0xffffffff
        h[1] = (h[2] + d + e2) & 0xffffffff
        h[2] = (h[3] + e + a2) & 0xffffffff
        h[3] = (h[4] + a + b2) & 0xffffffff
        h[4] = (h[0] + b + c2) & 0xffffffff
        h[0] = t
    return b"".join(v.to_bytes(4, "little") for v in h)


def ripemd160(b):
    try:
        return hashlib.new("ripemd160", b).digest()
    except Exception:  # noqa: BLE001
        return _ripemd160_py(b)


def hash256(b):
    return sha256(sha256(b))


def hash160(b):
    return ripemd160(sha256(b))


def tagged_hash(tag, msg):
    t = sha256(tag)
    return sha256(t + t + msg)


# ----------------------------------------------------------------------------------------------- base58
B58 = "123456789ABCDEFGHJKLMNPQRSTUVWXYZabcdefghijkmnopqrstuvwxyz"


def b58encode(b):
    n = int.from_bytes(b, "big")
    s = ""
    while n:
        n, r = divmod(n, 58)
        s = B58[r] + s
    z = len(b) - len(b.lstrip(b"\x00"))
    return "1" * z + s


def b58decode(s):
    n = 0
    for ch in s:
        k = B58.find(ch)
        if k < 0:
            return None
        n = n * 58 + k
    z = len(s) - len(s.lstrip("1"))
    body = n.to_bytes((n.bit_length() + 7) // 8, "big")
    return b"\x00" * z + body


def b58check_encode(p):
    return b58encode(p + hash256(p)[:4])


def b58check_decode(s):
    v = b58decode(s)
    if v is None or len(v) < 4 or hash256(v[:-4])[:4] != v[-4:]:
        return None
    return v[:-4]


# ----------------------------------------------------------------------------------------------- bech32 (BIP173 / BIP350)
CHARSET = "qpzry9x8gf2tvdw0s3jn54khce6mua7l"
BECH32_CONST = {"bech32": 1, "bech32m": 0x2bc830a3}


def bech32_polymod(values):
    gen = [0x3b6a57b2, 0x26508e6d, 0x1ea119fa, 0x3d4233dd, 0x2a1462b3]
    chk = 1
    for v in values:
        b = chk >> 25
        chk = (chk & 0x1ffffff) << 5 ^ v
        for i in range(5):
            chk ^= gen[i] if ((b >> i) & 1) else 0
    return chk


def bech32_hrp_expand(hrp):
    return [ord(x) >> 5 for x in hrp] + [0] + [ord(x) & 31 for x in hrp]


def bech32_encode(hrp, data, spec):
    values = bech32_hrp_expand(hrp) + data
    polymod = bech32_polymod(values + [0] * 6) ^ BECH32_CONST[spec]
    chk = [(polymod >> 5 * (5 - i)) & 31 for i in range(6)]
    return hrp + "1" + "".join(CHARSET[d] for d in data + chk)


def bech32_decode(bech):
    if any(ord(x) < 33 or ord(x) > 126 for x in bech) or (bech.lower() != bech and bech.upper() != bech):
        return None
    bech = bech.lower()
    pos = bech.rfind("1")
    if pos < 1 or pos + 7 > len(bech) or len(bech) > 90:
        return None
    if not all(x in CHARSET for x in bech[pos + 1:]):
        return None
    hrp = bech[:pos]
    data = [CHARSET.find(x) for x in bech[pos + 1:]]
    c = bech32_polymod(bech32_hrp_expand(hrp) + data)
    for spec, k in BECH32_CONST.items():
        if c == k:
            return (spec, hrp, data[:-6])
    return None


def convertbits(data, frombits, tobits, pad=True):
    acc = 0
    bits = 0
    ret = []
    maxv = (1 << tobits) - 1
    max_acc = (1 << (frombits + tobits - 1)) - 1
    for value in data:
        if value < 0 or (value >> frombits):
            return None
        acc = ((acc << frombits) | value) & max_acc
        bits += frombits
        while bits >= tobits:
            bits -= tobits
            ret.append((acc >> bits) & maxv)
    if pad:
        if bits:
            ret.append((acc << (tobits - bits)) & maxv)
    elif bits >= frombits or ((acc << (tobits - bits)) & maxv):
        return None
    return ret


# ----------------------------------------------------------------------------------------------- integers
def compact_size(n):
    if n < 253:
        return bytes([n])
    if n < 1 << 16:
        return b"\xfd" + n.to_bytes(2, "little")
    if n < 1 << 32:
        return b"\xfe" + n.to_bytes(4, "little")
    return b"\xff" + n.to_bytes(8, "little")


def scriptnum_encode(n):
    if n == 0:
        return b""
    neg = n < 0
    a = abs(n)
    out = bytearray()
    while a:
        out.append(a & 0xff)
        a >>= 8
    if out[-1] & 0x80:
        out.append(0x80 if neg else 0)
    elif neg:
        out[-1] |= 0x80
    return bytes(out)


def scriptnum_decode(b):
    if not b:
        return 0
    v = int.from_bytes(b, "little")
    if b[-1] & 0x80:
        return -(v & ~(0x80 << (8 * (len(b) - 1))))
    return v


def small_factor(n, limit=1 << 16):
    """prime factorisation by trial division (for moduli built from small primes); None if a large cofactor remains
    that is not proven prime by Miller-Rabin"""
    fs = []
    p = 2
    while p * p <= n and p < limit:
        while n % p == 0:
            fs.append(p)
            n //= p
        p += 1
    if n > 1:
        if not is_probable_prime(n):
            return None
        fs.append(n)
    return fs


def is_probable_prime(n):
    if n < 2:
        return False
    for p in (2, 3, 5, 7, 11, 13, 17, 19, 23, 29, 31, 37):
        if n % p == 0:
            return n == p
    d, s = n - 1, 0
    while d % 2 == 0:
        d //= 2
        s += 1
    for a in (2, 3, 5, 7, 11, 13, 17, 19, 23, 29, 31, 37):
        x = pow(a, d, n)
        if x in (1, n - 1):
            continue
        for _ in range(s - 1):
            x = x * x % n
            if x == n - 1:
                break
        else:
            return False
    return True


def legendre(a, p):
    """Euler's criterion, odd prime p"""
    r = pow(a % p, (p - 1) // 2, p)
    return -1 if r == p - 1 else r


def jacobi_by_definition(a, n):
    """product of Legendre symbols over the prime factorisation of the odd modulus n; None if n cannot be factored here"""
    if n % 2 == 0 or n <= 0:
        return None
    if n == 1:
        return 1
    fs = small_factor(n)
    if fs is None:
        return None
    r = 1
    for p in fs:
        r *= legendre(a, p)
    return r


# ----------------------------------------------------------------------------------------------- secp256k1
P = 2 ** 256 - 2 ** 32 - 977
N = 0xFFFFFFFFFFFFFFFFFFFFFFFFFFFFFFFEBAAEDCE6AF48A03BBFD25E8CD0364141
G = (0x79BE667EF9DCBBAC55A06295CE870B07029BFCDB2DCE28D959F2815B16F81798,
     0x483ADA7726A3C4655DA4FBFC0E1108A8FD17B448A68554199C47D08FFB10D4B8)


def padd(a, b):
    if a is None:
        return b
    if b is None:
        return a
    if a[0] == b[0] and (a[1] + b[1]) % P == 0:
        return None
    if a == b:
        lam = 3 * a[0] * a[0] * pow(2 * a[1], P - 2, P) % P
    else:
        lam = (b[1] - a[1]) * pow(b[0] - a[0], P - 2, P) % P
    x = (lam * lam - a[0] - b[0]) % P
    return (x, (lam * (a[0] - x) - a[1]) % P)


def pmul(k, a):
    r = None
    while k:
        if k & 1:
            r = padd(r, a)
        a = padd(a, a)
        k >>= 1
    return r


def lift_x(x):
    if x >= P:
        return None
    y2 = (pow(x, 3, P) + 7) % P
    y = pow(y2, (P + 1) // 4, P)
    if y * y % P != y2:
        return None
    return (x, y if y % 2 == 0 else P - y)


def parse_pubkey(b):
    if len(b) == 33 and b[0] in (2, 3):
        pt = lift_x(int.from_bytes(b[1:], "big"))
        if pt is None:
            return None
        return pt if (pt[1] & 1) == (b[0] & 1) else (pt[0], P - pt[1])
    if len(b) == 65 and b[0] in (4, 6, 7):
        x = int.from_bytes(b[1:33], "big")
        y = int.from_bytes(b[33:], "big")
        if x >= P or y >= P or (y * y - x * x * x - 7) % P:
            return None
        if b[0] in (6, 7) and (y & 1) != (b[0] & 1):
            return None
        return (x, y)
    return None


def ser_compressed(pt):
    return bytes([2 + (pt[1] & 1)]) + pt[0].to_bytes(32, "big")


def schnorr_verify(pk, msg, sig):
    if len(pk) != 32 or len(sig) != 64:
        return False
    pt = lift_x(int.from_bytes(pk, "big"))
    r = int.from_bytes(sig[:32], "big")
    s = int.from_bytes(sig[32:], "big")
    if pt is None or r >= P or s >= N:
        return False
    e = int.from_bytes(tagged_hash(b"BIP0340/challenge", sig[:32] + pk + msg), "big") % N
    rr = padd(pmul(s, G), pmul(N - e, pt))
    return rr is not None and rr[1] % 2 == 0 and rr[0] == r


def schnorr_sign(sk, msg, aux=b"\x00" * 32):
    pt = pmul(sk, G)
    d = sk if pt[1] % 2 == 0 else N - sk
    t = (d ^ int.from_bytes(tagged_hash(b"BIP0340/aux", aux), "big")).to_bytes(32, "big")
    k0 = int.from_bytes(tagged_hash(b"BIP0340/nonce", t + pt[0].to_bytes(32, "big") + msg), "big") % N
    rp = pmul(k0, G)
    k = k0 if rp[1] % 2 == 0 else N - k0
    e = int.from_bytes(tagged_hash(b"BIP0340/challenge", rp[0].to_bytes(32, "big") + pt[0].to_bytes(32, "big") + msg), "big") % N
    return rp[0].to_bytes(32, "big") + ((k + e * d) % N).to_bytes(32, "big")


def ecdsa_verify_rs(pt, r, s, z):
    if not (0 < r < N and 0 < s < N):
        return False
    w = pow(s, N - 2, N)
    rr = padd(pmul(z * w % N, G), pmul(r * w % N, pt))
    return rr is not None and rr[0] % N == r


def ecdsa_sign_rs(sk, z, k):
    r = pmul(k, G)[0] % N
    s = pow(k, N - 2, N) * (z + r * sk) % N
    return r, s


def der_int(n):
    b = n.to_bytes((n.bit_length() + 8) // 8 or 1, "big")
    return b"\x02" + bytes([len(b)]) + b


def der_sig(r, s):
    body = der_int(r) + der_int(s)
    return b"\x30" + bytes([len(body)]) + body
