"""C10 — resource limits are enforced at exactly the consensus bounds."""
import random
from . import runlib as R

NOP, OP1, DUP, TOALT, FROMALT, DROP, IF, ENDIF, OP0 = 0x61, 0x51, 0x76, 0x6b, 0x6c, 0x75, 0x63, 0x68, 0x00


def filler(n):
    """a script fragment of exactly n bytes that executes fine and leaves nothing behind: pushes + DROPs"""
    out = b""
    while n > 0:
        if n >= 4:
            k = min(n - 2, 75)
            out += R.push(b"\x07" * k) + bytes([DROP])
            n -= k + 2
        elif n == 3:
            out += bytes([NOP, NOP, NOP]); n = 0
        elif n == 2:
            out += bytes([NOP, NOP]); n = 0
        else:
            out += bytes([NOP]); n = 0
    return out


def lines(ctx):
    out = []
    SV = (0, 1, 3)
    for sv in SV:
        for fl in (0, R.STD & ~(1 << 8)):
            # push size 519/520/521: executed, unexecuted, on the initial stack is C03's matter
            for n in (519, 520, 521, 522):
                d = b"\x2a" * n
                out.append(R.run_line(sv, fl, R.push(d), ()))
                out.append(R.run_line(sv, fl, bytes([OP0, IF]) + R.push(d) + bytes([ENDIF, OP1]), ()))
                out.append(R.run_line(sv, fl, bytes([0x4e]) + n.to_bytes(4, "little") + d, ()))
            # combined stack + alt stack: 1000 fine, 1001 fails
            for k in (999, 1000, 1001, 1002):
                out.append(R.run_line(sv, fl, bytes([OP1]) * k, ()))
                out.append(R.run_line(sv, fl, bytes([OP1]) + bytes([DUP]) * (k - 1), ()) if sv == 3 else R.run_line(sv, fl, bytes([OP1]) * (k - 150) + bytes([DUP]) * 150, ()))
                # alt-stack mix: 500 on the alt stack, rest on the main stack
                out.append(R.run_line(sv, fl, bytes([OP1]) * (k - 100) + bytes([TOALT]) * 100 + bytes([OP1]) * 100, ()) if sv == 3
                           else R.run_line(sv, fl, bytes([OP1]) * (k - 100) + bytes([TOALT]) * 100 + bytes([OP1]) * 100, ()))
                out.append(R.run_line(sv, fl, bytes([OP1]) * (k - 3), (b"\x01", b"\x02", b"\x03")))
                # initial stack already at the limit
                out.append(R.run_line(sv, fl, bytes([NOP]), tuple(b"\x01" for _ in range(k))))
                out.append(R.run_line(sv, fl, bytes([DROP, OP1]), tuple(b"\x01" for _ in range(k))))
            # op count 200/201/202 (counted even when not executed; OP_RESERVED and pushes are not counted)
            for k in (200, 201, 202, 203):
                out.append(R.run_line(sv, fl, bytes([NOP]) * k + bytes([OP1]), ()))
                out.append(R.run_line(sv, fl, bytes([OP0, IF]) + bytes([NOP]) * (k - 2) + bytes([ENDIF, OP1]), ()))
                out.append(R.run_line(sv, fl, bytes([OP1]) * 300 + bytes([DROP]) * (k - 1) + bytes([NOP]), ()))
                out.append(R.run_line(sv, fl, bytes([0x50 if False else OP1]) + bytes([NOP]) * (k - 1) + bytes([0x60, 0x60, DROP]), ()))
            # which failure wins at the limit: the operation is counted BEFORE it is looked at (disabled opcodes,
            # OP_CODESEPARATOR under CONST_SCRIPTCODE, undefined opcodes, OP_VERIF ...), executed or not
            if sv != 3:
                for nops in (199, 200, 201):
                    for op in range(0x4f, 0xbb):
                        if op in (0x63, 0x64, 0x67, 0x68):
                            continue
                        for flx in (fl, fl | (1 << 16)):
                            out.append(R.run_line(sv, flx, bytes([NOP]) * nops + bytes([op]), (b"\x01", b"\x01", b"\x01")))
                    for op in (0x7e, 0x95, 0xab, 0x65, 0x50, 0x62, 0xb0, 0xba):
                        out.append(R.run_line(sv, fl | (1 << 16), bytes([OP0, IF]) + bytes([NOP]) * (nops - 1) + bytes([op, ENDIF, OP1]), ()))
            # multisig key counts add to the op count: n NOPs + CHECKMULTISIG(1) + nKeys
            for nk in (0, 1, 19, 20, 21):
                for nops in (201 - 1 - nk - 1, 201 - 1 - nk, 201 - 1 - nk + 1):
                    if nops < 0:
                        continue
                    keys = b"".join(R.push(b"\x02" + bytes([i + 1]) * 32) for i in range(nk))
                    sc = bytes([NOP]) * nops + bytes([OP0, OP0]) + keys + R.pushnum(nk) + bytes([0xae])
                    out.append(R.run_line(sv, 0, sc, ()))
            # pubkey count 20/21, sig count
            for nk in (19, 20, 21, 22):
                keys = b"".join(R.push(b"\x02" + bytes([i + 1]) * 32) for i in range(nk))
                out.append(R.run_line(sv, 0, bytes([OP0, OP0]) + keys + R.pushnum(nk) + bytes([0xae]), ()))
                out.append(R.run_line(sv, 0, bytes([OP0]) + R.pushnum(nk + 1) + keys + R.pushnum(nk) + bytes([0xae]), ()))
            # numeric operand sizes: 4 bytes for arithmetic, 5 for lock-time operands
            for v in (b"\xff\xff\xff\x7f", b"\xff\xff\xff\xff", b"\x00\x00\x00\x80\x00", b"\xff\xff\xff\xff\x7f", b"\x00\x00\x00\x00\x80\x00", b"\x01\x02\x03\x04\x05\x06"):
                for op in (0x8b, 0x93, 0x9a, 0xa5, 0x79, 0xb1, 0xb2, 0x91):
                    out.append(R.run_line(sv, fl | (1 << 9) | (1 << 10), bytes([op]), (b"\x01", b"\x01", v)))
                    out.append(R.run_line(sv, fl | (1 << 9) | (1 << 10), bytes([op]), (v, b"\x01", b"\x01")))
            # script size 9999/10000/10001/10002 bytes (BASE/V0 refuse > 10000; tapscript exempt)
            for n in (9999, 10000, 10001, 10002):
                out.append(R.run_line(sv, 0, filler(n - 1) + bytes([OP1]), ()))
    return out


def rewind_lines(ctx):
    """the counted limits do not move under rewind: operation count (201) and stack size (1000) reached, undone, reached again"""
    from .c04 import session_line
    out = []
    for sv in (0, 1, 3):
        w = 1000 if sv == 3 else None
        for nops in (200, 201, 202):
            sc = bytes([0x51]) + bytes([0x61]) * nops
            for k in (nops - 1, nops, nops + 1):
                for j in (1, 2, 5, k):
                    out.append(session_line(sv, R.STD, sc, (), b"", "s" * k + "r" * j + "s" * (j + 3), weight=w))
                    out.append(session_line(sv, 0, sc, (), b"", ("s" * k + "r" * j) * 2 + "s" * (j + 3), weight=w))
        # CHECKMULTISIG adds its key count: 0-of-20 at 181/182 counted operations
        for nops in (180, 181):
            sc = bytes([0x61]) * nops + bytes([0x00, 0x00]) + bytes([0x00]) * 20 + bytes([0x01, 20, 0xae])
            if sv != 3:
                for j in (1, 3, 24):
                    out.append(session_line(sv, 0, sc, (), b"", "s" * (nops + 24) + "r" * j + "s" * (j + 2), weight=w))
        # stack size: 999 / 1000 / 1001 elements reached by OP_DUP, undone, reached again
        for n in (998, 999, 1000):
            sc = bytes([0x51]) + bytes([0x76]) * n
            for j in (1, 2, 7):
                out.append(session_line(sv, 0, sc, (), b"", "s" * (n + 1) + "r" * j + "s" * (j + 2), weight=(None if sv != 3 else 100000)))
    return out


def exec_lines(ctx):
    """operations run with `exec` count towards the limits of the script that is current — not of the next one: exec in the scriptSig phase of a
    two-script session, then the scriptPubKey at its own limit; exec at the limit itself"""
    from .c04 import session_line
    out = []
    NOPUSH = R.STD & ~(1 << R.FLAG_BITS["SIGPUSHONLY"]) & ~(1 << R.FLAG_BITS["CLEANSTACK"])
    for sig in (bytes([0x51]), bytes([0x51, 0x61]), bytes([0x01, 0x07])):
        for n in (199, 200, 201, 202):
            for fl in (NOPUSH, R.STD & ~(1 << R.FLAG_BITS["CLEANSTACK"])):
                for toks in ("OP_NOP", "OP_NOP,OP_NOP,OP_NOP", "OP_DUP,OP_DROP", "OP_1"):
                    for cmds in ("x" + "s" * (n + 4), "sx" + "s" * (n + 3), "xx" + "s" * (n + 4), "s" * len(sig) + "x" + "s" * (n + 2), "xsr" + "s" * (n + 4)):
                        out.append(session_line(0, fl, sig, (), bytes([0x61]) * n, cmds).replace("SESSION ", "SESSIONX ", 1) + " " + toks)
    for sv in (0, 1, 3):
        for n in (199, 200, 201):
            out.append(session_line(sv, 0, bytes([0x51]) + bytes([0x61]) * n, (), b"", "s" * n + "x" + "ss" + "x", weight=(1000 if sv == 3 else None)).replace("SESSION ", "SESSIONX ", 1) + " OP_NOP,OP_NOP")
    return out


def run(ctx):
    xl = exec_lines(ctx)
    ctx.compare("limits-with-exec", xl, ctx.harness_sharded(xl), ctx.driver_sharded(xl, "model"), None, nontrivial=lambda c, im: "+" in im.split(" ")[0])
    spend_limits(ctx)
    rl = rewind_lines(ctx)
    ctx.compare("limits-under-rewind", rl, ctx.harness_sharded(rl), ctx.driver_sharded(rl, "model"), ctx.driver_sharded(rl, "spec"), nontrivial=lambda c, im: "+" in im.split(" ")[0])
    ls = lines(ctx)
    impl, model, spec, bad = R.three_way(ctx, "limits", ls, shards=16)
    R.histogram(ctx, impl, "outcomes")
    ctx.exhaustive = True
    ctx.notes.append("every limit (520, 1000, 201, 10000, 20, 4/5) x every listed way of reaching it at L-1, L, L+1, L+2 x {BASE, WITNESS_V0, TAPSCRIPT}")


def spend_limits(ctx):
    """the same limits in the scripts of a --tx/--txin spend that the start-up code does not pre-screen
    (scriptPubKey, scriptSig hand-over): implementation vs model vs consensus validation"""
    import random
    from . import c03
    c03.verdict_compare(ctx, "spend-limits", c03.limit_cases(random.Random(ctx.seed * 10 + 1)))


def replay(ctx, case):
    print("impl :", ctx.harness([case])[0])
    print("model:", ctx.driver([case])[0])
    print("spec :", ctx.driver([case], "spec")[0])
