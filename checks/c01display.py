"""C01, what the user SEES: the commands `stack`, `altstack`, `vfexec` (fn_stack / fn_altstack / fn_vfexec -> print_stack,
print_bool_stack; functions.cpp:197-234) show the main stack, the alt stack and the conditional nesting of the session.

One DISPLAY line = one session in one process; ops over {s step, r rewind, S stack, A altstack, V vfexec, R raw print_stack}.
Voices (same answer format, the texts compared character by character):
  impl : harness/cmd_display.inc — the real fn_step / fn_rewind / fn_stack / fn_altstack / fn_vfexec on the global instance, stdout
         captured; a dozen sessions are replayed on the real `btcdeb` under a pseudo-terminal (harness/ptyrun.py), and the raw
         mode on the real binary in pipe mode;
  model: Driver/Display.lean over Btcdeb/Model/Display.lean — must equal impl;
  spec : Driver/Display.lean, `displaySpec`: the SPECIFICATION's state (Spec.evalScript trace) rendered by Btcdeb/Spec/Display.lean
         — must equal impl (`N/A`: sessions on a script of the pay-to-script-hash shape, not C01's).
Independent oracle (Python, written from the printf formats): every displayed text is parsed back (numbering 1.. from the top,
`%02d` width, `(top)` on the first line only, hex items) and compared with the state the existing C01 machinery reads directly
from `env->stack` / `env->altstack` / `env->vfExec` (SESSIONV, harness.cpp `obs()`), command by command.
"""
import os
import random
import re
from . import runlib as R
from . import pyref as P

SIG_OPS = {0xac, 0xad, 0xae, 0xaf, 0xba}
SHOW = "SAV"


def dline(sigver, flags, script, stack=(), succ=b"", ops="", z=0, weight=None):
    w = "-" if weight is None else str(weight)
    if sigver == 3 and weight is None:
        w = "1000"
    st = ",".join(R.item(b) for b in stack) if stack else "-"
    return f"DISPLAY {sigver} {flags} {z} {w} {script.hex() or '-'} {st} {succ.hex() or '-'} {ops or '-'}"


def canon(line):
    if line.startswith("REFUSED") or line.startswith("EXIT"):
        return "REFUSED"
    return line


def every(n, raw_at_end=True):
    """a display of everything before the first and after every one of n steps"""
    return SHOW + ("s" + SHOW) * n + ("R" if raw_at_end else "")


def walk(rnd, n):
    """random step / rewind walk, a display after every command"""
    ops = [SHOW]
    k = 0
    while k < n:
        if rnd.random() < 0.7:
            m = rnd.randrange(1, 5)
            ops.append(("s" + SHOW) * m)
        else:
            m = rnd.randrange(1, 4)
            ops.append(("r" + SHOW) * m)
        k += m
    return "".join(ops) + "R"


def nops(sc):
    return len(list(P.script_ops(sc)))


# ---------------------------------------------------------------------------------------------------------------
# streams

def nest_scripts():
    """IF / NOTIF / ELSE / ENDIF nests, every combination of taken / not taken to depth 3 — false inside false, true inside false
    toggled by ELSE, several ELSE in a row, unbalanced ends"""
    out = []
    conds = (b"\x51", b"\x00")
    opens = (b"\x63", b"\x64")
    for c1 in conds:
        for o1 in opens:
            out.append(c1 + o1 + b"\x52\x67\x53\x68\x54")
            for c2 in conds:
                for o2 in opens:
                    out.append(c1 + o1 + c2 + o2 + b"\x52\x67\x53\x68\x67" + c2 + o2 + b"\x55\x67\x56\x68\x68\x57")
                    out.append(c1 + o1 + c2 + o2 + b"\x67\x67\x67\x68\x67\x67\x68")
                    for c3 in conds:
                        out.append(c1 + o1 + c2 + o2 + c3 + b"\x63\x51\x67\x52\x68\x67\x53\x68\x67\x54\x68")
                        out.append(c1 + o1 + c2 + o2 + c3 + b"\x64\x67\x68\x68\x68")
                        out.append(c1 + o1 + c2 + o2 + c3 + b"\x63\x67")          # left open, three deep
    out += [bytes.fromhex(h) for h in ("5163", "68", "6751", "0063006300630063", "006300636700636768", "00630063676868",
                                       "00645167006752686b6c", "516351636363686868")]
    return out


def alt_scripts(rnd, n):
    out = [bytes.fromhex("516b526b6c6c7693"), bytes.fromhex("6b6b6b6c6c6c"), bytes.fromhex("6c"), bytes.fromhex("516b006b" + "4c03aabbcc" + "6b6c6c6c6c")]
    for _ in range(n):
        sc = b""
        depth = alt = 0
        for _ in range(rnd.randrange(4, 40)):
            x = rnd.random()
            if x < 0.35:
                sc += P.push(bytes(rnd.randrange(256) for _ in range(rnd.choice((0, 1, 1, 2, 5, 33)))))
                depth += 1
            elif x < 0.65 and depth:
                sc += b"\x6b"; depth -= 1; alt += 1
            elif x < 0.9 and alt:
                sc += b"\x6c"; depth += 1; alt -= 1
            elif x < 0.95:
                sc += rnd.choice((b"\x6b", b"\x6c"))                              # possibly failing
            else:
                sc += rnd.choice((b"\x76", b"\x74", b"\x7c", b"\x51\x63", b"\x68"))
        out.append(sc)
    return out


def size_cases(quick):
    """stacks / alt stacks / nestings of 0, 1, 9, 10, 99, 100, 101, 1000 entries (the number field widens at 100, again at 1000)"""
    out = []
    item = lambda i: i.to_bytes(2, "big")
    for n in (0, 1, 9, 10, 99, 100, 101, 1000):
        st = tuple(item(i) for i in range(n))
        out.append(dline(0, 0, b"\x61", st, ops="SAVRsSAVsSAVRrSR"))
        out.append(dline(3, 0, b"\x74", st, ops="SsSAVsSR"))                       # OP_DEPTH: 1001 items fail
        if n:
            # all of them moved to the alt stack and back, a display at the turning point (tapscript: no operation limit)
            k = n
            out.append(dline(3, 0, b"\x6b" * k + b"\x6c" * k, st, ops="s" * (k - 1) + "SAsSAVsSA" + "s" * (k - 2) + "SAVsSAVsSAVR"))
            # n levels of nesting, the innermost (or the outermost) false
            out.append(dline(3, 0, b"\x51\x63" * (n - 1) + b"\x00\x63" + b"\x68" * n, ops="s" * (2 * n - 1) + "VsVsVsVs" + "s" * (n - 3) + "VsVsV"))
            out.append(dline(3, 0, b"\x00\x63" + b"\x51\x63" * (n - 1) + b"\x67" + b"\x68" * n, ops="sVsV" + "s" * (2 * n - 3) + "VsVsVsVs" + "s" * (n - 2) + "VsVsV"))
    # the same sizes reached by pushes, in a legacy script (the 201-operation limit does not count pushes)
    for n in (9, 10, 99, 100, 101):
        out.append(dline(0, 0, b"".join(P.push(item(i + 300)) for i in range(n)), ops="s" * (n - 2) + "SsSsSsSR"))
    return out


def length_cases(quick):
    """items of every length 0..520 on the stack (and through the alt stack), bytes of every value"""
    out = []
    step = 40 if quick else 20
    for lo in range(0, 521, step):
        st = tuple(bytes((i * 7 + k) & 0xff for k in range(i)) for i in range(lo, min(lo + step, 521)))
        out.append(dline(0, 0, b"\x6b\x6b\x76\x6c", st, ops=every(5)))
    for n in (0, 1, 75, 76, 255, 256, 519, 520):
        d = bytes((0xff - k) & 0xff for k in range(n))
        out.append(dline(0, 0, P.push(d) + b"\x76\x6b\x82", (), ops=every(5)))
        out.append(dline(1, 0, (b"\x4d" + n.to_bytes(2, "little") + d) + b"\x6b", (d, b"", d), ops=every(3)))
    out.append(dline(0, 0, b"\x4d\x09\x02" + b"\x11" * 521, (), ops=every(2)))             # 521 bytes: refused
    for n in (521, 600, 1500):                                                             # initial items are not size-checked: shown whole
        out.append(dline(0, 0, b"\x76\x6b\x6c", (bytes((k * 3 + n) & 0xff for k in range(n)), b"\x01"), ops=every(4)))
    out.append(dline(0, 0, b"\x61", tuple(bytes([b]) for b in range(256)), ops="SRsSR"))   # every byte value
    out.append(dline(0, 0, b"\x61", (b"", b"", b""), ops="SRsSR"))                          # only empty items
    out.append(dline(0, 0, b"\x00\x00\x6b\x00", (b"",), ops=every(5)))
    return out


def opcode_cases(rnd, quick):
    """every opcode (signature opcodes are C02's) executed on operands, and inside a branch that is not taken"""
    out = []
    ops = [o for o in range(0x4f, 0xbb) if o not in SIG_OPS]
    for op in ops:
        ar = R.ARITY.get(op, 0)
        for rep in range(2 if quick else 6):
            st = tuple(rnd.choice(R.VALUES) for _ in range(ar + rnd.randrange(0, 3)))
            sv = rnd.choice((0, 1, 3))
            fl = rnd.choice((0, R.STD))
            sc = b"\x51\x6b" + bytes([op]) + b"\x6c"
            out.append(dline(sv, fl, sc, st, ops=every(5), z=rnd.randrange(2)))
        out.append(dline(rnd.choice((0, 1, 3)), 0, bytes([0x00, 0x63, op, 0x67, 0x52, 0x68, 0x51]), (b"\x07",), ops=every(8), z=rnd.randrange(2)))
    # every opcode byte at all (names only needed: the session may fail early)
    for i in range(0, len(ops), 12):
        out.append(dline(0, 0, bytes(ops[i:i + 12]), (b"\x01", b"\x02", b"\x03"), ops=every(13)))
    return out


def generated_cases(ctx, rnd, quick):
    """grammar-directed deep scripts (the generator of C01's main stream), a display after every command of a walk"""
    out = []
    base = ctx.driver_gen(["run", ctx.seed + 1100, 400 if quick else 8000, 50, 0])
    base += ctx.driver_gen(["run", ctx.seed + 1101, 60 if quick else 1500, 200, 0])
    for l in base:
        p = l.split(" ")
        try:
            sc = bytes.fromhex(p[5]) if p[5] != "-" else b""
        except ValueError:
            continue
        if any(op in SIG_OPS for op, _, _, _ in P.script_ops(sc)):
            continue
        n = nops(sc)
        ops = every(n + 2) if rnd.random() < 0.5 else walk(rnd, min(2 * n + 6, 150))
        st = p[6] if len(p) > 6 else "-"
        out.append(f"DISPLAY {p[1]} {p[2]} {p[3]} {p[4]} {p[5]} {st} - {ops}")
    return out


def two_script_cases():
    """a scriptSig handing over to a scriptPubKey: the stack carries over, alt stack and nesting start afresh"""
    out = []
    NOPUSH = R.STD & ~(1 << R.FLAG_BITS["SIGPUSHONLY"]) & ~(1 << R.FLAG_BITS["CLEANSTACK"])
    for (a, b) in ((b"\x51\x52", b"\x93\x53\x87"), (b"\x51\x6b", b"\x6c"), (b"\x51\x63", b"\x68"), (b"\x51\x63\x68", b"\x51"),
                   (b"\x00", b"\x51"), (b"", b"\x51\x6b"), (b"\x51", b""), (b"\x51\x00\x63\x67\x68\x6b\x52", b"\x00\x64\x6c\x67\x68"),
                   (b"\x6a", b"\x51"), (b"\x51\x52\x53", b"\x6b\x6b\x63\x6c\x68")):
        for fl in (NOPUSH, 0, R.STD):
            n = nops(a) + nops(b) + 3
            out.append(dline(0, fl, a, (b"\x09",), b, ops=every(n)))
            out.append(dline(0, fl, a, (), b, ops=SHOW + "ss" + SHOW + "rr" + SHOW + "ssss" + SHOW + "rrrrr" + SHOW + "R"))
    return out


def malformed_cases(rnd, quick):
    """scripts the debugger refuses (truncated pushes, undefined opcodes, over-long pushes, scripts over 10,000 bytes), failing
    steps followed by displays (the state stays), ops strings with foreign characters, empty ops"""
    out = []
    for sc in (b"\x01", b"\x4c", b"\x4c\x05\x01", b"\x4d\x01", b"\x4e\x01\x00\x00", b"\xbb", b"\xff", b"\x51\xfe", b"\x4d\x09\x02" + b"\x00" * 521,
               b"\x61" * 10001, b"\x51" * 10000, b"\x51" * 10001):
        for sv in (0, 1, 3):
            out.append(dline(sv, 0, sc, (b"\x01",), ops="SAVsSAVR"))
    for sc in (bytes.fromhex("0069555657"), bytes.fromhex("516a5152"), bytes.fromhex("7e5152"), bytes.fromhex("515052"), bytes.fromhex("5152885354"),
               bytes.fromhex("8b51"), bytes.fromhex("6c51"), bytes.fromhex("6751"), bytes.fromhex("5163"), bytes.fromhex("7551")):
        for st in ((), (b"\x01\x02\x03\x04\x05",)):
            out.append(dline(0, 0, sc, st, ops=every(6) + "rSAVrSAVsSAVR"))
    out.append(dline(0, 0, b"\x51\x52", (), ops="xSyAzV-s?SqR"))
    out.append(dline(0, 0, b"\x51\x52", (), ops=""))
    out.append(dline(0, 0, b"", (), ops="SAVRsSAVrSAVR"))
    out.append(dline(0, 0, b"", (b"\x01", b""), ops="SAVRsSAVrSAVR"))
    for _ in range(40 if quick else 600):
        ln = rnd.choice((1, 2, 3, 4, 6, 10, 30))
        sc = bytes(rnd.randrange(256) for _ in range(ln))
        if any(b in SIG_OPS for b in sc):
            continue
        st = tuple(rnd.choice(R.VALUES) for _ in range(rnd.randrange(4)))
        out.append(dline(rnd.choice((0, 1, 3)), rnd.choice((0, R.STD)), sc, st, ops=walk(rnd, 12)))
    return out


# ---------------------------------------------------------------------------------------------------------------
# comparison

def three_way(ctx, name, cases):
    impl = [canon(x) for x in ctx.harness_sharded(cases)]
    model = [canon(x) for x in ctx.driver_sharded(cases, "model")]
    spec = [canon(x) for x in ctx.driver_sharded(cases, "spec")]
    seen = {"cases": len(cases), "displays": 0, "spec-n/a": 0, "refused": 0}
    bad_corr = bad_spec = 0
    for case, im, mo, sp in zip(cases, impl, model, spec):
        if im == "REFUSED":
            seen["refused"] += 1
        n_disp = len(re.findall(r"(?:^| )[SAVR]=", im))
        seen["displays"] += n_disp
        if "s+" in im and n_disp:
            import hashlib
            ctx.nontrivial.add(hashlib.sha1(case.encode()).hexdigest()[:12])
        if len(ctx.samples) < 12 and n_disp:
            ctx.sample({"stream": name, "case": case[:300], "impl": im[:300]})
        if im != mo:
            bad_corr += 1
            if bad_corr <= 2:
                ctx.violation(case, {"stream": name, "impl": im[:4000], "model": mo[:4000], "spec": sp[:4000], "first_difference": first_difference(im, mo),
                                     "why": "correspondence:%s broken (state display: implementation and model differ)" % name},
                              suffix="" if (sp != "N/A" and im != sp) else "no-failing-input-found")
            continue
        if sp == "N/A":
            seen["spec-n/a"] += 1
            continue
        if im != sp:
            bad_spec += 1
            if bad_spec <= 2:
                ctx.violation(case, {"stream": name, "impl": im[:4000], "model": mo[:4000], "spec": sp[:4000], "first_difference": first_difference(im, sp),
                                     "why": "a state display (stack / altstack / vfexec) does not show the state Bitcoin's script rules prescribe at that point"})
    ctx.count(name, len(cases))
    ctx.traces += len(cases)
    ctx.notes.append({name: seen})
    return impl


def first_difference(a, b):
    pa, pb = a.split(" "), b.split(" ")
    for k, (x, y) in enumerate(zip(pa, pb)):
        if x != y:
            return {"token": k, "left": x[:600], "right": y[:600]}
    return {"token": min(len(pa), len(pb)), "left": "%d tokens" % len(pa), "right": "%d tokens" % len(pb)}


# ---------------------------------------------------------------------------------------------------------------
# independent oracle: the texts parsed back, against the state read directly from the environment (SESSIONV)

def unesc(t):
    out = []
    i = 0
    while i < len(t):
        c = t[i]
        if c == "\\":
            d = t[i + 1]
            if d == "n": out.append("\n"); i += 2
            elif d == "t": out.append("\t"); i += 2
            elif d == "s": out.append(" "); i += 2
            elif d == "\\": out.append("\\"); i += 2
            elif d == "x": out.append(chr(int(t[i + 2:i + 4], 16))); i += 4
            else: raise ValueError(t)
        else:
            out.append(c); i += 1
    return "".join(out)


def parse_numbered(text, marker):
    """items top first, or None when the text is not of the prescribed form; `marker`: the first line carries `(top)`"""
    if text == "- empty stack -\n":
        return []
    if not text.endswith("\n"):
        return None
    items = []
    for k, line in enumerate(text[:-1].split("\n")):
        want = "<%02d>\t" % (k + 1)
        if not line.startswith(want):
            return None
        body = line[len(want):]
        if marker and k == 0:
            if not body.endswith("\t(top)"):
                return None
            body = body[:-len("\t(top)")]
        if not re.fullmatch(r"(?:[0-9a-f]{2})*", body):
            return None
        items.append(body)
    return items if items else None


def obs_parts(state):
    st, alt, cond = state.split("|")[:3]
    return st, alt, cond


def oracle(ctx, name, cases, impl):
    """command by command: the parsed displays == what `obs()` reads from env->stack / env->altstack / env->vfExec"""
    pick = [(c, im) for c, im in zip(cases, impl) if im != "REFUSED" and not im.startswith(("DIED", "CRASH", "bad-op")) and "s!" not in im]
    sess = []
    for c, _ in pick:
        a = c.split(" ")
        sr = "".join(ch for ch in (a[8] if len(a) > 8 else "") if ch in "sr")
        sess.append(" ".join(["SESSIONV"] + a[1:8] + [sr or "-"]))
    got = ctx.harness_sharded(sess)
    bad = 0
    checked = 0
    for (case, im), sl, so in zip(pick, sess, got):
        m = re.search(r" trace=(.*)$", so)
        states = re.findall(r"\{([^}]*)\}", m.group(1)) if m else []
        a = case.split(" ")
        init_stack = "" if a[6] == "-" else ",".join("" if x == "_" else x for x in a[6].split(","))
        cur = (init_stack, "", "0:-")
        k = 0
        ok = True
        why = ""
        for tok in im.split(" "):
            if tok in ("s+", "s-", "r+", "r-"):
                if k < len(states):
                    cur = obs_parts(states[k])
                k += 1
                continue
            if tok == "-" or "=" not in tok:
                continue
            kind, text = tok[0], unesc(tok[2:])
            checked += 1
            if kind in "SA":
                items = parse_numbered(text, True)
                want = cur[0] if kind == "S" else cur[1]
                if items is None or ",".join(reversed(items)) != want:
                    ok, why = False, "%s shows %r, the environment holds %r" % (kind, text[:300], want[:300])
            elif kind == "R":
                lines = text.split("\n")[:-1] if text else []
                if ",".join(lines) != cur[0] or (text and not text.endswith("\n")):
                    ok, why = False, "raw print_stack shows %r, the environment holds %r" % (text[:300], cur[0][:300])
            elif kind == "V":
                items = parse_numbered(text, False)
                size, ff = cur[2].split(":")
                if items is None or len(items) != int(size) or any(x not in ("00", "01") for x in items):
                    ok, why = False, "vfexec shows %r, the environment holds %s" % (text[:300], cur[2])
                else:
                    outer_first = list(reversed(items))
                    first_false = outer_first.index("00") if "00" in outer_first else None
                    if (ff == "-") != (first_false is None) or (ff != "-" and int(ff) != first_false) or \
                            (first_false is not None and any(x != "00" for x in outer_first[first_false:])):
                        ok, why = False, "vfexec shows %r, the environment holds %s" % (text[:300], cur[2])
            if not ok:
                break
        if not ok:
            bad += 1
            if bad <= 2:
                ctx.violation(case, {"stream": name + ":display-vs-environment", "impl": im[:3000], "session": so[:3000], "why":
                                     "a state display does not show what the session environment holds: " + why})
    ctx.count(name + ":display-vs-environment", checked)
    return bad


# ---------------------------------------------------------------------------------------------------------------
# the real binary

CMD = {"s": "step", "r": "rewind", "S": "stack", "A": "altstack", "V": "vfexec"}


def argv_of(case):
    from .c12 import flag_mod
    a = case.split(" ")
    argv = []
    m = flag_mod(int(a[2]))
    if m:
        argv.append("--modify-flags=" + m)
    if a[3] == "1":
        argv.append("-z")
    argv.append("0x" + ("" if a[5] == "-" else a[5]))      # `0x`: the empty script (without it the first stack item would be the script)
    if a[6] != "-":
        argv += ["0x" + ("" if it in ("", "_") else it) for it in a[6].split(",")]
    return argv


def pty_session(binary, case):
    """the tokens of the DISPLAY answer as observed on the real interactive binary (s+ / s. for a step that displayed / did not)"""
    from harness import ptyrun
    import tempfile
    a = case.split(" ")
    ops = "".join(ch for ch in a[8] if ch in CMD)
    text = "".join(CMD[ch] + "\n" for ch in ops) + "\x04"
    wd = tempfile.mkdtemp(prefix="c01dpty-")
    cwd = os.getcwd()
    try:
        os.chdir(wd)
        rc, out, err = ptyrun.run([binary] + argv_of(case), "tty", "tty", text, timeout=30)
    finally:
        os.chdir(cwd)
        for f in os.listdir(wd):
            os.unlink(os.path.join(wd, f))
        os.rmdir(wd)
    segs = out.split("btcdeb> ")
    if len(segs) < 2:
        return None
    toks = []
    for ch, seg in zip(ops, segs[1:]):
        if ch in "sr":
            toks.append(ch + ("+" if seg.strip() else "."))
        else:
            toks.append(ch + "=" + seg)
    return toks


def pty_compare(ctx, cases):
    """sessions on the real btcdeb under a pseudo-terminal (commands typed at the prompt), against the in-process harness"""
    binary = os.path.abspath(os.path.join(ctx.bin, "btcdeb"))
    impl = ctx.harness(cases)
    bad = 0
    for case, im in zip(cases, impl):
        got = pty_session(binary, case)
        want = []
        for tok in im.split(" "):
            if tok in ("s+", "r+"):
                want.append(tok)
            elif tok in ("s-", "s!", "r-"):
                want.append(tok[0] + ".")
            elif "=" in tok:
                want.append(tok[0] + "=" + unesc(tok[2:]))
        if got != want:
            bad += 1
            if bad <= 2:
                ctx.violation(case, {"stream": "display-pty-crosscheck", "harness": str(want)[:3000], "binary": str(got)[:3000],
                                     "why": "correspondence: the in-process DISPLAY harness and the real btcdeb binary under a pseudo-terminal differ"},
                              suffix="no-failing-input-found")
    ctx.count("display-pty-crosscheck", len(cases))
    ctx.traces += len(cases)
    return bad


def pipe_compare(ctx, cases):
    """raw mode: what the real binary prints last in a piped run (stdin a terminal, stdout a pipe) == `R=` after running to the end"""
    from harness import ptyrun
    binary = os.path.abspath(os.path.join(ctx.bin, "btcdeb"))
    bad = 0
    for case in cases:
        a = case.split(" ")
        sc = bytes.fromhex(a[5]) if a[5] != "-" else b""
        b = list(a)
        b[8] = "s" * (nops(sc) + 1) + "R"
        im = ctx.harness([" ".join(b)])[0]
        toks = im.split(" ")
        rc, out, err = ptyrun.run([binary] + argv_of(case), "tty", "pipe", "", timeout=30)
        if toks[-2:-1] == ["s+"] and "s!" not in toks:
            want = unesc(toks[-1][2:])
            ok = rc == 0 and out == want
        else:
            ok = rc != 0                       # a failing script: the piped run reports failure (and prints no raw stack)
            want = "(exit code != 0)"
        if not ok:
            bad += 1
            if bad <= 2:
                ctx.violation(case, {"stream": "display-pipe-crosscheck", "harness": im[:2000], "binary": {"rc": rc, "stdout": out[:2000], "stderr": err[-500:]},
                                     "want": want[:2000], "why": "correspondence: print_stack(raw) of the harness and the output of the real btcdeb in pipe mode differ"},
                              suffix="no-failing-input-found")
    ctx.count("display-pipe-crosscheck", len(cases))
    return bad


def source_facts(ctx):
    """`print_tce` (functions.h) has no definition in the tree: nothing to model.  If one appears, the model is incomplete."""
    repo = os.environ.get("VERIF_REPO", "/repo")
    defs = []
    for root, dirs, files in os.walk(repo):
        dirs[:] = [d for d in dirs if d not in (".git", "secp256k1", "build", "doc")]
        for f in files:
            if f.endswith((".cpp", ".h", ".c")):
                try:
                    src = open(os.path.join(root, f), errors="replace").read()
                except OSError:
                    continue
                for m in re.finditer(r"\bprint_tce\s*\([^;{]*\)\s*\{", src):
                    defs.append(os.path.join(root, f))
    if defs:
        ctx.violation("print_tce", {"stream": "source-facts", "defined_in": defs,
                                    "why": "correspondence: print_tce now has a definition; Btcdeb/Model/Display.lean does not model it"},
                      suffix="no-failing-input-found")
    ctx.count("source-facts", 1)


# ---------------------------------------------------------------------------------------------------------------

def streams(ctx):
    rnd = random.Random(ctx.seed * 7919 + 101)
    quick = ctx.tier == "quick"
    out = {}
    out["display-opcodes"] = opcode_cases(rnd, quick)
    nest = []
    for sc in nest_scripts():
        n = nops(sc)
        nest.append(dline(0, 0, sc, (), ops=every(n + 2)))
        nest.append(dline(rnd.choice((1, 3)), R.STD, sc, (b"\x01", b""), ops=walk(rnd, 2 * n + 4)))
    out["display-nests"] = nest
    alt = []
    for sc in alt_scripts(rnd, 40 if quick else 600):
        n = nops(sc)
        alt.append(dline(0, 0, sc, (b"\x0a", b"", b"\x0b\x0c"), ops=every(n + 2)))
        alt.append(dline(0, 0, sc, (), ops=walk(rnd, 2 * n + 4)))
    out["display-altstack"] = alt
    out["display-sizes"] = size_cases(quick)
    out["display-item-lengths"] = length_cases(quick)
    out["display-generated"] = generated_cases(ctx, rnd, quick)
    out["display-two-scripts"] = two_script_cases()
    out["display-malformed-and-failing"] = malformed_cases(rnd, quick)
    return out


PTY = [
    dline(0, R.STD, bytes.fromhex("5163526b00630068"), (b"\x01", b"", b"\x02\x03"), ops=every(9, False)),
    dline(0, R.STD, bytes.fromhex("00630063516752686751630068"), (), ops=every(14, False)),
    dline(0, R.STD, bytes.fromhex("006300636700636768"), (), ops="SAVssVsVsVsVsVsVsVsVrVrVrV"),
    dline(0, R.STD, bytes.fromhex("516b526b6c6c7693"), (), ops=every(9, False)),
    dline(0, R.STD, b"\x61", tuple(i.to_bytes(2, "big") for i in range(101)), ops="SAVsSAVsSrS"),
    dline(0, R.STD, b"\x51\x63" * 12 + b"\x00\x63" + b"\x68" * 13, (), ops="s" * 25 + "VsVsVsVrV"),
    dline(0, R.STD, P.push(bytes(range(256)) * 2) + b"\x76\x6b\x82", (), ops=every(5, False)),
    dline(0, R.STD, bytes.fromhex("0069555657"), (), ops=every(4, False) + "rSAV"),
    dline(0, R.STD, b"", (b"", b"\x00", b""), ops="SAVsSAVrSAV"),
    dline(0, R.STD & ~(1 << R.FLAG_BITS["MINIMALIF"]), bytes.fromhex("026363645167526800"), (), ops=every(8, False)),
    dline(0, R.STD, bytes.fromhex("7e5152"), (b"\x01", b"\x02"), ops=every(3, False), z=1),
    dline(0, R.STD, b"\x6b" * 10 + b"\x6c" * 10, tuple(bytes([i]) * (i % 4) for i in range(10)), ops="SA" + "sSA" * 21),
]
PIPE = [
    dline(0, R.STD, bytes.fromhex("5152"), (b"", b"\x07"), ops="-"),
    dline(0, R.STD, bytes.fromhex("516b526c"), (), ops="-"),
    dline(0, R.STD, b"\x61", tuple(i.to_bytes(2, "big") for i in range(101)), ops="-"),
    dline(0, R.STD, bytes.fromhex("0051"), (), ops="-"),
    dline(0, R.STD, bytes.fromhex("5100"), (), ops="-"),
    dline(0, R.STD, bytes.fromhex("5163"), (), ops="-"),
]


def run(ctx):
    ss = streams(ctx)
    for name, cases in ss.items():
        impl = three_way(ctx, name, cases)
        oracle(ctx, name, cases, impl)
    pty_compare(ctx, PTY)
    pipe_compare(ctx, PIPE)
    source_facts(ctx)
    ctx.notes.append("state displays (stack / altstack / vfexec / raw print_stack): every opcode on operands and inside a branch not taken, "
                     "IF/NOTIF/ELSE nests to depth 3 (false inside false, ELSE inside a branch not taken), alt stack traffic, stacks / alt stacks / "
                     "nestings of 0, 1, 9, 10, 99, 100, 101, 1000 entries, items of 0..520 bytes and every byte value, generated scripts, step / rewind "
                     "walks with a display after every command, two scripts in a row, refused and failing sessions; every text parsed back and "
                     "compared with the environment (SESSIONV); %d sessions on the real binary under a pseudo-terminal, %d in pipe mode"
                     % (len(PTY), len(PIPE)))


def replay(ctx, case):
    if not case.startswith("DISPLAY "):
        print("(no input to replay: %s)" % case)
        return
    for voice, out in (("impl ", ctx.harness([case])[0]), ("model", ctx.driver([case])[0]), ("spec ", ctx.driver([case], "spec")[0])):
        print(voice + ":", out)
    print("the texts of the implementation:")
    for tok in ctx.harness([case])[0].split(" "):
        if "=" in tok:
            print("  [%s]" % tok[0])
            for l in unesc(tok[2:]).split("\n")[:-1]:
                print("     " + l)
        else:
            print("  " + tok)
    a = case.split(" ")
    if a[1] == "0" and a[4] == "-" and a[7] == "-":
        print("reproduce: %s/btcdeb %s    then at the prompt: %s" % (ctx.bin, " ".join(argv_of(case)), " ".join(CMD[c] for c in a[8] if c in CMD)))
