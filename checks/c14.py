"""C14 — value transforms compute their defined functions and invert each other.

Voices: implementation (`TF` / `INLINE` / `RUN` commands of the native harness = fn_tf, the Value parser, the interpreter),
Lean model (`driver model`), Lean specification (`driver spec`), and an independent Python oracle (checks/c14_oracle.py).
Streams: every entry of the tf table x argument shapes x boundary lengths; encoder/decoder round trips and all single-character
corruptions of sample base58check / bech32 / bech32m strings; arithmetic and Jacobi grids; key and signature functions;
inline form vs command form; opcode form vs command form.
"""
import os
import random
import re
import shutil
import subprocess
import sys
import tempfile
from concurrent.futures import ThreadPoolExecutor
from . import runlib as R
from . import c14_oracle as O
sys.path.insert(0, os.path.join(os.path.dirname(os.path.dirname(os.path.abspath(__file__))), "harness"))
import ptyrun  # noqa: E402

# name, do_exec name (the DO(...) name in Value::do_exec; every transform has one since 7582c10)
TABLE = [
    ("addr-to-scriptpubkey", "addr_to_spk"), ("add", "add"), ("bech32-decode", "bech32dec"), ("bech32-encode", "bech32enc"),
    ("bech32m-encode", "bech32menc"), ("base58chk-decode", "base58chkdec"), ("base58chk-encode", "base58chkenc"),
    ("combine-pubkeys", "combine_pubkeys"), ("echo", "echo"), ("hash160", "hash160"), ("hash256", "hash256"), ("hex", "hex"),
    ("int", "int"), ("len", "len"), ("jacobi-symbol", "jacobi"), ("prefix-compact-size", "prefix_compact_size"),
    ("pubkey-to-xpubkey", "pubkey_to_xpubkey"), ("reverse", "reverse"), ("ripemd160", "ripemd160"), ("sha256", "sha256"),
    ("scriptpubkey-to-addr", "spk_to_addr"), ("sub", "sub"), ("tagged-hash", "tagged_hash"),
    ("taproot-tweak-pubkey", "taproot_tweak_pubkey"), ("tweak-pubkey", "tweak_pubkey"), ("verify-sig", "verify_sig"),
    ("verify-sig-compact", "verify_sig_compact")]
# the inline name `tf -h` prints for a row where it is not the DO(...) name (do_exec accepts both)
INLINE_ADVERTISED = {"bech32-decode": "b32d", "bech32-encode": "b32e", "bech32m-encode": "b32me", "base58chk-decode": "b58cd",
                     "base58chk-encode": "b58ce", "jacobi-symbol": "jacobi_sym"}
UNARY = ["echo", "hex", "int", "len", "reverse", "sha256", "ripemd160", "hash256", "hash160", "prefix-compact-size",
         "base58chk-encode", "bech32-encode", "bech32m-encode"]
OPERAND_TF = ["add", "sub", "tagged-hash", "combine-pubkeys", "tweak-pubkey", "taproot-tweak-pubkey", "verify-sig",
              "verify-sig-compact", "jacobi-symbol"]
LENGTHS = [0, 1, 2, 3, 4, 5, 8, 20, 31, 32, 33, 54, 55, 56, 57, 63, 64, 65, 75, 76, 119, 120, 127, 128, 252, 253, 254, 255, 256, 257,
           519, 520, 521]
BIG = [65535, 65536, 65537]
SLOW_ENCODERS = {"base58chk-encode": 400, "bech32-encode": 1100, "bech32m-encode": 1100}
OPNAMES = {"OP_DUP": 0x76, "OP_1": 0x51, "OP_0": 0, "OP_16": 0x60, "OP_CHECKSIG": 0xac, "DUP": 0x76, "OP_NOP10": 0xb9,
           "OP_CHECKSIGADD": 0xba, "OP_1NEGATE": 0x4f}
OPNAME_OF = {0x76: "OP_DUP", 0x51: "1", 0: "0", 0x60: "16", 0xac: "OP_CHECKSIG", 0xb9: "OP_NOP10", 0xba: "OP_CHECKSIGADD", 0x4f: "-1"}


# ------------------------------------------------------------------------------------------------ arguments
class A:
    """one command-line word with the meaning the oracle gives it"""

    def __init__(self, kind, val, text):
        self.kind, self.val, self.text = kind, val, text

    def bytes(self):
        if self.kind == "hex":
            return self.val
        if self.kind == "int":
            return O.scriptnum_encode(self.val)
        if self.kind == "str":
            return self.val.encode("latin1")
        if self.kind == "op":
            return bytes([self.val])
        return b"".join(a.assemble() for a in self.val)        # script

    def assemble(self):
        if self.kind == "op":
            return bytes([self.val])
        return minimal_push(self.bytes())


def minimal_push(d):
    if len(d) == 0:
        return b"\x00"
    if len(d) == 1 and 1 <= d[0] <= 16:
        return bytes([0x50 + d[0]])
    if d == b"\x81":
        return b"\x4f"
    return R.push(d)


def hx(b, prefix=True):
    return A("hex", b, ("0x" if prefix else "") + b.hex())


def num(n):
    return A("int", n, str(n))


def st(s):
    return A("str", s, s)


def op(name):
    return A("op", OPNAMES[name], name)


def script(items):
    return A("script", items, "[" + " ".join(a.text for a in items) + "]")


def tf_line(name, args):
    return "TF " + " ".join(w.encode("latin1").hex() for w in [name] + [a.text for a in args])


STR_ALPHA = "ghijkmnopqrstuvwxyzGHJKLMNPQRSTUVWXYZ_-.:;!?+*=<>"


def rand_str(rnd, n):
    if n == 0:
        return "z"
    return "z" + "".join(rnd.choice(STR_ALPHA + "0123456789") for _ in range(n - 1))


def rand_bytes(rnd, n):
    return bytes(rnd.randrange(256) for _ in range(n))


# ------------------------------------------------------------------------------------------------ oracle
def render(kind, v):
    if kind == "bytes":
        return v.hex() + "\n"
    if kind == "str":
        return '"' + v + '"\n'
    if kind == "int":
        return str(v) + "\n"
    raise ValueError(kind)


def operands(args):
    if len(args) == 1 and args[0].kind == "script":
        items = args[0].val
    else:
        items = args
    out = []
    for a in items:
        if a.kind == "op":
            # the number opcodes stand for their number; any other opcode is not an operand
            if a.val == 0:
                out.append(b"")
            elif 0x51 <= a.val <= 0x60:
                out.append(bytes([a.val - 0x50]))
            elif a.val == 0x4f:
                out.append(b"\x81")
            else:
                return None
        else:
            out.append(a.bytes())
    return out


def le256(b):
    return int.from_bytes(b[:32], "little")


def oracle(name, args):
    """expected stdout text, 'REJECT', or None (no opinion)"""
    v = args[0] if len(args) == 1 else A("hex", b"".join(a.assemble() for a in args), "")
    b = v.bytes()
    ops = operands(args)
    if name == "echo":
        if v.kind == "int":
            return render("int", v.val)
        if v.kind == "str":
            return render("str", v.val)
        if v.kind == "op":
            return None
        return render("bytes", b)
    if name == "hex":
        return b.hex() + "\n"
    if name == "int":
        if v.kind == "int":
            return render("int", v.val)
        if v.kind == "op":
            return render("int", v.val)
        if v.kind == "str":
            return "REJECT"
        return render("int", O.scriptnum_decode(b)) if len(b) <= 4 else "REJECT"
    if name == "len":
        return render("int", len(b))
    if name == "reverse":
        if v.kind == "str":
            return render("str", v.val[::-1])
        if v.kind in ("hex", "script"):
            return render("bytes", b[::-1])
        return None
    if name == "sha256":
        return render("bytes", O.sha256(b))
    if name == "ripemd160":
        return render("bytes", O.ripemd160(b))
    if name == "hash256":
        return render("bytes", O.hash256(b))
    if name == "hash160":
        return render("bytes", O.hash160(b))
    if name == "prefix-compact-size":
        return render("bytes", O.compact_size(len(b)) + b)
    if name == "base58chk-encode":
        return render("str", O.b58check_encode(b))
    if name == "base58chk-decode":
        if v.kind != "str":
            return "REJECT"
        p = O.b58check_decode(v.val.strip(" \t\n\v\f\r"))      # surrounding white space is skipped (Bitcoin's Base58 reader)
        return "REJECT" if p is None else render("bytes", p)
    if name in ("bech32-encode", "bech32m-encode"):
        return render("str", O.bech32_encode("bcrt", [1] + O.convertbits(b, 8, 5), "bech32" if name == "bech32-encode" else "bech32m"))
    if name == "bech32-decode":
        if v.kind != "str":
            return "REJECT"
        r = O.bech32_decode(v.val)
        if r is None or not r[2]:
            return "REJECT"
        prog = O.convertbits(r[2][1:], 5, 8, False)
        if prog is None:
            return "REJECT"
        return "(bech32%s HRP = %s)\n" % ("m" if r[0] == "bech32m" else "", r[1]) + bytes(prog).hex() + "\n"
    if name == "addr-to-scriptpubkey":
        if v.kind != "str":
            return "REJECT"
        p = O.b58check_decode(v.val.strip(" \t\n\v\f\r"))
        if p is None or len(p) != 21 or p[0] != 0:
            return "REJECT"
        return render("bytes", b"\x76\xa9\x14" + p[1:] + b"\x88\xac")
    if name == "scriptpubkey-to-addr":
        if v.kind == "str":
            return "REJECT"
        if len(b) == 25 and b[:3] == b"\x76\xa9\x14" and b[23:] == b"\x88\xac":
            return render("str", O.b58check_encode(b"\x00" + b[3:23]))
        return "REJECT"
    if name in ("add", "sub"):
        if ops is None or len(ops) not in (2, 3):
            return "REJECT"
        a, c = le256(ops[0]), le256(ops[1])
        g = le256(ops[2]) if len(ops) == 3 else 0
        m = g if g else 1 << 256
        r = (a + c) % m if name == "add" else (a - c) % m
        return render("bytes", r.to_bytes(32, "little"))
    if name == "jacobi-symbol":
        if len(args) == 1 and args[0].kind == "hex":
            if len(b) != 32:
                return "REJECT"
            n, k = int.from_bytes(b, "little"), O.P
        elif ops is not None and len(ops) == 2:
            if len(ops[0]) != 32 or len(ops[1]) != 32:
                return "REJECT"
            n, k = int.from_bytes(ops[0], "little"), int.from_bytes(ops[1], "little")
        else:
            return "REJECT"
        if k % 2 == 0:
            return None
        j = O.jacobi_by_definition(n, k)
        return None if j is None else render("int", j)
    if name == "tagged-hash":
        if ops is None or len(ops) < 2:
            return "REJECT"
        return render("bytes", O.tagged_hash(ops[0], b"".join(ops[1:])))
    if name == "combine-pubkeys":
        if ops is None or len(ops) != 2:
            return "REJECT"
        p1, p2 = O.parse_pubkey(ops[0]), O.parse_pubkey(ops[1])
        if p1 is None or p2 is None:
            return "REJECT"
        q = O.padd(p1, p2)
        return "REJECT" if q is None else render("bytes", O.ser_compressed(q))
    if name == "tweak-pubkey":
        if ops is None or len(ops) != 2:
            return "REJECT"
        p = O.parse_pubkey(ops[1])
        t = int.from_bytes(ops[0], "big")
        if p is None or len(ops[0]) != 32 or t == 0 or t >= O.N:
            return "REJECT"
        return render("bytes", O.ser_compressed(O.pmul(t, p)))
    if name == "pubkey-to-xpubkey":
        if v.kind == "str":
            return "REJECT"
        p = O.parse_pubkey(b)
        return "REJECT" if p is None else render("bytes", p[0].to_bytes(32, "big"))
    if name == "taproot-tweak-pubkey":
        if ops is None or len(ops) != 2 or len(ops[0]) != 32 or len(ops[1]) != 32:
            return "REJECT"
        p = O.lift_x(int.from_bytes(ops[0], "big"))
        t = int.from_bytes(ops[1], "big")
        if p is None or t >= O.N:
            return "REJECT"
        q = O.padd(p, O.pmul(t, O.G))
        return "REJECT" if q is None else render("bytes", O.ser_compressed(q))
    if name in ("verify-sig", "verify-sig-compact"):
        if ops is None or len(ops) != 3 or len(ops[0]) != 32:
            return "REJECT"
        h, pk, sig = ops
        if len(pk) == 32:
            if len(sig) != 64 or O.lift_x(int.from_bytes(pk, "big")) is None:
                return "REJECT"
            return render("int", 1 if O.schnorr_verify(pk, h, sig) else 0)
        if name == "verify-sig":
            return None        # DER parsing is the Lean specification's and model's business (Crypto.parseDerLax)
        p = O.parse_pubkey(pk)
        if p is None:
            return None
        if len(sig) != 64:
            return render("int", 0)
        r, s = int.from_bytes(sig[:32], "big"), int.from_bytes(sig[32:], "big")
        if r >= O.N or s >= O.N:
            return render("int", 0)
        if s > O.N // 2:
            s = O.N - s
        return render("int", 1 if O.ecdsa_verify_rs(p, r, s, int.from_bytes(h, "big") % O.N) else 0)
    return None


# ------------------------------------------------------------------------------------------------ observables
FIELD = re.compile(r"^out=(\S+) err=(\S+) rv=(-?\d+)(.*)$")
BENIGN = ("warning: unknown size", "msg = ", "NOTE: ", "vchSig.size()=", "signature_parse_compact failed", "unknown function ")


def unhex(s):
    return "" if s == "-" else bytes.fromhex(s).decode("latin1")


def canon(line):
    """what is compared between implementation and model: the whole answer, with a crash reported as such"""
    if line.startswith("CRASH") or line.startswith("ABNORMAL:") or line.startswith("DIED"):
        return "CRASH"
    if line.startswith("EXIT"):
        return line
    if line.startswith("UNCAUGHT") or " UNCAUGHT " in line:
        return "UNCAUGHT " + line.split("UNCAUGHT ", 1)[1]
    m = FIELD.match(line)
    if m and m.group(3) == "-1" and unhex(m.group(2)).endswith("\n") and "exception: " in unhex(m.group(2)):
        # an exception ended the command: streams written before it are not part of the model
        return "EXC " + unhex(m.group(2)).strip().split("\n")[-1]
    return line


def obs(line):
    """the observable the property names: the bytes shown, or rejection"""
    c = canon(line)
    if c == "CRASH" or c.startswith("EXIT") or c.startswith("UNCAUGHT") or c.startswith("EXC "):
        return "REJECT" if not c == "CRASH" else "CRASH"
    if c == "REJECT":
        return "REJECT"
    m = FIELD.match(c)
    if not m:
        return c
    err = [l for l in unhex(m.group(2)).split("\n") if l and not l.startswith(BENIGN)]
    if err or m.group(3) != "0":
        return "REJECT"
    return unhex(m.group(1))


def words_of(case):
    return [bytes.fromhex(w).decode("latin1") if w != "-" else "" for w in case.split(" ")[1:]]


def region(case, im, mo, sp):
    """which recorded finding (if any) a disagreement belongs to.  None is left: every defect found by this check has been
    repaired in the tree (the last one, the rows of the tf table without / with a differently named inline form, by 7582c10),
    and the reproducers stay in the streams as regression cases."""
    return None


# ------------------------------------------------------------------------------------------------ generators
def gen_unary(rnd, quick):
    cases = []
    for name in UNARY:
        cap = SLOW_ENCODERS.get(name, 1 << 30)
        for n in LENGTHS + BIG:
            if n > cap:
                continue
            cases.append((name, [hx(rand_bytes(rnd, n))]))
            if n in (0, 1, 55, 56, 64, 252, 253) or (not quick and n <= 521):
                cases.append((name, [hx(bytes([0x5a]) * n)]))
                cases.append((name, [hx(bytes(n))]))                       # all zero bytes (leading zeros for base58)
                cases.append((name, [st(rand_str(rnd, max(n, 1)))]))
            if 0 < n <= 521 and n % 2 == 0:
                cases.append((name, [hx(b"\xab" + rand_bytes(rnd, n - 1), prefix=False)]))
        for n in (0, 1, 2, 16, 17, -1, -2, 127, 128, 255, 256, 32767, 32768, 2147483647, 2147483648, -2147483648, 4294967296,
                  9223372036854775807, -9223372036854775807):
            cases.append((name, [num(n)]))
        for o in ("OP_DUP", "OP_1", "OP_0", "DUP", "OP_CHECKSIGADD"):
            cases.append((name, [op(o)]))
        for b in (b"\x00", b"\x01", b"\x10", b"\x11", b"\x80", b"\x81", b"\x00\x01", b"\x01\x00", b"\xff\xff\xff\x7f", b"\x00\x00\x00\x80",
                  b"\x00\x00\x00\x80\x00", b"\x01\x02\x03\x04\x05"):
            cases.append((name, [hx(b)]))
        cases.append((name, [script([hx(b"\x12\x34"), num(5), op("OP_DUP")])]))
        cases.append((name, [script([])]))
        cases.append((name, [hx(b"\x12\x34"), hx(b"\x56")]))
        cases.append((name, [num(1), st("zebra"), op("OP_CHECKSIG"), hx(rand_bytes(rnd, 80))]))
        for _ in range(20 if quick else 400):
            n = rnd.choice(LENGTHS[:28]) if rnd.random() < 0.5 else rnd.randrange(0, 300)
            if n > cap:
                continue
            k = rnd.random()
            if k < 0.6:
                cases.append((name, [hx(rand_bytes(rnd, n))]))
            elif k < 0.8:
                cases.append((name, [st(rand_str(rnd, max(1, n)))]))
            else:
                cases.append((name, [rnd.choice([hx(rand_bytes(rnd, rnd.randrange(0, 40))), num(rnd.randrange(-300, 300)), st(rand_str(rnd, rnd.randrange(1, 9)))])
                                     for _ in range(rnd.choice((2, 3)))]))
    return cases


def corruptions(s, alphabet, positions=None, extra=""):
    out = []
    for i in (positions if positions is not None else range(len(s))):
        for ch in alphabet + extra:
            if ch != s[i]:
                out.append(s[:i] + ch + s[i + 1:])
    return out


def gen_base58(rnd, quick):
    cases, valid = [], []
    payloads = [b"", b"\x00", b"\x00" * 5, b"\x00" + rand_bytes(rnd, 20), b"\x05" + rand_bytes(rnd, 20), b"\x6f" + rand_bytes(rnd, 20),
                b"\x80" + rand_bytes(rnd, 32), b"\x80" + rand_bytes(rnd, 32) + b"\x01", b"\xff" * 21, b"\x00" * 21, b"\x00\x00" + rand_bytes(rnd, 19)]
    for n in (1, 2, 3, 4, 19, 20, 22, 33, 55, 56, 64, 100, 195, 196, 197, 198, 199, 200, 201, 202, 203, 204, 205, 252, 253):
        payloads.append(rand_bytes(rnd, n))
        payloads.append(b"\x00" * (n // 2) + rand_bytes(rnd, n - n // 2))
    payloads += [b"\x00" * 200, b"\x00" * 201, b"\x00" * 204, b"\x00" * 205]
    for _ in range(20 if quick else 300):
        payloads.append(b"\x00" * rnd.choice((0, 0, 1, 2)) + rand_bytes(rnd, rnd.randrange(0, 60)))
    for p in payloads:
        s = O.b58check_encode(p)
        valid.append((p, s))
        cases.append(("base58chk-decode", [st(s)]))
        cases.append(("addr-to-scriptpubkey", [st(s)]))
        cases.append(("base58chk-encode", [hx(p)]))
    # every single-character corruption of sample strings (all 57 other digits at every position, plus non-digits)
    samples = [valid[3], valid[4], valid[0], valid[1]] + ([] if quick else valid[5:12])
    for p, s in samples:
        for c in corruptions(s, O.B58, extra="0OIl_"):
            cases.append(("base58chk-decode", [st(c)]))
        for c in corruptions(s, O.B58, positions=range(0, len(s), 1 if not quick else 3)):
            cases.append(("addr-to-scriptpubkey", [st(c)]))
    for p, s in valid[3:9]:
        cases.append(("base58chk-decode", [st(s[:-1])]))
        cases.append(("base58chk-decode", [st(s + "1")]))
        cases.append(("base58chk-decode", [st("1" + s)]))
        cases.append(("base58chk-decode", [st(" " + s)]))
        cases.append(("base58chk-decode", [st(s + " \t")]))
        cases.append(("base58chk-decode", [st(s[:5] + " " + s[5:])]))
        cases.append(("base58chk-decode", [hx(s.encode())]))
    for s in ("1", "11", "1111", "z", "3QJmnh", "1111111111", "abcdef", "l", "0", "O0"):
        cases.append(("base58chk-decode", [A("str" if not re.fullmatch(r"\d+|([0-9a-fA-F]{2})+", s) else "other", s, s)]))
    # scriptPubKey <-> address
    for _ in range(10 if quick else 100):
        h = rand_bytes(rnd, 20)
        spk = b"\x76\xa9\x14" + h + b"\x88\xac"
        cases.append(("scriptpubkey-to-addr", [hx(spk)]))
        cases.append(("scriptpubkey-to-addr", [hx(spk, prefix=False)]))
        cases.append(("addr-to-scriptpubkey", [st(O.b58check_encode(b"\x00" + h))]))
        i = rnd.choice((0, 1, 2, 23, 24))
        bad = bytearray(spk)
        bad[i] ^= rnd.randrange(1, 256)
        cases.append(("scriptpubkey-to-addr", [hx(bytes(bad))]))
    for n in (0, 1, 23, 24, 26, 34):
        cases.append(("scriptpubkey-to-addr", [hx(rand_bytes(rnd, n))]))
    cases.append(("scriptpubkey-to-addr", [hx(b"\xa9\x14" + rand_bytes(rnd, 20) + b"\x87")]))
    cases.append(("scriptpubkey-to-addr", [script([op("OP_DUP"), hx(rand_bytes(rnd, 20))])]))
    cases.append(("scriptpubkey-to-addr", [st("zebra")]))
    cases.append(("scriptpubkey-to-addr", [num(5)]))
    return cases


def gen_bech32(rnd, quick):
    cases, valid = [], []
    for spec in ("bech32", "bech32m"):
        # human-readable parts over the whole printable range (every letter occurs: upper-case spellings must decode alike)
        alpha = "abcdefghijklmnopqrstuvwxyz"
        more = [alpha[i:i + 7] + alpha[(i * 3) % 26] for i in range(0, 26, 5)] + ["z", "zz", "xyz", "lzt", "az09", "z1z", "~z!", "`{|}", "@^_", "q-z.+*"]
        # (random prefixes over the printable range, minus the characters that make the command-line word something other than one
        #  string to the value parser: brackets, comment sign, parentheses, quotes, comma, colon, backslash)
        HRP_CHARS = [c for c in map(chr, range(33, 127)) if c not in "[]#()\"',:\\" and not c.isupper()]
        more += ["".join(rnd.choice(HRP_CHARS) for _ in range(rnd.randrange(1, 12))) for _ in range(4 if quick else 60)]
        for hrp in ["bcrt", "bc", "tb", "a", "1", "split1", "?", "an83characterlonghumanreadablepartthatcontainsthenumber1andtheexcludedcharactersbio"] + more:
            for ver, n in ((0, 20), (0, 32), (1, 32), (1, 20), (0, 19), (0, 33), (2, 2), (16, 40), (17, 2), (31, 1), (1, 0), (0, 0), (1, 1), (1, 48), (1, 49)):
                prog = rand_bytes(rnd, n)
                s = O.bech32_encode(hrp, [ver] + O.convertbits(prog, 8, 5), spec)
                valid.append(s)
        for hrp in ("a", "bcrt", "bc"):
            valid.append(O.bech32_encode(hrp, [], spec))                               # no data symbols at all
            for data in ([1, 0], [1, 31], [0, 1, 2, 3], [1] + [0] * 8, [1] + [31] * 7, [1, 4, 5, 6, 7, 8, 9, 10, 16], [3, 0, 0, 0, 0, 0, 0, 0, 1]):
                valid.append(O.bech32_encode(hrp, data, spec))                          # padding variants
    for s in valid:
        cases.append(("bech32-decode", [st(s)]))
        cases.append(("bech32-decode", [st(s.upper())]))
    samples = [s for s in valid if s.startswith("bcrt1") and 40 < len(s) < 60][:2] + [s for s in valid if s.startswith("bc1")][:1] + \
              [s for s in valid if s.startswith("split11")][:1]
    if not quick:
        samples += rnd.sample(valid, 12)
    for s in samples:
        pos = s.rfind("1")
        for c in corruptions(s, O.CHARSET, positions=range(pos + 1, len(s)), extra="1bio"):
            cases.append(("bech32-decode", [st(c)]))
        for c in corruptions(s, "abcdefghijklmnopqrstuvwxyz0123456789", positions=range(0, pos + 1), extra="A!~"):
            cases.append(("bech32-decode", [st(c)]))
        cases.append(("bech32-decode", [st(s[:-1])]))
        cases.append(("bech32-decode", [st(s + "q")]))
        cases.append(("bech32-decode", [st(s[:pos] + s[pos + 1:])]))
        cases.append(("bech32-decode", [st(s[:pos + 3].upper() + s[pos + 3:])]))
        cases.append(("bech32-decode", [hx(s.encode())]))
    # encoder round trip through the command
    for n in list(range(0, 50)) + [55, 56, 64, 252, 253]:
        b = rand_bytes(rnd, n)
        for name, spec in (("bech32-encode", "bech32"), ("bech32m-encode", "bech32m")):
            cases.append((name, [hx(b)]))
            cases.append(("bech32-decode", [st(O.bech32_encode("bcrt", [1] + O.convertbits(b, 8, 5), spec))]))
    for s in ("zz", "1qqqqqq", "a1qqqqq", "zz1", "bcrt1", "pzry9x0s0muk", "1pzry9x0s0muk", "x1b4n0q5v", "li1dgmt3", "de1lg7wt\xff", "\x201nwldj5",
              "\x7f1axkwrx", "\x801eym55h", "10a06t8", "1qzzfhee"):
        cases.append(("bech32-decode", [A("str" if not re.fullmatch(r"\d+|([0-9a-fA-F]{2})+", s) else "other", s, s)]))
    return cases


def gen_arith(rnd, quick):
    cases = []

    def le(n, ln=None):
        ln = ln if ln is not None else max(1, (n.bit_length() + 7) // 8)
        return hx(n.to_bytes(ln, "little"))
    M = 1 << 256
    vals = [0x11, 0x20, 0x30, 0x64, 0xff, 0x100, 0xffff, (1 << 64) - 1, 1 << 64, (1 << 255), M - 1, M - 2, O.P, O.N, O.P - 1, O.N + 1, 0x7f, 0x80, 0x17]
    for name in ("add", "sub"):
        for a in vals:
            for b in vals[:9] + vals[-8:]:
                cases.append((name, [le(a), le(b)]))
                for g in (0x30, 0x17, 0x101, O.P, O.N, M - 1, 1 << 255, 0x12):
                    cases.append((name, [le(a), le(b), le(g)]))
        for _ in range(150 if quick else 5000):
            g = rnd.choice((rnd.randrange(2, 1 << 16), rnd.randrange(1 << 200, M), O.P, O.N, rnd.randrange(18, 256)))
            mode = rnd.random()
            if mode < 0.55:          # reduced operands
                a, b = rnd.randrange(g), rnd.randrange(g)
            elif mode < 0.8:         # unreduced
                a, b = rnd.randrange(M), rnd.randrange(M)
            else:
                a, b = rnd.choice((0, g - 1, g, g + 1, M - 1)) % M, rnd.choice((0, 1, g - 1, g, M - 1)) % M
            args = [le(a, rnd.choice((None, 32, 33, 40))), le(b, rnd.choice((None, 32)))]
            if rnd.random() < 0.75:
                args.append(le(g))
            cases.append((name, args if rnd.random() < 0.8 else [script(args)]))
        # the boundaries of the reduction: a + b = g - 1, g, g + 1, 2g - 1, 2g and a + b = 2^256 - 1, 2^256, 2^256 + 1
        for g in (0x31, 0x7f, 0x101, 0xffff, O.P, O.N, M - 1, (1 << 255) + 1, rnd.randrange(1 << 100, 1 << 200)):
            for a in (0x11, g // 2, g - 0x12, rnd.randrange(0x12, g - 0x12)):
                for t in (g - 1, g, g + 1, 2 * g - 1, 2 * g, M - 1, M, M + 1):
                    b = t - a
                    if 0x11 <= b < M and 0x11 <= a < M:
                        cases.append((name, [le(a), le(b), le(g)]))
        # operands the assembler turns into OP_n / OP_0 (no push data)
        for args in ([num(1), num(2)], [hx(b"\x01"), hx(b"\x02")], [num(5), hx(b"\x20\x30")], [hx(b""), hx(b"\x11\x22")], [num(0), num(0)],
                     [num(17), num(18)], [num(-1), hx(b"\x11\x22")], [hx(b"\x81"), hx(b"\x11\x22")], [hx(b"\x10"), hx(b"\x11")], [hx(b"\x11"), hx(b"\x12")],
                     [num(1000), num(2000)], [num(1000), num(2000), num(700)], [script([num(1), num(2)])], [hx(b"\x11")], [hx(b"\x11"), hx(b"\x12"), hx(b"\x13"), hx(b"\x14")],
                     [st("zebra"), hx(b"\x11\x22")], [st("zebra")], [op("OP_DUP"), hx(b"\x11\x22")], [num(5)]):
            cases.append((name, args))
    # Jacobi symbol
    def n32(n):
        return hx(n.to_bytes(32, "little"))
    primes = [3, 5, 7, 11, 13, 17, 19, 23, 8191, 65521, 131071]
    ks = [1, 3, 5, 7, 9, 15, 21, 45, 105, 8191 * 65521, 3 * 3 * 5 * 7 * 11 * 13, O.P, O.N, 2, 4, 6, 0, (1 << 255) + 1, M - 1, 3 ** 80, 5 ** 60 * 7 ** 20,
          (M - 189)]
    for k in ks:
        for n in [0, 1, 2, 3, 4, 5, 6, 7, 8, k - 1 if k else 0, k, k + 1, 2 * k + 3, O.P - 1, M - 1, (M - 1) // 3] + [rnd.randrange(M) for _ in range(6 if quick else 60)]:
            cases.append(("jacobi-symbol", [n32(n % M), n32(k)]))
    for _ in range(100 if quick else 3000):
        k = 1
        while k.bit_length() < rnd.choice((8, 40, 120, 250)):
            k *= rnd.choice(primes)
        if k >= M:
            continue
        cases.append(("jacobi-symbol", [n32(rnd.randrange(M)), n32(k)]))
    for _ in range(40 if quick else 600):
        n = rnd.randrange(M)
        if n.to_bytes(32, "little")[0] in range(1, 0x4f):
            continue       # a 32-byte string that is itself a sequence of pushes is read as operands (documented quirk of the command)
        cases.append(("jacobi-symbol", [n32(n)]))
        x = rnd.randrange(1, O.P)
        sq = x * x % O.P
        if sq.to_bytes(32, "little")[0] not in range(1, 0x4f):
            cases.append(("jacobi-symbol", [n32(sq)]))
    for args in ([hx(b"\x11" * 31)], [hx(b"\xff" * 33)], [hx(b"\xff" * 31), n32(7)], [n32(3), hx(b"\x07")], [n32(3), n32(7), n32(9)], [st("zebra")], [num(5)],
                 [script([n32(3), n32(7)])], [n32(0x1f00)]):
        cases.append(("jacobi-symbol", args))
    return cases


def gen_hashes_keys(rnd, quick):
    cases = []
    for tag in ("TapLeaf", "TapBranch", "TapTweak", "TapSighash", "BIP0340/challenge", "zz", "z" * 64):
        for n in (1, 2, 31, 32, 33, 55, 56, 64, 65, 252, 253):
            cases.append(("tagged-hash", [st(tag), hx(rand_bytes(rnd, n))]))
        cases.append(("tagged-hash", [st(tag), hx(rand_bytes(rnd, 32)), hx(rand_bytes(rnd, 32))]))
        cases.append(("tagged-hash", [st(tag), hx(rand_bytes(rnd, 3)), st("zulu"), hx(rand_bytes(rnd, 70))]))
        cases.append(("tagged-hash", [script([st(tag) if False else hx(tag.encode()), hx(rand_bytes(rnd, 20))])]))
    cases.append(("tagged-hash", [hx(rand_bytes(rnd, 32)), hx(rand_bytes(rnd, 65536))]))
    cases.append(("tagged-hash", [st("TapLeaf")]))
    cases.append(("tagged-hash", [st("TapLeaf"), num(5)]))
    cases.append(("tagged-hash", [st("TapLeaf"), hx(b"")]))
    # keys
    sks = [1, 2, 3, O.N - 1, O.N - 2, 12345, (1 << 255) % O.N] + [rnd.randrange(1, O.N) for _ in range(4 if quick else 40)]
    pts = [O.pmul(s, O.G) for s in sks]

    def comp(pt):
        return O.ser_compressed(pt)

    def uncomp(pt, hdr=4):
        return bytes([hdr]) + pt[0].to_bytes(32, "big") + pt[1].to_bytes(32, "big")
    encs = []
    for pt in pts:
        encs += [comp(pt), uncomp(pt), uncomp(pt, 6 + (pt[1] & 1)), uncomp(pt, 7 - (pt[1] & 1))]
    bad = [b"\x02" + (5).to_bytes(32, "big"), b"\x02" + O.P.to_bytes(32, "big"), b"\x04" + bytes(64), b"\x05" + rand_bytes(rnd, 32), b"\x02" + rand_bytes(rnd, 31),
           b"\x04" + rand_bytes(rnd, 32), b"", b"\x02", rand_bytes(rnd, 33), b"\x03" + (O.P - 1).to_bytes(32, "big")]
    for e in encs + bad:
        cases.append(("pubkey-to-xpubkey", [hx(e)]))
    cases.append(("pubkey-to-xpubkey", [st("zebra")]))
    cases.append(("pubkey-to-xpubkey", [num(2)]))
    for i in range(len(pts)):
        for j in (0, 1, i, (i + 3) % len(pts)):
            cases.append(("combine-pubkeys", [hx(encs[4 * i + rnd.randrange(3)]), hx(encs[4 * j + rnd.randrange(3)])]))
        neg = (pts[i][0], O.P - pts[i][1])
        cases.append(("combine-pubkeys", [hx(comp(pts[i])), hx(comp(neg))]))             # sum is the point at infinity
        cases.append(("combine-pubkeys", [hx(comp(pts[i])), hx(rnd.choice(bad))]))
        cases.append(("combine-pubkeys", [script([hx(comp(pts[i])), hx(comp(pts[0]))])]))
        for t in (0, 1, 2, O.N - 1, O.N, O.N + 1, (1 << 256) - 1, rnd.randrange(1, O.N)):
            cases.append(("tweak-pubkey", [hx(t.to_bytes(32, "big")), hx(encs[4 * i + rnd.randrange(3)])]))
            x = pts[i][0].to_bytes(32, "big")
            cases.append(("taproot-tweak-pubkey", [hx(x), hx(t.to_bytes(32, "big"))]))
        d = sks[i] if pts[i][1] % 2 == 0 else O.N - sks[i]
        cases.append(("taproot-tweak-pubkey", [hx(pts[i][0].to_bytes(32, "big")), hx((O.N - d).to_bytes(32, "big"))]))   # P + tG = infinity
        cases.append(("tweak-pubkey", [hx(rand_bytes(rnd, 31)), hx(comp(pts[i]))]))
        cases.append(("tweak-pubkey", [hx(rand_bytes(rnd, 32)), hx(rnd.choice(bad))]))
    for args in ([hx(comp(pts[0]))], [hx(comp(pts[0])), hx(comp(pts[1])), hx(comp(pts[2]))], [st("zebra")], [num(7)]):
        cases.append(("combine-pubkeys", args))
        cases.append(("tweak-pubkey", args))
        cases.append(("taproot-tweak-pubkey", args))
    cases.append(("taproot-tweak-pubkey", [hx((5).to_bytes(32, "big")), hx(rand_bytes(rnd, 32))]))
    cases.append(("taproot-tweak-pubkey", [hx(rand_bytes(rnd, 31)), hx(rand_bytes(rnd, 32))]))
    cases.append(("taproot-tweak-pubkey", [hx(pts[0][0].to_bytes(32, "big")), hx(rand_bytes(rnd, 33))]))
    # signatures
    for i in range(min(len(sks), 4 if quick else 12)):
        sk, pt = sks[i], pts[i]
        msg = rand_bytes(rnd, 32)
        z = int.from_bytes(msg, "big") % O.N
        r, s = O.ecdsa_sign_rs(sk, z, rnd.randrange(1, O.N))
        for ss in (s, O.N - s):
            der = O.der_sig(r, ss)
            cmpct = r.to_bytes(32, "big") + ss.to_bytes(32, "big")
            for e in (comp(pt), uncomp(pt)):
                cases.append(("verify-sig", [hx(msg), hx(e), hx(der)]))
                cases.append(("verify-sig-compact", [hx(msg), hx(e), hx(cmpct)]))
                cases.append(("verify-sig", [hx(msg[::-1]), hx(e), hx(der)]))
                cases.append(("verify-sig-compact", [hx(rand_bytes(rnd, 32)), hx(e), hx(cmpct)]))
                cases.append(("verify-sig", [hx(msg), hx(e), hx(cmpct)]))
                cases.append(("verify-sig-compact", [hx(msg), hx(e), hx(der)]))
            k = rnd.randrange(len(der))
            cases.append(("verify-sig", [hx(msg), hx(comp(pt)), hx(der[:k] + bytes([der[k] ^ 1]) + der[k + 1:])]))
            cases.append(("verify-sig", [hx(msg), hx(comp(pts[(i + 1) % len(pts)])), hx(der)]))
            cases.append(("verify-sig", [script([hx(msg), hx(comp(pt)), hx(der)])]))
        cases.append(("verify-sig-compact", [hx(msg), hx(comp(pt)), hx(O.N.to_bytes(32, "big") + s.to_bytes(32, "big"))]))
        cases.append(("verify-sig-compact", [hx(msg), hx(comp(pt)), hx(bytes(32) + s.to_bytes(32, "big"))]))
        cases.append(("verify-sig", [hx(msg), hx(rnd.choice(bad[:5])), hx(O.der_sig(r, s))]))
        # Schnorr
        xo = pt[0].to_bytes(32, "big")
        sig = O.schnorr_sign(sk, msg)
        cases.append(("verify-sig", [hx(msg), hx(xo), hx(sig)]))
        cases.append(("verify-sig", [hx(msg[::-1]), hx(xo), hx(sig)]))               # "sighash is probably in reverse order"
        cases.append(("verify-sig", [hx(msg), hx(xo[::-1]), hx(sig)]))
        cases.append(("verify-sig", [hx(msg[::-1]), hx(xo[::-1]), hx(sig)]))
        cases.append(("verify-sig-compact", [hx(msg), hx(xo), hx(sig)]))
        cases.append(("verify-sig", [hx(msg), hx(xo), hx(sig[:63] + bytes([sig[63] ^ 1]))]))
        cases.append(("verify-sig", [hx(msg), hx(xo), hx(sig[:32] + O.N.to_bytes(32, "big"))]))
        cases.append(("verify-sig", [hx(msg), hx((5).to_bytes(32, "big")), hx(sig)]))
        cases.append(("verify-sig", [hx(msg), hx(xo), hx(sig[:63])]))                 # refused (used to assert)
        cases.append(("verify-sig", [hx(msg + msg), hx(comp(pt)), hx(O.der_sig(r, s))]))   # 64-byte sighash: refused (used to assert)
        cases.append(("verify-sig", [hx(msg[:31]), hx(comp(pt)), hx(O.der_sig(r, s))]))
    for args in ([hx(rand_bytes(rnd, 32)), hx(rand_bytes(rnd, 33))], [st("zebra")], [num(3)], [hx(rand_bytes(rnd, 32)), hx(b"\x02" + rand_bytes(rnd, 32)), hx(b"")]):
        cases.append(("verify-sig", args))
        cases.append(("verify-sig-compact", args))
    return cases


def gen_regressions():
    """the reproducers of the defects this check found in earlier rounds (all repaired in the tree since)"""
    P2SH = O.b58check_encode(b"\x05" + bytes(range(20)))
    return [
        ("sub", [hx(b"\x20"), hx(b"\x11"), hx(b"\x30")]), ("sub", [hx(b"\x11"), hx(b"\x11"), hx(b"\x30")]), ("sub", [hx(b"\x11"), hx(b"\x20"), hx(b"\x30")]),
        ("sub", [script([hx(b"\x20"), hx(b"\x11"), hx(b"\x30")])]), ("sub", [hx(b"\x20"), hx(b"\x60"), hx(b"\x30")]),
        ("add", [hx(b"\x64"), hx(b"\x11"), hx(b"\x17")]), ("add", [hx(b"\x11"), hx(b"\x20"), hx(b"\x17")]), ("add", [hx(b"\xff" * 32), hx(b"\xff" * 32), hx(b"\x17")]),
        ("add", [num(1), num(2)]), ("add", [hx(b"\x01"), hx(b"\x02")]), ("add", [num(-1), num(16)]), ("add", [hx(b""), num(0)]), ("sub", [num(16), num(1), num(7)]),
        ("add", [op("OP_1"), op("OP_16")]), ("add", [op("OP_1NEGATE"), op("OP_0")]), ("add", [op("OP_DUP"), num(1)]), ("tagged-hash", [st("TapLeaf"), num(5)]),
        ("tagged-hash", [st("TapLeaf"), hx(b"")]), ("prefix-compact-size", [st("hello")]), ("prefix-compact-size", [op("OP_DUP")]), ("prefix-compact-size", [st("z")]),
        ("addr-to-scriptpubkey", [st("abc")]), ("addr-to-scriptpubkey", [st("3QJmnh")]), ("addr-to-scriptpubkey", [st(P2SH)]), ("addr-to-scriptpubkey", [st("1Wh4bh")]),
        ("addr-to-scriptpubkey", [hx(b"\x00" + bytes(range(20)))]), ("addr-to-scriptpubkey", [num(5)]),
        ("bech32-decode", [st("a12uel5l")]), ("bech32-decode", [st("a1lqfn3a")]), ("bech32-decode", [st("a1pq0sgynx")]),
        ("base58chk-decode", [st(O.b58check_encode(bytes(range(256)) * 2))]), ("base58chk-decode", [st(O.b58check_encode(b"\x00" * 300))]),
    ]


def gen_meta():
    lines = ["TF " + "2d68", "TF " + "nosuch".encode().hex() + " " + "0x12".encode().hex(), "TF " + "SHA256".encode().hex() + " " + "0x12".encode().hex()]
    for name, _ in TABLE:
        lines.append("TF " + name.encode().hex())
    return lines


def gen_inline(rnd, quick):
    """(inline text, command line) pairs with one argument word"""
    pairs = []
    samples = {
        "bytes": [hx(rand_bytes(rnd, n)) for n in (0, 1, 20, 32, 33, 55, 56, 64, 252, 253, 520)] + [num(5), num(-1000), st("zebra"), op("OP_DUP"),
                                                                                               script([hx(b"\x12\x34"), num(7)]), hx(rand_bytes(rnd, 65536))],
    }
    h20 = rand_bytes(rnd, 20)
    addr = O.b58check_encode(b"\x00" + h20)
    b32 = O.bech32_encode("bcrt", [1] + O.convertbits(rand_bytes(rnd, 32), 8, 5), "bech32m")
    pk = O.ser_compressed(O.pmul(7, O.G))
    pk2 = O.ser_compressed(O.pmul(11, O.G))
    msg = rand_bytes(rnd, 32)
    r, s = O.ecdsa_sign_rs(7, int.from_bytes(msg, "big") % O.N, 99)
    special = {
        "addr-to-scriptpubkey": [st(addr), st(addr[:-1] + ("2" if addr[-1] != "2" else "3"))],
        "base58chk-decode": [st(addr), st(addr[:-1] + ("2" if addr[-1] != "2" else "3"))],
        "bech32-decode": [st(b32), st(b32[:-1] + ("q" if b32[-1] != "q" else "p"))],
        "scriptpubkey-to-addr": [hx(b"\x76\xa9\x14" + h20 + b"\x88\xac"), hx(b"\x00" * 25)],
        "add": [script([hx(b"\x11\x22"), hx(b"\x33\x44")]), script([hx(b"\x20\x01"), hx(b"\x11\x01"), hx(b"\x30\x01")])],
        "sub": [script([hx(b"\x11\x22"), hx(b"\x33\x44")]), script([hx(b"\x20\x01"), hx(b"\x11\x01"), hx(b"\x30\x01")])],
        "jacobi-symbol": [hx((3).to_bytes(32, "little")), script([hx((3).to_bytes(32, "little")), hx((7).to_bytes(32, "little"))])],
        "tagged-hash": [script([hx(b"TapLeaf"), hx(msg)])],
        "combine-pubkeys": [script([hx(pk), hx(pk2)])],
        "tweak-pubkey": [script([hx(msg), hx(pk)])],
        "taproot-tweak-pubkey": [script([hx(pk[1:]), hx(msg)])],
        "pubkey-to-xpubkey": [hx(pk), hx(b"\x02" * 33)],
        "verify-sig": [script([hx(msg), hx(pk), hx(O.der_sig(r, s))])],
        "verify-sig-compact": [script([hx(msg), hx(pk), hx(r.to_bytes(32, "big") + s.to_bytes(32, "big"))])],
    }
    for name, ex in TABLE:
        args = special.get(name, samples["bytes"])
        for a in args:
            if name in SLOW_ENCODERS and len(a.bytes()) > SLOW_ENCODERS[name]:
                continue
            pairs.append((name, ex, a))
            adv = INLINE_ADVERTISED.get(name)
            if adv is not None:
                pairs.append((name, adv, a))           # the name `tf -h` prints, on every argument as well
    return pairs


HASH_OPS = {"sha256": 0xa8, "ripemd160": 0xa6, "hash160": 0xa9, "hash256": 0xaa}


# ------------------------------------------------------------------------------------------------ run
def compare_spec(ctx, stream, lines, impl, model, spec, tally):
    """implementation vs specification voice on the observable; a disagreement inside the input region of a recorded
    finding (and mirrored by the model) is a known finding; otherwise one replay file per defect region (and up to three
    for disagreements that belong to no region)"""
    written = {}
    for l, i, m, sp_ in zip(lines, impl, model, spec):
        if i.startswith("out=") or i.startswith("CRASH"):
            ctx.nontrivial.add(stream[:6] + l[:400])
        if obs(i) == obs(sp_):
            continue
        r = region(l, i, m, sp_)
        tally[r or "unexplained"] = tally.get(r or "unexplained", 0) + 1
        if r is not None and r in ctx.findings and obs(i) == obs(m):
            ctx.known(r, ctx.findings[r])
            continue
        key = r or "unexplained"
        written[key] = written.get(key, 0) + 1
        if written[key] <= (1 if r else 3):
            ctx.violation(l, {"stream": stream, "impl": i[:4000], "model": m[:4000], "spec": sp_[:4000], "defect_region": r,
                              "why": "implementation differs from the specification on an observable the property names"})
    ctx.count(stream, len(lines))
    ctx.traces += len(lines)


def spec_lines(lines, model, spec):
    return [m if s == "NOSPEC" else s for s, m in zip(spec, model)]


def gen_nested_args(rnd, quick):
    """the command form on an argument that is itself an inline call (`tf bech32-decode b32e(0xabcdef)`): the value handed over is the
    result of the inner call and nothing else of it (no left-over input bytes, no stale string) — every command x every kind of inner result"""
    inner = ["b32e(0xabcdef)", "b32me(0xabcdef)", "bech32enc(0x00112233445566778899)", "b58ce(0x00112233)", "base58chkenc(0x05" + "11" * 20 + ")", "hex(0xabcd)", "hex(zebra)",
             "int(0x0102)", "reverse(zebra)", "reverse(0x010203)", "sha256(zebra)", "hash160(0x)", "len(zebra)", "echo(zebra)", "echo(0x0102)", "b32d(b32e(0x0102))",
             "b58cd(b58ce(0x0102))", "prefix_compact_size(0x0102)", "spk_to_addr(0x0014" + "22" * 20 + ")", "addr_to_spk(spk_to_addr(0x0014" + "22" * 20 + "))", "hex(hex(0xab))",
             "reverse(hex(0x0102))", "int(hex(0x07))", "b32e(hex(0xabcdef))", "sha256(b32e(0x01))", "jacobi(5)", "add(1,2)", "tagged_hash(a,b)"]
    names = [n for n, _ in TABLE]
    cases = []
    for n in names:
        for t in inner:
            if quick and rnd.random() < 0.5 and n not in ("bech32-decode", "base58chk-decode", "echo", "hex", "len", "reverse", "int", "sha256"):
                continue
            cases.append((n, [A("other", t, t)]))
    return cases


def run(ctx):
    rnd = random.Random(ctx.seed * 1009 + 14)
    quick = ctx.tier == "quick"
    structured = gen_regressions() + gen_unary(rnd, quick) + gen_base58(rnd, quick) + gen_bech32(rnd, quick) + gen_arith(rnd, quick) + gen_hashes_keys(rnd, quick) + gen_nested_args(rnd, quick)
    lines = [tf_line(n, a) for n, a in structured]
    seen = set()
    uniq = []
    for l, s in zip(lines, structured):
        if l not in seen:
            seen.add(l)
            uniq.append((l, s))
    lines = [l for l, _ in uniq] + gen_meta()
    structured = [s for _, s in uniq]
    impl = ctx.harness_sharded(lines)
    model = ctx.driver_sharded(lines, "model")
    spec = spec_lines(lines, model, ctx.driver_sharded(lines, "spec"))
    reached = lambda c, i: i.startswith("out=") or i.startswith("CRASH")   # noqa: E731
    # 1. correspondence implementation = model on everything the command shows (both streams, return value, crashes)
    ctx.compare("tf-command-model", lines, [canon(x) for x in impl], [canon(x) for x in model], nontrivial=reached)
    # 2. implementation = Lean specification on the observable (bytes shown / rejection)
    tally = {}
    # decode(encode(x)) = x when the encoder is written inline inside the decoder's argument (independent of model and specification)
    for l, im in zip(lines, impl):
        w = l.split(" ")
        if len(w) == 3 and w[2] != "-":
            name = bytes.fromhex(w[1]).decode("latin1"); arg = bytes.fromhex(w[2]).decode("latin1")
            m = re.fullmatch(r"(b32e|b32me|bech32enc|b58ce|base58chkenc)\(0x([0-9a-f]+)\)", arg)
            if m and ((name == "bech32-decode" and m.group(1) in ("b32e", "b32me", "bech32enc")) or (name == "base58chk-decode" and m.group(1) in ("b58ce", "base58chkenc"))):
                mo = re.match(r"out=([0-9a-f]*) ", im)
                shown = bytes.fromhex(mo.group(1)).decode("latin1").strip().split("\n")[-1] if mo else None
                if shown != m.group(2):
                    ctx.violation(l, {"stream": "tf-nested-roundtrip", "impl": im, "expected_last_line": m.group(2), "shown": shown,
                                      "why": "decoding an inline-encoded value does not give the value back"})
    # (an argument that is itself an inline call is a text to the specification of the command: those lines are compared with the
    #  model only — stream 1 — and, for the inline functions themselves, by the inline streams below)
    nested = {tf_line(n, a) for n, a in gen_nested_args(random.Random(0), False)}
    keep = [i for i, l in enumerate(lines) if l not in nested]
    compare_spec(ctx, "tf-command-spec", [lines[i] for i in keep], [impl[i] for i in keep], [model[i] for i in keep], [spec[i] for i in keep], tally)
    # 3. the Python oracle as a further voice
    orc = []
    opinions = 0
    for (name, args), m in zip(structured, model):
        if any(a.kind == "other" for a in args):
            orc.append(m)
            continue
        e = oracle(name, args)
        if e is None:
            orc.append(m)
        else:
            opinions += 1
            orc.append("REJECT" if e == "REJECT" else "out=" + (e.encode("latin1").hex() or "-") + " err=- rv=0")
    n = len(structured)
    tally_o = {}
    compare_spec(ctx, "tf-command-oracle", lines[:n], impl[:n], model[:n], orc, tally_o)
    ctx.notes.append({"tf_lines": len(lines), "oracle_opinions": opinions, "cases_in_defect_regions": tally, "cases_in_defect_regions_oracle": tally_o})

    # 4. inline form = command form (implementation), and model = implementation on the inline form.
    #    The names come from TABLE / INLINE_ADVERTISED; `tf -h` of the real tool (equal to the model's text by stream 1) must list
    #    exactly these commands and, in the same order, exactly these inline names: then every name the tool prints is exercised.
    help_line = "TF 2d68"
    help_text = obs(impl[lines.index(help_line)])
    rows_shown = [l.split(" ")[0] for l in help_text.split("\n\n")[0].split("\n") if l]
    inl_shown = help_text.strip("\n").split("\n")[-1].split("they are called:")[-1].split()
    if rows_shown != [n for n, _ in TABLE] or inl_shown != [INLINE_ADVERTISED.get(n, ex) for n, ex in TABLE]:
        ctx.violation(help_line, {"stream": "inline-vs-command", "tf -h": help_text, "commands_expected": [n for n, _ in TABLE],
                                  "inline_expected": [INLINE_ADVERTISED.get(n, ex) for n, ex in TABLE],
                                  "why": "`tf -h` lists other commands / inline names than the ones this check exercises"})
    pairs = gen_inline(rnd, quick)
    il = ["INLINE " + (ex + "(" + a.text + ")").encode("latin1").hex() for _, ex, a in pairs]
    cl = [tf_line(name, [a]) for name, _, a in pairs]
    nested = ["sha256(reverse(0x010203))", "hex(len(0x1234))", "len(hex(0x1234))", "int(reverse(0x0100))", "echo(sha256(zebra))", "sha256(nosuch(0x12))",
              "ripemd160(sha256(0x))", "hash160(0x)", "reverse(hash256(zebra))", "base58chkdec(base58chkenc(0x00112233))", "bech32dec(bech32enc(0x0011223344))",
              "spk_to_addr(addr_to_spk(1BgGZ9tcN4rm9KBzDn7KprQz87SZ26SAMH))", "add([0x1122 sub([0x3344 0x1100])])", "prefix_compact_size(prefix_compact_size(0x))",
              "int(0x0102030405)", "reverse(OP_DUP)", "sha256()", "sha256(", "(0x12)", "sha256(0x12)x", "aaaaaaaaaaaaaaaaaaaaaaaaaaaaaaaaaaaaaaaaa(0x12)", "hex(hex(hex(5)))",
              "sha256([1 2 sha256(0x03)])", "echo([OP_DUP hash160(0x02aa) OP_EQUAL])", "int(zebra)", "int(OP_16)", "jacobi(0x%s)" % (b"\x04" + bytes(31)).hex(),
              # the inline forms added by 7582c10, alone and nested, on every argument kind and on refused arguments
              "len(0x)", "len()", "len(zebra)", "len(5)", "len(-1000)", "len(0)", "len(OP_DUP)", "len(OP_0)", "len([OP_DUP 0x1234 7])", "len(len(0x1234))",
              "len(sha256(0x))", "len(1234zz)", "len(12zz)", "Len(0x12)", "len (0x12)", "jacobi_sym(0x%s)" % (b"\x04" + bytes(31)).hex(), "jacobi_sym(0x04)",
              "jacobi_sym([0x%s 0x%s])" % ((5).to_bytes(32, "little").hex(), bytes(32).hex()),
              "b58cd(b58ce(0x00112233))", "base58chkdec(b58ce(0x))", "b58cd(zebra)", "b58cd(0x1234)", "b32d(b32e(0x0011223344))", "b32d(b32me(0x0011223344))",
              "bech32dec(bech32menc(0x%s))" % bytes(range(32)).hex(), "b32d(zebra)", "b32d(5)", "b32me(zebra)", "b32me(OP_DUP)", "bech32menc(5)", "b32e()",
              "verify_sig_compact(0x12)", "verify_sig_compact([0x12 0x34])", "verify_sig_compact(zebra)", "verify_sig_compact([0x%s 0x%s 0x%s])" % (bytes(32).hex(), "02" * 33, "11" * 64),
              "verify_sig_compact([0x%s 0x%s 0x%s])" % (bytes(64).hex(), "02" * 33, "11" * 64), "verify_sig_compact([0x%s 0x%s 0x%s])" % (bytes(32).hex(), "02" * 32, "11" * 63),
              "hex(b32me(0x1234))", "len(b58ce(0x1234))", "sha256(len(zebra))", "b32x(0x12)", "b58c(0x12)", "jacobi_symbol(0x12)", "verify-sig-compact(0x12)"]
    nl = ["INLINE " + t.encode("latin1").hex() for t in nested]
    i_impl = ctx.harness_sharded(il + nl)
    i_model = ctx.driver_sharded(il + nl, "model")
    ctx.compare("inline-model", il + nl, [canon(x) for x in i_impl], [canon(x) for x in i_model], nontrivial=reached)
    c_impl = ctx.harness_sharded(cl)

    def shown(line, name):
        o = obs(line)
        if name == "hex" and len(o) >= 2 and o[0] == '"':
            o = o[1:].replace('"\n', "\n")     # the command prints the hex string bare, the inline value is a string
        return o
    bad = 0
    for (name, ex, a), li, lc, im_i, im_c, mo_i in zip(pairs, il, cl, i_impl, c_impl, i_model):
        ctx.nontrivial.add("inl:" + name + ex + a.text[:40])
        if shown(im_i, name) == shown(im_c, name):
            continue
        bad += 1
        if bad <= 3:
            ctx.violation(li, {"stream": "inline-vs-command", "inline": im_i, "command_line": lc, "command": im_c,
                               "why": "the inline form name(arg) does not yield what `tf name arg` yields"})
    ctx.count("inline-vs-command", len(pairs))

    # 5. opcode form: <data> OP_X leaves what `tf x data` shows
    datas = [rand_bytes(rnd, n) for n in LENGTHS + BIG] + [b"", b"\x00", b"\x80"]
    ol, tl = [], []
    for nm, opc in HASH_OPS.items():
        for d in datas:
            ol.append(R.run_line(0, 0, bytes([opc]), [d]))
            tl.append(tf_line(nm, [hx(d)]))
            if len(d) <= 520:
                ol.append(R.run_line(0, 0, R.push(d) + bytes([opc])))
                tl.append(tf_line(nm, [hx(d)]))
    o_impl = ctx.harness_sharded(ol)
    o_model = ctx.driver_sharded(ol, "model")
    t_impl = ctx.harness_sharded(tl)
    bad = 0
    for lo, lt, io, mo, it in zip(ol, tl, o_impl, o_model, t_impl):
        m = re.search(r"final=([0-9a-f_,]*)\|", io)
        top = m.group(1).split(",")[-1] if m else "?"
        if io == mo and obs(it) == top + "\n":
            continue
        bad += 1
        if bad <= 3:
            ctx.violation(lo, {"stream": "opcode-vs-command", "run": io, "model_run": mo, "command_line": lt, "command": it,
                               "why": "the script opcode and the transform of the same name leave different bytes"})
    ctx.count("opcode-vs-command", len(ol), distinct_keys=["opc:%d" % i for i in range(len(ol))])
    ctx.traces += len(ol)

    # 6. the real programs
    real_binaries(ctx, rnd, lines, impl, il + nl, i_impl)

    # 7. string arguments that begin with hex digits: `TryHex` leaves the bytes it read in `data` of the (string) value, and
    #    scriptpubkey-to-addr / pubkey-to-xpubkey read `data` whatever the type is, while `name(arg)` assigns only the active
    #    field.  The model mirrors both forms (correspondence is checked here on every run); that the two forms differ is
    #    reported as finding F-C14-stale-hex-data once that id is recorded in KNOWN_FINDINGS.txt, and noted otherwise.
    stale = [("scriptpubkey-to-addr", "spk_to_addr", "76a914" + "5a" * 20 + "88aczz"),
             ("scriptpubkey-to-addr", "spk_to_addr", "00" * 25 + "zz"),
             ("pubkey-to-xpubkey", "pubkey_to_xpubkey", O.ser_compressed(O.G).hex() + "zz")]
    sl = []
    for name, ex, text in stale:
        sl.append(tf_line(name, [st(text)]))
        sl.append("INLINE " + (ex + "(" + text + ")").encode("latin1").hex())
    s_impl = ctx.harness(sl)
    s_model = ctx.driver(sl, "model")
    ctx.compare("stale-hex-data-model", sl, [canon(x) for x in s_impl], [canon(x) for x in s_model], nontrivial=reached)
    differ = [sl[k] for k in range(0, len(sl), 2) if obs(s_impl[k]) != obs(s_impl[k + 1])]
    if differ and "F-C14-stale-hex-data" in ctx.findings:
        ctx.known("F-C14-stale-hex-data", ctx.findings["F-C14-stale-hex-data"])
    ctx.notes.append({"stale_hex_data_forms_differ": len(differ), "of": len(stale)})


def real_binaries(ctx, rnd, lines, impl, inline_lines, inline_impl):
    """the same observations through the real programs: `tf ...` typed into an interactive btcdeb session (pseudo-terminal),
    and `btcc 'name(arg)'`"""
    quick = ctx.tier == "quick"
    # --- btcdeb sessions
    plain = re.compile(r"^[A-Za-z0-9_.:;!?+*=<>\[\]-]+$")
    cand = []
    for l, i in zip(lines, impl):
        if not i.startswith("out="):
            continue
        w = words_of(l)
        if len(w) < 2 or sum(len(x) for x in w) > 900 or not all(plain.match(x) for x in w):
            continue
        if "[" in "".join(w) and len(w) > 2:
            continue
        cand.append((l, i, "tf " + " ".join(w)))
    rnd.shuffle(cand)
    # history dependence: per transform, several calls in ONE process with decreasing, then increasing, argument lengths
    # (state kept between evaluations — static scratch buffers — shows up only when a long argument precedes a short one)
    by_name = {}
    for c in cand:
        by_name.setdefault(c[2].split(" ")[1], []).append(c)
    hist_groups = []
    for name, cs in sorted(by_name.items()):
        cs = sorted(cs, key=lambda c: -len(c[2]))
        pick = cs[:3] + cs[len(cs) // 2: len(cs) // 2 + 2] + cs[-3:]
        seen = set(); pick = [c for c in pick if not (c[2] in seen or seen.add(c[2]))]
        if len(pick) >= 2:
            hist_groups.append(pick + pick[::-1][1:])
    # ... and state carried from one transform to another: a decode of a string with a foreign prefix followed by the encoders, and
    # shuffled mixtures of all transforms, each answer compared with the same call in a fresh process
    decs = [c for c in by_name.get("bech32-decode", []) if not c[2].split(" ")[2].lower().startswith("bcrt1")]
    encs = by_name.get("bech32-encode", [])[:4] + by_name.get("bech32m-encode", [])[:4] + by_name.get("scriptpubkey-to-addr", [])[:2] + by_name.get("base58chk-encode", [])[:2]
    cross = []
    for k in range(0, min(len(decs), 12), 3):
        g = []
        for d in decs[k:k + 3]:
            g.append(d); g.extend(encs[: 4 + k % 5])
        if len(g) >= 2: cross.append(g)
    pool = [cs[j] for cs in by_name.values() for j in (0, len(cs) // 2) if j < len(cs)]
    for _ in range(3 if quick else 30):
        rnd.shuffle(pool)
        cross.append(list(pool[:40]))
    cand = cand[:240 if quick else 3000]
    groups = [cand[k:k + 30] for k in range(0, len(cand), 30)] + hist_groups + cross

    scratch = tempfile.mkdtemp(prefix="c14-session-")     # btcdeb writes .btcdeb_history into its working directory

    def session(g):
        text = "".join(c[2] + "\n" for c in g) + "\x04"
        rc, out, err = ptyrun.run(["/bin/sh", "-c", 'cd "$1" && exec "$2" "[OP_1]"', "sh", scratch, os.path.join(ctx.bin, "btcdeb")],
                                  "tty", "tty", text, timeout=60)
        out = out.decode("latin1") if isinstance(out, bytes) else out
        return rc, out.split("btcdeb> ")[1:]
    with ThreadPoolExecutor(max_workers=8) as ex:
        results = list(ex.map(session, groups))
    shutil.rmtree(scratch, ignore_errors=True)
    bad = 0
    n = 0
    for g, (rc, segs) in zip(groups, results):
        for k, (l, i, cmd) in enumerate(g):
            n += 1
            m = FIELD.match(i)
            want = unhex(m.group(1))
            got = segs[k] if k < len(segs) else "<no answer, rc=%s>" % rc
            if got == want:
                continue
            bad += 1
            if bad <= 3:
                stateful = any(g is x for x in hist_groups + cross)
                ctx.violation(l, {"stream": "btcdeb-session", "typed": cmd, "session_output": got[:600], "in_process": want[:600],
                                  "commands_typed_before_it_in_the_same_session": [c[2][:200] for c in g[:k]] if stateful else "(a batch of independent commands)",
                                  "why": "the interactive btcdeb session answers `tf` differently from fn_tf called in a fresh process" +
                                         (": the answer depends on what was evaluated before it" if stateful else "")},
                              suffix="" if stateful else "no-failing-input-found")
    ctx.count("btcdeb-session", n, distinct_keys=["sess:%d" % k for k in range(n)])
    ctx.traces += n
    # --- btcc
    cand = [(l, i) for l, i in zip(inline_lines, inline_impl) if i.startswith("out=") and " ser=" in i and len(l) < 4000]
    rnd.shuffle(cand)
    cand = cand[:120 if quick else 1000]

    def one(c):
        text = bytes.fromhex(c[0].split(" ")[1]).decode("latin1")
        try:
            r = subprocess.run([os.path.join(ctx.bin, "btcc"), text], stdout=subprocess.PIPE, stderr=subprocess.PIPE, timeout=20)
        except Exception as e:  # noqa: BLE001
            return "ERR " + str(e)
        return r.stdout.decode("latin1").strip().split("\n")[-1] if r.returncode == 0 else "rc=%d" % r.returncode
    with ThreadPoolExecutor(max_workers=16) as ex:
        outs = list(ex.map(one, cand))
    bad = 0
    for (l, i), o in zip(cand, outs):
        want = i.split(" ser=")[1].split(" ")[0]
        if o == want:
            continue
        bad += 1
        if bad <= 3:
            ctx.violation(l, {"stream": "btcc-binary", "btcc": o[:600], "in_process": want[:600],
                              "why": "btcc assembles the inline expression differently from the Value parser called in process"},
                          suffix="no-failing-input-found")
    ctx.count("btcc-binary", len(cand), distinct_keys=["btcc:%d" % k for k in range(len(cand))])
    ctx.traces += len(cand)


def replay(ctx, case):
    if case.startswith("RUN"):
        print("impl :", ctx.harness([case])[0][:2000])
        print("model:", ctx.driver([case])[0][:2000])
        return
    im = ctx.harness([case])[0]
    mo = ctx.driver([case])[0]
    sp = ctx.driver([case], "spec")[0]
    print("words:", words_of(case))
    for k, v in (("impl ", im), ("model", mo), ("spec ", sp)):
        m = FIELD.match(v)
        if m:
            print(k + ":", "out=%r err=%r rv=%s%s" % (unhex(m.group(1)), unhex(m.group(2)), m.group(3), m.group(4)))
        else:
            print(k + ":", v[:2000])
