"""C16 — exec applies operations exactly as the script would."""
import random
import re
from . import runlib as R
from .c04 import family

NAMES = ["OP_DUP", "DUP", "OP_ADD", "ADD", "OP_1", "OP_0", "0", "OP_IF", "OP_ELSE", "OP_ENDIF", "OP_NOTIF", "OP_TOALTSTACK", "OP_FROMALTSTACK",
         "OP_DROP", "OP_SWAP", "OP_ROT", "OP_PICK", "OP_ROLL", "OP_SIZE", "OP_EQUAL", "OP_EQUALVERIFY", "OP_VERIFY", "OP_RETURN",
         "OP_1ADD", "OP_1SUB", "OP_NEGATE", "OP_ABS", "OP_NOT", "OP_SUB", "OP_BOOLAND", "OP_NUMEQUAL", "OP_LESSTHAN", "OP_MIN", "OP_MAX",
         "OP_WITHIN", "OP_SHA256", "OP_HASH160", "OP_RIPEMD160", "OP_DEPTH", "OP_2DUP", "OP_3DUP", "OP_2DROP", "OP_NIP", "OP_OVER", "OP_TUCK",
         "OP_IFDUP", "OP_CODESEPARATOR", "OP_NOP", "OP_NOP1", "OP_CHECKLOCKTIMEVERIFY", "OP_NOP2", "OP_CAT", "OP_MUL", "OP_2DIV", "OP_RESERVED",
         "OP_VER", "OP_CHECKSIG", "OP_CHECKSIGVERIFY", "OP_CHECKMULTISIG", "OP_CHECKMULTISIGVERIFY", "OP_CHECKSIGADD", "OP_TRUE", "OP_FALSE", "OP_x61", "x76", "OP_xff", "xff", "OP_xFF", "OP_xfe", "OP_xba", "OP_xf", "OP_1NEGATE", "-1", "OP_16"]
INTS = ["1", "2", "5", "16", "17", "-1", "-5", "127", "128", "255", "256", "-128", "1000", "65535", "2147483647", "-2147483647",
        "2147483648", "99999999999", "007", "-0", "+5", "1e3"]
HEXES = ["00", "01", "81", "ff", "0100", "ff00", "0102030405", "80", "0000", "deadbeef", "zz", "0x05", "0x0102", "0x", "0xzz", "0x1", "abc", "ABCD", "1234", "10",
         "ffffffff7f", "00000080", "0000008000"]


def exec_line(sv, fl, script, stack, succ, nsteps, toks, z=0, weight=None):
    w = "-" if weight is None else str(weight)
    st = ",".join(R.item(b) for b in stack) if stack else "-"
    return f"EXEC {sv} {fl} {z} {w} {script.hex() or '-'} {st} {succ.hex() or '-'} {nsteps} {','.join(toks) if toks else '-'}"


def lines(ctx):
    rnd = random.Random(ctx.seed * 7 + 16)
    quick = ctx.tier == "quick"
    out = []
    fam = family()
    vocab = NAMES + INTS + HEXES
    # every single token at every prefix of every family session
    for (sv, fl, sc, st, succ, w) in fam:
        for n in range(0, 12):
            for t in vocab:
                out.append(exec_line(sv, fl, sc, st, succ, n, [t], weight=w))
    # operation lists on sessions with useful stacks
    for _ in range(4000 if quick else 150000):
        sv, fl, sc, st, succ, w = rnd.choice(fam)
        fl = rnd.choice((fl, fl | (1 << 6), R.STD & ~(1 << 8)))
        n = rnd.randrange(0, 8)
        k = rnd.choice((1, 2, 3, 5, 8))
        toks = []
        for _ in range(k):
            r = rnd.random()
            toks.append(rnd.choice(INTS[:12]) if r < 0.45 else rnd.choice(NAMES) if r < 0.9 else rnd.choice(HEXES))
        z = 1 if rnd.random() < 0.15 else 0
        out.append(exec_line(sv, fl, sc, st, succ, n, toks, z=z, weight=w))
    # exec after a step that failed (EXECF: the failing step ends the prefix; the session stays where it was): what exec reports is
    # about its own operations, not about the step before it
    failing = [("0500000080008b51", []), ("8b", []), ("0069", []), ("0201008b", []), ("6a51", []), ("51638b", []), ("6b6c6c", [b"\x01"]),
               ("5187", []), ("00000088", []), ("93", [b"\x01"]), ("519f", []), ("04ffffffff8b", []), ("7551", []), ("01017c", [])]
    after = [["OP_DROP", "OP_DROP"], ["OP_DROP"], ["OP_1ADD"], ["OP_VERIFY"], ["1", "2", "OP_ADD"], ["0000008000", "OP_1ADD"], ["OP_RETURN"],
             ["OP_FROMALTSTACK"], ["OP_0", "OP_IF", "OP_RSHIFT", "OP_ENDIF"], ["OP_DUP", "OP_DROP"], ["0100", "OP_NOT"], ["OP_ELSE"], ["OP_CAT"]]
    for (sc, st) in failing:
        scb = bytes.fromhex(sc)
        for sv in (0, 1, 3):
            for fl in (R.STD, 0):
                for n in range(1, 5):
                    for toks in after:
                        out.append(exec_line(sv, fl, scb, st, b"", n, toks, weight=(1000 if sv == 3 else None)).replace("EXEC ", "EXECF ", 1))
    # the taproot key-path session (`<output key> OP_CHECKSIG` under its own signature version): no operation limit applies there, however
    # many operations exec runs; every token of the vocabulary; long lists
    kp = R.push(b"\x44" * 32) + bytes([0xac])
    for fl in (R.STD, 0):
        for n in (0, 1):
            for t in vocab:
                out.append(exec_line(2, fl, kp, [b"\x01" * 64], b"", n, [t]))
            for k in (200, 201, 202, 250):
                out.append(exec_line(2, fl, kp, [b"\x01" * 64], b"", n, ["OP_NOP"] * k + ["OP_DUP"]))
                out.append(exec_line(2, fl, kp, [b"\x01" * 64], b"", n, ["OP_1", "OP_IF"] + ["OP_DUP", "OP_DROP"] * (k // 2) + ["OP_ENDIF"]))
    for sv in (0, 1, 3):
        for k in (200, 201, 202):
            out.append(exec_line(sv, R.STD, b"\x51", [], b"", 0, ["OP_NOP"] * k + ["OP_1"], weight=(1000 if sv == 3 else None)))
    # OP_CHECKMULTISIG adds its key count to the operation count before it can fail: a failing one leaves nothing behind, in any version
    for sv in (0, 1, 2, 3):
        w = 1000 if sv == 3 else None
        scr = kp if sv == 2 else b"\x51"
        for toks in (["20", "OP_CHECKMULTISIG"], ["3", "OP_CHECKMULTISIG"], ["0", "0", "0", "OP_CHECKMULTISIG"], ["0", "0", "1", "OP_CHECKMULTISIG"],
                     ["1", "0", "0", "OP_CHECKMULTISIG"], ["21", "OP_CHECKMULTISIG"], ["0", "0", "5", "4", "3", "2", "1", "5", "OP_CHECKMULTISIGVERIFY"],
                     ["20", "OP_CHECKMULTISIG"] * 2, ["OP_1", "OP_IF", "20", "OP_CHECKMULTISIG"]):
            for fl in (R.STD, 0):
                out.append(exec_line(sv, fl, scr, [b"\x01"], b"", 0, toks, weight=w))
    # on generated deep sessions
    base = ctx.driver_gen(["run", ctx.seed + 1600, 300 if quick else 5000, 60, 0])
    for l in base:
        p = l.split(" ")
        toks = [rnd.choice(vocab) for _ in range(rnd.choice((1, 2, 4)))]
        out.append(" ".join(["EXEC"] + p[1:7] + ["-", str(rnd.randrange(0, 30)), ",".join(toks)]))
    return out


def canon(line):
    # (the state after a failed exec is compared implementation vs model: canon_fail)
    return re.sub(r" afterfail=\S+", "", line).replace("FAIL:EXC", "FAIL:1")


def canon_fail(line):
    return line.replace("FAIL:EXC", "FAIL:1")


def nontrivial(case, impl):
    return "result=OK" in impl or ("result=FAIL:" in impl and "REFUSED" not in impl and "PREFIX" not in impl)


def run(ctx):
    ls = lines(ctx)
    impl = ctx.harness_sharded(ls)
    model = ctx.driver_sharded(ls, "model")
    spec = ctx.driver_sharded(ls, "spec")
    ctx.compare("exec", ls, impl, model, spec, observable=canon, nontrivial=nontrivial)
    # a failed exec leaves exactly what the operations before the failing one did (script-code start, counters, positions included)
    ctx.compare("exec-failed-state", ls, impl, model, None, observable=canon_fail, nontrivial=lambda c, im: "afterfail=" in im)
    R.histogram(ctx, [("end=" + l.split("result=")[1].split(" ")[0]) if "result=" in l else l for l in impl], "results")


def replay(ctx, case):
    print("impl :", ctx.harness([case])[0])
    print("model:", ctx.driver([case])[0])
    print("spec :", ctx.driver([case], "spec")[0])
