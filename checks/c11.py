"""C11 — mock signatures (--pretend-valid) affect exactly the listed signature/key pairs."""
import random
import re
from . import runlib as R
from . import pyref as P

OP_CHECKSIG, OP_CHECKSIGVERIFY, OP_CHECKMULTISIG, OP_CHECKMULTISIGVERIFY, OP_CHECKSIGADD = 0xac, 0xad, 0xae, 0xaf, 0xba


def rb(rnd, n): return bytes(rnd.randrange(256) for _ in range(n))


def rand_sig(rnd):
    k = rnd.randrange(6)
    if k == 0: return rb(rnd, rnd.choice((1, 2, 9, 64, 65)))
    if k == 1:
        r, s = rnd.randrange(1, P.N), rnd.randrange(1, P.N)
        return P.der(r, s) + bytes([rnd.choice((1, 2, 3, 0x81, 0, 0x44))])
    if k == 2: return rb(rnd, 64)
    if k == 3: return b"\x30" + rb(rnd, rnd.choice((5, 70)))
    return rb(rnd, rnd.choice((3, 8, 71, 72)))


def rand_key(rnd):
    k = rnd.randrange(5)
    if k == 0: return P.pubkey(rnd.randrange(1, P.N))
    if k == 1: return P.xonly(rnd.randrange(1, P.N))
    if k == 2: return rb(rnd, 33)
    if k == 3: return P.pubkey(rnd.randrange(1, P.N), False)
    return rb(rnd, rnd.choice((1, 20, 32, 34, 65)))


def field(rnd, b):
    """a value expression denoting the bytes b"""
    if rnd.random() < 0.8 or len(b) < 5: return "0x" + b.hex() if rnd.random() < 0.5 and len(b) >= 5 else (b.hex() if len(b) >= 5 and not b.hex().isdigit() else "0x" + b.hex())
    return "0x" + b.hex()


def prun(pv, sv, flags, script, stack, z=0):
    st = ",".join((x.hex() or "_") for x in stack) if stack else "-"
    return "PRUN %s %d %d %d %s %s %s" % (pv.encode().hex() or "-", sv, flags, z, "1000" if sv == 3 else "-", script.hex() or "-", st)


def scripts_for(rnd, pairs, others):
    """(sigver, script, stack, description) using listed pairs and unlisted (sig,key) combinations"""
    out = []
    pool = list(pairs)
    sigs_of = {}
    for s_, k_ in pool: sigs_of.setdefault(s_, []).append(k_)
    shared = [(s_, k_) for s_, ks in sigs_of.items() if len(set(ks)) >= 2 for k_ in sorted(set(ks))]   # signatures listed under two keys
    def pick(kind):
        if kind == "listed" and pool: return rnd.choice(pool)
        if kind == "wrong-sig" and pool: return (rand_sig(rnd), rnd.choice(pool)[1])
        if kind == "wrong-key" and pool: return (rnd.choice(pool)[0], rand_key(rnd))
        if kind == "crossed" and len(pool) >= 2:
            a, b = rnd.sample(pool, 2)
            return (a[0], b[1])
        return (rand_sig(rnd), rand_key(rnd))
    for kind in ("listed", "wrong-sig", "wrong-key", "crossed", "unlisted", "empty-sig"):
        s, k = pick(kind)
        if kind == "empty-sig": s = b""
        for sv in (0, 1, 3):
            out.append((sv, bytes([OP_CHECKSIG]), [s, k], kind + ":checksig"))
            out.append((sv, bytes([OP_CHECKSIGVERIFY, 0x51]), [s, k], kind + ":checksigverify"))
        out.append((3, bytes([OP_CHECKSIGADD]), [s, b"\x02", k], kind + ":checksigadd"))
    # a signature listed under several keys: it must be accepted for EACH of them (the pair table is a set of pairs)
    for (s, k) in shared:
        for sv in (0, 1, 3):
            out.append((sv, bytes([OP_CHECKSIG]), [s, k], "shared-sig:checksig"))
            out.append((sv, bytes([OP_CHECKSIGVERIFY, 0x51]), [s, k], "shared-sig:checksigverify"))
        out.append((3, bytes([OP_CHECKSIGADD]), [s, b"\x02", k], "shared-sig:checksigadd"))
    for s_, ks in sigs_of.items():
        ks = sorted(set(ks))
        if len(ks) >= 2:
            # n-of-n CHECKMULTISIG where the one signature stands for every key it is listed under
            stack = [b""] + [s_] * len(ks) + [R.scriptnum(len(ks))] + ks + [R.scriptnum(len(ks))]
            for sv in (0, 1):
                out.append((sv, bytes([OP_CHECKMULTISIG]), stack, "shared-sig:multisig"))
                out.append((sv, bytes([OP_CHECKMULTISIGVERIFY, 0x51]), stack, "shared-sig:multisigverify"))
    # a key is its bytes: the listed signature offered for the x-only form of a listed compressed key (and the other way round) is not a listed pair
    for (s0, k0) in pool:
        alts = [k0[1:]] if (len(k0) == 33 and k0[0] in (2, 3)) else ([b"\x02" + k0, b"\x03" + k0] if len(k0) == 32 else [])
        for k1 in alts:
            if any(k1 == k for _, k in pool): continue
            for sv in (0, 1, 2, 3):
                out.append((sv, bytes([OP_CHECKSIG]), [s0, k1], "other-encoding:checksig"))
            out.append((3, bytes([OP_CHECKSIGADD]), [s0, b"\x02", k1], "other-encoding:checksigadd"))
            out.append((3, bytes([OP_CHECKSIGVERIFY, 0x51]), [s0, k1], "other-encoding:checksigverify"))
    # the same (signature, key) offered twice in one session: the second evaluation must answer as the first did
    OP_DROP = 0x75
    for kind in ("listed", "wrong-sig", "wrong-key", "crossed", "unlisted"):
        s, k = pick(kind)
        for sv in (0, 1, 3):
            if len(k) > 75 or len(s) > 520: continue
            twice = R.push(k) + bytes([OP_CHECKSIG, OP_DROP]) + R.push(k) + bytes([OP_CHECKSIG])
            out.append((sv, twice, [s, s], kind + ":checksig-twice"))
        if len(k) <= 75:
            out.append((3, bytes([0x00]) + R.push(k) + bytes([OP_CHECKSIGADD, OP_DROP, 0x00]) + R.push(k) + bytes([OP_CHECKSIGADD]), [s, s], kind + ":checksigadd-twice"))
            st = [b"", s, b"", s]
            out.append((0, bytes([0x51]) + R.push(k) + bytes([0x51, OP_CHECKMULTISIG, OP_DROP, 0x51]) + R.push(k) + bytes([0x51, OP_CHECKMULTISIG]), st, kind + ":multisig-twice"))
    # multisig: m-of-n with keys a mix of listed / unlisted; signatures in order for a subset
    for rep in range(6):
        n = rnd.choice((1, 2, 3, 4))
        keys, sigs_for = [], []
        for j in range(n):
            if pool and rnd.random() < 0.7:
                s, k = rnd.choice(pool)
            else:
                s, k = rand_sig(rnd), rand_key(rnd)
            keys.append(k); sigs_for.append(s)
        m = rnd.randrange(0, n + 1)
        which = sorted(rnd.sample(range(n), m))
        sigs = [sigs_for[w] for w in which]
        mode = rnd.choice(("ordered", "ordered", "reversed", "one-wrong", "crossed"))
        if mode == "reversed": sigs = sigs[::-1]
        if mode == "one-wrong" and sigs: sigs[rnd.randrange(len(sigs))] = rand_sig(rnd)
        if mode == "crossed" and len(sigs) >= 1 and pool: sigs[0] = rnd.choice(pool)[0]
        stack = [b""] + sigs + [R.scriptnum(m)] + keys + [R.scriptnum(n)]
        for sv in (0, 1):
            out.append((sv, bytes([OP_CHECKMULTISIG]), stack, "multisig:" + mode))
            out.append((sv, bytes([OP_CHECKMULTISIGVERIFY, 0x51]), stack, "multisigverify:" + mode))
    return out


def run(ctx):
    rnd = random.Random(ctx.seed * 11 + 1)
    quick = ctx.tier == "quick"
    lines, meta = [], []
    flagsets = [R.STD, 0, R.STD & ~(1 << R.FLAG_BITS["NULLFAIL"]), R.STD & ~(1 << R.FLAG_BITS["STRICTENC"])]
    for rep in range(60 if quick else 1500):
        npairs = rnd.choice((1, 1, 2, 3, 4))
        pairs = [(rand_sig(rnd), rand_key(rnd)) for _ in range(npairs)]
        if rep % 5 == 0: pairs[0] = (pairs[0][0], b"")      # the empty byte string is a key like any other ("sig:0x")
        if rep % 7 == 0: pairs[-1] = (b"", pairs[-1][1])     # ... and so is the empty signature
        shape = rnd.choice(("plain", "plain", "plain", "same-key-two-sigs", "same-pair-twice", "same-sig-two-keys", "trailing-comma"))
        if shape == "same-key-two-sigs" and pairs: pairs.append((rand_sig(rnd), pairs[0][1]))
        if shape == "same-pair-twice" and pairs: pairs.append(pairs[0])
        if shape == "same-sig-two-keys" and pairs: pairs.append((pairs[0][0], rand_key(rnd)))
        text = ",".join(f"{field(rnd, s)}:{field(rnd, k)}" for s, k in pairs) + ("," if shape == "trailing-comma" else "")
        dup = len({s for s, _ in pairs}) != len({(s, k) for s, k in pairs})      # some signature is listed under two keys
        for (sv, script, stack, desc) in scripts_for(rnd, pairs, None):
            fl = rnd.choice(flagsets)
            lines.append(prun(text, sv, fl, script, stack)); meta.append((desc, dup, pairs, sv, fl, script, stack))
    impl = ctx.harness_sharded(lines)
    model = ctx.driver_sharded(lines, "model")
    spec = ctx.driver_sharded(lines, "spec")
    ctx.compare("pretend", lines, impl, model, spec, nontrivial=lambda c, im: "steps=" in im)
    # independent expectations
    hist = {}
    for l, im, m in zip(lines, impl, meta):
        desc, dup, pairs, sv, fl, script, stack = m
        key = desc + ("" if "end=OK" in im else "/fail")
        hist[key] = hist.get(key, 0) + 1
        if desc in ("listed:checksig", "shared-sig:checksig", "shared-sig:multisig") and not re.search(r"end=OK final=01\|", im):
            ctx.violation(l, {"stream": "pretend-expect", "impl": im, "why": "a listed (signature, key) pair was not accepted by " + ("OP_CHECKMULTISIG" if "multisig" in desc else "OP_CHECKSIG") + (" (signature listed under several keys)" if desc.startswith("shared") else "")})
        if desc in ("listed:checksigverify", "shared-sig:checksigverify", "shared-sig:multisigverify") and not re.search(r"end=OK final=01\|", im):
            ctx.violation(l, {"stream": "pretend-expect", "impl": im, "why": "a listed (signature, key) pair was not accepted by the VERIFY form"})
        if desc in ("listed:checksigadd", "shared-sig:checksigadd") and not re.search(r"end=OK final=03\|", im):
            ctx.violation(l, {"stream": "pretend-expect", "impl": im, "why": "a listed (signature, key) pair was not counted by OP_CHECKSIGADD (2 + 1 expected)"})
        if dup: hist["(cases whose list has a signature under two keys)"] = hist.get("(cases whose list has a signature under two keys)", 0) + 1
        if desc in ("wrong-sig:checksig", "crossed:checksig", "unlisted:checksig", "wrong-key:checksig") and (stack[0], stack[1]) not in pairs and (sv != 3 or len(stack[1]) == 32) and re.search(r"end=OK final=01\|", im):
            ctx.violation(l, {"stream": "pretend-expect", "impl": im, "why": "a pair that is not listed was accepted (no transaction context: no real signature can verify)"})
    ctx.notes.append("pretend histogram: " + ", ".join(f"{k}={v}" for k, v in sorted(hist.items())))
    # metamorphic: scripts that do not involve a listed key run exactly as without the option
    ml, mref = [], []
    for l, m in zip(lines, meta):
        desc, dup, pairs, sv, fl, script, stack = m
        keys_listed = {k for _, k in pairs}
        if not any(x in keys_listed for x in stack) and not any(R.push(k) in script for k in keys_listed):
            ml.append(l); mref.append(prun("", sv, fl, script, stack))
    a = ctx.harness_sharded(ml); b = ctx.harness_sharded(mref)
    strip = lambda x: re.sub(r"^map=\S* keys=\S* ", "", x)
    for l, x, y in zip(ml, a, b):
        if strip(x) != strip(y):
            ctx.violation(l, {"stream": "pretend-metamorphic", "with_option": x, "without_option": y,
                              "why": "a script that involves no listed key ran differently with the option"})
    ctx.count("pretend-metamorphic", len(ml))
    # malformed lists
    bad = ["aa", "aa:bb:cc", "aa:bb,,cc:dd", ",aa:bb", "aa:", "aa:bb,cc:", ":", "aa:bb,cc", "aa,bb:cc", "::", ",", "aa:bb,,", "aa:,bb:cc", ":bb"]
    good = ["", "aa:bb", "aa:bb,", "aa:bb,cc:dd", "0x:bb", "aa:0x", "1:2", "OP_1:OP_2", "sha256(aa):hash160(bb)"]
    ll = [prun(t, 0, 0, bytes([OP_CHECKSIG]), [b"\xaa", b"\xbb"]) for t in bad + good]
    impl = ctx.harness(ll); model = ctx.driver(ll, "model"); spec = ctx.driver(ll, "spec")
    ctx.compare("pretend-lists", ll, impl, model, spec)
    for t, im in zip(bad, impl):
        if im != "REFUSED:pretend":
            ctx.violation(prun(t, 0, 0, bytes([OP_CHECKSIG]), [b"\xaa", b"\xbb"]), {"stream": "pretend-lists", "text": t, "impl": im, "why": "a malformed pair list was not rejected"})
    for t, im in zip(good, impl[len(bad):]):
        if im == "REFUSED:pretend":
            ctx.violation(prun(t, 0, 0, bytes([OP_CHECKSIG]), [b"\xaa", b"\xbb"]), {"stream": "pretend-lists", "text": t, "impl": im, "why": "a well-formed pair list was rejected"})


def replay(ctx, case):
    print("impl :", ctx.harness([case])[0])
    print("model:", ctx.driver([case])[0])
    print("spec :", ctx.driver([case], "spec")[0])
