"""C09 — flag modification is exact and verification flags only ever restrict."""
import os
import random
import re
import sys
from concurrent.futures import ThreadPoolExecutor
from . import runlib as R
sys.path.insert(0, os.path.join(os.path.dirname(os.path.dirname(os.path.abspath(__file__))), "harness"))
import ptyrun  # noqa: E402

NAMES = list(R.FLAG_BITS)


def flags_lines(ctx):
    rnd = random.Random(ctx.seed * 13 + 9)
    quick = ctx.tier == "quick"
    mods = [""]
    for n in NAMES:
        mods += ["+" + n, "-" + n, n, "+" + n.lower(), "+" + n + ",", ",+" + n, "+" + n + ",,-" + n, " +" + n, "+" + n + " ", "++" + n, "+-" + n,
                 "+SCRIPT_VERIFY_" + n, "+" + n[:-1], "+" + n + "X"]
    for a in NAMES:
        for b in NAMES:
            if quick and rnd.random() > 0.15:
                continue
            mods += [f"+{a},-{b}", f"-{a},+{b}", f"-{a},-{b}", f"+{a},+{b}"]
    for _ in range(1500 if quick else 60000):
        k = rnd.choice((1, 2, 3, 5, 9, 30))
        items = [rnd.choice("+-") + rnd.choice(NAMES) for _ in range(k)]
        if rnd.random() < 0.15:
            items.insert(rnd.randrange(len(items) + 1), rnd.choice(["", "+", "-", "+NOPE", "P2SH", "+P2SH+LOW_S", "+\x01", "-WITNESS ", "+witness"]))
        mods.append(",".join(items))
    for ln in list(range(1, 140)) + [200, 255, 256, 400, 1000]:
        mods.append("+" + "A" * ln)
        mods.append("+P2SH,-" + "B" * ln)
        mods.append("+" + "P2SH".ljust(ln, "\x00") if False else "+" + "Z" * ln + ",+P2SH")
    return ["FLAGS " + (m.encode("latin1").hex() or "-") for m in mods]


def probes():
    """(script, stack, flag, outcome with the flag / without it is decided by model and spec)"""
    key = b"\x02" + b"\x11" * 32
    return [
        (bytes.fromhex("010151"), (), "MINIMALDATA"),
        (bytes.fromhex("b051"), (), "DISCOURAGE_UPGRADABLE_NOPS"),
        (bytes.fromhex("51b1"), (), "CHECKLOCKTIMEVERIFY"),
        (bytes.fromhex("51b2"), (), "CHECKSEQUENCEVERIFY"),
        (bytes.fromhex("510000ae"), (), "NULLDUMMY"),
        (R.push(b"\x01") + R.push(key) + b"\xac\x91", (), "DERSIG"),
        (R.push(b"\x01") + R.push(key) + b"\xac\x91", (), "STRICTENC"),
        (R.push(b"\x01") + R.push(key) + b"\xac\x91", (), "LOW_S"),
        (R.push(bytes.fromhex("3006020101020101" "01")) + R.push(key) + b"\xac\x91", (), "NULLFAIL"),
        (R.push(bytes.fromhex("3006020101020101" "05")) + R.push(key) + b"\xac\x91", (), "STRICTENC"),
        (R.push(bytes.fromhex("3006020101020101" "01")) + R.push(b"\x05" + b"\x11" * 32) + b"\xac\x91", (), "STRICTENC"),
        (bytes.fromhex("51ab"), (), "CONST_SCRIPTCODE"),
        # P2SH / WITNESS / CLEANSTACK change which scripts run for a spend: they are probed in C03's streams
    ]


def run(ctx):
    rnd = random.Random(ctx.seed * 17 + 9)
    quick = ctx.tier == "quick"
    # 1. exact parsing: in-process svf_parse_flags / svf_string vs model vs spec
    fl = flags_lines(ctx)
    impl = ctx.harness_sharded(fl)
    model = ctx.driver_sharded(fl, "model")
    spec = ctx.driver_sharded(fl, "spec")
    ctx.compare("modify-flags", fl, impl, model, spec, nontrivial=lambda c, i: i.startswith("OK"))
    # 2. --default-flags lists exactly the standard set
    rc, out, err = ptyrun.run([os.path.join(ctx.bin, "btcdeb"), "-d"], "pipe", "pipe", "")
    out = out.encode("latin1").decode("utf-8", "replace")
    listed = re.findall(r"・ (\S+)", out)
    want = ctx.driver(["FLAGS -"], "spec")[0].split(" ")[2].split(",")
    ctx.count("default-flags", 1)
    ctx.sample({"stream": "default-flags", "listed": listed})
    if rc != 0 or sorted(listed) != sorted(want) or len(listed) != len(set(listed)):
        ctx.violation("btcdeb --default-flags", {"why": "--default-flags must list exactly the standard flag set", "listed": listed, "expected": want})
    # 3. end to end: btcdeb -f<list> <probe script>: behaviour under +X / -X equals model/spec under the modified flag set
    jobs, lines = [], []
    for (sc, st, flag) in probes():
        for mod in ("+" + flag, "-" + flag, "-" + flag + ",+" + flag, "+" + flag + ",-" + flag):
            f = ctx.driver(["FLAGS " + mod.encode().hex()], "spec")[0]
            fv = int(f.split(" ")[1])
            jobs.append((["-f" + mod, "0x" + sc.hex()] + ["0x" + b.hex() for b in st], mod))
            lines.append(R.run_line(0, fv, sc, st))
    from .c08 import expected, classify
    names = ctx.driver([f"ERRSTR {i}" for i in range(0, 54)])
    errstr = {}
    for i, n in enumerate(names):
        errstr.setdefault(n, i)
    model = [expected(l, errstr) for l in ctx.driver(lines, "model")]
    spec = [expected(l, errstr) for l in ctx.driver(lines, "spec")]

    def one(j):
        rc, out, err = ptyrun.run([os.path.join(ctx.bin, "btcdeb")] + j[0], "tty", "pipe", "")
        return classify(rc, out, err, errstr)
    with ThreadPoolExecutor(max_workers=16) as ex:
        impl = list(ex.map(one, jobs))
    ctx.compare("flag-probes", [f"{l} ## argv={j[0]}" for l, j in zip(lines, jobs)], impl, model, spec, nontrivial=lambda c, i: True)
    # 4. monotonicity on the implementation: chains A0 ⊆ A1 ⊆ ... ⊆ Ak on execution inputs
    base = ctx.driver_gen(["run", ctx.seed + 900, 500 if quick else 20000, 40, 0])
    chains = []
    for l in base:
        p = l.split(" ")
        top = int(p[2]) | rnd.getrandbits(21)
        bits = [b for b in range(21) if top >> b & 1]
        rnd.shuffle(bits)
        chain = [top]
        cur = top
        for b in bits[: rnd.choice((2, 4, 8, 21))]:
            cur &= ~(1 << b)
            chain.append(cur)
        chains.append((p, chain))
    lines = []
    for p, chain in chains:
        for f in chain:
            q = list(p)
            q[2] = str(f)
            lines.append(" ".join(q))
    impl = ctx.harness_sharded(lines)
    model = ctx.driver_sharded(lines, "model")
    spec = ctx.driver_sharded(lines, "spec")
    ctx.compare("chains", lines, impl, model, spec, observable=R.canon, nontrivial=R.is_nontrivial)
    k = 0
    nchains = 0
    for p, chain in chains:
        outs = impl[k:k + len(chain)]
        k += len(chain)
        nchains += 1
        # chain[0] is the largest set: success there must imply success (same final stack) in every subset
        def ok(o):
            m = re.search(r"cont=OK/(\S*)", o)
            return m.group(1) if m else None
        for j in range(len(chain)):
            for i in range(j):
                if ok(outs[i]) is not None and ok(outs[j]) != ok(outs[i]):
                    ctx.violation(" ".join(p), {"why": "a script succeeding under the larger flag set must succeed identically under the smaller one",
                                                "larger": chain[i], "smaller": chain[j], "out_larger": outs[i], "out_smaller": outs[j]})
    ctx.count("monotone-chains", nchains)
    # 4b. the same on signature opcodes, where the encoding flags interact: every (signature shape, key shape) pairing
    #     for OP_CHECKSIG/VERIFY/ADD and m-of-n mixtures for OP_CHECKMULTISIG/VERIFY, along chains that drop the
    #     signature-related flags one at a time in a random order
    sc = R.sigop_cases(rnd, 150 if quick else 3000)
    if quick:
        sc = [c for i, c in enumerate(sc) if i % 3 == ctx.seed % 3 or c[3].startswith("multisig")]
    lines, spans = [], []
    for (sv, script, stack, lab) in sc:
        chain = R.flag_chain(rnd, R.STD, R.SIGOP_FLAGS, k=None if rnd.random() < 0.5 else 4)
        spans.append((lab, chain, len(lines)))
        for f in chain:
            lines.append(R.run_line(sv, f, script, stack))
    impl = ctx.harness_sharded(lines)
    model = ctx.driver_sharded(lines, "model")
    spec = ctx.driver_sharded(lines, "spec")
    ctx.compare("sigop-chains", lines, impl, model, spec, observable=R.canon, nontrivial=R.is_nontrivial)
    def okv(o):
        m = re.search(r"cont=OK/(\S*)", o)
        return m.group(1) if m else None
    nviol = 0
    for lab, chain, k0 in spans:
        outs = impl[k0:k0 + len(chain)]
        for j in range(len(chain)):
            for i in range(j):
                if okv(outs[i]) is not None and okv(outs[j]) != okv(outs[i]):
                    nviol += 1
                    if nviol <= 5:
                        ctx.violation(lines[k0 + i], {"why": "a script succeeding under the larger flag set must succeed identically under the smaller one", "label": lab,
                                                      "larger": chain[i], "smaller": chain[j], "out_larger": outs[i], "out_smaller": outs[j]})
    ctx.count("sigop-monotone-chains", len(spans))
    # 5. monotonicity on whole spends (set-up included): a spend valid under a flag set is valid under every subset
    from . import c03
    sp = c03.limit_cases(random.Random(ctx.seed * 9 + 5))
    sp_lines, sp_meta = [], []
    for (line, meta) in sp:
        w = line.split(" ")
        top = int(w[4]) | (1 << R.FLAG_BITS["SIGPUSHONLY"])
        chain = [top]
        cur = top
        drop = [R.FLAG_BITS[n] for n in ("SIGPUSHONLY", "CLEANSTACK", "MINIMALDATA", "NULLFAIL", "DISCOURAGE_UPGRADABLE_NOPS")]
        rnd.shuffle(drop)
        for b in drop[:3]:
            if b == R.FLAG_BITS["CLEANSTACK"] or True:
                cur &= ~(1 << b)
                chain.append(cur)
        for f in chain:
            w2 = list(w); w2[4] = str(f)
            sp_lines.append(" ".join(w2)); sp_meta.append((meta["label"], f))
    simpl = ctx.harness_sharded(sp_lines)
    smodel = ctx.driver_sharded(sp_lines, "model")
    strip = lambda l: re.sub(r" verdict=\S+$", "", l)
    ctx.compare("spend-chains", sp_lines, simpl, [strip(m) for m in smodel], None, nontrivial=lambda c, im: "steps=" in im)
    k = 0
    for (line, meta) in sp:
        n = 4
        outs = simpl[k:k + n]; fls = [m[1] for m in sp_meta[k:k + n]]
        k += n
        vs = [c03.verdict_of_impl(o, f) for o, f in zip(outs, fls)]
        for j in range(n):
            for i in range(j):
                # fls[i] ⊇ fls[j]
                if vs[i] == "VALID" and vs[j] != "VALID":
                    ctx.violation(sp_lines[k - n + i], {"why": "a spend valid under the larger flag set must be valid under the smaller one", "label": meta["label"],
                                                        "larger": fls[i], "smaller": fls[j], "out_larger": outs[i][-200:], "out_smaller": outs[j][-200:]})
    ctx.count("spend-monotone-chains", len(sp))
    # 6. the same on scripts with real signatures in a transaction (digest-dependent rules: script code behind OP_CODESEPARATOR, FindAndDelete,
    #    hash types), along chains dropping the signature-related flags
    from . import c02
    sc_cases = c02.script_cases(random.Random(ctx.seed * 9 + 6), True)
    sc_cases = [c for c in sc_cases if "codesep" in c[1]["shape"] or "find-and-delete" in c[1]["shape"] or "multisig" in c[1]["shape"]][: (120 if quick else 2000)]
    cl, spans = [], []
    for (line, meta) in sc_cases:
        w = line.split(" ")
        chain = R.flag_chain(rnd, int(w[4]) | (1 << R.FLAG_BITS["CONST_SCRIPTCODE"]) | (1 << R.FLAG_BITS["NULLFAIL"]), R.SIGOP_FLAGS, k=4)
        spans.append((meta["shape"], chain, len(cl)))
        for f in chain:
            w2 = list(w); w2[4] = str(f); cl.append(" ".join(w2))
    ci = ctx.harness_sharded(cl); cm = ctx.driver_sharded(cl, "model")
    ctx.compare("signed-chains", cl, ci, [strip(m) for m in cm], None, nontrivial=lambda c, im: "steps=" in im)
    nv = 0
    for shape, chain, k0 in spans:
        outs = ci[k0:k0 + len(chain)]
        vs = [c03.verdict_of_impl(o, f) for o, f in zip(outs, chain)]
        for j in range(len(chain)):
            for i in range(j):
                if vs[i] == "VALID" and vs[j] != "VALID":
                    nv += 1
                    if nv <= 5:
                        ctx.violation(cl[k0 + i], {"why": "a signed script valid under the larger flag set must be valid under the smaller one", "shape": shape,
                                                   "larger": chain[i], "smaller": chain[j], "out_larger": outs[i][-200:], "out_smaller": outs[j][-200:]})
    ctx.count("signed-monotone-chains", len(spans))


def replay(ctx, case):
    c = case.split(" ## ")[0]
    print("impl :", ctx.harness([c])[0])
    print("model:", ctx.driver([c])[0])
    print("spec :", ctx.driver([c], "spec")[0])
