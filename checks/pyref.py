"""Independent reference code in plain Python: secp256k1 arithmetic, BIP340, BIP341 script trees."""
import hashlib

P = 0xFFFFFFFFFFFFFFFFFFFFFFFFFFFFFFFFFFFFFFFFFFFFFFFFFFFFFFFEFFFFFC2F
N = 0xFFFFFFFFFFFFFFFFFFFFFFFFFFFFFFFEBAAEDCE6AF48A03BBFD25E8CD0364141
G = (0x79BE667EF9DCBBAC55A06295CE870B07029BFCDB2DCE28D959F2815B16F81798,
     0x483ADA7726A3C4655DA4FBFC0E1108A8FD17B448A68554199C47D08FFB10D4B8)


def padd(a, b):
    if a is None: return b
    if b is None: return a
    if a[0] == b[0] and (a[1] + b[1]) % P == 0: return None
    if a == b: l = 3 * a[0] * a[0] * pow(2 * a[1], P - 2, P) % P
    else: l = (b[1] - a[1]) * pow(b[0] - a[0], P - 2, P) % P
    x = (l * l - a[0] - b[0]) % P
    return (x, (l * (a[0] - x) - a[1]) % P)


def pmul(k, p):
    r = None
    while k:
        if k & 1: r = padd(r, p)
        p = padd(p, p); k >>= 1
    return r


def lift_x(x):
    if x >= P: return None
    c = (pow(x, 3, P) + 7) % P
    y = pow(c, (P + 1) // 4, P)
    if y * y % P != c: return None
    return (x, y if y % 2 == 0 else P - y)


def sha256(b): return hashlib.sha256(b).digest()
def tagged(tag, msg):
    t = sha256(tag.encode())
    return sha256(t + t + msg)
def cs(n):
    if n < 253: return bytes([n])
    if n <= 0xffff: return b"\xfd" + n.to_bytes(2, "little")
    if n <= 0xffffffff: return b"\xfe" + n.to_bytes(4, "little")
    return b"\xff" + n.to_bytes(8, "little")
def xonly(sk):
    p = pmul(sk, G)
    return p[0].to_bytes(32, "big")
def tapleaf(ver, script): return tagged("TapLeaf", bytes([ver]) + cs(len(script)) + script)
def tapbranch(a, b): return tagged("TapBranch", a + b if a < b else b + a)


def taproot_output(p32, root):
    """(q32, parity) or None"""
    pt = lift_x(int.from_bytes(p32, "big"))
    if pt is None: return None
    t = int.from_bytes(tagged("TapTweak", p32 + root), "big")
    if t >= N: return None
    q = padd(pt, pmul(t, G))
    if q is None: return None
    return q[0].to_bytes(32, "big"), q[1] & 1


def bip341_check(control, script, program):
    """BIP341 script path rule, written from the BIP text"""
    if len(control) < 33 or len(control) > 33 + 32 * 128 or (len(control) - 33) % 32: return False
    p = control[1:33]
    k = tapleaf(control[0] & 0xfe, script)
    for j in range((len(control) - 33) // 32):
        e = control[33 + 32 * j: 65 + 32 * j]
        k = tapbranch(k, e)
    out = taproot_output(p, k)
    return out is not None and out[0] == program and out[1] == (control[0] & 1)


def schnorr_sign(sk, msg, aux=b"\x00" * 32):
    d0 = sk
    Pp = pmul(d0, G)
    d = d0 if Pp[1] % 2 == 0 else N - d0
    t = (d ^ int.from_bytes(tagged("BIP0340/aux", aux), "big")).to_bytes(32, "big")
    k0 = int.from_bytes(tagged("BIP0340/nonce", t + Pp[0].to_bytes(32, "big") + msg), "big") % N
    R = pmul(k0, G)
    k = k0 if R[1] % 2 == 0 else N - k0
    e = int.from_bytes(tagged("BIP0340/challenge", R[0].to_bytes(32, "big") + Pp[0].to_bytes(32, "big") + msg), "big") % N
    return R[0].to_bytes(32, "big") + ((k + e * d) % N).to_bytes(32, "big")


def ecdsa_sign(sk, z32, k=None, low_s=True):
    z = int.from_bytes(z32, "big")
    k = k or (int.from_bytes(sha256(sk.to_bytes(32, "big") + z32), "big") % (N - 1) + 1)
    R = pmul(k, G)
    r = R[0] % N
    s = pow(k, N - 2, N) * (z + r * sk) % N
    if low_s and s > N // 2: s = N - s
    return r, s


def der(r, s):
    def i(v):
        b = v.to_bytes((v.bit_length() + 8) // 8 or 1, "big")
        return b"\x02" + bytes([len(b)]) + b
    body = i(r) + i(s)
    return b"\x30" + bytes([len(body)]) + body


def pubkey(sk, compressed=True):
    p = pmul(sk, G)
    if compressed: return bytes([2 + (p[1] & 1)]) + p[0].to_bytes(32, "big")
    return b"\x04" + p[0].to_bytes(32, "big") + p[1].to_bytes(32, "big")


# ------------------------------------------------------------------------------------------------
# transactions: (version, vin, vout, locktime); vin item = (prev_hash32, prev_n, scriptSig, witness list, sequence); vout item = (value, spk)
def ser_tx(tx, witness=True):
    ver, vin, vout, lock = tx
    has_w = witness and any(i[3] for i in vin)
    out = ver.to_bytes(4, "little", signed=True)
    if has_w: out += b"\x00\x01"
    out += cs(len(vin))
    for i in vin: out += i[0] + i[1].to_bytes(4, "little") + cs(len(i[2])) + i[2] + i[4].to_bytes(4, "little")
    out += cs(len(vout))
    for (v, spk) in vout: out += v.to_bytes(8, "little", signed=True) + cs(len(spk)) + spk
    if has_w:
        for i in vin:
            out += cs(len(i[3]))
            for it in i[3]: out += cs(len(it)) + it
    out += lock.to_bytes(4, "little")
    return out
def dsha(b): return sha256(sha256(b))
def txid(tx): return dsha(ser_tx(tx, False))
def hash160(b): return hashlib.new("ripemd160", sha256(b)).digest() if _has_ripemd() else _ripemd160(sha256(b))


def _has_ripemd():
    try:
        hashlib.new("ripemd160"); return True
    except Exception: return False


def _ripemd160(msg):
    # plain implementation for interpreters whose OpenSSL lacks RIPEMD-160
    def rol(x, n): return ((x << n) | (x >> (32 - n))) & 0xffffffff
    r1 = [0,1,2,3,4,5,6,7,8,9,10,11,12,13,14,15,7,4,13,1,10,6,15,3,12,0,9,5,2,14,11,8,3,10,14,4,9,15,8,1,2,7,0,6,13,11,5,12,
          1,9,11,10,0,8,12,4,13,3,7,15,14,5,6,2,4,0,5,9,7,12,2,10,14,1,3,8,11,6,15,13]
    r2 = [5,14,7,0,9,2,11,4,13,6,15,8,1,10,3,12,6,11,3,7,0,13,5,10,14,15,8,12,4,9,1,2,15,5,1,3,7,14,6,9,11,8,12,2,10,0,4,13,
          8,6,4,1,3,11,15,0,5,12,2,13,9,7,10,14,12,15,10,4,1,5,8,7,6,2,13,14,0,3,9,11]
    s1 = [11,14,15,12,5,8,7,9,11,13,14,15,6,7,9,8,7,6,8,13,11,9,7,15,7,12,15,9,11,7,13,12,11,13,6,7,14,9,13,15,14,8,13,6,5,12,7,5,
          11,12,14,15,14,15,9,8,9,14,5,6,8,6,5,12,9,15,5,11,6,8,13,12,5,12,13,14,11,8,5,6]
    s2 = [8,9,9,11,13,15,15,5,7,7,8,11,14,14,12,6,9,13,15,7,12,8,9,11,7,7,12,7,6,15,13,11,9,7,15,11,8,6,6,14,12,13,5,14,13,13,7,5,
          15,5,8,11,14,14,6,14,6,9,12,9,12,5,15,8,8,5,12,9,12,5,14,6,8,13,6,5,15,13,11,11]
    K1 = [0, 0x5A827999, 0x6ED9EBA1, 0x8F1BBCDC, 0xA953FD4E]; K2 = [0x50A28BE6, 0x5C4DD124, 0x6D703EF3, 0x7A6D76E9, 0]
    def f(j, x, y, z):
        if j < 16: return x ^ y ^ z
        if j < 32: return (x & y) | (~x & 0xffffffff & z)
        if j < 48: return (x | (~y & 0xffffffff)) ^ z
        if j < 64: return (x & z) | (y & ~z & 0xffffffff)
        return x ^ (y | (~z & 0xffffffff))
    h = [0x67452301, 0xEFCDAB89, 0x98BADCFE, 0x10325476, 0xC3D2E1F0]
    ml = len(msg); msg += b"\x80"; msg += b"\x00" * ((56 - len(msg)) % 64); msg += (ml * 8).to_bytes(8, "little")
    for o in range(0, len(msg), 64):
        X = [int.from_bytes(msg[o + 4 * i:o + 4 * i + 4], "little") for i in range(16)]
        a, b, c, d, e = h; a2, b2, c2, d2, e2 = h
        for j in range(80):
            t = (rol((a + f(j, b, c, d) + X[r1[j]] + K1[j // 16]) & 0xffffffff, s1[j]) + e) & 0xffffffff
            a, e, d, c, b = e, d, rol(c, 10), b, t
            t = (rol((a2 + f(79 - j, b2, c2, d2) + X[r2[j]] + K2[j // 16]) & 0xffffffff, s2[j]) + e2) & 0xffffffff
            a2, e2, d2, c2, b2 = e2, d2, rol(c2, 10), b2, t
        t = (h[1] + c + d2) & 0xffffffff
        h = [t, (h[2] + d + e2) & 0xffffffff, (h[3] + e + a2) & 0xffffffff, (h[4] + a + b2) & 0xffffffff, (h[0] + b + c2) & 0xffffffff]
    return b"".join(x.to_bytes(4, "little") for x in h)


def script_ops(s):
    """yield (opcode, data, start, end); stops at malformed push"""
    i = 0
    while i < len(s):
        st = i; op = s[i]; i += 1
        n = None
        if op < 0x4c: n = op
        elif op == 0x4c:
            if i + 1 > len(s): return
            n = s[i]; i += 1
        elif op == 0x4d:
            if i + 2 > len(s): return
            n = int.from_bytes(s[i:i + 2], "little"); i += 2
        elif op == 0x4e:
            if i + 4 > len(s): return
            n = int.from_bytes(s[i:i + 4], "little"); i += 4
        if n is not None:
            if i + n > len(s): return
            yield (op, s[i:i + n], st, i + n); i += n
        else:
            yield (op, None, st, i)


def push(d):
    if len(d) == 0: return b"\x00"
    if len(d) == 1 and 1 <= d[0] <= 16: return bytes([0x50 + d[0]])
    if len(d) == 1 and d[0] == 0x81: return b"\x4f"
    if len(d) < 0x4c: return bytes([len(d)]) + d
    if len(d) <= 0xff: return b"\x4c" + bytes([len(d)]) + d
    if len(d) <= 0xffff: return b"\x4d" + len(d).to_bytes(2, "little") + d
    return b"\x4e" + len(d).to_bytes(4, "little") + d


def legacy_sighash(tx, idx, script_code, hashtype):
    """the original algorithm (FindAndDelete of the signature is the caller's business)"""
    ver, vin, vout, lock = tx
    # remove OP_CODESEPARATOR
    sc = b""
    last = 0
    for (op, d, st, en) in script_ops(script_code):
        if op == 0xab:
            sc += script_code[last:st]; last = en
    sc += script_code[last:]
    base = hashtype & 0x1f
    if base == 3 and idx >= len(vout): return (1).to_bytes(32, "little")
    ins = []
    for j, i in enumerate(vin):
        seq = i[4]
        if j != idx and base in (2, 3): seq = 0
        ins.append((i[0], i[1], sc if j == idx else b"", [], seq))
    if hashtype & 0x80: ins = [ins[idx]]
    if base == 2: outs = []
    elif base == 3: outs = [(-1, b"")] * idx + [vout[idx]]
    else: outs = list(vout)
    return dsha(ser_tx((ver, ins, outs, lock), False) + (hashtype & 0xffffffff).to_bytes(4, "little", signed=False))


def bip143_sighash(tx, idx, script_code, amount, hashtype):
    ver, vin, vout, lock = tx
    base = hashtype & 0x1f
    acp = bool(hashtype & 0x80)
    hp = dsha(b"".join(i[0] + i[1].to_bytes(4, "little") for i in vin)) if not acp else b"\x00" * 32
    hs = dsha(b"".join(i[4].to_bytes(4, "little") for i in vin)) if (not acp and base not in (2, 3)) else b"\x00" * 32
    if base not in (2, 3): ho = dsha(b"".join(v.to_bytes(8, "little", signed=True) + cs(len(s)) + s for v, s in vout))
    elif base == 3 and idx < len(vout): ho = dsha(vout[idx][0].to_bytes(8, "little", signed=True) + cs(len(vout[idx][1])) + vout[idx][1])
    else: ho = b"\x00" * 32
    i = vin[idx]
    return dsha(ver.to_bytes(4, "little", signed=True) + hp + hs + i[0] + i[1].to_bytes(4, "little") + cs(len(script_code)) + script_code +
                amount.to_bytes(8, "little", signed=True) + i[4].to_bytes(4, "little") + ho + lock.to_bytes(4, "little") + (hashtype & 0xffffffff).to_bytes(4, "little"))


def bip341_sighash(tx, idx, spent, hashtype, annex=None, leaf_hash=None, codesep_pos=0xffffffff):
    """spent = list of (amount, spk) for every input; None if hashtype undefined / SINGLE without output"""
    ver, vin, vout, lock = tx
    if hashtype not in (0, 1, 2, 3, 0x81, 0x82, 0x83): return None
    out_type = 1 if hashtype == 0 else hashtype & 3
    acp = bool(hashtype & 0x80)
    m = b"\x00" + bytes([hashtype]) + ver.to_bytes(4, "little", signed=True) + lock.to_bytes(4, "little")
    if not acp:
        m += sha256(b"".join(i[0] + i[1].to_bytes(4, "little") for i in vin))
        m += sha256(b"".join(a.to_bytes(8, "little", signed=True) for a, _ in spent))
        m += sha256(b"".join(cs(len(s)) + s for _, s in spent))
        m += sha256(b"".join(i[4].to_bytes(4, "little") for i in vin))
    if out_type == 1: m += sha256(b"".join(v.to_bytes(8, "little", signed=True) + cs(len(s)) + s for v, s in vout))
    ext = 1 if leaf_hash is not None else 0
    m += bytes([2 * ext + (1 if annex is not None else 0)])
    if acp:
        i = vin[idx]
        m += i[0] + i[1].to_bytes(4, "little") + spent[idx][0].to_bytes(8, "little", signed=True) + cs(len(spent[idx][1])) + spent[idx][1] + i[4].to_bytes(4, "little")
    else: m += idx.to_bytes(4, "little")
    if annex is not None: m += sha256(cs(len(annex)) + annex)
    if out_type == 3:
        if idx >= len(vout): return None
        m += sha256(vout[idx][0].to_bytes(8, "little", signed=True) + cs(len(vout[idx][1])) + vout[idx][1])
    if ext: m += leaf_hash + b"\x00" + codesep_pos.to_bytes(4, "little")
    return tagged("TapSighash", m)
