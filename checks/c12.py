"""C12 — the script listing and the position marker show exactly what executes next.

Voices (one LISTING line each, same format):
  impl : harness/cmd_listing.inc — the start-up code of btcdeb.cpp main (where the listing is built) run in-process,
         commands played through the real fn_step / fn_rewind / fn_print, their printed output parsed;
         a sample of the sessions is replayed on the real `btcdeb` binary under a pseudo-terminal and must agree;
  model: Driver/Listing.lean over Model/Listing.lean (buildListing, markedLine, echoLine, fnStep) — must equal impl;
  spec : Spec/Listing.lean (execution-order decoding, pending operation) — must equal impl, except in the regions of
         FINDINGS (each distinct kind is reported once: region id, reproducer on the real binary, proposed fix).
Histories contain failed steps (a failed step leaves the session where it was) and refused commands.
"""
import hashlib
import itertools
import os
import pty
import random
import re
import select
import signal
import tempfile
import termios
import time
from . import runlib as R
from . import pyref as P
from . import spendgen as S

FB = R.FLAG_BITS
NOPUSH = R.STD & ~(1 << FB["SIGPUSHONLY"])
P2SH_ONLY = 1

# ---------------------------------------------------------------------------------------------------------------
# findings: id -> (what, where, minimal fix).
# Repaired (regression cases stay in the streams): tapscript commitment section one line too long (f9007a7), long pushes cut and
# buf[1024] overrun (cbbeb82), failed step left the position advanced / stale history entry / script_lines[-1] (7dec9d9), empty
# tapscript leaf born `done` (387b380), undecodable scriptSig accepted (a728b06), P2SH section empty for OP_1..OP_16 (6d80ca4).
FINDINGS = {
    "F-C12-tapscript-p2sh-pattern-leaf": (
        "taproot script path whose leaf script is OP_HASH160 <20 bytes> OP_EQUAL (a hash lock) with a witness item: InterpreterEnv sets "
        "is_p2sh for every script of that shape whatever the signature version, and main() lists the commitment section only in the "
        "else-branch of `if (env->is_p2sh && env->p2shstack.size() > 0)`: the listing has NO commitment lines although the m+1 "
        "commitment steps are performed, so the marker runs m+1 lines ahead (and a '<<< P2SH script >>>' section is listed and, after "
        "the hash lock, the preimage is executed as a script: BIP16 applied to a tapscript)",
        "btcdeb.cpp:304-312 (else-if), debugger/interpreter.cpp:101-108 (is_p2sh regardless of sigversion)",
        "compute is_p2sh only for sigversion == SigVersion::BASE (constructor and successor hand-over); independently, make the "
        "commitment section unconditional: `if (env->sigversion == SigVersion::TAPSCRIPT && env->tce)` not chained with else"),
}


def enc(b):
    return b.hex() if b else "-"


def items(st):
    return ",".join(R.item(b) for b in st) if st else "-"


def pline(script, stack=(), cmds="", flags=0, z=0):
    return f"LISTING P {cmds or '-'} {flags} {z} {enc(script)} {items(stack)}"


def sline(tx, ftx, cmds="", flags=R.STD, z=0, select=-1, pretend=None):
    txs = P.ser_tx(tx).hex()
    return "LISTING S %s %s %s %d %d %d %s" % (cmds or "-", txs.encode().hex(), P.ser_tx(ftx).hex().encode().hex(), select, flags, z,
                                               pretend.encode().hex() if pretend else "-")


def canon(line):
    if line.startswith("REFUSED") or line.startswith("EXIT"):
        return "REFUSED"
    return line


def parse(line):
    m = re.match(r"count=(\d+) list=(\S*) trace=(.*)$", line)
    if not m:
        return None
    pts = []
    for p in m.group(3).split(" "):
        q = re.match(r"([isr][+\-!]?)(-?\d+)/(\d+)/(\d+)/([01])=(.*?)=(\S*)$", p)
        pts.append(q.groups() if q else (p,))
    return int(m.group(1)), (m.group(2).split(";") if m.group(2) else []), pts


# ---------------------------------------------------------------------------------------------------------------
# walks

def walk(rnd, n):
    cmds = []
    while len(cmds) < n:
        if rnd.random() < 0.72:
            cmds.extend("s" * rnd.randrange(1, 6))
        else:
            cmds.extend("r" * rnd.randrange(1, 4))
    return "".join(cmds[:n])


def command_sets(rnd, nops, quick):
    """every prefix of steps (one history: the trace has a point after each command) and histories with rewinds"""
    full = "s" * (nops + 3)
    out = [full]
    for _ in range(2 if quick else 6):
        out.append(walk(rnd, min(3 * nops + 8, 400)))
    # rewind at every position once: s^k r s^(rest)
    if nops <= 40:
        out.append("".join("s" * 1 + ("r" if k % 2 else "") for k in range(2 * nops + 4)))
        out.append("".join("ssr" for _ in range(nops + 3)))
    return out


# ---------------------------------------------------------------------------------------------------------------
# streams

def all_opcode_scripts():
    """every opcode byte that HasValidOps admits appears in some listing; pushes in every encoding"""
    out = []
    ops = [o for o in range(0x4f, 0xbb)]
    # names only: the session fails early, the listing is complete
    for i in range(0, len(ops), 12):
        out.append(bytes(ops[i:i + 12]))
    # executed in an unexecuted branch where possible (everything except disabled / VERIF): OP_0 OP_IF ... OP_ENDIF OP_1
    skip = set(R.DISABLED) | {0x65, 0x66, 0x63, 0x64, 0x67, 0x68}
    body = bytes(o for o in ops if o not in skip)
    for i in range(0, len(body), 25):
        out.append(b"\x00\x63" + body[i:i + 25] + b"\x68\x51")
    return out


def push_scripts():
    out = []
    for n in (0, 1, 2, 16, 74, 75):
        out.append(bytes([n]) + bytes([0xa0 + (n % 16)] * n) + b"\x75\x51")
    for n in (0, 1, 75, 76, 255):                      # OP_PUSHDATA1 incl. non-minimal uses
        out.append(b"\x4c" + bytes([n]) + b"\x5a" * n + b"\x75\x51")
    for n in (0, 1, 255, 256, 507, 508, 509, 514, 515, 519, 520):   # OP_PUSHDATA2
        out.append(b"\x4d" + n.to_bytes(2, "little") + b"\xab" * n + b"\x75\x51")
    for n in (0, 3, 300, 514, 515, 520):               # OP_PUSHDATA4
        out.append(b"\x4e" + n.to_bytes(4, "little") + b"\xcd" * n + b"\x75\x51")
    # several long pushes in one script (the cut depends on the line number only through the prefix)
    out.append(P.push(b"\x11" * 520) + P.push(b"\x22" * 515) + P.push(b"\x33" * 514) + b"\x6d\x75\x51")
    return out


def plain_stream(ctx, rnd, quick):
    cases = []
    for sc in all_opcode_scripts():
        for z in (0, 1):
            cases.append(pline(sc, (), "s" * (len(sc) + 2), flags=0, z=z))
    for sc in push_scripts():
        cases.append(pline(sc, (), "sssssrsrrss", flags=0))
        cases.append(pline(sc, (), "ssss", flags=R.STD))
    # complete {s,r} history trees on small scripts (incl. the P2SH pattern with the redeem script on the stack)
    redeem = bytes.fromhex("51635268")
    fam = [
        (bytes.fromhex("5152935387"), (), 0),
        (bytes.fromhex("51635268"), (), 0),
        (bytes.fromhex("00645167006752686b6c"), (), 0),
        (b"\xa9\x14" + P.hash160(redeem) + b"\x87", (b"\x01", redeem), P2SH_ONLY),
        (b"\xa9\x14" + P.hash160(redeem) + b"\x87", (b"\x01", redeem), 0),           # without the P2SH flag: no section
        (b"\xa9\x14" + P.hash160(b"") + b"\x87", (b"",), P2SH_ONLY),                   # empty redeem script
        (b"", (), 0),
        (b"\x51", (b"\x07",), 0),
    ]
    depth = 7 if quick else 10
    for sc, st, fl in fam:
        for d in range(0, depth + 1):
            for cmds in itertools.product("sr", repeat=d):
                cases.append(pline(sc, st, "".join(cmds), flags=fl))
    # random scripts from the model's generator, random walks
    base = ctx.driver_gen(["run", ctx.seed + 12000, 150 if quick else 3000, 60, 0])
    base += ctx.driver_gen(["run", ctx.seed + 12001, 50 if quick else 1000, 60, 1])
    for l in base:
        p = l.split(" ")
        sc = bytes.fromhex(p[5]) if p[5] != "-" else b""
        nops = len(list(P.script_ops(sc)))
        st = p[6] if len(p) > 6 and p[5] != "-" else "-"     # an empty script cannot be given together with stack arguments
        for cmds in ("s" * (min(nops, 200) + 3), walk(rnd, rnd.choice((10, 40, 120)))):
            cases.append(f"LISTING P {cmds} {p[2]} {p[3]} {p[5]} {st}")
    return cases


def spend_cases(ctx, rnd, quick):
    """(line, meta) — spends of every kind; tapscript with path lengths 0..4"""
    cases = []
    reps = 2 if quick else 12
    for kind in S.KINDS:
        for rep in range(reps):
            # rep 0: the only input; rep 1: among other inputs of which one carries a witness (a legacy input in a segwit transaction)
            s = S.build(rnd, kind, {"n_in": 1} if rep == 0 else ({"n_in": 3, "other_witness": True} if rep == 1 and not kind.startswith("p2tr") else None))
            fl = R.STD
            nops = 30
            for cmds in command_sets(rnd, nops, quick)[: (3 if quick else 8)]:
                cases.append((sline(s.tx, s.txin, cmds, fl), {"kind": kind}))
    # taproot script path, path lengths 0..4 (and 7, 128 in the thorough tier), signature-free leaves
    leaves = [(b"\x51", []), (bytes.fromhex("a8") + P.push(P.sha256(b"x")) + b"\x87", [b"x"]), (bytes.fromhex("935387"), [b"\x01", b"\x02"])]
    plens = [0, 1, 2, 3, 4] + ([] if quick else [7, 128])
    for m in plens:
        for leaf, args in leaves:
            s = S.build(rnd, "p2tr-script", {"path_len": m, "leaf_script": leaf, "leaf_args": args, "annex": False})
            nops = m + 8
            for cmds in command_sets(rnd, nops, quick)[: (3 if quick else 6)]:
                cases.append((sline(s.tx, s.txin, cmds, R.STD), {"kind": "p2tr-script", "path_len": m}))
    # with a signature in the leaf and an annex
    for m in (0, 2):
        s = S.build(rnd, "p2tr-script", {"path_len": m, "annex": True})
        cases.append((sline(s.tx, s.txin, "s" * (m + 8), R.STD), {"kind": "p2tr-script", "path_len": m}))
    # hand-built legacy spends: scriptPubKey and P2SH sections, long pushes in every section
    def add(name, spk, ss=b"", wit=(), flags=R.STD, cmdsets=None, **kw):
        tx, ftx = S.custom(rnd, spk, ss, wit, **kw)
        nops = 24
        for cmds in (cmdsets or command_sets(rnd, nops, quick)[: (3 if quick else 6)]):
            cases.append((sline(tx, ftx, cmds, flags), {"kind": "custom", "label": name}))
    p2sh = lambda r: bytes([0xa9, 20]) + P.hash160(r) + bytes([0x87])
    red = bytes.fromhex("935387")                               # OP_ADD OP_3 OP_EQUAL
    add("bare", bytes.fromhex("935387"), bytes.fromhex("5152"))
    add("bare-empty-sig", b"\x51", b"")
    add("p2sh", p2sh(red), b"\x51\x52" + P.push(red))
    add("p2sh-data-pushes", p2sh(red), b"\x01\x01\x01\x02" + P.push(red))
    add("p2sh-empty-redeem", p2sh(b""), b"\x51\x00", flags=R.STD & ~(1 << FB["CLEANSTACK"]))
    long_red = P.push(b"\x77" * 515) + b"\x75\x51"
    add("p2sh-long-push-in-redeem", p2sh(long_red), P.push(long_red))
    add("spk-long-push", P.push(b"\x55" * 520) + b"\x75", b"\x51")
    add("sig-long-push", b"\x75\x51", P.push(b"\x66" * 516))
    add("p2sh-without-flag", p2sh(red), b"\x51\x52" + P.push(red), flags=0)
    # pay-to-script-hash is not recursive: a redeem script that is itself of the P2SH shape is an ordinary script (its preimage stays data)
    inner = bytes.fromhex("5152935387")
    red2 = p2sh(inner)
    add("p2sh-redeem-of-p2sh-shape", p2sh(red2), P.push(inner) + P.push(red2))
    add("p2sh-redeem-of-p2sh-shape-mismatch", p2sh(red2), P.push(b"\x51") + P.push(red2))
    # the redeem script pushed with every push encoding (the longer ones are non-minimal: allowed with MINIMALDATA off)
    NOMIN = R.STD & ~(1 << FB["MINIMALDATA"])
    for enc_name, enc in (("pushdata1", bytes([0x4c, len(red)])), ("pushdata2", bytes([0x4d]) + len(red).to_bytes(2, "little")), ("pushdata4", bytes([0x4e]) + len(red).to_bytes(4, "little"))):
        for fl in (NOMIN, R.STD):
            add("p2sh-redeem-" + enc_name, p2sh(red), b"\x51\x52" + enc + red, flags=fl)
    add("p2sh-redeem-long-pushdata4", p2sh(long_red), b"\x4e" + (len(P.push(b"\x77" * 515) + b"\x75\x51")).to_bytes(4, "little") + P.push(b"\x77" * 515) + b"\x75\x51", flags=NOMIN)
    ws = bytes.fromhex("935387")
    add("p2wsh", b"\x00\x20" + P.sha256(ws), b"", [b"\x01", b"\x02", ws])
    wl = P.push(b"\x88" * 515) + b"\x75\x51"
    add("p2wsh-long-push", b"\x00\x20" + P.sha256(wl), b"", [wl])
    # a P2WSH whose witness script is itself the hash-lock pattern OP_HASH160 <20> OP_EQUAL: the debugger treats it as P2SH
    pre = b"\x51"
    hl = p2sh(pre)
    add("p2wsh-hashlock-pattern", b"\x00\x20" + P.sha256(hl), b"", [pre, hl])
    return cases


def malformed_cases(ctx, rnd, quick):
    cases = []
    def add(name, spk, ss=b"", wit=(), flags=R.STD, cmdsets=("csssssssss", "cssrsrssss", "sssssssss"), **kw):
        tx, ftx = S.custom(rnd, spk, ss, wit, **kw)
        for cmds in cmdsets:
            cases.append((sline(tx, ftx, cmds, flags), {"kind": "malformed", "label": name}))
    p2sh = lambda r: bytes([0xa9, 20]) + P.hash160(r) + bytes([0x87])
    # continuing after a failed step (plain scripts): OP_VERIFY on false, OP_RETURN, a disabled opcode, OP_RESERVED, and
    # operations that fail after having popped / pushed (OP_EQUALVERIFY, OP_CHECKMULTISIG with a bad key count, OP_PICK)
    for sc in (bytes.fromhex("0069555657"), bytes.fromhex("516a5152"), bytes.fromhex("7e5152"), bytes.fromhex("5100695293"),
               bytes.fromhex("515052"), bytes.fromhex("5152885354"), bytes.fromhex("51525aae55"), bytes.fromhex("515a7952")):
        for cmds in ("cssssss", "cssrsss", "csssrrss", "cssssrr", "ssssss"):
            cases.append((pline(sc, (), cmds, 0), {"kind": "malformed", "label": "step-after-failure"}))
    # a failure raised as a C++ exception (script number overflow): once left its history entry behind, so that a
    # rewind drove curr_op_seq below zero and fn_rewind read script_lines[-1]
    for cmds in ("cs", "css", "csss", "cssr", "cssrr", "csr"):
        cases.append((pline(bytes.fromhex("8b51"), (bytes.fromhex("0102030405"),), cmds, 0), {"kind": "malformed", "label": "rewind-after-exception"}))
    # scriptSig that does not decode completely; scriptPubKey / redeem script that does not
    add("undecodable-scriptsig", b"\x51", b"\x51\x05\x01\x02", flags=NOPUSH)
    add("undecodable-scriptsig-pushdata", b"\x51", b"\x51\x4d\x05", flags=NOPUSH)
    add("undecodable-spk", b"\x51\x4c", b"\x51")
    bad = b"\x51\x02\x01"
    add("undecodable-redeem", p2sh(bad), P.push(bad))
    # P2SH with a scriptSig whose last instruction is not a data push
    for last in (b"\x51", b"\x4f", b"\x60"):
        val = {0x51: b"\x01", 0x4f: b"\x81", 0x60: b"\x10"}[last[0]]
        add("p2sh-last-op-small-int", p2sh(val), b"\x51" + last)
    add("p2sh-nonpush-scriptsig", p2sh(b"\x51"), b"\x61" + P.push(b"\x51"), flags=NOPUSH)
    add("p2sh-dup-scriptsig", p2sh(b"\x51"), P.push(b"\x51") + b"\x76", flags=NOPUSH & ~(1 << FB["CLEANSTACK"]))
    # taproot script path with an empty leaf script
    for m in (0, 2):
        s = S.build(rnd, "p2tr-script", {"path_len": m, "leaf_script": b"", "leaf_args": [b"\x01"], "annex": False})
        cases.append((sline(s.tx, s.txin, "sss", R.STD), {"kind": "malformed", "label": "tapscript-empty-leaf"}))
    # a tapscript leaf that is a hash lock of the shape OP_HASH160 <20> OP_EQUAL, with its preimage as witness item
    for m in (0, 2):
        pre = b"\x51"
        s = S.build(rnd, "p2tr-script", {"path_len": m, "leaf_script": bytes([0xa9, 20]) + P.hash160(pre) + bytes([0x87]),
                                         "leaf_args": [pre], "annex": False})
        for cmds in ("sssssssss", "ssrsssssrss"):
            cases.append((sline(s.tx, s.txin, cmds, R.STD), {"kind": "malformed", "label": "tapscript-p2sh-pattern-leaf"}))
    # a failing commitment (corrupted control block): nothing executes
    s = S.build(rnd, "p2tr-script", {"path_len": 2, "leaf_script": b"\x51", "leaf_args": [], "annex": False})
    tx = s.tx
    w = list(tx[1][0][3]); w[-1] = w[-1][:40] + bytes([w[-1][40] ^ 1]) + w[-1][41:]
    vin = [tuple(list(tx[1][0][:3]) + [w] + [tx[1][0][4]])]
    cases.append((sline((tx[0], vin, tx[2], tx[3]), s.txin, "sssss", R.STD), {"kind": "malformed", "label": "commitment-fails"}))
    return cases


# ---------------------------------------------------------------------------------------------------------------
# classification of impl != spec

def strip_no(x):
    return re.sub(r"^#\d+~", "", x)


def explain(meta, im, mo, sp):
    """set of finding ids that account for EVERY difference between the implementation's and the specification's answer,
    or None when some difference is not accounted for"""
    pi, ps = parse(im), parse(sp)
    if pi is None or ps is None:
        return None
    ci, li, ti = pi
    cs, ls, ts = ps
    # a tapscript session that is treated as P2SH: the commitment lines (Branch: … / CheckTapTweak: …) are missing from the listing
    miss = [x for x in ls if strip_no(x).startswith("Branch:") or strip_no(x).startswith("CheckTapTweak:")]
    if miss and not any(strip_no(x).startswith("CheckTapTweak:") for x in li) and "<<<~P2SH~script~>>>" in li:
        if [strip_no(x) for x in ls if x not in miss][:len(ls) - len(miss)] == [strip_no(x) for x in li][:len(ls) - len(miss)]:
            return {"F-C12-tapscript-p2sh-pattern-leaf"}
    return None


def repro_of(ctx, case):
    """shell command + debugger commands reproducing the case on the real binary"""
    argv, cmds = argv_of(case)
    words = {"s": "step", "r": "rewind"}
    cmds = cmds.lstrip("c")
    return "btcdeb " + " ".join("'" + a + "'" for a in argv) + "   # then: print; " + "; ".join(words[c] for c in cmds[:40]) + "; print"


# ---------------------------------------------------------------------------------------------------------------
# the real binary under a pseudo-terminal

def flag_mod(flags):
    m = []
    for name, bit in FB.items():
        want, have = (flags >> bit) & 1, (R.STD >> bit) & 1
        if want != have:
            m.append(("+" if want else "-") + name)
    return ",".join(m)


def argv_of(case):
    a = case.split(" ")
    cmds = "" if a[2] == "-" else a[2]
    argv = []
    if a[1] == "P":
        flags, z, sc = int(a[3]), a[4] == "1", a[5]
        m = flag_mod(flags)
        if m:
            argv.append("--modify-flags=" + m)
        if z:
            argv.append("-z")
        if sc != "-":
            argv.append("0x" + sc)
        if len(a) > 6 and a[6] != "-":
            argv += ["0x" + ("" if it in ("", "_") else it) for it in a[6].split(",")]
    else:
        tx, txin, sel, flags, z, pv = bytes.fromhex(a[3]).decode(), bytes.fromhex(a[4]).decode(), int(a[5]), int(a[6]), a[7] == "1", a[8]
        argv += ["--tx=" + tx, "--txin=" + txin]
        if sel >= 0:
            argv.append("--select=%d" % sel)
        m = flag_mod(flags)
        if m:
            argv.append("--modify-flags=" + m)
        if z:
            argv.append("-z")
        if pv != "-":
            argv.append("--pretend-valid=" + bytes.fromhex(pv).decode())
    return argv, cmds


def pty_session(binary, argv, cmds, timeout=20):
    """returns the LISTING-format line observed on the real interactive binary"""
    env = dict(os.environ)
    env["TERM"] = "dumb"
    wd = tempfile.mkdtemp(prefix="c12pty-")
    pid, fd = pty.fork()
    if pid == 0:
        try:
            os.chdir(wd)
            os.execve(binary, [binary] + argv, env)
        finally:
            os._exit(127)
    try:
        at = termios.tcgetattr(fd)
        at[3] &= ~termios.ECHO
        termios.tcsetattr(fd, termios.TCSANOW, at)
    except termios.error:
        pass

    def read_prompt():
        buf = b""
        t0 = time.time()
        while time.time() - t0 < timeout:
            r, _, _ = select.select([fd], [], [], 0.05)
            if r:
                try:
                    d = os.read(fd, 65536)
                except OSError:
                    return buf, True
                if not d:
                    return buf, True
                buf += d
                if buf.endswith(b"btcdeb> "):
                    return buf[:-len(b"btcdeb> ")], False
        return buf, True

    def lines_of(b):
        return [l for l in b.decode("latin1").replace("\r", "").split("\n")]

    def echo_of(text_lines):
        ls = [l for l in text_lines if l != ""]
        if not ls:
            return "-"
        l = ls[-1]
        if "|" in l or not (l.startswith("#") or l.startswith("<<<")):
            return "-"
        return l.replace(" ", "~")

    def do(cmd):
        os.write(fd, (cmd + "\n").encode())
        return read_prompt()

    out = None
    try:
        start, eof = read_prompt()
        if eof:
            return "REFUSED"
        def point(tag, echo):
            b, _ = do("print")
            ls = [l for l in lines_of(b) if l != ""]
            marked = [l[4:].replace(" ", "~") for l in ls if l.startswith(" -> ")]
            lst = [l[4:].replace(" ", "~") for l in ls]
            return tag, (marked[0] if len(marked) == 1 else ("-" if not marked else "MULTIPLE")), echo, lst
        pts = [point("i", echo_of(lines_of(start)))]
        cont = cmds.startswith("c")
        for c in (cmds[1:] if cont else cmds):
            b, eof = do("step" if c == "s" else "rewind")
            tl = lines_of(b)
            performed = any("-+-" in l for l in tl)
            if c == "s":
                tag = "s+" if performed else ("s-" if any("at end of script" in l for l in tl) else "s!")
            else:
                tag = "r+" if performed else "r-"
            if eof:
                pts.append(("DIED", "-", "-", []))
                break
            pts.append(point(tag, echo_of(tl) if performed else "-"))
        out = pts
    finally:
        try:
            os.kill(pid, signal.SIGKILL)
        except OSError:
            pass
        try:
            os.waitpid(pid, 0)
        except OSError:
            pass
        os.close(fd)
        for f in os.listdir(wd):
            os.unlink(os.path.join(wd, f))
        os.rmdir(wd)
    return out


def pty_compare(ctx, cases, impl):
    """the in-process harness against the real binary: listing, marked line and echo at every point"""
    bad = 0
    binary = os.path.join(ctx.bin, "btcdeb")
    for case, im in zip(cases, impl):
        argv, cmds = argv_of(case)
        got = pty_session(binary, argv, cmds)
        pi = parse(im)
        if im.startswith("CRASH") or im.startswith("DIED"):
            ok = got != "REFUSED" and any(g[0] == "DIED" for g in got)
        elif got == "REFUSED" or pi is None:
            ok = (got == "REFUSED") == (pi is None)
        else:
            ci, li, ti = pi
            ok = len(got) == len(ti)
            for g, t in zip(got, ti):
                tag, marked, echo, lst = g
                if len(t) < 7:
                    ok = False
                    break
                ttag = t[0]
                if tag != ttag or marked != t[5] or echo != t[6] or lst != li:
                    ok = False
                    break
        if not ok:
            bad += 1
            if bad <= 2:
                ctx.violation(case, {"stream": "pty-crosscheck", "harness": im[:2000], "binary": str(got)[:2000],
                                     "why": "correspondence: the in-process LISTING harness and the real btcdeb binary under a pseudo-terminal differ"},
                              suffix="no-failing-input-found")
    ctx.count("pty-crosscheck", len(cases))
    ctx.traces += len(cases)
    return bad


# ---------------------------------------------------------------------------------------------------------------

def three_way(ctx, name, pairs):
    cases = [c for c, _ in pairs]
    metas = [m for _, m in pairs]
    impl = ctx.harness_sharded(cases)
    model = ctx.driver_sharded(cases, "model")
    spec = ctx.driver_sharded(cases, "spec")
    seen = {}
    reported = ctx.__dict__.setdefault("c12_reported", set())
    unexplained = 0
    for case, meta, im, mo, sp in zip(cases, metas, impl, model, spec):
        im, mo, sp = canon(im), canon(mo), canon(sp)
        pi = parse(im)
        if pi is not None and len(pi[2]) > 1:
            ctx.nontrivial.add(hashlib.sha1(case.encode()).hexdigest()[:12])
        if len(ctx.samples) < 6:
            ctx.sample({"stream": name, "case": case[:240], "impl": im[:240]})
        died = im.startswith("CRASH") or im.startswith("DIED")
        if im != mo and not died:
            # the model must describe the implementation everywhere, defects included
            if seen.get("correspondence", 0) < 2:
                ctx.violation(case, {"stream": name, "impl": im[:3000], "model": mo[:3000], "spec": sp[:3000],
                                     "why": "correspondence:%s broken (implementation and model differ)" % name},
                              suffix="" if im != sp else "no-failing-input-found")
            seen["correspondence"] = seen.get("correspondence", 0) + 1
            continue
        if im == sp:
            continue
        ids = explain(meta, im, mo, sp)
        if ids is None or not ids:
            unexplained += 1
            if unexplained <= 2:
                ctx.violation(case, {"stream": name, "impl": im[:3000], "model": mo[:3000], "spec": sp[:3000], "reproducer": repro_of(ctx, case),
                                     "why": "implementation differs from the specification (listing / marked line / pending operation)"})
            continue
        for fid in sorted(ids):
            seen[fid] = seen.get(fid, 0) + 1
            if fid in reported:
                continue
            reported.add(fid)
            what, where, fix = FINDINGS[fid]
            if fid in ctx.findings:
                ctx.known(fid, ctx.findings[fid])
            else:
                ctx.violation(case, {"stream": name, "finding": fid, "what": what, "where": where, "proposed_fix": fix,
                                     "reproducer": repro_of(ctx, case), "impl": im[:3000], "spec": sp[:3000],
                                     "why": "implementation differs from the specification: " + fid})
    ctx.count(name, len(cases))
    ctx.traces += len(cases)
    ctx.notes.append({name: dict(seen)})
    return impl


def doc_cases():
    """the example transactions shipped in doc/txs"""
    repo = os.environ.get("VERIF_REPO", "/repo")
    d = os.path.join(repo, "doc/txs")
    out = []
    for stem in ("p2pkh", "p2sh-multisig-2-of-2", "p2sh-multisig-invalid-order", "p2sh-p2wpkh", "p2tr", "p2ts"):
        try:
            tx = open(os.path.join(d, stem + "-tx")).read().strip()
            txin = open(os.path.join(d, stem + "-in")).read().strip()
        except OSError:
            continue
        for cmds in ("s" * 24, "sssrssrrsssssssssssss"):
            out.append("LISTING S %s %s %s -1 %d 0 -" % (cmds, tx.encode().hex(), txin.encode().hex(), R.STD))
    return out


def run(ctx):
    rnd = random.Random(ctx.seed * 7919 + 12)
    quick = ctx.tier == "quick"
    plain = plain_stream(ctx, rnd, quick)
    spends = spend_cases(ctx, rnd, quick)
    mal = malformed_cases(ctx, rnd, quick)
    docs = doc_cases()
    # regression cases first: the shortest reproducers of the defects found in the first round (all repaired since)
    first = [(c, {"kind": "doc"}) for c in docs if c.split(" ")[2] == "s" * 24][-1:]                 # doc/txs/p2ts: taproot script path
    first.append((pline(bytes.fromhex("006955"), (), "csss", R.STD), {"label": "step-after-failure"}))
    first.append((pline(bytes.fromhex("8b51"), (bytes.fromhex("0102030405"),), "csr", R.STD), {"label": "rewind-after-exception"}))
    first.append((pline(P.push(b"\xab" * 515) + b"\x75\x51", (), "sss", R.STD), {"label": "long-push"}))
    three_way(ctx, "shortest-reproducers", first)
    impl_sp = three_way(ctx, "spends", spends + [(c, {"kind": "doc"}) for c in docs])
    impl_plain = three_way(ctx, "plain-scripts", [(c, {}) for c in plain])
    impl_mal = three_way(ctx, "malformed-and-failing", mal)
    # real binary under a pseudo-terminal, sample of every stream
    def sample(cases, impl, n):
        idx = list(range(len(cases)))
        rnd.shuffle(idx)
        idx = [i for i in idx if len(cases[i].split(" ")[2]) <= 60][:n]
        return [cases[i] for i in idx], [impl[i] for i in idx]
    n = 6 if quick else 40
    for cs, im in (sample(plain, impl_plain, n), sample([c for c, _ in spends] + docs, impl_sp, n), sample([c for c, _ in mal], impl_mal, n)):
        pty_compare(ctx, cs, [canon(x) for x in im])
    ctx.exhaustive = False
    ctx.notes.append("streams: plain scripts (every opcode, every push encoding, long pushes, complete {step,rewind} trees to depth %d, "
                     "generated scripts with walks), spends (all kinds of spendgen, taproot script paths of length 0..4%s, hand-built "
                     "scriptPubKey/P2SH/P2WSH sections, doc/txs), malformed / failing sessions; pty cross-check of %d sessions per stream"
                     % (7 if quick else 10, "" if quick else ",7,128", n))
    from . import c12dual; c12dual.run(ctx)          # the two-column display (print_dualstack)


def replay(ctx, case):
    if case.startswith("DUAL "): from . import c12dual; return c12dual.replay(ctx, case)
    print("impl :", ctx.harness([case])[0])
    print("model:", ctx.driver([case])[0])
    print("spec :", ctx.driver([case], "spec")[0])
    argv, cmds = argv_of(case)
    print("real binary under a pseudo-terminal:")
    got = pty_session(os.path.join(ctx.bin, "btcdeb"), argv, cmds)
    if got == "REFUSED":
        print("  REFUSED")
    else:
        for tag, marked, echo, lst in got:
            print("  %-3s marked=%s echo=%s" % (tag, marked[:100], echo[:100]))
        print("  listing:", ";".join(x[:80] for x in got[0][3]))
    print("reproduce:", repro_of(ctx, case))
