"""C13 — transaction decoding is lossless and identifiers are correct."""
import hashlib
import os
import random
import re
import sys
from . import runlib as R
sys.path.insert(0, os.path.join(os.path.dirname(os.path.dirname(os.path.abspath(__file__))), "harness"))
import ptyrun  # noqa: E402

REPO = os.environ.get("VERIF_REPO", "/repo")


def cs(n):
    if n < 253:
        return bytes([n])
    if n <= 0xffff:
        return b"\xfd" + n.to_bytes(2, "little")
    if n <= 0xffffffff:
        return b"\xfe" + n.to_bytes(4, "little")
    return b"\xff" + n.to_bytes(8, "little")


def ser_tx(tx, witness=True):
    """independent Python serialiser (BIP144)"""
    ver, vin, vout, lock = tx
    has_w = witness and any(i[3] for i in vin)
    out = ver.to_bytes(4, "little", signed=True)
    if has_w:
        out += b"\x00\x01"
    out += cs(len(vin))
    for (h, n, ss, seq, w) in [(i[0], i[1], i[2], i[4], i[3]) for i in vin]:
        out += h + n.to_bytes(4, "little") + cs(len(ss)) + ss + seq.to_bytes(4, "little")
    out += cs(len(vout))
    for (v, spk) in vout:
        out += v.to_bytes(8, "little", signed=True) + cs(len(spk)) + spk
    if has_w:
        for i in vin:
            out += cs(len(i[3]))
            for it in i[3]:
                out += cs(len(it)) + it
    out += lock.to_bytes(4, "little")
    return out


def rand_tx(rnd, big=False):
    lens = [0, 1, 2, 22, 23, 25, 34, 75, 76, 107, 252, 253, 254, 255, 256, 520] + ([65535, 65536] if big else [])
    nin = rnd.choice((1, 1, 1, 2, 3, 7))
    nout = rnd.choice((0, 1, 1, 2, 3, 5))
    wmode = rnd.choice(("none", "none", "all", "mixed"))
    vin = []
    for k in range(nin):
        w = []
        if wmode == "all" or (wmode == "mixed" and rnd.random() < 0.5):
            w = [bytes(rnd.randrange(256) for _ in range(rnd.choice((0, 1, 32, 33, 64, 71, 72, 300)))) for _ in range(rnd.choice((1, 2, 3, 5)))]
        ss = bytes(rnd.randrange(256) for _ in range(rnd.choice(lens)))
        vin.append((bytes(rnd.randrange(256) for _ in range(32)), rnd.choice((0, 1, 2, 0xffffffff, rnd.randrange(1 << 32))), ss, w,
                    rnd.choice((0, 1, 0xfffffffe, 0xffffffff, rnd.randrange(1 << 32)))))
    vout = [(rnd.choice((0, 1, 546, 2099999997690000, -1, (1 << 63) - 1, -(1 << 63), rnd.randrange(1 << 50))),
             bytes(rnd.randrange(256) for _ in range(rnd.choice(lens)))) for _ in range(nout)]
    ver = rnd.choice((1, 2, -1, 0, 0x7fffffff, -0x80000000, rnd.randrange(-(1 << 31), 1 << 31)))
    lock = rnd.choice((0, 1, 499999999, 500000000, 0xffffffff, rnd.randrange(1 << 32)))
    return (ver, vin, vout, lock)


def tx_line_py(tx):
    ser = ser_tx(tx, True)
    nw = ser_tx(tx, False)
    txid = hashlib.sha256(hashlib.sha256(nw).digest()).digest()[::-1].hex()
    ins = ";".join(f"{i[0].hex()}:{i[1]}:{i[2].hex()}:{i[4]}:" + ("-" if not i[3] else ".".join((w.hex() or "_") for w in i[3])) for i in tx[1])
    outs = ";".join(f"{v}:{spk.hex()}" for v, spk in tx[2])
    wit = 1 if any(i[3] for i in tx[1]) else 0
    return f"OK v={tx[0]} lock={tx[3]} wit={wit} in=[{ins}] out=[{outs}] ser={ser.hex()} nowit={nw.hex()} txid={txid} rest=0"


def run(ctx):
    rnd = random.Random(ctx.seed * 3 + 13)
    quick = ctx.tier == "quick"
    texts = []
    big_shape = {}
    big_texts = []     # hundreds of thousands of elements: implementation against the independent Python encoder only (the Lean voices take minutes on them)
    must_refuse = set()
    py_expected = {}
    # the real-chain transactions shipped with the repository
    d = os.path.join(REPO, "doc/txs")
    docs = []
    for f in sorted(os.listdir(d)):
        if f.endswith("-tx") or f.endswith("-in"):
            t = open(os.path.join(d, f)).read().strip()
            docs.append(t)
            texts.append(t)
    # generated transactions (independent Python serialiser as a third voice)
    gen = [rand_tx(rnd, big=(k % 40 == 0)) for k in range(250 if quick else 5000)]
    for tx in gen:
        h = ser_tx(tx).hex()
        texts.append(h)
        if tx[1] and not (not tx[1] and tx[2]):
            py_expected[h] = tx_line_py(tx)
    # counts across byte / compact-size boundaries: inputs, inputs carrying a witness, outputs, witness items
    def counted(n_in, n_wit, n_out, items=1):
        vin = []
        for k in range(n_in):
            w = [bytes([k & 0xff])] * items if k < n_wit else []
            vin.append((bytes([k & 0xff, k >> 8]) + bytes(30), k, b"", w, 0xffffffff))
        vout = [(k, b"\x51") for k in range(n_out)]
        return (2, vin, vout, 0)
    shapes = [(255, 255, 1), (256, 256, 1), (257, 257, 1), (300, 256, 1), (300, 255, 2), (512, 512, 1), (252, 252, 252), (253, 1, 253), (254, 253, 256),
              (1, 1, 255), (1, 1, 256), (1, 0, 65536 if not quick else 300)]
    for (a, b, c) in shapes:
        tx = counted(a, b, c)
        h = ser_tx(tx).hex()
        texts.append(h)
        py_expected[h] = tx_line_py(tx)
    # vectors longer than one allocation batch of the deserialiser (5,000,000 bytes / element size: 208,333 witness items, 125,000
    # outputs, 48,076 inputs): read in several batches, nothing lost at the seams
    big = [(1, 1, 1, 208333), (1, 1, 1, 208334), (2, 2, 1, 208334)] + ([] if quick else [(1, 0, 125000, 1), (1, 0, 125001, 1), (48076, 0, 1, 1), (48077, 1, 1, 1), (1, 1, 1, 416667)])
    for (a, b, c, items) in big:
        tx = counted(a, b, c, items)
        if items > 1000:      # empty witness items keep the text short
            tx = (tx[0], [(i[0], i[1], i[2], [b""] * len(i[3]), i[4]) for i in tx[1]], tx[2], tx[3])
        h = ser_tx(tx).hex()
        big_texts.append(h); big_shape[h] = {"inputs": a, "inputs_with_witness": b, "outputs": c, "witness_items_each": items, "items": "empty" if items > 1000 else "one byte"}
        py_expected[h] = tx_line_py(tx)
    for items in (252, 253, 256):
        tx = counted(2, 1, 1, items)
        h = ser_tx(tx).hex()
        texts.append(h)
        py_expected[h] = tx_line_py(tx)
    # corruptions
    base = docs + [ser_tx(t).hex() for t in gen[:40]]
    for h in base[: (20 if quick else 200)]:
        raw = bytes.fromhex(h)
        step = max(1, len(raw) // (40 if quick else 400))
        for k in range(0, len(raw), step):
            texts.append(raw[:k].hex())                       # every (sampled) truncation
        for pos in list(range(0, min(12, len(raw)))) + [len(raw) - 5, len(raw) - 1]:
            for v in (0, 1, 2, 3, 0xfc, 0xfd, 0xfe, 0xff):
                m = bytearray(raw); m[pos] = v
                texts.append(bytes(m).hex())
        texts.append(h + "00")
        # the text is hex digits in pairs: a dangling digit behind a complete encoding is not part of any byte
        for tail in ("0", "f", "7", "a0b", "0 ", " 0", "00 0", "g", "0g", "\t1"):
            texts.append(h + tail); must_refuse.add(h + tail)
        texts.append(h + h[:8])
        texts.append(h[:-1])
        texts.append(" ".join(h[i:i + 2] for i in range(0, min(len(h), 200), 2)) + h[200:])
        texts.append(h.upper())
        texts.append(h[:10] + "zz" + h[12:])
    # non-canonical compact sizes WITH the payload they announce (the length field of a scriptSig / scriptPubKey / witness item)
    def tx_with_len_enc(L, enc, where):
        pay = bytes([0x6a]) * L
        ver = (2).to_bytes(4, "little")
        inp = bytes(32) + (0).to_bytes(4, "little")
        ss = (enc + pay) if where == "scriptsig" else b"\x00"
        spk = (enc + pay) if where == "spk" else b"\x01\x51"
        body = ver + (b"\x00\x01" if where == "witness" else b"") + b"\x01" + inp + ss + b"\xff\xff\xff\xff" + b"\x01" + (1000).to_bytes(8, "little") + spk
        if where == "witness":
            body += b"\x01" + enc + pay
        return (body + (0).to_bytes(4, "little")).hex()
    for L in (0, 1, 100, 251, 252, 253, 254, 255, 256, 65535, 65536):
        encs = [b"\xfd" + L.to_bytes(2, "little")] if L <= 0xffff else []
        encs += [b"\xfe" + L.to_bytes(4, "little"), b"\xff" + L.to_bytes(8, "little")]
        if L < 253: encs.append(bytes([L]))
        for enc in encs:
            for where in ("scriptsig", "spk", "witness"):
                if L > 10000 and quick and where != "scriptsig":
                    continue
                texts.append(tx_with_len_enc(L, enc, where))
    # non-canonical compact sizes in the input count
    for enc in ("fd0100", "fdfc00", "fe01000000", "feffff0000", "ff0100000000000000", "fe00000003", "ffffffffffffffffff"):
        texts.append("01000000" + enc + "00" * 41 + "00" + "00000000")
    lines = ["TXPARSE " + (t.encode().hex() or "-") for t in texts]
    impl = ctx.harness_sharded(lines)
    model = ctx.driver_sharded(lines, "model")
    spec = ctx.driver_sharded(lines, "spec")
    ctx.compare("txparse", lines, impl, model, spec, nontrivial=lambda c, i: i.startswith("OK"))
    # third voice: the independent Python encoder / txid
    for t, l, i in zip(texts, lines, impl):
        if t in py_expected and i != py_expected[t]:
            ctx.violation(l, {"why": "decoded fields / txid / re-encoding differ from the independent encoder", "impl": i, "python": py_expected[t]})
    ctx.count("python-third-voice", len(py_expected))
    bl = ["TXPARSE " + t.encode().hex() for t in big_texts]
    for t, l, i in zip(big_texts, bl, ctx.harness_sharded(bl)):
        ctx.count("txparse-batches", 1)
        ctx.nontrivial.add("big:%d" % len(t))
        if i != py_expected[t]:
            ctx.violation(l[:200] + "...", {"why": "a transaction with a vector longer than one deserialiser batch is not decoded / re-encoded / identified as the independent encoder says",
                                            "length_hex": len(t), "shape (checks/c13.py counted())": big_shape[t], "impl": i[:300], "python": py_expected[t][:300]})
    for t, l, i in zip(texts, lines, impl):
        if t in must_refuse and i.startswith("OK"):
            ctx.violation(l, {"why": "a transaction text with a dangling hex digit / trailing junk behind a complete encoding was accepted", "impl": i, "text_tail": t[-12:]})
    # amounts
    am = ["0", "1", "-1", "0.1", "1.5", "0.00000001", "0.000000001", "21000000", "20999999.9769", "1.", ".5", "00", "01", "1e8", "1e-8", "1E+2",
          " 1", "1 ", "+1", "--1", "-0", "-0.0", "0.0", "92233720368.54775807", "92233720368.54775808", "9999999999.99999999", "10000000000",
          "1.2.3", "1,2", "", "-", ".", "0x10", "1e", "1e+", "123456789012345678", "0.12345678", "0.123456789", "12345678.12345678"]
    for _ in range(2000 if quick else 100000):
        ip = str(rnd.choice((0, 1, 7, 21, 999, rnd.randrange(10 ** rnd.randrange(1, 12)))))
        fd = rnd.randrange(0, 11)
        fp = "".join(rnd.choice("0123456789") for _ in range(fd))
        s = rnd.choice(("", "", "-")) + ip + (("." + fp) if fd or rnd.random() < 0.05 else "")
        am.append(s)
    # scientific notation: every combination of fraction / trailing zeros in the mantissa with a signed exponent
    am += ["8947.024E-3", "89470240e-7", "89.47024e-1", "894702400e-8", "0.8947024e1", "8947024e-6", "1.50e-1", "100e-2", "1.0e0", "10.0e-1", "0.10e1", "1200e-4", "1.2e-9",
           "120e-10", "1e-0", "1e+0", "5e-8", "50e-9", "0.5e-7", "1e18", "1e19", "92233720368.54775807e0", "9223372036854775807e-8", "9223372036854775808e-8"]
    for _ in range(1500 if quick else 60000):
        ip = str(rnd.choice((0, 1, 7, 12, 100, 1200, rnd.randrange(10 ** rnd.randrange(1, 10)))))
        fp = "".join(rnd.choice("0123456789") for _ in range(rnd.randrange(0, 7))) + rnd.choice(("", "", "0", "00"))
        ex = rnd.randrange(-12, 12)
        am.append(rnd.choice(("", "", "-")) + ip + (("." + fp) if fp else "") + rnd.choice("eE") + rnd.choice(("", "+") if ex >= 0 else ("",)) + str(ex))
    alines = ["AMOUNT " + (a.encode().hex() or "-") for a in am]
    impl = ctx.harness_sharded(alines)
    model = ctx.driver_sharded(alines, "model")
    spec = ctx.driver_sharded(alines, "spec")
    ctx.compare("amounts", alines, impl, model, spec, nontrivial=lambda c, i: i.startswith("OK"))
    # independent exact conversion for the plain decimal grammar
    for a, l, i in zip(am, alines, impl):
        m = re.fullmatch(r"(-?)(0|[1-9][0-9]*)(?:\.([0-9]{1,8}))?", a)
        if m:
            v = int(m.group(2)) * 10 ** 8 + (int(m.group(3).ljust(8, "0")) if m.group(3) else 0)
            if v < 10 ** 18:
                want = "OK " + str(-v if m.group(1) and v else v)
                if i.replace("OK -0", "OK 0") != want:
                    ctx.violation(l, {"why": "amount not converted to satoshis exactly", "impl": i, "expected": want, "text": a})
    # independent exact conversion of the scientific forms (decimal arithmetic)
    from decimal import Decimal, getcontext
    getcontext().prec = 60
    for a, l, i in zip(am, alines, impl):
        m = re.fullmatch(r"(-?)(0|[1-9][0-9]*)(?:\.([0-9]+))?[eE]([+-]?[0-9]+)", a)
        if m and abs(int(m.group(4))) <= 30:
            v = Decimal(m.group(2) + ("." + m.group(3) if m.group(3) else "")) * (Decimal(10) ** (int(m.group(4)) + 8))
            if v == v.to_integral_value() and v < 10 ** 18:
                want = "OK " + str(-int(v) if m.group(1) and int(v) else int(v))
                # (refusals of exotic spellings — a zero mantissa with a large negative exponent — are the parser's domain, decided by the
                #  three-way comparison above; the oracle speaks about values, and about refusals only for plain exponents of non-zero amounts)
                refusal_counts = i.startswith("ERR") and v != 0 and abs(int(m.group(4))) <= 8
                if (i.startswith("OK") and i.replace("OK -0", "OK 0") != want) or refusal_counts:
                    ctx.violation(l, {"why": "amount in scientific notation not converted to satoshis exactly", "impl": i, "expected": want, "text": a})
            elif v != v.to_integral_value() and i.startswith("OK"):
                ctx.violation(l, {"why": "an amount with more than 8 decimal places after scaling was accepted", "impl": i, "text": a})
    # --tx argument with amount prefix
    xs = []
    for h in docs[:6] + [ser_tx(t).hex() for t in gen[:30]]:
        for pre in ("", "0.1:", "0.1,0.002:", "1,2,3,4,5,6,7,8,9:", "abc:", "1.5", ":", "1:", ",:", "0.123456789:"):
            xs.append(pre + h)
        xs.append(h + "0"); xs.append("0.1:" + h + "f"); xs.append(h + "0 ")
    xlines = ["TXARG " + x.encode().hex() for x in xs]
    impl = ctx.harness_sharded(xlines)
    model = ctx.driver_sharded(xlines, "model")
    ctx.compare("tx-argument", xlines, impl, model, None, nontrivial=lambda c, i: i.startswith("OK"))
    # every place the tools display a txid shows the identifier of the transaction they name: the -v lines and the diagnostic for a --txin that
    # the --tx does not spend (the two transactions named there are an input transaction and a provided transaction)
    import hashlib
    sys_path_h = os.path.join(os.path.dirname(os.path.dirname(os.path.abspath(__file__))), "harness")
    import sys as _sys
    if sys_path_h not in _sys.path: _sys.path.insert(0, sys_path_h)
    import ptyrun
    def txid_of(t): return hashlib.sha256(hashlib.sha256(ser_tx(t, witness=False)).digest()).digest()[::-1].hex()
    shown = [t for t in gen[:12] if len(t[1]) >= 1]
    for k in range(0, len(shown) - 1, 2):
        ta, tb = shown[k], shown[k + 1]
        if any(i[0] == bytes.fromhex(txid_of(tb))[::-1] for i in ta[1]): continue
        rc, out, err = ptyrun.run([os.path.join(ctx.bin, "btcdeb"), "--tx=" + ser_tx(ta).hex(), "--txin=" + ser_tx(tb).hex()], "pipe", "pipe", "")
        ma = re.search(r"provided transaction ([0-9a-f]{64})", err); mb = re.search(r"input transaction ([0-9a-f]{64})", err)
        ctx.count("displayed-txids", 1); ctx.nontrivial.add("dtx:%d" % k)
        if not (ma or mb):
            continue        # refused earlier (e.g. a transaction without inputs): no txid is displayed
        if rc == 0 or not ma or not mb or ma.group(1) != txid_of(ta) or mb.group(1) != txid_of(tb):
            ctx.violation("btcdeb --tx=%s --txin=%s" % (ser_tx(ta).hex(), ser_tx(tb).hex()),
                          {"stream": "displayed-txids", "rc": rc, "stderr": err[-400:], "txid_tx": txid_of(ta), "txid_txin": txid_of(tb),
                           "why": "the diagnostic for a --txin that --tx does not spend must name each transaction by its own txid"})
        rc, out, err = ptyrun.run([os.path.join(ctx.bin, "btcdeb"), "-v", "--tx=" + ser_tx(ta).hex(), "--txin=" + ser_tx(tb).hex()], "tty", "tty", "\x04")
        text = out + err
        mg = re.search(r"got (?:segwit )?transaction ([0-9a-f]{64})", text)
        if not mg or mg.group(1) != txid_of(ta):
            ctx.violation("btcdeb -v --tx=%s --txin=%s" % (ser_tx(ta).hex(), ser_tx(tb).hex()),
                          {"stream": "displayed-txids", "shown": mg.group(1) if mg else None, "txid_tx": txid_of(ta), "why": "-v shows a txid that is not the transaction's"})
    # tap parses --tx, fills in a witness and serialises it again: every other field comes back as given (version, sequences, outputs, lock time)
    from . import c06
    tapbin = os.path.join(ctx.bin, "tap")
    done_nonzero = 0
    for rep in range(40):
        key = c06.rand_key(rnd); scripts = c06.rand_scripts(rnd, 2)
        c = c06.Case(key, scripts, (rep % 2, []), "bcrt", rep % 3, seed=rnd.randrange(1 << 30))
        pl = c06.python_line(key, scripts, None)
        m = re.match(r"key=([0-9a-f]{64}) ", pl or "")
        if not m: continue
        txs = c06.funding_txs(c.seed, bytes.fromhex(m.group(1)), c.vout, c.extra)
        if txs[1][3] == 0 and done_nonzero < 4 and rep < 36: continue      # want lock times other than 0
        c06.exec_case(tapbin, c, bytes.fromhex(m.group(1)))
        t_out = (c.side or {}).get("tx")
        ctx.count("tap-reserialise", 1)
        strip = lambda t: (t[0], [(bytes(i[0]), i[1], bytes(i[2]), i[3]) for i in t[1]], [(o[0], bytes(o[1])) for o in t[2]], t[3])
        if not t_out or strip(t_out) != strip(txs[1]):
            ctx.violation(c.line, {"stream": "tap-reserialise", "impl": c.impl, "given": repr(strip(txs[1]))[:400], "printed": repr(strip(t_out))[:400] if t_out else None,
                                   "why": "the transaction tap prints differs from the one it was given in more than the witness"})
        ctx.nontrivial.add("tapser:%d:%d" % (txs[1][3], txs[1][0]))
        if txs[1][3] != 0: done_nonzero += 1
        if done_nonzero >= 4 and rep >= 8: break


def replay(ctx, case):
    print("impl :", ctx.harness([case])[0])
    print("model:", ctx.driver([case])[0])
    print("spec :", ctx.driver([case], "spec")[0])
