"""C03 — a --tx/--txin session reproduces consensus validation of that input."""
import os
import random
import re
import sys
from . import runlib as R
from . import pyref as P
from . import spendgen as S

REPO = os.environ.get("VERIF_REPO", "/repo")
FB = R.FLAG_BITS


def verdict_of_impl(line, flags):
    """what the finished session amounts to (the rule is also Driver.sessionVerdict)"""
    if line.startswith("REFUSED") or line.startswith("CRASH") or line.startswith("DIED") or line.startswith("EXIT"):
        return "INVALID"
    m = re.search(r"sigver=(\d+) .* end=(\S+) final=(\S*)", line)
    if not m:
        return "?" + line[:40]
    sv, end, fin = int(m.group(1)), m.group(2), m.group(3)
    if end != "OK":
        return "INVALID"
    items = fin.split(",") if fin != "" else [""]
    # join_items prints an empty stack and a stack holding one empty item alike: both are invalid
    top = items[-1]
    b = bytes.fromhex(top) if top else b""
    truthy = any(x != 0 for x in b[:-1]) or (len(b) > 0 and b[-1] not in (0, 0x80))
    if not truthy:
        return "INVALID"
    if (sv != 0 or (flags >> FB["CLEANSTACK"]) & 1) and len(items) != 1:
        return "INVALID"
    return "VALID"


def norm(v):
    v = v.replace("verdict=", "")
    return "VALID" if v == "VALID" else "INVALID"


def region(case_meta):
    """known-finding regions, decided from how the case was built"""
    return case_meta.get("finding")


def gen(ctx, rnd, quick):
    cases = []   # (line, meta)
    flagsets = [R.STD] * 6 + [R.STD & ~(1 << FB["CLEANSTACK"]), R.STD & ~(1 << FB["NULLFAIL"]), R.STD & ~(1 << FB["LOW_S"]),
                              R.STD | (1 << FB["SIGPUSHONLY"]), R.STD & ~(1 << FB["WITNESS_PUBKEYTYPE"]), R.STD & ~(1 << FB["MINIMALIF"])]
    n = 25 if quick else 600
    for kind in S.KINDS:
        for rep in range(n):
            s = S.build(rnd, kind)
            fl = rnd.choice(flagsets)
            cases.append((S.spend_line(s.tx, s.txin, fl), {"kind": kind, "label": "valid", "built_valid": s.valid, "flags": fl}))
            tx2, f2, lab = S.mutate(rnd, s)
            cases.append((S.spend_line(tx2, f2, fl), {"kind": kind, "label": lab, "flags": fl}))
            # explicit selection: the right index, and a wrong one (must be refused when it does not reference the funding tx)
            cases.append((S.spend_line(s.tx, s.txin, fl, select=s.idx), {"kind": kind, "label": "select-right", "built_valid": s.valid, "flags": fl}))
            if len(s.tx[1]) > 1:
                wrong = (s.idx + 1) % len(s.tx[1])
                cases.append((S.spend_line(s.tx, s.txin, fl, select=wrong), {"kind": kind, "label": "select-wrong", "flags": fl}))
            cases.append((S.spend_line(s.tx, s.txin, fl, select=len(s.tx[1]) + rnd.randrange(3)), {"kind": kind, "label": "select-out-of-range", "flags": fl}))
    # hash-type bytes outside the six defined ones: consensus-valid for ECDSA when STRICTENC is off (the mode is byte & 0x1f,
    # ANYONECANPAY is bit 7); with STRICTENC they are refused before hashing
    for kind in S.KINDS:
        if kind.startswith("p2tr"): continue
        for rep in range(6 if quick else 120):
            ht = rnd.choice((0, 4, 6, 7, 0x12, 0x13, 0x1b, 0x1e, 0x1f, 0x20, 0x22, 0x43, 0x86, 0x87, 0x9b, 0xe2, 0xff, rnd.randrange(256)))
            s = S.build(rnd, kind, {"hashtype": ht})
            fl = rnd.choice((R.STD & ~(1 << FB["STRICTENC"]), R.STD & ~(1 << FB["STRICTENC"]), R.STD, 0))
            strict_refuses = bool(fl >> FB["STRICTENC"] & 1) and ht not in (1, 2, 3, 0x81, 0x82, 0x83)
            cases.append((S.spend_line(s.tx, s.txin, fl), {"kind": kind, "label": "odd-hashtype-refused" if strict_refuses else "valid",
                                                          "built_valid": s.valid and not strict_refuses and fl != 0, "flags": fl}))
    # structure at its limits: a spending transaction without outputs, the spent input beyond the last output (SIGHASH_SINGLE)
    for kind in S.KINDS:
        for ht in (1, 2, 3, 0x81, 0x82, 0x83) + ((0,) if kind.startswith("p2tr") else ()):
            for n_out in ((0, 1) if not quick or ht in (3, 0x83, 1) else (0,)):
                try: s = S.build(rnd, kind, {"hashtype": ht, "n_out": n_out, "n_in": 1 if (n_out == 0 or kind.startswith("p2tr")) else 3, "idx": 0 if (n_out == 0 or kind.startswith("p2tr")) else 2})
                except Exception as e:
                    continue
                cases.append((S.spend_line(s.tx, s.txin, R.STD), {"kind": kind, "label": "outputs=%d ht=%02x" % (n_out, ht), "built_valid": s.valid, "flags": R.STD}))
    # lock-time opcodes look at the input being validated (its own sequence number) and at the transaction (version, lock time): every
    # combination of this input's and another input's finality, BIP65 and BIP112, bare and P2WSH
    def lock_tx(spk, wit, ver, lock, seqs, idx):
        ftx = (1, [(rb(rnd, 32), 0, b"", [], 0xffffffff)], [(1000, spk)], 0)
        vin = []
        for j, sq in enumerate(seqs):
            vin.append((P.txid(ftx), 0, b"", list(wit), sq) if j == idx else (rb(rnd, 32), j, b"", [], sq))
        return (ver, vin, [(900, rb(rnd, 22))], lock), ftx
    SEQS = (0xffffffff, 0xfffffffe, 0, 10, 0x400005, 0x80000005)
    for (name, scr, ver, lock) in (("cltv", R.pushnum(500) + bytes([0xb1]), 1, 600), ("cltv-unmet", R.pushnum(700) + bytes([0xb1]), 1, 600),
                                   ("cltv-time", R.pushnum(500000001) + bytes([0xb1]), 2, 500000002), ("csv", R.pushnum(5) + bytes([0xb2]), 2, 0),
                                   ("csv-v1", R.pushnum(5) + bytes([0xb2]), 1, 0), ("csv-time", R.pushnum(0x400003) + bytes([0xb2]), 2, 0),
                                   # the version is an unsigned 32-bit number for BIP68/112: top bit set means "at least 2"
                                   ("csv-vffffffff", R.pushnum(5) + bytes([0xb2]), -1, 0), ("csv-v80000002", R.pushnum(5) + bytes([0xb2]), -2147483646, 0),
                                   ("csv-v7fffffff", R.pushnum(5) + bytes([0xb2]), 0x7fffffff, 0), ("csv-v0", R.pushnum(5) + bytes([0xb2]), 0, 0),
                                   ("cltv-vffffffff", R.pushnum(500) + bytes([0xb1]), -1, 600)):
        for a in SEQS:
            for b in (SEQS if not quick else SEQS[:3]):
                for idx in (0, 1):
                    for segwit in (False, True):
                        spk = (b"\x00\x20" + P.sha256(scr)) if segwit else scr
                        tx_, ftx_ = lock_tx(spk, [scr] if segwit else [], ver, lock, [a, b] if idx == 0 else [b, a], idx)
                        cases.append((S.spend_line(tx_, ftx_, R.STD & ~(1 << FB["CLEANSTACK"])), {"kind": "custom", "label": "locktime-" + name, "flags": R.STD & ~(1 << FB["CLEANSTACK"])}))
    # the amount comes from the referenced output of --txin, whatever amount prefix --tx carries
    for kind in ("p2wpkh", "p2wsh", "p2sh-p2wpkh", "p2sh-p2wsh", "p2pkh", "p2tr-key"):
        for am in (["0.5"], ["0.00000001"], ["0"], ["21000000"], ["1", "2", "3"]):
            s = S.build(rnd, kind, {"n_in": 1})
            cases.append((S.spend_line(s.tx, s.txin, R.STD, amounts=am), {"kind": kind, "label": "amount-prefix", "built_valid": s.valid, "flags": R.STD}))
        s = S.build(rnd, kind, {"n_in": 1 if kind.startswith("p2tr") else 3, "idx": 0 if kind.startswith("p2tr") else 1})
        cases.append((S.spend_line(s.tx, s.txin, R.STD, amounts=["0.5", "0.25"]), {"kind": kind, "label": "amount-prefix", "built_valid": s.valid, "flags": R.STD}))
    # hand-built scripts: the rules around the scripts rather than inside them
    def add(name, spk, ss=b"", wit=(), flags=R.STD, finding=None, **kw):
        tx, ftx = S.custom(rnd, spk, ss, wit, **kw)
        cases.append((S.spend_line(tx, ftx, flags), {"kind": "custom", "label": name, "flags": flags, "finding": finding}))
    NOPUSH = R.STD & ~(1 << FB["SIGPUSHONLY"])
    NOCLEAN = R.STD & ~(1 << FB["CLEANSTACK"])
    for rep in range(3 if quick else 30):
        v = bytes([rnd.randrange(0x10, 0x9a)]) if rnd.random() < 0.5 else bytes(rnd.choice((0x11, 0x12, 0x34, 0x56, 0x78, 0x99)) for _ in range(rnd.choice((1, 2, 3))))
        ws = P.push(v) + bytes([0x87])
        add("p2wsh-decimal-looking-item", b"\x00\x20" + P.sha256(ws), b"", [v, ws])
        add("altstack-carry", bytes([0x6c]), bytes([0x51, 0x6b]), flags=NOPUSH)
        add("cond-carry", bytes([0x51, 0x68]), bytes([0x51, 0x63]), flags=NOPUSH)
        add("sigpushonly", bytes([0x61]), bytes([0x51, 0x76, 0x75]))
        add("scriptsig-ops-allowed", bytes([0x61]), bytes([0x51, 0x76, 0x75]), flags=NOPUSH & NOCLEAN)
        red = bytes([0x51])
        p2sh = lambda r: bytes([0xa9, 20]) + P.hash160(r) + bytes([0x87])
        add("p2sh-nonpush-scriptsig", p2sh(red), bytes([0x61]) + P.push(red), flags=NOPUSH)
        add("p2sh-plain", p2sh(red), P.push(red))
        add("p2sh-false-redeem", p2sh(b"\x00"), P.push(b"\x00"))
        add("p2sh-extra-items", p2sh(red), P.push(b"\x07") + P.push(red))
        add("p2sh-extra-items-noclean", p2sh(red), P.push(b"\x07") + P.push(red), flags=NOCLEAN)
        add("p2sh-wrong-hash", bytes([0xa9, 20]) + rb(rnd, 20) + bytes([0x87]), P.push(red))
        # a version-1 32-byte program wrapped in P2SH is NOT taproot (BIP341): anyone can spend, unless upgradable programs are discouraged
        v1 = b"\x51\x20" + P.xonly(7)
        add("p2sh-wrapped-v1-program", p2sh(v1), P.push(v1), [b"\x01" * 64],
            flags=R.STD & ~(1 << FB["DISCOURAGE_UPGRADABLE_WITNESS_PROGRAM"]), finding="F-C03-p2sh-wrapped-v1")
        add("p2sh-wrapped-v1-program-discouraged", p2sh(v1), P.push(v1), [b"\x01" * 64])
        inner = bytes.fromhex("5152935387"); red2 = p2sh(inner)
        add("p2sh-not-recursive", p2sh(red2), P.push(inner) + P.push(red2))
        add("p2sh-not-recursive-false-inner", p2sh(p2sh(b"\x00")), P.push(b"\x00") + P.push(p2sh(b"\x00")))
        add("p2sh-flag-off", p2sh(b"\x00"), P.push(b"\x00"), flags=R.STD & ~(1 << FB["P2SH"]) & ~(1 << FB["CLEANSTACK"]) & ~(1 << FB["WITNESS"]) & ~(1 << FB["TAPROOT"]))
        # limits are per script: the operation count restarts with the scriptPubKey and with the redeem script
        add("opcount-per-script", bytes([0x61]) * 200 + bytes([0x51]), bytes([0x61]) * 201, flags=NOPUSH)
        add("opcount-per-script-exceeded", bytes([0x61]) * 202 + bytes([0x51]), bytes([0x61]) * 201, flags=NOPUSH)
        add("opcount-scriptsig-exceeded", bytes([0x51]), bytes([0x61]) * 202, flags=NOPUSH)
        red201 = bytes([0x61]) * 201 + bytes([0x51])
        add("opcount-redeem-restarts", p2sh(red201), P.push(red201))
        add("stack-carries-over", bytes([0x75]) * 998 + bytes([0x51]) if False else bytes([0x6d]) * 499 + bytes([0x75]), bytes([0x51]) * 1000, flags=NOCLEAN)
        add("stack-limit-across", bytes([0x51]), bytes([0x51]) * 1000, flags=NOCLEAN)
        add("undefined-opcode-in-dead-branch", bytes([0x51, 0x87]), bytes([0x00, 0x63, rnd.choice((0xbb, 0xc0, 0xfe)), 0x68, 0x51]), flags=NOPUSH, finding="F-C03-undefined-opcode-refused")
        add("empty-scriptpubkey-sigpushonly", b"", bytes([0x51, 0x61]), flags=(R.STD | (1 << FB["SIGPUSHONLY"])) & ~(1 << FB["CLEANSTACK"]), finding="F-C03-empty-scriptpubkey")
        add("empty-scriptpubkey", b"", bytes([0x51, 0x61]), finding="F-C03-empty-scriptpubkey")
        wsf = bytes([0x00])
        add("witness-flag-off", b"\x00\x20" + P.sha256(wsf), b"", [wsf],
            flags=R.STD & ~(1 << FB["WITNESS"]) & ~(1 << FB["CLEANSTACK"]) & ~(1 << FB["TAPROOT"]), finding="F-C03-witness-flag-off")
        # push-size limit applies to every push of every script, executed or not (the scriptPubKey is not pre-screened)
        for nbytes in (519, 520, 521, 600):
            blob = P.push(rb(rnd, nbytes))
            add("spk-unexecuted-push-%d" % nbytes, bytes([0x00, 0x63]) + blob + bytes([0x68, 0x51]))
            add("spk-executed-push-%d" % nbytes, blob + bytes([0x75, 0x51]))
            add("scriptsig-push-%d" % nbytes, bytes([0x75, 0x51]), blob)
        # SIGPUSHONLY (not part of the standard flags) and the script size limit are independent
        PUSHONLY = R.STD | (1 << FB["SIGPUSHONLY"])
        bigsig = (bytes([0x4d, 0xf4, 0x01]) + rb(rnd, 500)) * 20      # 10060 bytes, push-only
        oksig = (bytes([0x4d, 0xf4, 0x01]) + rb(rnd, 500)) * 19 + P.push(rb(rnd, 440))   # 9999 bytes
        for fl, nm in ((R.STD & ~(1 << FB["CLEANSTACK"]), "std"), (PUSHONLY & ~(1 << FB["CLEANSTACK"]), "pushonly")):
            add("oversize-pushonly-scriptsig-" + nm, bytes([0x51]), bigsig, flags=fl)
            add("maxsize-pushonly-scriptsig-" + nm, bytes([0x51]), oksig + bytes([0x00]) * 1, flags=fl)
            add("nonpush-scriptsig-" + nm, bytes([0x61]), bytes([0x51, 0x76, 0x75]), flags=fl)
            add("oversize-nonpush-scriptsig-" + nm, bytes([0x51]), bigsig + bytes([0x61]), flags=fl)
        # the refusal branches of configure_tx_txin (each must coincide with an input validation rejects)
        wsx = bytes([0x51])
        add("witness-truncated-scriptsig", p2sh(b"\x00\x20" + P.sha256(wsx)), bytes([0x4c]), [wsx])
        add("witness-scriptsig-op0", p2sh(b"\x00\x20" + P.sha256(wsx)), bytes([0x00]), [wsx])
        add("witness-scriptsig-spk-truncated", bytes([0xa9, 0x14]) + rb(rnd, 10), P.push(b"\x00\x20" + P.sha256(wsx)), [wsx])
        add("witness-scriptsig-spk-not-hash160", bytes([0xa8, 0x14]) + rb(rnd, 20) + bytes([0x87]), P.push(b"\x00\x20" + P.sha256(wsx)), [wsx])
        add("witness-program-inner-length", bytes([0x00, 0x13]) + rb(rnd, 19) + bytes([0x61]), b"", [b"\x01", b"\x02"])
        add("witness-program-inner-length-34", bytes([0x00, 0x1f]) + rb(rnd, 31) + bytes([0x61]), b"", [wsx])
        add("witness-version-1negate", bytes([0x4f, 0x14]) + rb(rnd, 20), b"", [b"\x01", b"\x02"])
        add("witness-version-16", bytes([0x60, 0x14]) + rb(rnd, 20), b"", [b"\x01"], flags=R.STD & ~(1 << FB["DISCOURAGE_UPGRADABLE_WITNESS_PROGRAM"]), finding="F-C03-future-witness-version")
        add("witness-v1-20-bytes", bytes([0x51, 0x14]) + rb(rnd, 20), b"", [b"\x01"], flags=R.STD & ~(1 << FB["DISCOURAGE_UPGRADABLE_WITNESS_PROGRAM"]), finding="F-C03-future-witness-version")
        add("p2wsh-script-with-undefined-opcode-executed", b"\x00\x20" + P.sha256(bytes([0xfe])), b"", [bytes([0xfe])])
        txu, ftxu = S.custom(rnd, bytes([0x51]))
        txu = (txu[0], [(rb(rnd, 32),) + tuple(txu[1][0][1:])], txu[2], txu[3])
        cases.append((S.spend_line(txu, ftxu, R.STD), {"kind": "custom", "label": "funding-tx-not-referenced", "flags": R.STD}))
        s6 = S.build(rnd, "p2tr-script", {"leaf_script": bytes([0x75]) * 1000 + bytes([0x51]), "leaf_args": [b"\x01"] * rnd.choice((1000, 1001)), "annex": False})
        cases.append((S.spend_line(s6.tx, s6.txin, R.STD), {"kind": "p2tr-script", "label": "tapscript-1000-or-1001-items", "flags": R.STD}))
        add("bare-true", bytes([0x51]))
        add("bare-false", bytes([0x00]))
        add("bare-empty-stack", bytes([0x61]))
        add("bare-two-items", bytes([0x51, 0x51]))
        add("bare-two-items-noclean", bytes([0x51, 0x51]), flags=NOCLEAN)
        add("empty-witness-v0-program", b"\x00\x14" + rb(rnd, 20), flags=NOCLEAN, finding="F-C03-empty-witness")
        add("empty-witness-v0-program-std", b"\x00\x14" + rb(rnd, 20))
        add("empty-witness-v1-program", b"\x51\x20" + rb(rnd, 32), flags=NOCLEAN, finding="F-C03-empty-witness")
        add("p2sh-wrapped-bad-hash-length", bytes([0xa9, 19]) + rb(rnd, 19) + bytes([0x87]), P.push(b"\x00\x14" + rb(rnd, 20)), [b"\x01", b"\x02"])
        add("witness-on-non-witness-output", bytes([0x51]), b"", [b"\x01"])
        add("native-witness-with-scriptsig", b"\x00\x14" + rb(rnd, 20), bytes([0x51]), [b"\x01", b"\x02"])
        ws = bytes([0x51])
        add("p2wsh-true", b"\x00\x20" + P.sha256(ws), b"", [ws])
        # a witness script / tapscript leaf that merely LOOKS like a P2SH scriptPubKey is an ordinary script
        pre = rnd.choice((b"\x00", b"\x51", b"\x61", b"\x6a"))
        shape = bytes([0xa9, 20]) + P.hash160(pre) + bytes([0x87])
        add("p2wsh-p2sh-shaped-script", b"\x00\x20" + P.sha256(shape), b"", [pre, shape])
        s3 = S.build(rnd, "p2tr-script", {"leaf_script": shape, "leaf_args": [pre], "annex": False})
        cases.append((S.spend_line(s3.tx, s3.txin, R.STD), {"kind": "p2tr-script", "label": "tapscript-p2sh-shaped-leaf", "flags": R.STD}))
        add("p2wsh-extra-item", b"\x00\x20" + P.sha256(ws), b"", [b"\x07", ws])
        # the 520-byte limit is about stack items: the revealed script, the control block and the annex may be longer
        for nrep in (6, 7, 8, 40, 128):
            bigws = (P.push(rb(rnd, 75)) + bytes([0x75])) * nrep + bytes([0x51])        # 463, 540, 617, 3081, 9857 bytes
            add("p2wsh-script-%d-bytes" % len(bigws), b"\x00\x20" + P.sha256(bigws), b"", [bigws])
        bigws = (P.push(rb(rnd, 75)) + bytes([0x75])) * 130 + bytes([0x51])              # above 10000: refused by both
        add("p2wsh-script-over-10000", b"\x00\x20" + P.sha256(bigws), b"", [bigws])
        bigleaf = (P.push(rb(rnd, 75)) + bytes([0x75])) * rnd.choice((7, 9, 140)) + bytes([0x51])
        s4 = S.build(rnd, "p2tr-script", {"leaf_script": bigleaf, "leaf_args": [], "annex": False, "path_len": rnd.choice((0, 16, 17, 20))})
        cases.append((S.spend_line(s4.tx, s4.txin, R.STD), {"kind": "p2tr-script", "label": "tapscript-long-leaf-long-path", "built_valid": True, "flags": R.STD}))
        s5 = S.build(rnd, "p2tr-script", {"path_len": rnd.choice((16, 31, 128)), "annex": False})
        cases.append((S.spend_line(s5.tx, s5.txin, R.STD), {"kind": "p2tr-script", "label": "tapscript-long-path", "built_valid": s5.valid, "flags": R.STD}))
        add("p2wsh-wrong-hash", b"\x00\x20" + rb(rnd, 32), b"", [ws])
        big = bytes([0x75, 0x51])
        add("p2wsh-oversize-item", b"\x00\x20" + P.sha256(big), b"", [b"\x01" * 521, big], finding=None)
        add("p2wsh-maxsize-item", b"\x00\x20" + P.sha256(big), b"", [b"\x01" * 520, big])
        redw = b"\x00\x20" + P.sha256(ws)
        add("p2sh-p2wsh-true", p2sh(redw), P.push(redw), [ws])
        add("p2sh-p2wsh-malleated", p2sh(redw), P.push(redw) + bytes([0x61]), [ws])
        add("p2sh-p2wsh-malleated-prefix", p2sh(redw), bytes([0x4c, len(redw)]) + redw, [ws])
        add("witness-v2-program", bytes([0x52, 0x20]) + rb(rnd, 32), b"", [b"\x01"], flags=R.STD & ~(1 << FB["DISCOURAGE_UPGRADABLE_WITNESS_PROGRAM"]), finding="F-C03-future-witness-version")
        # two-input taproot, valid by construction (signed over both spent outputs); the debugger knows only one of them
        isk = rnd.randrange(1, P.N); internal = P.xonly(isk)
        if P.pmul(isk, P.G)[1] & 1: isk = P.N - isk
        q, par = P.taproot_output(internal, b"")
        spk2 = b"\x51\x20" + q
        ftx = (2, [(rb(rnd, 32), 0, b"", [], 0xffffffff)], [(5000, spk2)], 0)
        other_spent = (777, b"\x00\x14" + rb(rnd, 20))
        vin2 = [[P.txid(ftx), 0, b"", [], 0xffffffff], [rb(rnd, 32), 1, b"", [rb(rnd, 71), rb(rnd, 33)], 0xffffffff]]
        tx2 = (2, [tuple(i) for i in vin2], [(4000, rb(rnd, 22))], 0)
        d = P.bip341_sighash(tx2, 0, [(5000, spk2), other_spent], 0)
        t = int.from_bytes(P.tagged("TapTweak", internal), "big")
        vin2[0][3] = [P.schnorr_sign((isk + t) % P.N, d, rb(rnd, 32))]
        tx2 = (2, [tuple(i) for i in vin2], [(4000, rb(rnd, 22))], 0)
        cases.append((S.spend_line(tx2, ftx, R.STD), {"kind": "p2tr-key", "label": "two-input-taproot", "flags": R.STD, "spec_by_construction": "VALID",
                                                       "finding": "F-C03-multi-input-taproot"}))
        add("witness-v2-program-std", bytes([0x52, 0x20]) + rb(rnd, 32), b"", [b"\x01"])
        add("witness-v0-wrong-length", b"\x00\x10" + rb(rnd, 16), b"", [b"\x01"])
        add("prevout-index-out-of-range", bytes([0x51]), prev_n=rnd.choice((1, 7, 0xffffffff)))
    # taproot specifics
    for rep in range(4 if quick else 60):
        for opts, name, finding in (({"annex": True}, "annex", None), ({"annex": False, "path_len": 0}, "path0", None),
                                    ({"path_len": 8}, "path8", None), ({"hashtype": 3, "n_out": 1}, "single", None)):
            for kind in ("p2tr-key", "p2tr-script"):
                s = S.build(rnd, kind, dict(opts))
                cases.append((S.spend_line(s.tx, s.txin, R.STD), {"kind": kind, "label": "taproot-" + name, "built_valid": s.valid, "flags": R.STD, "finding": finding}))
        # unknown leaf version: valid under consensus (discouraged by policy)
        s = S.build(rnd, "p2tr-script", {"annex": False})
        ver, vin, vout, lock = s.tx
        # rebuild with leaf version 0xc2 is not a single-field edit (the output key commits to it); covered by the C05 stream
        # a tapscript containing OP_SUCCESS
        s = S.build(rnd, "p2tr-script", {"leaf_script": bytes([0x50]), "leaf_args": [], "annex": False})
        for fl, fnd in ((R.STD, None), (R.STD & ~(1 << FB["DISCOURAGE_OP_SUCCESS"]), "F-C03-op-success-refused")):
            cases.append((S.spend_line(s.tx, s.txin, fl), {"kind": "p2tr-script", "label": "op-success", "flags": fl, "finding": fnd}))
        s = S.build(rnd, "p2tr-script", {"leaf_script": bytes([0x51]), "leaf_args": [], "annex": False})
        cases.append((S.spend_line(s.tx, s.txin, R.STD), {"kind": "p2tr-script", "label": "tapscript-true", "built_valid": True, "flags": R.STD}))
        s = S.build(rnd, "p2tr-script", {"leaf_script": bytes([0x51]), "leaf_args": [b"\x01"], "annex": False})
        cases.append((S.spend_line(s.tx, s.txin, R.STD), {"kind": "p2tr-script", "label": "tapscript-extra-item", "flags": R.STD}))
    return cases


def rb(rnd, n): return bytes(rnd.randrange(256) for _ in range(n))


def doc_pairs():
    """the real-chain pairs shipped in doc/txs"""
    d = os.path.join(REPO, "doc", "txs")
    out = []
    if not os.path.isdir(d):
        return out
    names = sorted(os.listdir(d))
    for n in names:
        if n.endswith("-tx"):
            base = n[:-3]
            if base + "-in" in names:
                tx = open(os.path.join(d, n)).read().strip()
                txin = open(os.path.join(d, base + "-in")).read().strip()
                out.append((base, tx, txin))
    return out


def verdict_compare(ctx, stream, cases):
    """cases: (SPEND line, meta).  Correspondence of set-up and every step (implementation vs model), and the verdict the
    finished session amounts to against consensus validation (specification)."""
    # SPENDR: as SPEND, and a failed step is asked for twice more (the session must not get past a failed check)
    lines = [re.sub(r"^SPEND ", "SPENDR ", c[0]) for c in cases]
    cases = [(l, c[1]) for l, c in zip(lines, cases)]
    impl = ctx.harness_sharded(lines)
    model = ctx.driver_sharded(lines, "model")
    spec = ctx.driver_sharded(lines, "spec")
    strip = lambda l: re.sub(r" verdict=\S+$", "", l)
    # 1. correspondence: set-up and every step
    ctx.compare(stream + "-session", lines, impl, [strip(m) for m in model], None, nontrivial=lambda c, im: "steps=" in im)
    # 2. the verdict: session (implementation) / session (model) / consensus (specification)
    hist = {}
    nbad = 0
    for (line, meta), im, mo, sp in zip(cases, impl, model, spec):
        vi = verdict_of_impl(im, meta["flags"])
        if re.search(r" retry=\S*OK", im):
            vi = "VALID-ON-RETRY"
        mm = re.search(r"verdict=(\S+)$", mo)
        vm = norm(mm.group(1)) if mm else "INVALID"
        vs = norm(sp) if sp.startswith("verdict=") else "?"
        if meta.get("spec_by_construction"):
            vs = meta["spec_by_construction"]     # the specification needs every spent output; one --txin cannot supply them
        key = "%s/%s impl=%s spec=%s" % (meta["kind"].split(":")[0], meta["label"], vi, vs)
        hist[key] = hist.get(key, 0) + 1
        if vi == vm == vs:
            if meta.get("built_valid") and vi != "VALID":
                nbad += 1
                if nbad <= 3:
                    ctx.violation(line, {"stream": stream + "-verdict", "impl": im, "model": mo, "spec": sp, "meta": meta,
                                         "why": "a spend built and signed by the independent signer is rejected by implementation, model and specification alike: the generator or all three are wrong"})
            continue
        fid = meta.get("finding")
        if fid and fid in ctx.findings and vi == vm:
            ctx.known(fid, ctx.findings[fid])
            continue
        nbad += 1
        if nbad <= 5:
            if vi != vs:
                ctx.violation(line, {"stream": stream + "-verdict", "impl": im, "model": mo, "spec": sp, "meta": meta, "impl_verdict": vi, "spec_verdict": vs,
                                     "why": "the session's outcome differs from consensus validation of that input"})
            else:
                ctx.violation(line, {"stream": stream + "-verdict", "impl": im, "model": mo, "spec": sp, "meta": meta,
                                     "why": "correspondence:" + stream + "-verdict broken (model verdict differs); implementation agrees with the specification"},
                              suffix="no-failing-input-found")
    ctx.count(stream + "-verdict", len(cases))
    ctx.notes.append("verdict histogram (" + stream + "): " + "; ".join(f"{k}:{v}" for k, v in sorted(hist.items())))


def limit_cases(rnd):
    """spends whose validity turns on one of the consensus limits, in scripts the start-up code does not pre-screen"""
    cases = []
    def add(name, spk, ss=b"", wit=(), flags=R.STD, **kw):
        tx, ftx = S.custom(rnd, spk, ss, wit, **kw)
        cases.append((S.spend_line(tx, ftx, flags), {"kind": "limit", "label": name, "flags": flags}))
    NOCLEAN = R.STD & ~(1 << FB["CLEANSTACK"])
    PUSHONLY = (R.STD | (1 << FB["SIGPUSHONLY"])) & ~(1 << FB["CLEANSTACK"])
    for nbytes in (519, 520, 521, 522, 1000):
        blob = P.push(rb(rnd, nbytes))
        add("spk-unexecuted-push-%d" % nbytes, bytes([0x00, 0x63]) + blob + bytes([0x68, 0x51]))
        add("spk-else-branch-push-%d" % nbytes, bytes([0x51, 0x63, 0x51, 0x67]) + blob + bytes([0x68]))
        add("spk-executed-push-%d" % nbytes, blob + bytes([0x75, 0x51]))
        add("scriptsig-push-%d" % nbytes, bytes([0x75, 0x51]), blob)
    for nops in (200, 201, 202):
        add("spk-opcount-%d" % nops, bytes([0x61]) * (nops - 0) + bytes([0x51]) if nops else b"", flags=NOCLEAN)
        add("scriptsig-and-spk-opcount-%d" % nops, bytes([0x61]) * nops + bytes([0x51]), bytes([0x61]) * 150, flags=NOCLEAN)
    for n in (9999, 10000, 10001):
        body = (bytes([0x4d, 0xf4, 0x01]) + rb(rnd, 500)) * 19          # 9557 bytes of pushes
        pad = n - len(body) - 3
        sig = body + bytes([0x4d]) + (pad).to_bytes(2, "little") + rb(rnd, pad) if pad <= 520 else body
        spk_drop = bytes([0x6d]) * 10 + bytes([0x51])
        for fl, nm in ((NOCLEAN, "std"), (PUSHONLY, "pushonly")):
            add("scriptsig-size-%d-%s" % (len(sig), nm), spk_drop, sig, flags=fl)
    bigspk = (bytes([0x4d, 0x08, 0x02]) + bytes(520)) * 19 + bytes([0x6d]) * 9 + bytes([0x75, 0x51])
    add("spk-size-%d" % len(bigspk), bigspk, flags=NOCLEAN)
    bigspk2 = (bytes([0x4d, 0x08, 0x02]) + bytes(520)) * 20 + bytes([0x6d]) * 10 + bytes([0x51])
    add("spk-size-%d" % len(bigspk2), bigspk2, flags=NOCLEAN)
    for k in (999, 1000, 1001):
        add("stack-size-%d" % k, bytes([0x51]) * (k - 500) + bytes([0x6d]) * 0, bytes([0x51]) * 500, flags=NOCLEAN)
    # witness programs: the initial stack (witness items without script / control block / annex) may hold 1000 items of at most 520
    # bytes; an annex is not a stack item; the item size limit applies to tapscript and v0 arguments
    for k in (999, 1000, 1001):
        leaf = bytes([0x6d]) * (k // 2) + bytes([0x75]) * (k % 2) + bytes([0x51])
        for annex in (False, True):
            s_ = S.build(rnd, "p2tr-script", {"path_len": 1, "leaf_script": leaf, "leaf_args": [b"\x01"] * k, "annex": annex})
            cases.append((S.spend_line(s_.tx, s_.txin, R.STD), {"kind": "limit", "label": "tapscript-initial-stack-%d%s" % (k, "-annex" if annex else ""), "flags": R.STD}))
        ws = bytes([0x6d]) * (k // 2) + bytes([0x75]) * (k % 2) + bytes([0x51])
        tx, ftx = S.custom(rnd, b"\x00\x20" + P.sha256(ws), b"", [b"\x01"] * k + [ws])
        cases.append((S.spend_line(tx, ftx, R.STD), {"kind": "limit", "label": "p2wsh-initial-stack-%d" % k, "flags": R.STD}))
    for nbytes in (520, 521):
        for annex in (False, True):
            s_ = S.build(rnd, "p2tr-script", {"path_len": 0, "leaf_script": bytes([0x75, 0x51]), "leaf_args": [bytes(nbytes)], "annex": annex})
            cases.append((S.spend_line(s_.tx, s_.txin, R.STD), {"kind": "limit", "label": "tapscript-item-%d%s" % (nbytes, "-annex" if annex else ""), "flags": R.STD}))
    return cases


def run(ctx):
    rnd = random.Random(ctx.seed * 3 + 3)
    quick = ctx.tier == "quick"
    cases = gen(ctx, rnd, quick)
    for (base, tx, txin) in doc_pairs():
        line = "SPEND %s %s -1 %d 0 - 0" % (tx.encode().hex(), txin.encode().hex(), R.STD)
        cases.append((line, {"kind": "doc:" + base, "label": "real-chain", "built_valid": "invalid" not in base, "flags": R.STD}))
    cases += limit_cases(rnd)
    verdict_compare(ctx, "spend", cases)


def replay(ctx, case):
    print("impl :", ctx.harness([case])[0])
    print("model:", ctx.driver([case])[0])
    print("spec :", ctx.driver([case], "spec")[0])
