"""C04 — rewind exactly undoes steps."""
import hashlib
import itertools
import zlib
import random
from . import runlib as R


def h160(b):
    return hashlib.new("ripemd160", hashlib.sha256(b).digest()).digest()


def session_line(sigver, flags, script, stack=(), succ=b"", cmds="", z=0, weight=None, verbose=False):
    w = "-" if weight is None else str(weight)
    st = ",".join(R.item(b) for b in stack) if stack else "-"
    return f"{'SESSIONV' if verbose else 'SESSION'} {sigver} {flags} {z} {w} {script.hex() or '-'} {st} {succ.hex() or '-'} {cmds or '-'}"


KEY33 = b"\x05" + b"\x11" * 32          # unknown (upgradable) public key type in tapscript: passes, costs budget
SIG64 = b"\x22" * 64


def family():
    """short scripts exercising every piece of per-step state"""
    P2SH = 1
    fam = []
    # IF/NOTIF/ELSE/ENDIF nesting
    fam.append((0, 0, bytes.fromhex("5163526353675468675568"), (), b"", None))
    fam.append((1, 0, bytes.fromhex("0064516700675268"), (), b"", None))
    fam.append((0, 0, bytes.fromhex("00630063516752686751630068"), (), b"", None))
    # alt stack
    fam.append((0, 0, bytes.fromhex("516b526b6c6c7693"), (), b"", None))
    # OP_CODESEPARATOR before signature checks (empty signature: pushes false)
    fam.append((0, 0, bytes.fromhex("51ab00") + R.push(b"\x02" + b"\x33" * 32) + bytes.fromhex("ac51ab7551"), (), b"", None))
    fam.append((1, 0, bytes.fromhex("ab51ab00") + R.push(b"\x02" + b"\x33" * 32) + bytes.fromhex("ac"), (), b"", None))
    # tapscript: signature budget and code separator position
    ts = R.push(SIG64) + R.push(KEY33) + b"\xac" + b"\x51\xab" + R.push(SIG64) + R.push(KEY33) + b"\xac\xab\x51"
    fam.append((3, 0, ts, (), b"", 130))
    fam.append((3, 0, bytes.fromhex("5163ab516851ab"), (), b"", 100))
    # multi-script spends: scriptSig -> scriptPubKey, and P2SH hand-over
    fam.append((0, 0, bytes.fromhex("5152"), (), bytes.fromhex("935387"), None))
    redeem = bytes.fromhex("51635268")
    fam.append((0, P2SH, R.push(b"\x07") + R.push(redeem), (), b"\xa9\x14" + h160(redeem) + b"\x87", None))
    redeem2 = bytes.fromhex("6b6c51ab00") + R.push(b"\x02" + b"\x33" * 32) + b"\xac\x75"
    fam.append((0, P2SH, R.push(b"\x01") + R.push(redeem2), (), b"\xa9\x14" + h160(redeem2) + b"\x87", None))
    # plain script that is itself the P2SH pattern with the redeem script on the initial stack
    fam.append((0, P2SH, b"\xa9\x14" + h160(redeem) + b"\x87", (b"\x01", redeem), b"", None))
    return fam


def lines(ctx):
    rnd = random.Random(ctx.seed * 104729 + 4)
    quick = ctx.tier == "quick"
    depth = 10 if quick else 14
    out = []
    for (sv, fl, sc, st, succ, w) in family():
        for d in range(0, depth + 1):
            for cmds in itertools.product("sr", repeat=d):
                out.append(session_line(sv, fl, sc, st, succ, "".join(cmds), weight=w))
    # op count near 201: long prefix of steps, then the complete tree
    for sv in (0, 1, 3):
        sc = bytes([0x61]) * 199 + bytes.fromhex("5163615168")
        for k in (196, 199, 200):
            for d in range(0, 8 if quick else 11):
                for cmds in itertools.product("sr", repeat=d):
                    out.append(session_line(sv, 0, sc, (), b"", "s" * k + "".join(cmds), weight=(1000 if sv == 3 else None)))
    return out


def walks(ctx):
    rnd = random.Random(ctx.seed * 15485863 + 4)
    quick = ctx.tier == "quick"
    base = ctx.driver_gen(["run", ctx.seed + 4000, 400 if quick else 6000, 120, 0])
    out = []
    for l in base:
        p = l.split(" ")
        n = rnd.choice((5, 20, 60, 200, 2000 if not quick else 400))
        # biased walk: mostly forward, bursts of rewinds
        cmds = []
        while len(cmds) < n:
            if rnd.random() < 0.75:
                cmds.extend("s" * rnd.randrange(1, 6))
            else:
                cmds.extend("r" * rnd.randrange(1, 5))
        out.append(" ".join(["SESSION"] + p[1:7] + ["-", "".join(cmds[:n])]))
    return out


def failing_walks(ctx):
    """histories that go on after a step has failed (SESSIONF): the failed step is retried, undone steps are redone — a failed
    step must leave nothing behind in any of the histories rewind reads (script-code start, op count, budget, positions)"""
    quick = ctx.tier == "quick"
    out = []
    scripts = [("51ab6a", ()), ("51ab51ab0069", ()), ("ab8b", ()), ("5163ab006968", ()), ("0500000080" "00ab8b", ()), ("51ab5175ab7575", ()),
               ("ab51ab6b6c6c", ()), ("00ab00ab00ab69", ()), ("51ab020100" "8b", ()), ("ab51ab5293ab88", ())]
    for sv in (0, 1, 3):
        w = 1000 if sv == 3 else None
        for (sc, st) in scripts:
            scb = bytes.fromhex(sc)
            nops = 0
            i = 0
            while i < len(scb):     # number of operations (pushes of up to 75 bytes only)
                i += 1 + (scb[i] if 1 <= scb[i] <= 75 else 0); nops += 1
            for fl in (R.STD, 0):
                for d in range(0, 8 if quick else 11):
                    for cmds in itertools.product("sr", repeat=d):
                        if quick and d >= 6 and (zlib.crc32((sc + ''.join(cmds)).encode()) & 3): continue
                        out.append(session_line(sv, fl, scb, st, b"", "s" * nops + "".join(cmds), weight=w).replace("SESSION ", "SESSIONF ", 1))
    return out


def long_lines(ctx):
    """positions beyond 16 bits: tapscripts have no size limit, and the position of the last executed OP_CODESEPARATOR (part of the
    BIP342 digest) counts operations from the start — rewinds at and across the 65535/65536 boundary"""
    out = []
    for n in ((65535, 65536) if ctx.tier == "quick" else (255, 256, 65534, 65535, 65536, 65537, 70000)):
        sc = bytes([0x61]) * n + bytes([0xab, 0x61, 0xab, 0x51])
        for back in ((1, 2, 3) if ctx.tier != "quick" else ((2,) if n == 65535 else (1, 3))):
            out.append(session_line(3, R.STD, sc, (), b"", "s" * (n + 2) + "r" * back + "s" * (back + 2), weight=1000))
    return out


def nontrivial(case, impl):
    # a history is non-trivial when at least one rewind was accepted
    m = impl.split(" ")[0]
    cmds = case.split(" ")[-1]
    marks = m[len("marks="):] if m.startswith("marks=") else ""
    return any(c == "r" and k == "+" for c, k in zip(cmds, marks))


def run(ctx):
    for name, ls in (("history-tree", lines(ctx)), ("random-walks", walks(ctx)), ("failing-walks", failing_walks(ctx)), ("long-tapscript", long_lines(ctx))):
        impl = ctx.harness_sharded(ls)
        model = ctx.driver_sharded(ls, "model")
        # (the specification voice replays a fresh session after every command: quadratic in the walk — not on the 65,000-step walks)
        spec = ctx.driver_sharded(ls, "spec") if name != "long-tapscript" else None
        ctx.compare(name, ls, impl, model, spec, observable=R.canon, nontrivial=nontrivial)
    ctx.exhaustive = True
    ctx.notes.append("history-tree: complete enumeration of all {step,rewind} histories up to depth %d for %d scripts; spec = fresh session advanced by the net number of steps" % (10 if ctx.tier == "quick" else 14, len(family())))


def replay(ctx, case):
    v = case.replace("SESSION ", "SESSIONV ", 1) if case.startswith("SESSION ") else case    # (SESSIONF has no verbose form)
    print("impl :", ctx.harness([v])[0])
    print("model:", ctx.driver([v])[0])
    print("spec :", ctx.driver([v], "spec")[0])
