"""C08 — non-interactive btcdeb prints the final stack and never exits abnormally."""
import os
import random
import re
import sys
from concurrent.futures import ThreadPoolExecutor
from . import runlib as R
sys.path.insert(0, os.path.join(os.path.dirname(os.path.dirname(os.path.abspath(__file__))), "harness"))
import ptyrun  # noqa: E402

MODES = [("pipe", "pipe", "stdin"), ("pipe", "tty", "stdin"), ("tty", "pipe", "argv")]
OPTS = [[], ["-q"], ["--quiet"], ["--debug=sighash"], ["--debug=signing,segwit"], ["-Dsighash,signing,segwit,taproot"], ["-q", "--debug=taproot"]]
ENVS = [{}, {"DEBUG_SIGHASH": "1"}, {"DEBUG_SIGNING": "0", "DEBUG_SEGWIT": "1"}, {"DEBUG_TAPROOT": "1", "DEBUG_SIGHASH": "1"},
        {"DEBUG_SET_PIPE_IN": "1"}, {"DEBUG_SET_PIPE_OUT": "1"}]


def expected(line, errstr):
    """canonical (exit, stdout, error class) from a RUN output line of the model/spec"""
    line = R.canon(line)
    if line.startswith("REFUSED"):
        return "exit=1 out=- err=refused"
    m = re.search(r"cont=(\S+?)/(\S*)", line)
    res, obs = m.group(1), m.group(2)
    if res == "OK":
        st = obs.split("|")[0]
        items = st.split(",") if st != "" else []
        return "exit=0 out=" + ";".join(items) + " err=-"
    code = int(res.split(":")[1])
    return f"exit=1 out=- err={code}"


def classify(rc, out, err, errstr):
    if rc == 0:
        lines = out.split("\n")
        if lines and lines[-1] == "":
            lines.pop()
        return "exit=0 out=" + ";".join(lines) + " err=-"
    if rc == 1:
        # on failure stdout carries the state display (rows of the two-column table) and nothing else: hints and logs belong on stderr
        stray = [l for l in out.split("\n") if l.strip() and "|" not in l and not re.fullmatch(r"-+\+-+", l.strip())]
        if stray:
            return "exit=1 out=STRAY:" + stray[0][:60].replace(" ", "_") + " err=?"
        if "invalid script" in err or "failed to initialize script environment" in err:
            return "exit=1 out=- err=refused"
        if "error: exception thrown" in err:
            return "exit=1 out=- err=1"
        m = re.search(r"^error: (.*)$", err, flags=re.M)
        if m and m.group(1) in errstr:
            return f"exit=1 out=- err={errstr[m.group(1)]}"
        return "exit=1 out=- err=?" + err[-80:].replace("\n", "\\n")
    return f"ABNORMAL rc={rc} " + err[-120:].replace("\n", "\\n")


def run(ctx):
    rnd = random.Random(ctx.seed * 31 + 8)
    quick = ctx.tier == "quick"
    names = ctx.driver([f"ERRSTR {i}" for i in range(0, 54)])
    errstr = {}
    for i, n in enumerate(names):
        errstr.setdefault(n, i)
    # scripts: C01's deep stream restricted to what plain btcdeb runs (BASE, standard flags), enriched with exception-raising scripts
    base = ctx.driver_gen(["run", ctx.seed + 800, 700 if quick else 20000, 40, 0])
    cases = []
    for l in base:
        p = l.split(" ")
        sc = bytes.fromhex(p[5]) if p[5] != "-" else b""
        st = [] if p[6] == "-" else [bytes.fromhex(x) if x != "_" else b"" for x in p[6].split(",")]
        cases.append((sc, st))
    exc = [bytes.fromhex("0501020304058b"), bytes.fromhex("75"), bytes.fromhex("0200008b"), bytes.fromhex("6d"), bytes.fromhex("05ffffffffff0093"),
           bytes.fromhex("7c"), bytes.fromhex("020080" "91"), bytes.fromhex("510000ae"), bytes.fromhex("0051" "21" + "02" + "11" * 32 + "51ae"), bytes.fromhex("51005100ae"), bytes.fromhex("0100" "8b"), bytes.fromhex("51" "0600000000000079")]
    for sc in exc:
        for st in ([], [b"\x01"], [b"\x01\x02\x03\x04\x05\x06"]):
            cases.append((sc, st))
    # long scripts on stdin (beyond the old 1023-character buffer)
    for n in (400, 511, 512, 600, 2000, 9000):
        cases.append((bytes([0x61]) * 150 + R.push(b"\x07" * 75) * ((n - 150) // 76) + b"\x51", []))
    # initial stack items around and beyond the 520-byte push limit (argv items are not size-checked): the raw listing must print them whole
    for n in (519, 520, 521, 522, 600, 1000, 3000):
        cases.append((b"\x51", [bytes([0xab]) * n]))
        cases.append((b"\x7c", [bytes([0xcd]) * n, b"\x02"]))
        cases.append((b"\x61", [b"\x03", bytes([0xef]) * n]))
    jobs = []
    lines = []
    for (sc, st) in cases:
        mode = rnd.choice(MODES)
        opt = rnd.choice(OPTS)
        env = rnd.choice(ENVS)
        if mode[0] == "tty" and "DEBUG_SET_PIPE_IN" in env:
            env = {}
        z = rnd.random() < 0.1
        args = list(opt) + (["-z"] if z else [])
        txt = "0x" + sc.hex()
        stargs = ["0x" + b.hex() for b in st]
        if mode[2] == "argv":
            argv = args + [txt] + stargs
            inp = ""
        else:
            argv = args + (["--"] if False else []) + stargs  # stack arguments follow the options; script comes on stdin
            # with the script on stdin, positional arguments are the stack
            inp = txt + "\n"
        jobs.append((argv, mode, inp, env))
        lines.append(R.run_line(0, R.STD, sc, st, z=1 if z else 0))
    model = [expected(l, errstr) for l in ctx.driver_sharded(lines, "model")]
    spec = [expected(l, errstr) for l in ctx.driver_sharded(lines, "spec")]

    def one(j):
        argv, mode, inp, env = j
        rc, out, err = ptyrun.run([os.path.join(ctx.bin, "btcdeb")] + argv, mode[0], mode[1], inp, env)
        return classify(rc, out, err, errstr)
    with ThreadPoolExecutor(max_workers=16) as ex:
        impl = list(ex.map(one, jobs))
    tagged = [f"{l} ## argv={j[0]} stdin={j[1][0]} stdout={j[1][1]} env={j[3]}" for l, j in zip(lines, jobs)]
    ctx.compare("noninteractive", tagged, impl, model, spec, nontrivial=lambda c, i: True)
    # the script text is bytes, not characters: whatever the channel (argv or a line on stdin), the same text gives the same result
    texts = [b"[OP_1 \xffab OP_2]", b"[\xff]", b"\xff", b"[OP_1 \x80\x81 OP_2]", b"[caf\xc3\xa9 OP_DROP OP_1]", b"[OP_1 a\xfeb OP_2]", b"[OP_1 \xff\xff OP_2 OP_3]",
             b"[\xff OP_SIZE]", b"[OP_1 #\xff\xfe c ]", b"[abc\x7f\x01\x1b OP_1]", b"[OP_1 '\xff']", b"[OP_1 \xc0 OP_2]", b"[OP_1\tOP_2]", b"[OP_1 OP_2 \xe2\x82\xac]"]
    for _ in range(20 if quick else 400):
        body = bytes(rnd.choice((rnd.randrange(0x80, 0x100), rnd.randrange(0x21, 0x7f), 0xff)) for _ in range(rnd.randrange(1, 12)))
        body = body.replace(b"[", b"x").replace(b"]", b"y").replace(b"#", b"z").replace(b"(", b"u").replace(b")", b"v")
        texts.append(b"[OP_1 " + body + b" OP_2]")
    def chan(t):
        a = ptyrun.run([os.path.join(ctx.bin, "btcdeb").encode(), t], "tty", "pipe", "")
        b = ptyrun.run([os.path.join(ctx.bin, "btcdeb")], "pipe", "pipe", t + b"\n")
        return a, b
    with ThreadPoolExecutor(max_workers=16) as ex:
        res = list(ex.map(chan, texts))
    for t, (a, b) in zip(texts, res):
        ctx.count("text-channels", 1)
        ctx.nontrivial.add("chan:" + t.hex())
        if (a[0], a[1]) != (b[0], b[1]) or a[0] not in (0, 1):
            ctx.violation("btcdeb <text> argv vs stdin ## text=" + t.hex(), {"why": "the same script text gives different results on argv and on stdin", "text_hex": t.hex(),
                          "argv": {"rc": a[0], "stdout": a[1][-300:], "stderr": a[2][-300:]}, "stdin": {"rc": b[0], "stdout": b[1][-300:], "stderr": b[2][-300:]}})
    # --verbose is refused in this mode
    for mode in MODES:
        rc, out, err = ptyrun.run([os.path.join(ctx.bin, "btcdeb"), "-v"] + (["0x51"] if mode[2] == "argv" else []), mode[0], mode[1], "0x51\n" if mode[2] == "stdin" else "")
        ok = rc == 1 and "silence and verbosity" in err
        ctx.count("verbose-refused", 1)
        if not ok:
            ctx.violation(f"btcdeb -v stdin={mode[0]} stdout={mode[1]}", {"why": "--verbose must be refused in non-interactive mode", "rc": rc, "stderr": err[-300:]})
    # ---- sessions with a transaction (--tx/--txin): signature checks run the digest code, whose debug log must not reach stdout
    from . import spendgen as S
    from . import pyref as P
    tj, tl = [], []
    pairs = []
    d = os.path.join(os.environ.get("VERIF_REPO", "/repo"), "doc", "txs")
    if os.path.isdir(d):
        for n in sorted(os.listdir(d)):
            if n.endswith("-tx") and os.path.exists(os.path.join(d, n[:-3] + "-in")):
                pairs.append((open(os.path.join(d, n)).read().strip(), open(os.path.join(d, n[:-3] + "-in")).read().strip()))
    for kind in S.KINDS:
        for rep in range(1 if quick else 6):
            sp = S.build(rnd, kind)
            pairs.append((P.ser_tx(sp.tx).hex(), P.ser_tx(sp.txin).hex()))
    # every hash type at an input that is not the first one (the digest log lines name inputs and outputs by index), all logs on
    for kind in S.KINDS:
        tap = kind.startswith("p2tr")
        for ht in ((0, 1, 2, 3, 0x81, 0x82, 0x83) if tap else (1, 2, 3, 0x81, 0x82, 0x83)):
            sp = S.build(rnd, kind, {"hashtype": ht, "n_out": 3, "n_in": 1 if tap else 3, "idx": 0 if tap else 2})
            txh, inh = P.ser_tx(sp.tx).hex(), P.ser_tx(sp.txin).hex()
            for mode in (MODES[2], MODES[0]):
                for opt in ([], ["-Dsighash,signing,segwit,taproot"]):
                    tj.append((list(opt) + ["--tx=" + txh, "--txin=" + inh], mode, "\n" if mode[2] == "stdin" else "", {}))
                    tl.append("SPEND %s %s -1 %d 0 - 0" % (txh.encode().hex(), inh.encode().hex(), R.STD))
    # no outputs at all: SIGHASH_SINGLE has nothing to point at (a script-level failure, reported as such)
    for kind in S.KINDS:
        for ht in (3, 0x83, 1):
            sp0 = S.build(rnd, kind, {"hashtype": ht, "n_out": 0, "n_in": 1, "idx": 0})
            pairs.append((P.ser_tx(sp0.tx).hex(), P.ser_tx(sp0.txin).hex()))
    # two scripts in one run (a scriptSig with operations of its own, then the scriptPubKey): the limits are per script
    for (k, n) in ((1, 201), (20, 190), (1, 200), (0, 201), (2, 202), (201, 201)):
        tx_, ftx_ = S.custom(rnd, bytes([0x61]) * n, bytes([0x51]) + bytes([0x61]) * k)
        pairs.append((P.ser_tx(tx_).hex(), P.ser_tx(ftx_).hex()))
    for (txh, inh) in pairs:
        for mode in MODES:
            for opt in (OPTS if not quick else [OPTS[0], OPTS[3], OPTS[5]]):
                env = rnd.choice(ENVS)
                if mode[0] == "tty" and "DEBUG_SET_PIPE_IN" in env:
                    env = {}
                argv = list(opt) + ["--tx=" + txh, "--txin=" + inh]
                tj.append((argv, mode, "\n" if mode[2] == "stdin" else "", env))
                tl.append("SPEND %s %s -1 %d 0 - 0" % (txh.encode().hex(), inh.encode().hex(), R.STD))
    def exp_spend(l):
        if l.startswith("REFUSED"):
            return "exit=1 out=- err=refused"
        m = re.search(r"end=(\S+) final=(\S*)", l)
        if m.group(1) == "OK":
            return "exit=0 out=" + ";".join(m.group(2).split(",") if m.group(2) else []) + " err=-"
        if m.group(1) == "EXC":
            return "exit=1 out=- err=1"
        return "exit=1 out=- err=" + m.group(1).split(":")[1]
    tmodel = [exp_spend(l) for l in ctx.driver_sharded(tl, "model")]
    with ThreadPoolExecutor(max_workers=16) as ex:
        timpl = list(ex.map(one, tj))
    def spend_classify(x):
        # a refusal during set-up has its own diagnostics
        return x
    ttag = [f"{l[:60]}... ## argv-options={j[0][:-2]} stdin={j[1][0]} stdout={j[1][1]} env={j[3]}" for l, j in zip(tl, tj)]
    # set-up refusals print their own messages (classify maps unknown ones to err=?...): compare exit status and stdout only there
    def obs(x):
        return re.sub(r" err=(refused|\?.*)$", " err=refused", x)
    ctx.compare("noninteractive-tx", ttag, timpl, tmodel, None, observable=obs, nontrivial=lambda c, i: True)
    h = {}
    for i in impl + timpl:
        k = i.split(" ")[0] + " " + i.split(" ")[-1][:12]
        h[k] = h.get(k, 0) + 1
    ctx.notes.append({"outcomes": h})


def replay(ctx, case):
    print(case)
