"""C15 / C16 — the interactive command-line layer kerl (/repo/kerl/kerl.c): argument splitting, continuation lines, dispatch,
history escaping.

Three voices on every case: the REAL kerl functions called in-process (harness/cmd_kerl.inc; plain build and the
AddressSanitizer+UBSan build), the Lean model (Btcdeb/Model/Kerl.lean: an out-of-bounds access is the answer `ABNORMAL …`)
and the rule (Btcdeb/Spec/Kerl.lean).  Both configurations of kerl.c are driven: <rl>=1 as /repo/Makefile.am builds it
(readline, continuation lines; harness/hx_kerl.c, binary `btcdeb-rl`), <rl>=0 as build.py links it into `btcdeb`.

  * plain build == model on every case the model calls normal (every answer field: argv, unread lines, prompts, more_final);
  * sanitizer build: reports nothing where the model is normal, and DOES report where the model says ABNORMAL (only the
    library functions btcdeb never calls reach such a state: `kerl_more`, `unescape(s, 0)`; see LATENT below);
  * model == spec on the fields the rule speaks about, on every case;
  * a pty cross-check types command lines into real `btcdeb` / `btcdeb-rl` sessions (`tf echo …`), the bytes printed are the
    argv the model predicts; the reproducers of the three repaired kerl defects run as regression cases (history_cli).
"""
import hashlib
import os
import pty
import random
import re
import select
import shutil
import sys
import tempfile
import termios
import time
from concurrent.futures import ThreadPoolExecutor

sys.path.insert(0, os.path.join(os.path.dirname(os.path.dirname(os.path.abspath(__file__))), "harness"))
import build as hbuild  # noqa: E402

SAN_ENV = {"ASAN_OPTIONS": "exitcode=99:detect_leaks=0:abort_on_error=0:allocator_may_return_null=1", "UBSAN_OPTIONS": "exitcode=98:print_stacktrace=1"}
WORDS = ("KARGV", "KCITE", "KMORE", "KESC", "KUNESC", "KSTRIP", "KDUPCMD", "KEXEC", "KRUN", "KHIST")
SANITIZER = re.compile(r"(EXIT9[89]|CRASH sig=|DIED rc=)")
# repaired defects whose reproducers stay in the streams as regression cases with explicit expectations (a return is a plain
# VIOLATION): /repo 05ba26e (.btcdeb_history cannot be opened: the first command killed the process), 21c8642 (a history line
# starting with NUL: buf[-1]), 17d18b5 (empty lines inside a continued quoted argument counted once)
# library functions with a memory error that no code path of btcdeb reaches (reported, not a violation of C15)
LATENT = ("KMORE", "KUNESC 0")


def hx(b):
    return b.hex() or "-"


# ------------------------------------------------------------------------------------------------ generators
PLAIN = b"abcxyzOP_DUP0123456789ghq-+=/.,:;[]()"
HIGH = bytes(range(0x80, 0x100))


def gen_word(rnd, n=None):
    n = n if n is not None else rnd.choice((1, 1, 2, 3, 5, 8, 13))
    pool = PLAIN if rnd.random() < 0.8 else PLAIN + HIGH + b"\x01\x08\x0b\x7f"
    return bytes(rnd.choice(pool) for _ in range(n))


def gen_piece(rnd, depth=0):
    k = rnd.randrange(16)
    if k < 5:
        return gen_word(rnd)
    if k == 5:
        return b"'" + gen_inner(rnd, b"'") + b"'"
    if k == 6:
        return b'"' + gen_inner(rnd, b'"') + b'"'
    if k == 7:
        return b"\\" + bytes([rnd.choice(b" \\'\"nt#a\x80\t")])
    if k == 8:
        return rnd.choice((b"''", b'""', b"'\"'", b"\"'\"", b"\\\\", b"#", b"\t"))
    if k == 9 and depth < 2:     # quote directly attached to a word, both orders
        return gen_word(rnd) + gen_piece(rnd, depth + 1) + gen_word(rnd)
    return b""


def gen_inner(rnd, q):
    out = b""
    for _ in range(rnd.randrange(5)):
        k = rnd.randrange(8)
        if k < 3: out += gen_word(rnd)
        elif k == 3: out += b" " * rnd.randrange(1, 4)
        elif k == 4: out += b"'" if q == b'"' else b'"'
        elif k == 5: out += b"\\" + bytes([rnd.choice(b"'\"\\ nx")])
        elif k == 6: out += rnd.choice((b"\t", b"#", b"\n", b"\r"))
    return out


def gen_line(rnd, allow_open=True):
    parts = []
    for _ in range(rnd.choice((0, 1, 2, 3, 4, 6, 10))):
        parts.append(gen_piece(rnd))
        parts.append(rnd.choice((b" ", b" ", b" ", b"  ", b"   ", b"\t", b" \t ", b"")))
    line = b"".join(parts)
    if allow_open:
        k = rnd.randrange(12)
        if k == 0: line += b"\\"
        elif k == 1: line += b'"' + gen_word(rnd)
        elif k == 2: line += b"'" + gen_word(rnd)
        elif k == 3: line += b'"'
        elif k == 4: line += b'a"\\'
    return line.replace(b"\x00", b"")


def gen_more(rnd):
    """continuation lines: closing quotes, empty lines, lines that are only marks"""
    out = []
    for _ in range(rnd.choice((0, 1, 1, 2, 3, 5))):
        k = rnd.randrange(8)
        if k == 0: out.append(b"")
        elif k == 1: out.append(rnd.choice((b'"', b"'", b"\\", b'""', b"''", b'" ', b"' x")))
        elif k == 2: out.append(gen_word(rnd) + rnd.choice((b'"', b"'")) + b" " + gen_word(rnd))
        else: out.append(gen_line(rnd))
    return out


def boundary_lines(rnd):
    """very long words across the capacity-doubling points, thousands of arguments"""
    out = []
    for n in (1019, 1020, 1021, 1022, 1023, 1024, 1025, 2044, 2045, 2046, 2047, 2048, 4093, 4094, 4095, 4096, 4097):
        out.append(b"x" * n)
        out.append(b"x" * n + b" y")
        out.append(b"y " + b"x" * n)
        out.append(b'"' + b"x" * n)             # open quote: the newline of the continuation lands on the boundary
        out.append(b"x" * (n - 1) + b"\\")
    for n in (1, 2, 3, 4, 5, 7, 8, 9, 15, 16, 17, 31, 32, 33, 1023, 1024, 1025, 3000):
        out.append(b" ".join(b"a" for _ in range(n)))
        out.append(b" ".join(b"a" for _ in range(n)) + b" ")
    return out


TARGETS = (1022, 1023, 1024, 1025, 2046, 2047, 2048, 2049, 2050, 4094, 4095, 4096, 4097, 4098)


def split_sizes(rnd, total, k):
    """k sizes in 100..1000 that add up to `total` (None if impossible)"""
    if not (100 * k <= total <= 1000 * k):
        return None
    sizes = [100] * k
    left = total - 100 * k
    while left > 0:
        i = rnd.randrange(k)
        add = min(left, 1000 - sizes[i], rnd.randrange(1, 400))
        sizes[i] += add
        left -= add
    return sizes


def continuation_cases(rnd, per_target=3):
    """ONE argument continued over 2..12 prompt lines of 100..1000 characters each, whose accumulated size (the fill level `j`
    of `buf`, continuation newlines included) straddles a capacity-doubling point while every physical line stays short:
    the grow check must look at the fill level, not at the position in the current line.
    Returns (kind, first line without command word, continuation lines)."""
    out = []
    for target in TARGETS:
        for kind in ('"', "'", "\\"):
            for _ in range(per_target):
                kmin = max(2, -(-target // 1000))
                k = rnd.randrange(kmin, max(kmin, 12) + 1)
                nl = 0 if kind == "\\" else k - 1        # a line break inside a quote is a character of the argument
                sizes = None
                for _try in range(20):
                    sizes = split_sizes(rnd, target - nl, k)
                    if sizes:
                        break
                    k = rnd.randrange(kmin, 13)
                    nl = 0 if kind == "\\" else k - 1
                if not sizes:
                    continue
                body = [bytes(rnd.choice(b"ghjkmnpqrsuvwyz") for _ in range(n)) for n in sizes]
                if kind == "\\":
                    lines = [b + b"\\" for b in body[:-1]] + [body[-1] + b" zz"]
                else:
                    q = kind.encode()
                    lines = [q + body[0]] + body[1:-1] + [body[-1] + q + b" zz"]
                out.append((kind, b"gh " + lines[0], lines[1:]))
    return out


def argv_lines(ctx, rnd, quick):
    ls = []
    n = 2500 if quick else 60000
    for _ in range(n):
        rl = rnd.choice("01")
        esc = rnd.choice(("00",) * 6 + ("22", "61", "20", "5c", "78", "27"))
        ls.append("KARGV %s %s %s" % (rl, esc, " ".join(hx(x) for x in [gen_line(rnd)] + gen_more(rnd))))
    for kind, first, more in continuation_cases(rnd, 2 if quick else 12):
        ls.append("KARGV 1 00 %s %s" % (hx(first), " ".join(hx(x) for x in more)))
        ls.append("KARGV 1 67 %s %s" % (hx(first), " ".join(hx(x) for x in more)))      # escape character 'g': some characters double
    for b in boundary_lines(rnd):
        for rl in "01":
            ls.append("KARGV %s 00 %s %s %s" % (rl, hx(b), hx(b'"'), hx(b"'")))
        ls.append("KARGV 1 78 %s %s %s" % (hx(b), "-", hx(b'x"')))     # escape character 'x': every character of the long word doubles
    # random bytes
    for _ in range(300 if quick else 5000):
        raw = [bytes(rnd.randrange(1, 256) for _ in range(rnd.choice((0, 1, 2, 5, 17, 64, 300)))) for _ in range(rnd.randrange(1, 4))]
        esc = rnd.choice(("00", "%02x" % rnd.randrange(1, 256)))
        # (escape character '\n' is outside the rule: the newline of a continuation is stored without the escape prefix)
        ls.append("KARGV %s %s %s" % (rnd.choice("01"), esc if esc != "0a" else "0b", " ".join(hx(x) for x in raw)))
    return ls


def cite_lines(ctx, rnd, quick):
    ls = []
    for _ in range(600 if quick else 10000):
        ls.append("KCITE %s %s" % (rnd.choice("01"), " ".join(hx(x) for x in [gen_line(rnd)] + gen_more(rnd))))
    for n in (0, 1, 2, 3, 4, 7, 8, 9, 1023, 1024):
        for tail in (b"", b'"', b"'"):
            ls.append("KCITE 1 %s - - %s" % (hx(b"x" * n + tail), hx(b'"')))
            ls.append("KCITE 1 %s %s %s" % (hx(b"x" * n + tail), hx(b"y" * n), hx(b"'\"")))
    return ls


def more_lines(ctx, rnd, quick):
    """kerl_more: the caller's buffer (capacity, position, content).  Includes the states in which the function writes
    outside the buffer (consecutive empty lines are appended without a capacity check; position == capacity) and reads
    it unterminated (`_more_final_init(buf)` before `buf[j] = 0`)."""
    ls = []
    for _ in range(500 if quick else 8000):
        cap = rnd.choice((1, 2, 3, 4, 5, 8, 16, 17, 64))
        pos = rnd.randrange(0, cap + 1)
        fill = rnd.choice(("00", "00", "aa", "41"))
        init = bytes(rnd.choice(b"abc \"'") for _ in range(pos))
        lines = []
        for _ in range(rnd.randrange(0, 6)):
            lines.append(rnd.choice((b"", b"", gen_word(rnd), gen_line(rnd, False))))
        lines.append(gen_word(rnd) + b";" + rnd.choice((b"", b"z")))
        ls.append("KMORE %s %d %d %s 3b %s %s" % (rnd.choice("1110"), cap, pos, fill, hx(init), " ".join(hx(x) for x in lines)))
    return ls


def esc_lines(ctx, rnd, quick):
    ls = []
    specials = b"\n\t\r\b\\\""
    for _ in range(1200 if quick else 20000):
        n = rnd.choice((0, 1, 2, 3, 5, 9, 40))
        s = bytes(rnd.choice(specials + b"ntrbx a") if rnd.random() < 0.7 else rnd.randrange(1, 256) for _ in range(n))
        ls.append("KESC " + hx(s))
        ls.append("KUNESC 1 " + hx(s))
        ls.append("KUNESC 0 " + hx(s))
        ls.append("KSTRIP " + hx(rnd.choice((b"", b" ", b"\t ", b"  ")) + s + rnd.choice((b"", b" ", b" \t", b"\t\t  "))))
        ls.append("KDUPCMD " + hx(s))
    for s in (b"", b" ", b"\t", b" \t \t", b"a", b" a", b"a ", b" a b ", b"\\", b"\\\\", b"\\x", b"x\\", b"\\n", b'\\"', b"\\\\\\"):
        ls += ["KESC " + hx(s), "KUNESC 1 " + hx(s), "KUNESC 0 " + hx(s), "KSTRIP " + hx(s), "KDUPCMD " + hx(s)]
    return ls


CMDS = (b"step", b"rewind", b"stack", b"altstack", b"vfexec", b"exec", b"tf", b"print")


def gen_cmdline(rnd):
    k = rnd.randrange(12)
    if k < 5:
        name = rnd.choice(CMDS)
    elif k == 5:
        name = rnd.choice(CMDS) + rnd.choice((b"x", b"s", b"\x80"))      # not an exact name
    elif k == 6:
        name = rnd.choice(CMDS)[:-1]                                        # a proper prefix
    elif k == 7:
        name = rnd.choice((b"STEP", b"Exec", b"quit", b"3\"", b"'exec'", b"help", b"help"))
    else:
        name = rnd.choice((b"exec", b"tf"))
    lead = rnd.choice((b"", b"", b" ", b"\t", b"  \t"))
    sep = rnd.choice((b" ", b" ", b"  ", b"\t", b" \t "))
    tail = rnd.choice((b"", b"", b" ", b"\t ", b" # note", b"#x"))
    if rnd.random() < 0.15:
        return lead + name + tail
    return lead + name + sep + gen_line(rnd) + tail


def exec_lines(ctx, rnd, quick):
    ls = []
    for _ in range(1500 if quick else 30000):
        l = gen_cmdline(rnd).replace(b"\x00", b"")
        ls.append("KEXEC %s %s %s %s" % (rnd.choice("01"), rnd.choice("01"), hx(l), " ".join(hx(x) for x in gen_more(rnd))))
    return [l.rstrip() for l in ls]


FLAGSETS = ("rsch", "rsch", "rsch", "rscfh", "ch", "rc", "rwch", "sh", "h", "", "rscf") * 3 + ("rscH",)


def run_lines(ctx, rnd, quick):
    ls = []
    for _ in range(700 if quick else 12000):
        lines = []
        for _ in range(rnd.randrange(1, 9)):
            k = rnd.randrange(6)
            lines.append(b"" if k == 0 else rnd.choice((b" ", b"\t", b"#", b" # c")) if k == 1 else gen_cmdline(rnd))
        flags = rnd.choice(FLAGSETS)
        if rnd.random() < 0.5:
            lines = [l.replace(b"\n", b"") for l in lines]
            ls.append("KRUN 1 %s %s" % (flags or "-", " ".join(hx(x) for x in lines)))
        else:
            eol = rnd.choice((b"\n", b"\n", b"\r\n", b"\n\r"))
            raw = eol.join(lines) + rnd.choice((b"", eol))
            if rnd.random() < 0.1:
                raw = raw.replace(b"a", b"\x00", 1)
            ls.append("KRUN 0 %s %s" % (flags or "-", hx(raw)))
    # a long continued argument, then one more ordinary command in the same process
    for kind, first, more in continuation_cases(rnd, 1 if quick else 6):
        cmd = rnd.choice((b"tf echo ", b"exec "))
        ls.append("KRUN 1 rsch %s" % " ".join(hx(x) for x in [cmd + first] + more + [b"stack", b"tf echo gh jk"]))
    # kerl's own reader: lines around its 10240-byte buffer
    for n in (10237, 10238, 10239, 10240, 10241, 20478, 20479):
        ls.append("KRUN 0 rsch " + hx(b"exec " + b"1 " * ((n - 5) // 2) + b"7" * ((n - 5) % 2) + b"\nstack\n"))
    return ls


def hist_lines(ctx, rnd, quick):
    ls = []
    for _ in range(300 if quick else 5000):
        lines = []
        for _ in range(rnd.randrange(0, 5)):
            n = rnd.choice((0, 1, 2, 5, 30))
            lines.append(bytes(rnd.choice(b"\\\\ntrbx\"a ") for _ in range(n)))
        raw = b"\n".join(lines) + rnd.choice((b"", b"\n"))
        if rnd.random() < 0.12 and raw:
            i = rnd.randrange(len(raw)); raw = raw[:i] + b"\x00" + raw[i:]
        ls.append("KHIST " + hx(raw))
    for n in (1021, 1022, 1023, 1024, 1025, 2047):
        ls.append("KHIST " + hx(b"\\n" * (n // 2) + b"a" * (n % 2) + b"\nz\n"))
    ls += ["KHIST " + hx(b"\x00\n"), "KHIST " + hx(b"step\n\x00exec 1\n"), "KHIST " + hx(b"\n"), "KHIST " + hx(b"a")]
    return ls


# ------------------------------------------------------------------------------------------------ comparison
def norm_event(e):
    """events the rule speaks about.  The fallback (btcdeb registers none) receives the line with the blank that ended the
    command word turned into a space (execute_line restores `line[i-1] = ' '` whatever it was): both voices are compared with
    that one character normalised — a latent oddity outside the tools."""
    if e[:2] == "F:":
        b = bytearray(bytes.fromhex(e[2:]) if e[2:] != "-" else b"")
        i = 0
        while i < len(b) and b[i] in b" \t": i += 1
        while i < len(b) and b[i] not in b" \t": i += 1
        if i < len(b) and b[i] == 9: b[i] = 32
        return "F:" + hx(bytes(b))
    return e


def spec_fields(cmd, ans):
    """the part of an answer the rule speaks about"""
    if ans.startswith("ABNORMAL") or SANITIZER.search(ans):
        return ans
    if cmd == "KARGV":
        return ans.split(" left=")[0]
    if cmd == "KEXEC":
        m = re.match(r"(rc=\S+) (ev=\S+)", ans)
        if not m:
            return ans
        ev = ";".join(norm_event(e) for e in m.group(2)[3:].split(";") if e[:2] in ("C:", "A:", "F:")) or "-"
        rc = m.group(1) if not re.search(r"C:help:|^rc=\?", ans) else "rc=*"
        return rc + " ev=" + ev
    if cmd == "KRUN":
        m = re.match(r"ev=(\S+)", ans)
        if not m:
            return ans
        return "ev=" + (";".join(norm_event(e) for e in m.group(1).split(";") if e[:2] in ("C:", "A:", "F:")) or "-")
    return ans


def has_spec(line):
    return line.split(" ")[0] in ("KARGV", "KESC", "KUNESC", "KSTRIP", "KDUPCMD", "KEXEC", "KRUN")


def is_latent(line):
    return any(line.startswith(p) for p in LATENT)


def run(ctx):
    rnd = random.Random(ctx.seed * 1515 + 11)
    quick = ctx.tier == "quick"
    asan = hbuild.build("asan")
    from check import sharded
    streams = {
        "kerl-argv": argv_lines(ctx, rnd, quick),
        "kerl-cite": cite_lines(ctx, rnd, quick),
        "kerl-more": more_lines(ctx, rnd, quick),
        "kerl-escape": esc_lines(ctx, rnd, quick),
        "kerl-exec": exec_lines(ctx, rnd, quick),
        "kerl-run": run_lines(ctx, rnd, quick),
        "kerl-hist": hist_lines(ctx, rnd, quick),
    }
    latent_seen = {}
    for name, ls in streams.items():
        impl = ctx.harness_sharded(ls)
        model = ctx.driver_sharded(ls, "model")
        spec = ctx.driver_sharded(ls, "spec")
        sinks = []

        def runpart(part):
            sink = []
            r = ctx.harness(part, variant_bin=asan, env=SAN_ENV, stderr_sink=sink)
            sinks.extend(sink)
            return r
        san = sharded(runpart, ls, 16)
        bad = 0
        for l, im, mo, sp, sa in zip(ls, impl, model, spec, san):
            cmd = l.split(" ")[0]
            if mo.startswith("rc=? "):      # `help`: the return value of kerl_com_help is not modelled
                im, sa, mo = re.sub(r"^rc=\S+", "rc=?", im), re.sub(r"^rc=\S+", "rc=?", sa), mo
            why = None
            if mo.startswith("ABNORMAL"):
                # the model predicts a memory error: the sanitizer build must see it (the plain build is unconstrained)
                if not SANITIZER.search(sa):
                    why = "model predicts a memory error that the sanitizer build does not report (model and implementation differ)"
                elif is_latent(l):
                    latent_seen.setdefault(" ".join(l.split(" ")[:2]) if cmd == "KUNESC" else cmd, (l, mo, sa))
                else:
                    why = "memory error (model: %s; sanitizer build: %s)" % (mo, sa)
            else:
                if SANITIZER.search(sa) or sa.startswith(("UNCAUGHT", "HARNESS-EXC")):
                    why = "the sanitizer build crashed / reported a memory or undefined-behaviour error where the model sees none"
                elif im != mo or sa != mo:
                    why = "correspondence:%s broken (implementation and model differ)" % name
                elif has_spec(l) and spec_fields(cmd, mo) != spec_fields(cmd, sp):
                    why = "implementation (= model) differs from the rule"
            if why:
                bad += 1
                if bad <= 3:
                    sink = []
                    if SANITIZER.search(sa):
                        ctx.harness([l], variant_bin=asan, env=SAN_ENV, stderr_sink=sink)
                    ctx.violation(l, {"stream": name, "impl": im[:600], "model": mo[:600], "spec": sp[:600], "asan": sa[:600],
                                      "sanitizer": "\n".join(x[1] for x in sink)[-3000:], "why": why},
                                  suffix="" if "correspondence" not in why and "model and implementation differ" not in why else "no-failing-input-found")
        ctx.count(name, len(ls), distinct_keys=[hashlib.sha1(l.encode()).hexdigest()[:12] for l in ls])
        ctx.count("asan:" + name, len(ls))
        ctx.traces += len(ls)
        if ls:
            ctx.sample({"stream": name, "case": ls[0][:300], "impl": impl[0][:300]})
    for k, (l, mo, sa) in sorted(latent_seen.items()):
        ctx.notes.append("kerl.c latent defect in a function no tool calls (%s): model %s, sanitizer build %s on `%s`" % (k, mo, sa, l[:200]))
    pty_check(ctx, rnd, quick)


# ------------------------------------------------------------------------------------------------ real sessions
PTY_ALPHA = b"ghjkmnpqrsuvwyz"


def pty_word(rnd):
    return bytes(rnd.choice(PTY_ALPHA) for _ in range(rnd.randrange(1, 6)))


def pty_cases(rnd, rl):
    """(lines to type, ) — `tf echo w1 w2 …` with at least two words, letters that are neither hex digits nor opcode names"""
    cases = []
    fixed = [
        [b'tf echo "gh jk" mn'], [b"tf echo 'gh  jk' \"mn\"pq"], [b"tf echo gh\\ jk  mn"], [b"tf   echo   gh      jk   "],
        [b"\ttf echo g'h'\"j\"k mn"], [b'tf echo "gh\'jk" mn\\\\pq'], [b"tf echo gh '' jk"], [b'tf echo gh "" "" jk mn'],
        [b"tf echo " + b"w" * 1100 + b" zz"], [b"tf echo " + b" ".join(b"gh" for _ in range(40))],
        [b"tf echo gh jk # mn pq"], [b"tf echo \"gh jk", ] if not rl else [b"tf echo \"gh jk", b"mn\" pq"],
    ]
    if rl:
        fixed += [[b"tf echo gh 'jk", b"", b"mn' pq"], [b"tf echo gh 'jk", b"", b"", b"mn' pq"], [b"tf echo gh jk\\", b"mn pq"],
                  [b'tf echo gh "jk\\', b'mn" pq'], [b"tf echo 'gh", b"jk", b"mn'  \"pq", b"rs\""]]
    cases += fixed
    for _ in range(6):
        ws = []
        for _ in range(rnd.randrange(2, 6)):
            k = rnd.randrange(5)
            w = pty_word(rnd)
            if k == 1: w = b'"' + w + b" " + pty_word(rnd) + b'"'
            elif k == 2: w = b"'" + w + b"  " + pty_word(rnd) + b"'"
            elif k == 3: w = w + b"\\ " + pty_word(rnd)
            ws.append(w)
        cases.append([b"tf echo " + rnd.choice((b" ", b"  ")).join(ws)])
    return cases


def push_of(b):
    n = len(b)
    if n < 76: return bytes([n]) + b
    if n < 256: return b"\x4c" + bytes([n]) + b
    return b"\x4d" + n.to_bytes(2, "little") + b


def pty_session(binary, cases, timeout=20, env_extra=None, prepare=None):
    """types every case into ONE real session; returns, per case, the last line of hex digits printed before the next prompt
    (stderr shares the terminal: a sanitizer report is part of the text)"""
    env = dict(os.environ)
    env["TERM"] = "dumb"
    env["INPUTRC"] = "/dev/null"
    if env_extra:
        env.update(env_extra)
    wd = tempfile.mkdtemp(prefix="c15kerl-pty-")
    if prepare:
        prepare(wd)
    pid, fd = pty.fork()
    if pid == 0:
        try:
            os.chdir(wd)
            os.execve(binary, [binary, "[OP_1]"], env)
        finally:
            os._exit(127)
    try:
        at = termios.tcgetattr(fd)
        at[3] &= ~termios.ECHO
        termios.tcsetattr(fd, termios.TCSANOW, at)
    except termios.error:
        pass

    def read_prompt():
        buf = b""
        t0 = time.time()
        while time.time() - t0 < timeout:
            r, _, _ = select.select([fd], [], [], 0.05)
            if r:
                try:
                    d = os.read(fd, 65536)
                except OSError:
                    return buf, True
                if not d:
                    return buf, True
                buf += d
                if buf.endswith(b"> "):
                    # let a slow echo settle: the prompt must still be last after a short pause
                    r2, _, _ = select.select([fd], [], [], 0.05)
                    if not r2:
                        return buf, False
        return buf, True
    out = []
    try:
        _, eof = read_prompt()
        for lines in cases:
            seg = b""
            for l in lines:
                # long lines are fed in pieces: a pty accepts at most 4095 bytes per line in canonical mode
                os.write(fd, l + b"\n")
                b, eof = read_prompt()
                seg += b
                if eof:
                    break
            text = seg.decode("latin1").replace("\r", "")
            # (readline does not echo the newline that ends a line when the terminal's ECHO is off: an answer can follow a prompt)
            hexes = [m.group(1) for m in (re.fullmatch(r"(?:(?:btcdeb|dquote|quote)?> )*\s*([0-9a-f]{2,})\s*", x) for x in text.split("\n")) if m]
            san = re.search(r"(AddressSanitizer|runtime error|LeakSanitizer|SUMMARY: \w+Sanitizer)", text)
            out.append((hexes[-1] if hexes else None, text[-400:] if not san else text[-3000:], bool(san), eof))
            if eof:
                break
    finally:
        try:
            os.close(fd)
        except OSError:
            pass
        try:
            os.kill(pid, 9)
        except OSError:
            pass
        try:
            os.waitpid(pid, 0)
        except OSError:
            pass
        shutil.rmtree(wd, ignore_errors=True)
    return out


def pty_check(ctx, rnd, quick):
    n = 0
    for rl, binname in ((False, "btcdeb"), (True, "btcdeb-rl")):
        binary = os.path.join(ctx.bin, binname)
        if not os.path.exists(binary):
            ctx.violation("pty " + binname, {"why": "binary missing from the build directory"}, suffix="no-failing-input-found")
            continue
        cases = pty_cases(rnd, rl)
        # what the model says each case hands to fn_tf
        proto = []
        for lines in cases:
            if rl:
                proto.append("KRUN 1 rsch " + " ".join(hx(x) for x in lines))
            else:
                proto.append("KRUN 0 rsch " + hx(b"\n".join(lines) + b"\n"))
        model = ctx.driver(proto, "model")
        spec = ctx.driver(proto, "spec")
        got = pty_session(binary, cases)
        for i, g in enumerate(got):
            if g[2] or (g[3] and i + 1 < len(cases)):
                ctx.violation("PTY %s %s" % (binname, " ".join(hx(x) for x in cases[i])),
                              {"stream": "kerl-pty", "binary": binname, "tail": g[1],
                               "why": "the interactive session died / printed a sanitizer report"})
        for i, (lines, mo, sp) in enumerate(zip(cases, model, spec)):
            n += 1
            m = re.search(r"C:tf:[^;]*;(?:P:.;)*A:(\d+):([^; ]*)", mo)
            case = "PTY %s %s" % (binname, " ".join(hx(x) for x in lines))
            if not m:
                ctx.violation(case, {"why": "model hands no argv to tf", "model": mo}, suffix="no-failing-input-found")
                continue
            argv = [bytes.fromhex(x) if x not in ("-", "") else b"" for x in m.group(2).split(",")] if m.group(1) != "0" else []
            want = b"".join(push_of(a) for a in argv[1:]).hex()
            have = got[i][0] if i < len(got) else None
            if len(argv) < 3:
                continue        # a single value is printed as a value, not as a script: not comparable here
            if have != want:
                ctx.violation(case, {"stream": "kerl-pty", "binary": binname, "expected_from_model_argv": want, "printed": have,
                                     "tail": got[i][1] if i < len(got) else "<session ended>", "model": mo,
                                     "why": "the real interactive session printed other bytes than the argv the model predicts (correspondence:kerl-pty)"},
                              suffix="no-failing-input-found")
            elif spec_fields("KRUN", mo) != spec_fields("KRUN", sp):
                ctx.violation(case, {"stream": "kerl-pty", "binary": binname, "printed": have, "model": mo, "spec": sp,
                                     "why": "the real interactive session (= model) delivers other arguments than the rule"})
    n += pty_asan(ctx, rnd, quick)
    n += history_cli(ctx)
    ctx.count("kerl-pty", n, distinct_keys=["kerl-pty%d" % i for i in range(n)])
    ctx.traces += n


def pty_asan(ctx, rnd, quick):
    """the sanitizer build of the real readline binary under a pty: one argument continued over many prompt lines across
    every capacity-doubling point of `buf`, each followed by ordinary commands in the same process"""
    asan = hbuild.build("asan")
    binary = os.path.join(asan, "btcdeb-rl")
    if not os.path.exists(binary):
        ctx.violation("pty asan btcdeb-rl", {"why": "binary missing from the sanitizer build"}, suffix="no-failing-input-found")
        return 0
    cc = continuation_cases(rnd, 1 if quick else 4)
    cases = []
    for kind, first, more in cc:
        cases.append([b"tf echo " + first] + more)
        cases.append([b"stack"])
        cases.append([b"tf echo gh jk mn"])
    groups = [cases[i:i + 18] for i in range(0, len(cases), 18)]
    proto = ["KRUN 1 rsch " + " ".join(hx(x) for x in lines) for lines in cases]
    model = ctx.driver(proto, "model")
    with ThreadPoolExecutor(max_workers=6) as ex:
        results = list(ex.map(lambda g: pty_session(binary, g, timeout=40, env_extra=SAN_ENV), groups))
    got = [x for r, g in zip(results, groups) for x in (r + [(None, "<session ended>", False, True)] * (len(g) - len(r)))]
    dead = False
    for idx, (lines, mo, g) in enumerate(zip(cases, model, got)):
        if idx % 18 == 0:
            dead = False
        case = "PTY btcdeb-rl " + " ".join(hx(x) for x in lines)
        if dead:
            continue        # the session of this group already ended: reported once
        if g[2] or g[1] == "<session ended>":
            dead = True
            ctx.violation(case, {"stream": "kerl-pty-asan", "tail": g[1],
                                 "why": "the sanitizer build of the interactive session died / printed a sanitizer report"})
            continue
        m = re.search(r"C:tf:[^;]*;(?:P:.;)*A:(\d+):([^; ]*)", mo)
        if not m:
            continue
        argv = [bytes.fromhex(x) if x not in ("-", "") else b"" for x in m.group(2).split(",")]
        want = b"".join(push_of(a) for a in argv[1:]).hex()
        if len(argv) >= 3 and g[0] != want:
            ctx.violation(case, {"stream": "kerl-pty-asan", "expected_from_model_argv": want[:200], "printed": (g[0] or "")[:200], "tail": g[1][-300:],
                                 "why": "the sanitizer build of the interactive session printed other bytes than the argv the model predicts (correspondence:kerl-pty)"},
                          suffix="no-failing-input-found")
    return len(cases)


ECHO3 = [b"tf echo gh jk mn"]
ECHO3_HEX = "026768026a6b026d6e"


def history_cli(ctx):
    """regression cases on the real binaries, with explicit expectations:
       (1) `.btcdeb_history` is a directory (cannot be opened for appending): the session survives its commands
           (before /repo 05ba26e the first command killed the process with SIGSEGV);
       (2) a history file whose line begins with a NUL byte: clean under ASan/UBSan on btcdeb-rl
           (before /repo 21c8642: buf[-1] = 0);
       (3) `tf echo gh "x⏎⏎⏎y" zz` on btcdeb-rl delivers three line breaks (before /repo 17d18b5: one)."""
    asan = hbuild.build("asan")
    n = 0

    def expect_alive(case, binary, prepare, env_extra=None):
        got = pty_session(binary, [[b"stack"], [b"stack"], ECHO3], timeout=30, env_extra=env_extra, prepare=prepare)
        ok = len(got) == 3 and not any(g[2] for g in got) and not got[-1][3] and got[-1][0] == ECHO3_HEX
        if not ok:
            ctx.violation(case, {"stream": "kerl-pty", "answers": [g[0] for g in got], "tail": (got[-1][1] if got else "<no prompt>")[-1500:],
                                 "why": "the interactive session did not survive / printed a sanitizer report / answered wrongly"})
    for tag, root, env in (("plain", ctx.bin, None), ("asan", asan, SAN_ENV)):
        for binname in ("btcdeb", "btcdeb-rl"):
            expect_alive("PTY-HIST %s %s unwritable" % (tag, binname), os.path.join(root, binname),
                         lambda wd: os.mkdir(os.path.join(wd, ".btcdeb_history")), env)
            n += 1

    def nul_history(wd):
        with open(os.path.join(wd, ".btcdeb_history"), "wb") as f:
            f.write(b"\x00\nstep\n\x00exec 1\n")
    for binname in ("btcdeb", "btcdeb-rl"):
        expect_alive("PTY-HIST asan %s nul" % binname, os.path.join(asan, binname), nul_history, SAN_ENV)
        n += 1
    # (3) explicit expectation, independent of the model
    for tag, root, env in (("plain", ctx.bin, None), ("asan", asan, SAN_ENV)):
        got = pty_session(os.path.join(root, "btcdeb-rl"), [[b'tf echo gh "x', b"", b"", b'y" zz'], ECHO3], timeout=30, env_extra=env)
        want = "026768" + "05780a0a0a79" + "027a7a"
        n += 1
        if not (len(got) == 2 and got[0][0] == want and got[1][0] == ECHO3_HEX and not any(g[2] for g in got)):
            ctx.violation("PTY-HIST %s btcdeb-rl blank-lines" % tag,
                          {"stream": "kerl-pty", "expected": want, "answers": [g[0] for g in got], "tail": (got[0][1] if got else "")[-800:],
                           "why": 'tf echo gh "x<enter><enter><enter>y" zz must deliver x, three line breaks, y as ONE argument'})
    return n


def replay(ctx, case):
    if case.startswith("PTY-HIST"):
        print(case, ": see history_cli in checks/c15kerl.py (mkdir .btcdeb_history / a history line starting with NUL)")
        print(history_cli(ctx), "runs; violations so far:", len(ctx.violations))
        return
    if case.startswith("PTY "):
        p = case.split(" ")
        lines = [bytes.fromhex(x) if x != "-" else b"" for x in p[2:]]
        print("typed :", lines)
        print("real  :", pty_session(os.path.join(ctx.bin, p[1]), [lines]))
        print("asan  :", pty_session(os.path.join(hbuild.build("asan"), p[1]), [lines], timeout=40, env_extra=SAN_ENV))
        rl = p[1] == "btcdeb-rl"
        proto = ("KRUN 1 rsch " + " ".join(hx(x) for x in lines)) if rl else ("KRUN 0 rsch " + hx(b"\n".join(lines) + b"\n"))
        print("model :", ctx.driver([proto], "model")[0])
        print("spec  :", ctx.driver([proto], "spec")[0])
        return
    asan = hbuild.build("asan")
    sink = []
    print("impl  :", ctx.harness([case])[0])
    print("asan  :", ctx.harness([case], variant_bin=asan, env=SAN_ENV, stderr_sink=sink)[0])
    print("model :", ctx.driver([case], "model")[0])
    print("spec  :", ctx.driver([case], "spec")[0])
    for x in sink:
        print(x[1])
